package main

// Characterization test for the clean-up of main (cmd/emerge) and of Generate/prepare (internal/generate/golang).
//
// The command is exercised end to end: the test binary re-executes itself with demoEnv set,
// in which case TestMain hands control to main, exactly as the real binary would do.
// This way exit statuses, stdout and stderr are observed without relying on any helper of main.
// Generate (and through it the unexported prepare) is additionally exercised in process with a recording UI,
// so that the progress messages, the error texts, the files written and the cleaned path are all pinned down.

import (
	"bytes"
	"errors"
	"fmt"
	"os"
	"os/exec"
	"path/filepath"
	"regexp"
	"sort"
	"strings"
	"testing"

	"github.com/gardenbed/charm/ui"
	"github.com/moorara/algo/grammar"

	"github.com/gardenbed/emerge/internal/ebnf/parser/spec"
	"github.com/gardenbed/emerge/internal/generate/golang"
	"github.com/gardenbed/emerge/metadata"
)

const demoEnv = "EMERGE_REFACTOR_DEMO_RUN_MAIN"

const demoGrammar = `grammar calc;

NUM = /[0-9]+/

@left "+"

start = start "+" start | NUM;
`

// The same language without the associativity directive: the LALR(1) table has a shift/reduce conflict.
const demoAmbiguousGrammar = `grammar calc;

NUM = /[0-9]+/

start = start "+" start | NUM;
`

var demoAllFiles = []string{"errors.go", "input.go", "lexer.go", "parser.go", "stack.go", "types.go"}

func TestMain(m *testing.M) {
	if os.Getenv(demoEnv) == "1" {
		main() // never returns
		panic("main returned")
	}

	os.Exit(m.Run())
}

var demoANSI = regexp.MustCompile(`\x1b\[[0-9;]*m`)

type demoResult struct {
	status         int
	stdout, stderr string
}

func runEmerge(t *testing.T, dir string, args ...string) demoResult {
	t.Helper()

	var stdout, stderr bytes.Buffer
	cmd := exec.Command(os.Args[0], args...)
	cmd.Dir = dir
	cmd.Env = append(os.Environ(), demoEnv+"=1", "NO_COLOR=1")
	cmd.Stdout, cmd.Stderr = &stdout, &stderr

	res := demoResult{}
	if err := cmd.Run(); err != nil {
		var exitErr *exec.ExitError
		if !errors.As(err, &exitErr) {
			t.Fatalf("cannot run the command: %s", err)
		}
		res.status = exitErr.ExitCode()
	}

	// The UI colours its messages; the escape sequences are of no interest here.
	res.stdout = demoANSI.ReplaceAllString(stdout.String(), "")
	res.stderr = demoANSI.ReplaceAllString(stderr.String(), "")

	return res
}

func listDir(t *testing.T, dir string) []string {
	t.Helper()

	entries, err := os.ReadDir(dir)
	if err != nil {
		t.Fatalf("cannot list %q: %s", dir, err)
	}

	names := make([]string, 0, len(entries))
	for _, e := range entries {
		names = append(names, e.Name())
	}
	sort.Strings(names)

	return names
}

func mustWrite(t *testing.T, path, content string) string {
	t.Helper()

	if err := os.WriteFile(path, []byte(content), 0o644); err != nil {
		t.Fatal(err)
	}

	return path
}

func TestRefactorDemo_CommandLine(t *testing.T) {
	work := t.TempDir()

	good := mustWrite(t, filepath.Join(work, "calc.grammar"), demoGrammar)
	ambiguous := mustWrite(t, filepath.Join(work, "ambiguous.grammar"), demoAmbiguousGrammar)
	empty := mustWrite(t, filepath.Join(work, "empty.grammar"), "")
	garbage := mustWrite(t, filepath.Join(work, "garbage.grammar"), "\x00\xff\xfe grammar ;;; \"unterminated")
	plainFile := mustWrite(t, filepath.Join(work, "plain.txt"), "x")
	missing := filepath.Join(work, "missing")
	longName := filepath.Join(work, strings.Repeat("n", 300))

	// newOut returns a fresh, empty output directory.
	outCount := 0
	newOut := func() string {
		outCount++
		dir := filepath.Join(work, fmt.Sprintf("out%02d", outCount))
		if err := os.Mkdir(dir, 0o755); err != nil {
			t.Fatal(err)
		}
		return dir
	}

	occupied := newOut()
	if err := os.Mkdir(filepath.Join(occupied, "calc"), 0o755); err != nil {
		t.Fatal(err)
	}

	okPlain, okVerbose, okUnclean, okCwd, okRenamed, okAmbiguous := newOut(), newOut(), newOut(), newOut(), newOut(), newOut()
	uncleanArg := okUnclean + string(filepath.Separator) + "." + string(filepath.Separator) + "x" + string(filepath.Separator) + ".." + string(filepath.Separator) + string(filepath.Separator)

	tests := []struct {
		name           string
		dir            string
		args           []string
		status         int
		exactStderr    *string  // when set, stderr must be exactly this
		stderrContains []string // in this order
		stdoutContains []string // in this order
		exactStdout    *string
		stdoutExcludes []string
		pkgDir         string   // when set, the directory must contain exactly pkgFiles
		pkgFiles       []string // nil means that pkgDir must not exist
	}{
		{
			name:        "NoArguments",
			status:      1,
			exactStderr: ptr("\nno input file specified, please provide a file path\n\n"),
			exactStdout: ptr(""),
		},
		{
			name:        "OnlyFlagLikeArgumentsAfterTerminator",
			args:        []string{"--", "-x"},
			status:      1,
			exactStderr: ptr("\nno input file specified, please provide a file path\n\n"),
			exactStdout: ptr(""),
		},
		{
			name:           "UndefinedFlag",
			args:           []string{"-bogus", good},
			status:         2,
			stderrContains: []string{"flag provided but not defined: -bogus", "flag provided but not defined: -bogus\n"},
			exactStdout:    ptr(""),
		},
		{
			name:           "ShortHelpIsNotDefined",
			args:           []string{"-h"},
			status:         2,
			stderrContains: []string{"flag: help requested\n"},
			exactStdout:    ptr(""),
		},
		{
			name:           "BadBooleanValue",
			args:           []string{"-verbose=maybe", good},
			status:         2,
			stderrContains: []string{`invalid boolean value "maybe" for -verbose`},
			exactStdout:    ptr(""),
		},
		{
			name:           "FlagNeedsAnArgument",
			args:           []string{"-out"},
			status:         2,
			stderrContains: []string{"flag needs an argument: -out"},
			exactStdout:    ptr(""),
		},
		{
			name:           "Help",
			args:           []string{"-help"},
			status:         0,
			exactStderr:    ptr(""),
			stdoutContains: []string{"is a parser generator that produces an", "Usage:", "emerge [flags] FILE_PATH", "(default: false)"},
			stdoutExcludes: []string{`Parsing "`},
		},
		{
			name:           "HelpWinsOverVersionAndFile",
			args:           []string{"-version", "-help", "-verbose", missing},
			status:         0,
			exactStderr:    ptr(""),
			stdoutContains: []string{"Usage:", "(default: true)"},
			stdoutExcludes: []string{`Parsing "`, metadata.String()},
		},
		{
			name:        "Version",
			args:        []string{"-version"},
			status:      0,
			exactStderr: ptr(""),
			exactStdout: ptr(metadata.String() + "\n"),
		},
		{
			name:        "VersionWinsOverFile",
			args:        []string{"-version", missing},
			status:      0,
			exactStderr: ptr(""),
			exactStdout: ptr(metadata.String() + "\n"),
		},
		{
			name:           "MissingFile",
			args:           []string{missing},
			status:         1,
			exactStderr:    ptr("\nopen " + missing + ": no such file or directory\n\n"),
			stdoutContains: []string{`Parsing "missing" ...`},
			stdoutExcludes: []string{"Generating"},
		},
		{
			name:           "FileNameTooLong",
			args:           []string{longName},
			status:         1,
			exactStderr:    ptr("\nopen " + longName + ": file name too long\n\n"),
			stdoutExcludes: []string{"Generating"},
		},
		{
			name:           "DirectoryAsFile",
			args:           []string{work},
			status:         1,
			stderrContains: []string{"\n", "is a directory", "\n\n"},
			stdoutExcludes: []string{"Generating"},
		},
		{
			name:           "EmptySpecification",
			args:           []string{empty},
			status:         1,
			stderrContains: []string{"\n", "\n\n"},
			stdoutContains: []string{`Parsing "empty.grammar" ...`},
			stdoutExcludes: []string{"Generating"},
		},
		{
			name:           "GarbageSpecification",
			args:           []string{garbage},
			status:         1,
			stderrContains: []string{"\n", "\n\n"},
			stdoutContains: []string{`Parsing "garbage.grammar" ...`},
			stdoutExcludes: []string{"Generating"},
		},
		{
			name:           "OutputPathMissing",
			args:           []string{"-out", missing, good},
			status:         1,
			exactStderr:    ptr(fmt.Sprintf("\noutput path does not exist: %q\n\n", missing)),
			stdoutContains: []string{`Parsing "calc.grammar" ...`, "Generating parser ..."},
			stdoutExcludes: []string{"Generating core types", "Successful"},
		},
		{
			name:           "OutputPathNotDirectory",
			args:           []string{"-verbose", "-out", plainFile, good},
			status:         1,
			exactStderr:    ptr(fmt.Sprintf("\noutput path is not a directory: %q\n\n", plainFile)),
			stdoutContains: []string{"Generating parser ...", fmt.Sprintf("     Checking output path %q ...", plainFile)},
			stdoutExcludes: []string{"Checking package directory", "Generating core types", "Successful"},
		},
		{
			name:           "OutputPathBelowFile",
			args:           []string{"-out", filepath.Join(plainFile, "sub"), good},
			status:         1,
			exactStderr:    ptr("\nerror on checking output path: stat " + filepath.Join(plainFile, "sub") + ": not a directory\n\n"),
			stdoutExcludes: []string{"Generating core types", "Successful"},
		},
		{
			name:           "OutputPathNameTooLong",
			args:           []string{"-out", longName, good},
			status:         1,
			exactStderr:    ptr("\nerror on checking output path: stat " + longName + ": file name too long\n\n"),
			stdoutExcludes: []string{"Generating core types", "Successful"},
		},
		{
			name:           "PackageNameKeyword",
			args:           []string{"-verbose", "-out", occupied, "-name", "func", good},
			status:         1,
			exactStderr:    ptr("\ninvalid package name: func\n\n"),
			stdoutContains: []string{fmt.Sprintf("     Checking output path %q ...", occupied), `     Checking package directory "func" ...`},
			stdoutExcludes: []string{"Generating core types", "Successful"},
			pkgDir:         filepath.Join(occupied, "func"),
		},
		{
			name:           "PackageNameBlank",
			args:           []string{"-out", occupied, "-name", "_", good},
			status:         1,
			exactStderr:    ptr("\ninvalid package name: _\n\n"),
			stdoutExcludes: []string{"Generating core types", "Successful"},
			pkgDir:         filepath.Join(occupied, "_"),
		},
		{
			name:           "PackageNameWithSeparator",
			args:           []string{"-out", occupied, "-name", "../escape", good},
			status:         1,
			exactStderr:    ptr("\ninvalid package name: ../escape\n\n"),
			stdoutExcludes: []string{"Generating core types", "Successful"},
			pkgDir:         filepath.Join(work, "escape"),
		},
		{
			name:           "PackageNameStartsWithDigit",
			args:           []string{"-out", occupied, "-name", "9lives", good},
			status:         1,
			exactStderr:    ptr("\ninvalid package name: 9lives\n\n"),
			stdoutExcludes: []string{"Generating core types", "Successful"},
			pkgDir:         filepath.Join(occupied, "9lives"),
		},
		{
			name:           "PackageDirectoryExists",
			args:           []string{"-verbose", "-out", occupied, good},
			status:         1,
			exactStderr:    ptr("\nerror on creating package directory: mkdir " + filepath.Join(occupied, "calc") + ": file exists\n\n"),
			stdoutContains: []string{fmt.Sprintf("     Checking output path %q ...", occupied), `     Checking package directory "calc" ...`},
			stdoutExcludes: []string{"Generating core types", "Successful"},
			pkgDir:         filepath.Join(occupied, "calc"),
			pkgFiles:       []string{},
		},
		{
			name:        "Success",
			args:        []string{"-out", okPlain, good},
			status:      0,
			exactStderr: ptr(""),
			stdoutContains: []string{
				`Parsing "calc.grammar" ...`, "Generating parser ...",
				"     Generating core types ...", "     Generating the lexer ...", "       Constructing Automaton ...",
				"     Generating the parser ...", "       Constructing LALR(1) Parsing Table ...", "Successful!",
			},
			stdoutExcludes: []string{"Checking", "Rendering"},
			pkgDir:         filepath.Join(okPlain, "calc"),
			pkgFiles:       demoAllFiles,
		},
		{
			name:        "SuccessVerbose",
			args:        []string{"-verbose", "-out=" + okVerbose, good},
			status:      0,
			exactStderr: ptr(""),
			stdoutContains: []string{
				"Generating parser ...",
				fmt.Sprintf("     Checking output path %q ...", okVerbose), `     Checking package directory "calc" ...`,
				"     Generating core types ...", `Rendering "errors.go" ...`, `Rendering "types.go" ...`, `Rendering "stack.go" ...`,
				"     Generating the lexer ...", `Rendering "input.go" ...`, `Rendering "lexer.go" ...`,
				"     Generating the parser ...", `Rendering "parser.go" ...`, "Successful!",
			},
			pkgDir:   filepath.Join(okVerbose, "calc"),
			pkgFiles: demoAllFiles,
		},
		{
			name:        "SuccessUncleanOutputPath",
			args:        []string{"-verbose", "-out", uncleanArg, good},
			status:      0,
			exactStderr: ptr(""),
			stdoutContains: []string{
				fmt.Sprintf("     Checking output path %q ...", okUnclean), `     Checking package directory "calc" ...`, "Successful!",
			},
			stdoutExcludes: []string{uncleanArg},
			pkgDir:         filepath.Join(okUnclean, "calc"),
			pkgFiles:       demoAllFiles,
		},
		{
			name:        "SuccessEmptyOutputPathIsWorkingDirectory",
			dir:         okCwd,
			args:        []string{"-verbose", "-out", "", good},
			status:      0,
			exactStderr: ptr(""),
			stdoutContains: []string{
				`     Checking output path "." ...`, `     Checking package directory "calc" ...`, "Successful!",
			},
			pkgDir:   filepath.Join(okCwd, "calc"),
			pkgFiles: demoAllFiles,
		},
		{
			name:           "SuccessRenamedAndFlagsAfterTerminatorIgnored",
			args:           []string{"-out", okRenamed, "-name", "other", "-debug", "--", "-skipped", good},
			status:         0,
			exactStderr:    ptr(""),
			stdoutContains: []string{`Parsing "calc.grammar" ...`, "Successful!"},
			pkgDir:         filepath.Join(okRenamed, "other"),
			pkgFiles:       demoAllFiles,
		},
		{
			name:   "ParserStepFailsOtherStepsStillRun",
			args:   []string{"-out", okAmbiguous, ambiguous},
			status: 1,
			stderrContains: []string{
				"\nerror on building LALR(1) parsing table:\n", `Shift/Reduce conflict in ACTION[2, "+"]`, "\n\n",
			},
			stdoutContains: []string{
				"     Generating core types ...", "     Generating the lexer ...", "     Generating the parser ...",
			},
			stdoutExcludes: []string{"Successful"},
			pkgDir:         filepath.Join(okAmbiguous, "calc"),
			pkgFiles:       []string{"errors.go", "input.go", "lexer.go", "stack.go", "types.go"},
		},
	}

	for _, tc := range tests {
		t.Run(tc.name, func(t *testing.T) {
			dir := tc.dir
			if dir == "" {
				dir = work
			}

			res := runEmerge(t, dir, tc.args...)

			if res.status != tc.status {
				t.Errorf("exit status: got %d, want %d\nstdout: %q\nstderr: %q", res.status, tc.status, res.stdout, res.stderr)
			}

			// Never a Go stack trace.
			for _, bad := range []string{"panic:", "goroutine ", "runtime error", "main returned"} {
				if strings.Contains(res.stderr, bad) || strings.Contains(res.stdout, bad) {
					t.Errorf("output contains %q\nstdout: %q\nstderr: %q", bad, res.stdout, res.stderr)
				}
			}

			// Failures always say something on stderr.
			if tc.status != 0 && strings.TrimSpace(res.stderr) == "" {
				t.Errorf("non-zero exit status without a message on stderr")
			}

			if tc.exactStderr != nil && res.stderr != *tc.exactStderr {
				t.Errorf("stderr: got %q, want %q", res.stderr, *tc.exactStderr)
			}
			if tc.exactStdout != nil && res.stdout != *tc.exactStdout {
				t.Errorf("stdout: got %q, want %q", res.stdout, *tc.exactStdout)
			}

			assertInOrder(t, "stderr", res.stderr, tc.stderrContains)
			assertInOrder(t, "stdout", res.stdout, tc.stdoutContains)

			for _, s := range tc.stdoutExcludes {
				if strings.Contains(res.stdout, s) {
					t.Errorf("stdout must not contain %q: %q", s, res.stdout)
				}
			}

			if tc.pkgDir != "" {
				if tc.pkgFiles == nil {
					if _, err := os.Lstat(tc.pkgDir); !os.IsNotExist(err) {
						t.Errorf("%q must not exist (err=%v)", tc.pkgDir, err)
					}
				} else if got := listDir(t, tc.pkgDir); strings.Join(got, ",") != strings.Join(tc.pkgFiles, ",") {
					t.Errorf("files in %q: got %v, want %v", tc.pkgDir, got, tc.pkgFiles)
				}
			}
		})
	}

	// Nothing else was created in the working area.
	wantWork := []string{"ambiguous.grammar", "calc.grammar", "empty.grammar", "garbage.grammar", "plain.txt"}
	for i := 1; i <= outCount; i++ {
		wantWork = append(wantWork, fmt.Sprintf("out%02d", i))
	}
	sort.Strings(wantWork)
	if got := listDir(t, work); strings.Join(got, ",") != strings.Join(wantWork, ",") {
		t.Errorf("working area: got %v, want %v", got, wantWork)
	}
	if got := listDir(t, occupied); strings.Join(got, ",") != "calc" {
		t.Errorf("occupied output directory: got %v, want [calc]", got)
	}
}

func ptr(s string) *string { return &s }

func assertInOrder(t *testing.T, what, text string, parts []string) {
	t.Helper()

	rest := text
	for _, p := range parts {
		i := strings.Index(rest, p)
		if i < 0 {
			t.Errorf("%s does not contain %q (in this order): %q", what, p, text)
			return
		}
		rest = rest[i+len(p):]
	}
}

// recorder is a UI that records every levelled message.
type recorder struct {
	ui.UI
	lines []string
}

func newRecorder() *recorder {
	return &recorder{UI: ui.NewNop()}
}

func (r *recorder) Debugf(_ ui.Style, format string, a ...interface{}) {
	r.lines = append(r.lines, "D:"+strings.TrimSpace(fmt.Sprintf(format, a...)))
}

func (r *recorder) Infof(_ ui.Style, format string, a ...interface{}) {
	r.lines = append(r.lines, "I:"+strings.TrimSpace(fmt.Sprintf(format, a...)))
}

func (r *recorder) Errorf(_ ui.Style, format string, a ...interface{}) {
	r.lines = append(r.lines, "E:"+strings.TrimSpace(fmt.Sprintf(format, a...)))
}

func parseSpec(t *testing.T, src string) *spec.Spec {
	t.Helper()

	s, err := spec.Parse("demo.grammar", strings.NewReader(src))
	if err != nil || s == nil {
		t.Fatalf("cannot parse the demo grammar: %v", err)
	}

	return s
}

func TestRefactorDemo_Generate(t *testing.T) {
	work := t.TempDir()
	plainFile := mustWrite(t, filepath.Join(work, "plain.txt"), "x")
	sep := string(filepath.Separator)

	successLines := func(path, name string) []string {
		return []string{
			fmt.Sprintf("D:Checking output path %q ...", path),
			fmt.Sprintf("D:Checking package directory %q ...", name),
			"I:Generating core types ...",
			`D:Rendering "errors.go" ...`, `D:Rendering "types.go" ...`, `D:Rendering "stack.go" ...`,
			"I:Generating the lexer ...", "I:Constructing Automaton ...",
			`D:Rendering "input.go" ...`, `D:Rendering "lexer.go" ...`,
			"I:Generating the parser ...", "I:Constructing LALR(1) Parsing Table ...",
			`D:Rendering "parser.go" ...`,
		}
	}

	type testCase struct {
		name      string
		path      string
		spec      func(*testing.T) *spec.Spec // nil means a nil spec
		cleanPath string
		errExact  string   // "" together with errParts == nil means success
		errParts  []string // substrings of the error text, in order
		lines     []string
		pkgDir    string
		pkgFiles  []string // nil means that pkgDir must not exist
	}

	mkdir := func(name string) string {
		dir := filepath.Join(work, name)
		if err := os.Mkdir(dir, 0o755); err != nil {
			t.Fatal(err)
		}
		return dir
	}

	named := func(src, name string) func(*testing.T) *spec.Spec {
		return func(t *testing.T) *spec.Spec {
			s := parseSpec(t, src)
			s.Name = name
			return s
		}
	}

	outA, outB, outC, outD, outE := mkdir("a"), mkdir("b"), mkdir("c"), mkdir("d"), mkdir("e")
	if err := os.Mkdir(filepath.Join(outC, "calc"), 0o755); err != nil {
		t.Fatal(err)
	}
	mustWrite(t, filepath.Join(outD, "calc"), "a file where the package directory should go")

	missing := filepath.Join(work, "missing")

	tests := []testCase{
		{
			name:      "MissingPathNilSpec",
			path:      missing + sep + sep,
			cleanPath: missing,
			errExact:  fmt.Sprintf("output path does not exist: %q", missing),
			lines:     []string{fmt.Sprintf("D:Checking output path %q ...", missing)},
		},
		{
			name:      "NotDirectoryNilSpec",
			path:      plainFile,
			cleanPath: plainFile,
			errExact:  fmt.Sprintf("output path is not a directory: %q", plainFile),
			lines:     []string{fmt.Sprintf("D:Checking output path %q ...", plainFile)},
		},
		{
			name:      "BelowFile",
			path:      plainFile + sep + "x" + sep + "." + sep,
			spec:      named(demoGrammar, "calc"),
			cleanPath: filepath.Join(plainFile, "x"),
			errExact:  "error on checking output path: stat " + filepath.Join(plainFile, "x") + ": not a directory",
			lines:     []string{fmt.Sprintf("D:Checking output path %q ...", filepath.Join(plainFile, "x"))},
		},
		{
			name:      "PathWithNUL",
			path:      work + sep + "a\x00b",
			spec:      named(demoGrammar, "calc"),
			cleanPath: work + sep + "a\x00b",
			errExact:  "error on checking output path: stat " + work + sep + "a\x00b" + ": invalid argument",
			lines:     []string{fmt.Sprintf("D:Checking output path %q ...", work+sep+"a\x00b")},
		},
		{
			name:      "NameTooLong",
			path:      filepath.Join(work, strings.Repeat("n", 300)),
			spec:      named(demoGrammar, "calc"),
			cleanPath: filepath.Join(work, strings.Repeat("n", 300)),
			errExact:  "error on checking output path: stat " + filepath.Join(work, strings.Repeat("n", 300)) + ": file name too long",
			lines:     []string{fmt.Sprintf("D:Checking output path %q ...", filepath.Join(work, strings.Repeat("n", 300)))},
		},
		{
			name:      "InvalidNameNUL",
			path:      outA,
			spec:      named(demoGrammar, "\x00"),
			cleanPath: outA,
			errExact:  "invalid package name: \x00",
			lines:     []string{fmt.Sprintf("D:Checking output path %q ...", outA), `D:Checking package directory "\x00" ...`},
			pkgDir:    filepath.Join(outA, "\x00"),
		},
		{
			name:      "InvalidNameEmpty",
			path:      outA,
			spec:      named(demoGrammar, ""),
			cleanPath: outA,
			errExact:  "invalid package name: ",
			lines:     []string{fmt.Sprintf("D:Checking output path %q ...", outA), `D:Checking package directory "" ...`},
		},
		{
			name:      "InvalidNameBuiltin",
			path:      outA,
			spec:      named(demoGrammar, "string"),
			cleanPath: outA,
			errExact:  "invalid package name: string",
			lines:     []string{fmt.Sprintf("D:Checking output path %q ...", outA), `D:Checking package directory "string" ...`},
			pkgDir:    filepath.Join(outA, "string"),
		},
		{
			name:      "InvalidNameDotDot",
			path:      outA,
			spec:      named(demoGrammar, ".."),
			cleanPath: outA,
			errExact:  "invalid package name: ..",
			lines:     []string{fmt.Sprintf("D:Checking output path %q ...", outA), `D:Checking package directory ".." ...`},
		},
		{
			name:      "PackageDirectoryExists",
			path:      outC + sep,
			spec:      named(demoGrammar, "calc"),
			cleanPath: outC,
			errExact:  "error on creating package directory: mkdir " + filepath.Join(outC, "calc") + ": file exists",
			lines:     []string{fmt.Sprintf("D:Checking output path %q ...", outC), `D:Checking package directory "calc" ...`},
			pkgDir:    filepath.Join(outC, "calc"),
			pkgFiles:  []string{},
		},
		{
			name:      "PackageDirectoryIsFile",
			path:      outD,
			spec:      named(demoGrammar, "calc"),
			cleanPath: outD,
			errExact:  "error on creating package directory: mkdir " + filepath.Join(outD, "calc") + ": file exists",
			lines:     []string{fmt.Sprintf("D:Checking output path %q ...", outD), `D:Checking package directory "calc" ...`},
		},
		{
			name:      "Success",
			path:      outA + sep + "." + sep + ".." + sep + "a",
			spec:      named(demoGrammar, "calc"),
			cleanPath: outA,
			lines:     successLines(outA, "calc"),
			pkgDir:    filepath.Join(outA, "calc"),
			pkgFiles:  demoAllFiles,
		},
		{
			name:      "SecondRunIntoSameDirectoryFails",
			path:      outA,
			spec:      named(demoGrammar, "calc"),
			cleanPath: outA,
			errExact:  "error on creating package directory: mkdir " + filepath.Join(outA, "calc") + ": file exists",
			lines:     []string{fmt.Sprintf("D:Checking output path %q ...", outA), `D:Checking package directory "calc" ...`},
			pkgDir:    filepath.Join(outA, "calc"),
			pkgFiles:  demoAllFiles,
		},
		{
			name:      "SuccessUnicodeName",
			path:      outA,
			spec:      named(demoGrammar, "größe"),
			cleanPath: outA,
			lines:     successLines(outA, "größe"),
			pkgDir:    filepath.Join(outA, "größe"),
			pkgFiles:  demoAllFiles,
		},
		{
			// Only the last step fails; the files of the first two steps are written nevertheless.
			name:      "ParserStepFails",
			path:      outB,
			spec:      named(demoAmbiguousGrammar, "calc"),
			cleanPath: outB,
			errParts:  []string{"error on building LALR(1) parsing table:\n", `Shift/Reduce conflict in ACTION[2, "+"]`},
			lines:     successLines(outB, "calc")[:12],
			pkgDir:    filepath.Join(outB, "calc"),
			pkgFiles:  []string{"errors.go", "input.go", "lexer.go", "stack.go", "types.go"},
		},
		{
			// The lexer step and the parser step both fail; both are reported, in the order of the steps.
			name: "LexerAndParserStepsFail",
			path: outE,
			spec: func(t *testing.T) *spec.Spec {
				s := parseSpec(t, demoAmbiguousGrammar)
				s.Definitions = append(s.Definitions, &spec.TerminalDef{Terminal: grammar.Terminal("BROKEN"), Value: "(", IsRegex: true})
				return s
			},
			cleanPath: outE,
			errParts:  []string{"\"BROKEN\": invalid regular expression: (\n", "error on building LALR(1) parsing table:\n", `Shift/Reduce conflict in ACTION[2, "+"]`},
			lines: []string{
				fmt.Sprintf("D:Checking output path %q ...", outE), `D:Checking package directory "calc" ...`,
				"I:Generating core types ...",
				`D:Rendering "errors.go" ...`, `D:Rendering "types.go" ...`, `D:Rendering "stack.go" ...`,
				"I:Generating the lexer ...", "I:Constructing Automaton ...",
				"I:Generating the parser ...", "I:Constructing LALR(1) Parsing Table ...",
			},
			pkgDir:   filepath.Join(outE, "calc"),
			pkgFiles: []string{"errors.go", "stack.go", "types.go"},
		},
	}

	for _, tc := range tests {
		t.Run(tc.name, func(t *testing.T) {
			params := &golang.Params{Path: tc.path}
			if tc.spec != nil {
				params.Spec = tc.spec(t)
			}

			rec := newRecorder()
			err := golang.Generate(rec, params)

			switch {
			case tc.errExact == "" && tc.errParts == nil:
				if err != nil {
					t.Errorf("unexpected error: %s", err)
				}
			case err == nil:
				t.Errorf("expected an error, got nil")
			case tc.errExact != "":
				if err.Error() != tc.errExact {
					t.Errorf("error: got %q, want %q", err.Error(), tc.errExact)
				}
			default:
				assertInOrder(t, "error", err.Error(), tc.errParts)
			}

			if params.Path != tc.cleanPath {
				t.Errorf("path after the call: got %q, want %q", params.Path, tc.cleanPath)
			}

			if strings.Join(rec.lines, "\n") != strings.Join(tc.lines, "\n") {
				t.Errorf("messages:\ngot  %q\nwant %q", rec.lines, tc.lines)
			}

			if tc.pkgDir != "" {
				if tc.pkgFiles == nil {
					if _, err := os.Lstat(tc.pkgDir); err == nil {
						t.Errorf("%q must not exist", tc.pkgDir)
					}
				} else if got := listDir(t, tc.pkgDir); strings.Join(got, ",") != strings.Join(tc.pkgFiles, ",") {
					t.Errorf("files in %q: got %v, want %v", tc.pkgDir, got, tc.pkgFiles)
				}
			}
		})
	}

	// The working area holds exactly what the cases above are expected to leave behind.
	if got := listDir(t, work); strings.Join(got, ",") != "a,b,c,d,e,plain.txt" {
		t.Errorf("working area: got %v", got)
	}
	if got := listDir(t, outA); strings.Join(got, ",") != "calc,größe" {
		t.Errorf("output directory a: got %v", got)
	}
}
