package parser

import (
	"errors"
	"fmt"
	"io"
	"strings"
	"testing"

	"github.com/moorara/algo/grammar"
	"github.com/moorara/algo/lexer"
	algoparser "github.com/moorara/algo/parser"

	ebnflexer "github.com/gardenbed/emerge/internal/ebnf/lexer"
)

// demoInputs are the specifications the characterization runs over.
// Every entry of demoExpected belongs to the input with the same index.
var demoInputs = []string{
	// Inputs that end too early.
	"",
	"   \n\t\r\n",
	"// only a comment",
	"/* only a comment */\n",
	"grammar",
	"grammar test",
	"grammar test;\nexpr = expr \"+\" expr",
	"grammar test;\nexpr = (a | b",
	"grammar test;\n@left \"*\"",
	// Valid specifications.
	"grammar test;",
	"grammar test;\n\nID = $ID\nNUM = /[0-9]+(\\.[0-9]+)?/\n\n@left \"*\" \"/\"\n@right <e = e op e>\n\ns = {d} {{t}} [x] (y | z);\nempty = ;\n",
	"grammar g; // c1\n/* c2\n c3 */ a = \"\\\"\" | /\\// ;",
	// Lexical errors.
	"#",
	"grammar test;\n  a = b # c;",
	"grammar test;\na = \"unterminated",
	"grammar test;\na = \"\";",
	"grammar test;\na = \"two\nlines\";",
	"grammar test;\na = /unterminated",
	"grammar test;\na = /two\nlines/;",
	"grammar test;\n/* never closed\n\n a = b;",
	"grammar test;\na = @lef b;",
	"grammar test;\na = @",
	"grammar test;\nA = $id;",
	"grammar test;\nA = $",
	"grammar test;\nA = A1 | B_ | C;",
	"grammar test;\nA = aB;",
	"grammar test;\n\ta = é;",
	"grammar test;\na = \"café\";",
	"grammar test;\r\na = b !;",
	"grammar test;\na = b\xff;",
	"\xc3",
	"grammar test;\n// café\n",
	"grammar test;\na = b \\ c;",
	"grammar test;\na = b * c;",
	// Syntax errors.
	"test grammar;",
	"grammar grammar;",
	"grammar test test;",
	"grammar test;\n= b;",
	"grammar test;\na = b;;",
	"grammar test;\na = b\n  | c )\n  | d;",
	"grammar test;\r\n\r\na = [ b };",
	"grammar test;\n\ta\t=\t{{ b };",
	"grammar test;\n@left ;",
	"grammar test;\n@none <a b>",
	"grammar test;\nTOK = a;",
	"grammar test;\n/* c */ /* d */ a = = b;",
	"grammar test;\na = b; }} trailing \"garbage\" # here",
	"grammar test; a = b; c = d e f | ; ; x",
	"Lorem ipsum!",
	strings.Repeat("// comment\n\n \t/* block */\n", 20000) + "grammar test;\na = ];",
}

type demoResult struct {
	tokens   string // The tokens the lexer yields, up to the error.
	lexErr   string // The error that ends the token stream.
	parseErr string // The text of the error of Parse.
	desc     string // Its description.
	pos      string // Its position.
	shifted  int    // The number of tokens Parse yields before it stops.
	reduced  int    // The number of productions Parse yields before it stops.
}

func demoRun(t *testing.T, src string) demoResult {
	const filename = "demo.grammar"

	var res demoResult

	lex, err := ebnflexer.New(filename, strings.NewReader(src))
	if err != nil {
		t.Fatal(err)
	}

	var b strings.Builder
	for n := 0; ; n++ {
		token, err := lex.NextToken()
		if err != nil {
			if token != (lexer.Token{}) {
				t.Errorf("a token comes with the error: %v", token)
			}
			res.lexErr = err.Error()
			break
		}
		if n < 40 {
			fmt.Fprintf(&b, "%s %q %s|", token.Terminal, token.Lexeme, token.Pos)
		}
	}
	res.tokens = b.String()

	// The end of the input is reported again and again.
	if res.lexErr == "EOF" {
		if _, err := lex.NextToken(); !errors.Is(err, io.EOF) {
			t.Errorf("no EOF after EOF: %v", err)
		}
	}

	p, err := New(filename, strings.NewReader(src))
	if err != nil {
		t.Fatal(err)
	}

	err = p.Parse(
		func(*lexer.Token) error { res.shifted++; return nil },
		func(int) error { res.reduced++; return nil },
	)

	if err != nil {
		var pe *algoparser.ParseError
		if !errors.As(err, &pe) {
			t.Fatalf("not a ParseError: %v", err)
		}
		res.parseErr, res.desc, res.pos = pe.Error(), pe.Description, pe.Pos.String()
		if pe.Cause == nil {
			t.Errorf("no cause")
		}
	}

	return res
}

// demoExpected was recorded with the code as it was before the refactoring.
var demoExpected = []demoResult{
	// 0
	{
		tokens:   "",
		lexErr:   "EOF",
		parseErr: "unexpected string \"\": no action exists in the parsing table for ACTION[0, $]",
		desc:     "unexpected string \"\"",
		pos:      "0",
		shifted:  0,
		reduced:  0,
	},
	// 1
	{
		tokens:   "",
		lexErr:   "EOF",
		parseErr: "unexpected string \"\": no action exists in the parsing table for ACTION[0, $]",
		desc:     "unexpected string \"\"",
		pos:      "0",
		shifted:  0,
		reduced:  0,
	},
	// 2
	{
		tokens:   "",
		lexErr:   "EOF",
		parseErr: "unexpected string \"\": no action exists in the parsing table for ACTION[0, $]",
		desc:     "unexpected string \"\"",
		pos:      "0",
		shifted:  0,
		reduced:  0,
	},
	// 3
	{
		tokens:   "",
		lexErr:   "EOF",
		parseErr: "unexpected string \"\": no action exists in the parsing table for ACTION[0, $]",
		desc:     "unexpected string \"\"",
		pos:      "0",
		shifted:  0,
		reduced:  0,
	},
	// 4
	{
		tokens:   "\"grammar\" \"grammar\" demo.grammar:1:1|",
		lexErr:   "EOF",
		parseErr: "unexpected string \"\": no action exists in the parsing table for ACTION[43, $]",
		desc:     "unexpected string \"\"",
		pos:      "0",
		shifted:  1,
		reduced:  0,
	},
	// 5
	{
		tokens:   "\"grammar\" \"grammar\" demo.grammar:1:1|\"IDENT\" \"test\" demo.grammar:1:9|",
		lexErr:   "EOF",
		parseErr: "",
		desc:     "",
		pos:      "",
		shifted:  2,
		reduced:  4,
	},
	// 6
	{
		tokens:   "\"grammar\" \"grammar\" demo.grammar:1:1|\"IDENT\" \"test\" demo.grammar:1:9|\";\" \";\" demo.grammar:1:13|\"IDENT\" \"expr\" demo.grammar:2:1|\"=\" \"=\" demo.grammar:2:6|\"IDENT\" \"expr\" demo.grammar:2:8|\"STRING\" \"+\" demo.grammar:2:13|\"IDENT\" \"expr\" demo.grammar:2:17|",
		lexErr:   "EOF",
		parseErr: "unexpected string \"\": no action exists in the parsing table for ACTION[44, $]",
		desc:     "unexpected string \"\"",
		pos:      "0",
		shifted:  8,
		reduced:  10,
	},
	// 7
	{
		tokens:   "\"grammar\" \"grammar\" demo.grammar:1:1|\"IDENT\" \"test\" demo.grammar:1:9|\";\" \";\" demo.grammar:1:13|\"IDENT\" \"expr\" demo.grammar:2:1|\"=\" \"=\" demo.grammar:2:6|\"(\" \"(\" demo.grammar:2:8|\"IDENT\" \"a\" demo.grammar:2:9|\"|\" \"|\" demo.grammar:2:11|\"IDENT\" \"b\" demo.grammar:2:13|",
		lexErr:   "EOF",
		parseErr: "unexpected string \"\": no action exists in the parsing table for ACTION[44, $]",
		desc:     "unexpected string \"\"",
		pos:      "0",
		shifted:  9,
		reduced:  7,
	},
	// 8
	{
		tokens:   "\"grammar\" \"grammar\" demo.grammar:1:1|\"IDENT\" \"test\" demo.grammar:1:9|\";\" \";\" demo.grammar:1:13|\"@left\" \"@left\" demo.grammar:2:1|\"STRING\" \"*\" demo.grammar:2:7|",
		lexErr:   "EOF",
		parseErr: "",
		desc:     "",
		pos:      "",
		shifted:  5,
		reduced:  10,
	},
	// 9
	{
		tokens:   "\"grammar\" \"grammar\" demo.grammar:1:1|\"IDENT\" \"test\" demo.grammar:1:9|\";\" \";\" demo.grammar:1:13|",
		lexErr:   "EOF",
		parseErr: "",
		desc:     "",
		pos:      "",
		shifted:  3,
		reduced:  4,
	},
	// 10
	{
		tokens:   "\"grammar\" \"grammar\" demo.grammar:1:1|\"IDENT\" \"test\" demo.grammar:1:9|\";\" \";\" demo.grammar:1:13|\"TOKEN\" \"ID\" demo.grammar:3:1|\"=\" \"=\" demo.grammar:3:4|\"PREDEF\" \"$ID\" demo.grammar:3:6|\"TOKEN\" \"NUM\" demo.grammar:4:1|\"=\" \"=\" demo.grammar:4:5|\"REGEX\" \"[0-9]+(\\\\.[0-9]+)?\" demo.grammar:4:7|\"@left\" \"@left\" demo.grammar:6:1|\"STRING\" \"*\" demo.grammar:6:7|\"STRING\" \"/\" demo.grammar:6:11|\"@right\" \"@right\" demo.grammar:7:1|\"<\" \"<\" demo.grammar:7:8|\"IDENT\" \"e\" demo.grammar:7:9|\"=\" \"=\" demo.grammar:7:11|\"IDENT\" \"e\" demo.grammar:7:13|\"IDENT\" \"op\" demo.grammar:7:15|\"IDENT\" \"e\" demo.grammar:7:18|\">\" \">\" demo.grammar:7:19|\"IDENT\" \"s\" demo.grammar:9:1|\"=\" \"=\" demo.grammar:9:3|\"{\" \"{\" demo.grammar:9:5|\"IDENT\" \"d\" demo.grammar:9:6|\"}\" \"}\" demo.grammar:9:7|\"{{\" \"{{\" demo.grammar:9:9|\"IDENT\" \"t\" demo.grammar:9:11|\"}}\" \"}}\" demo.grammar:9:12|\"[\" \"[\" demo.grammar:9:15|\"IDENT\" \"x\" demo.grammar:9:16|\"]\" \"]\" demo.grammar:9:17|\"(\" \"(\" demo.grammar:9:19|\"IDENT\" \"y\" demo.grammar:9:20|\"|\" \"|\" demo.grammar:9:22|\"IDENT\" \"z\" demo.grammar:9:24|\")\" \")\" demo.grammar:9:25|\";\" \";\" demo.grammar:9:26|\"IDENT\" \"empty\" demo.grammar:10:1|\"=\" \"=\" demo.grammar:10:7|\";\" \";\" demo.grammar:10:9|",
		lexErr:   "EOF",
		parseErr: "",
		desc:     "",
		pos:      "",
		shifted:  40,
		reduced:  65,
	},
	// 11
	{
		tokens:   "\"grammar\" \"grammar\" demo.grammar:1:1|\"IDENT\" \"g\" demo.grammar:1:9|\";\" \";\" demo.grammar:1:10|\"IDENT\" \"a\" demo.grammar:3:8|\"=\" \"=\" demo.grammar:3:10|\"STRING\" \"\\\\\\\"\" demo.grammar:3:12|\"|\" \"|\" demo.grammar:3:17|\"REGEX\" \"\\\\/\" demo.grammar:3:19|\";\" \";\" demo.grammar:3:24|",
		lexErr:   "EOF",
		parseErr: "demo.grammar:3:19: unexpected string \"\\\\/\": no action exists in the parsing table for ACTION[24, \"REGEX\"]",
		desc:     "unexpected string \"\\\\/\"",
		pos:      "demo.grammar:3:19",
		shifted:  7,
		reduced:  7,
	},
	// 12
	{
		tokens:   "",
		lexErr:   "lexical error at demo.grammar:1:1:",
		parseErr: "lexical error at demo.grammar:1:1:",
		desc:     "",
		pos:      "0",
		shifted:  0,
		reduced:  0,
	},
	// 13
	{
		tokens:   "\"grammar\" \"grammar\" demo.grammar:1:1|\"IDENT\" \"test\" demo.grammar:1:9|\";\" \";\" demo.grammar:1:13|\"IDENT\" \"a\" demo.grammar:2:3|\"=\" \"=\" demo.grammar:2:5|\"IDENT\" \"b\" demo.grammar:2:7|",
		lexErr:   "lexical error at demo.grammar:2:9:",
		parseErr: "lexical error at demo.grammar:2:9:",
		desc:     "",
		pos:      "0",
		shifted:  6,
		reduced:  5,
	},
	// 14
	{
		tokens:   "\"grammar\" \"grammar\" demo.grammar:1:1|\"IDENT\" \"test\" demo.grammar:1:9|\";\" \";\" demo.grammar:1:13|\"IDENT\" \"a\" demo.grammar:2:1|\"=\" \"=\" demo.grammar:2:3|",
		lexErr:   "lexical error at demo.grammar:2:5:\"unterminated",
		parseErr: "lexical error at demo.grammar:2:5:\"unterminated",
		desc:     "",
		pos:      "0",
		shifted:  5,
		reduced:  5,
	},
	// 15
	{
		tokens:   "\"grammar\" \"grammar\" demo.grammar:1:1|\"IDENT\" \"test\" demo.grammar:1:9|\";\" \";\" demo.grammar:1:13|\"IDENT\" \"a\" demo.grammar:2:1|\"=\" \"=\" demo.grammar:2:3|",
		lexErr:   "lexical error at demo.grammar:2:5:\"",
		parseErr: "lexical error at demo.grammar:2:5:\"",
		desc:     "",
		pos:      "0",
		shifted:  5,
		reduced:  5,
	},
	// 16
	{
		tokens:   "\"grammar\" \"grammar\" demo.grammar:1:1|\"IDENT\" \"test\" demo.grammar:1:9|\";\" \";\" demo.grammar:1:13|\"IDENT\" \"a\" demo.grammar:2:1|\"=\" \"=\" demo.grammar:2:3|",
		lexErr:   "lexical error at demo.grammar:2:5:\"two",
		parseErr: "lexical error at demo.grammar:2:5:\"two",
		desc:     "",
		pos:      "0",
		shifted:  5,
		reduced:  5,
	},
	// 17
	{
		tokens:   "\"grammar\" \"grammar\" demo.grammar:1:1|\"IDENT\" \"test\" demo.grammar:1:9|\";\" \";\" demo.grammar:1:13|\"IDENT\" \"a\" demo.grammar:2:1|\"=\" \"=\" demo.grammar:2:3|",
		lexErr:   "lexical error at demo.grammar:2:5:/unterminated",
		parseErr: "lexical error at demo.grammar:2:5:/unterminated",
		desc:     "",
		pos:      "0",
		shifted:  5,
		reduced:  5,
	},
	// 18
	{
		tokens:   "\"grammar\" \"grammar\" demo.grammar:1:1|\"IDENT\" \"test\" demo.grammar:1:9|\";\" \";\" demo.grammar:1:13|\"IDENT\" \"a\" demo.grammar:2:1|\"=\" \"=\" demo.grammar:2:3|",
		lexErr:   "lexical error at demo.grammar:2:5:/two",
		parseErr: "lexical error at demo.grammar:2:5:/two",
		desc:     "",
		pos:      "0",
		shifted:  5,
		reduced:  5,
	},
	// 19
	{
		tokens:   "\"grammar\" \"grammar\" demo.grammar:1:1|\"IDENT\" \"test\" demo.grammar:1:9|\";\" \";\" demo.grammar:1:13|",
		lexErr:   "lexical error at demo.grammar:2:1:/* never closed\n\n a = b;",
		parseErr: "lexical error at demo.grammar:2:1:/* never closed\n\n a = b;",
		desc:     "",
		pos:      "0",
		shifted:  3,
		reduced:  0,
	},
	// 20
	{
		tokens:   "\"grammar\" \"grammar\" demo.grammar:1:1|\"IDENT\" \"test\" demo.grammar:1:9|\";\" \";\" demo.grammar:1:13|\"IDENT\" \"a\" demo.grammar:2:1|\"=\" \"=\" demo.grammar:2:3|",
		lexErr:   "lexical error at demo.grammar:2:5:@lef",
		parseErr: "lexical error at demo.grammar:2:5:@lef",
		desc:     "",
		pos:      "0",
		shifted:  5,
		reduced:  5,
	},
	// 21
	{
		tokens:   "\"grammar\" \"grammar\" demo.grammar:1:1|\"IDENT\" \"test\" demo.grammar:1:9|\";\" \";\" demo.grammar:1:13|\"IDENT\" \"a\" demo.grammar:2:1|\"=\" \"=\" demo.grammar:2:3|",
		lexErr:   "lexical error at demo.grammar:2:5:@",
		parseErr: "lexical error at demo.grammar:2:5:@",
		desc:     "",
		pos:      "0",
		shifted:  5,
		reduced:  5,
	},
	// 22
	{
		tokens:   "\"grammar\" \"grammar\" demo.grammar:1:1|\"IDENT\" \"test\" demo.grammar:1:9|\";\" \";\" demo.grammar:1:13|",
		lexErr:   "lexical error at demo.grammar:2:1:A",
		parseErr: "lexical error at demo.grammar:2:1:A",
		desc:     "",
		pos:      "0",
		shifted:  3,
		reduced:  0,
	},
	// 23
	{
		tokens:   "\"grammar\" \"grammar\" demo.grammar:1:1|\"IDENT\" \"test\" demo.grammar:1:9|\";\" \";\" demo.grammar:1:13|",
		lexErr:   "lexical error at demo.grammar:2:1:A",
		parseErr: "lexical error at demo.grammar:2:1:A",
		desc:     "",
		pos:      "0",
		shifted:  3,
		reduced:  0,
	},
	// 24
	{
		tokens:   "\"grammar\" \"grammar\" demo.grammar:1:1|\"IDENT\" \"test\" demo.grammar:1:9|\";\" \";\" demo.grammar:1:13|",
		lexErr:   "lexical error at demo.grammar:2:1:A",
		parseErr: "lexical error at demo.grammar:2:1:A",
		desc:     "",
		pos:      "0",
		shifted:  3,
		reduced:  0,
	},
	// 25
	{
		tokens:   "\"grammar\" \"grammar\" demo.grammar:1:1|\"IDENT\" \"test\" demo.grammar:1:9|\";\" \";\" demo.grammar:1:13|",
		lexErr:   "lexical error at demo.grammar:2:1:A",
		parseErr: "lexical error at demo.grammar:2:1:A",
		desc:     "",
		pos:      "0",
		shifted:  3,
		reduced:  0,
	},
	// 26
	{
		tokens:   "\"grammar\" \"grammar\" demo.grammar:1:1|\"IDENT\" \"test\" demo.grammar:1:9|\";\" \";\" demo.grammar:1:13|\"IDENT\" \"a\" demo.grammar:2:2|\"=\" \"=\" demo.grammar:2:4|",
		lexErr:   "lexical error at demo.grammar:2:6:",
		parseErr: "lexical error at demo.grammar:2:6:",
		desc:     "",
		pos:      "0",
		shifted:  5,
		reduced:  5,
	},
	// 27
	{
		tokens:   "\"grammar\" \"grammar\" demo.grammar:1:1|\"IDENT\" \"test\" demo.grammar:1:9|\";\" \";\" demo.grammar:1:13|\"IDENT\" \"a\" demo.grammar:2:1|\"=\" \"=\" demo.grammar:2:3|",
		lexErr:   "lexical error at demo.grammar:2:5:\"caf",
		parseErr: "lexical error at demo.grammar:2:5:\"caf",
		desc:     "",
		pos:      "0",
		shifted:  5,
		reduced:  5,
	},
	// 28
	{
		tokens:   "\"grammar\" \"grammar\" demo.grammar:1:1|\"IDENT\" \"test\" demo.grammar:1:9|\";\" \";\" demo.grammar:1:13|\"IDENT\" \"a\" demo.grammar:2:1|\"=\" \"=\" demo.grammar:2:3|\"IDENT\" \"b\" demo.grammar:2:5|",
		lexErr:   "lexical error at demo.grammar:2:7:",
		parseErr: "lexical error at demo.grammar:2:7:",
		desc:     "",
		pos:      "0",
		shifted:  6,
		reduced:  5,
	},
	// 29
	{
		tokens:   "\"grammar\" \"grammar\" demo.grammar:1:1|\"IDENT\" \"test\" demo.grammar:1:9|\";\" \";\" demo.grammar:1:13|\"IDENT\" \"a\" demo.grammar:2:1|\"=\" \"=\" demo.grammar:2:3|",
		lexErr:   "demo.grammar:2:6: invalid utf-8 character",
		parseErr: "demo.grammar:2:6: invalid utf-8 character",
		desc:     "",
		pos:      "0",
		shifted:  5,
		reduced:  5,
	},
	// 30
	{
		tokens:   "",
		lexErr:   "demo.grammar:1:1: invalid utf-8 character",
		parseErr: "demo.grammar:1:1: invalid utf-8 character",
		desc:     "",
		pos:      "0",
		shifted:  0,
		reduced:  0,
	},
	// 31
	{
		tokens:   "\"grammar\" \"grammar\" demo.grammar:1:1|\"IDENT\" \"test\" demo.grammar:1:9|\";\" \";\" demo.grammar:1:13|",
		lexErr:   "lexical error at demo.grammar:2:7:",
		parseErr: "lexical error at demo.grammar:2:7:",
		desc:     "",
		pos:      "0",
		shifted:  3,
		reduced:  0,
	},
	// 32
	{
		tokens:   "\"grammar\" \"grammar\" demo.grammar:1:1|\"IDENT\" \"test\" demo.grammar:1:9|\";\" \";\" demo.grammar:1:13|\"IDENT\" \"a\" demo.grammar:2:1|\"=\" \"=\" demo.grammar:2:3|\"IDENT\" \"b\" demo.grammar:2:5|",
		lexErr:   "lexical error at demo.grammar:2:7:",
		parseErr: "lexical error at demo.grammar:2:7:",
		desc:     "",
		pos:      "0",
		shifted:  6,
		reduced:  5,
	},
	// 33
	{
		tokens:   "\"grammar\" \"grammar\" demo.grammar:1:1|\"IDENT\" \"test\" demo.grammar:1:9|\";\" \";\" demo.grammar:1:13|\"IDENT\" \"a\" demo.grammar:2:1|\"=\" \"=\" demo.grammar:2:3|\"IDENT\" \"b\" demo.grammar:2:5|",
		lexErr:   "lexical error at demo.grammar:2:7:",
		parseErr: "lexical error at demo.grammar:2:7:",
		desc:     "",
		pos:      "0",
		shifted:  6,
		reduced:  5,
	},
	// 34
	{
		tokens:   "\"IDENT\" \"test\" demo.grammar:1:1|\"grammar\" \"grammar\" demo.grammar:1:6|\";\" \";\" demo.grammar:1:13|",
		lexErr:   "EOF",
		parseErr: "demo.grammar:1:1: unexpected string \"test\": no action exists in the parsing table for ACTION[0, \"IDENT\"]",
		desc:     "unexpected string \"test\"",
		pos:      "demo.grammar:1:1",
		shifted:  0,
		reduced:  0,
	},
	// 35
	{
		tokens:   "\"grammar\" \"grammar\" demo.grammar:1:1|\"grammar\" \"grammar\" demo.grammar:1:9|\";\" \";\" demo.grammar:1:16|",
		lexErr:   "EOF",
		parseErr: "demo.grammar:1:9: unexpected string \"grammar\": no action exists in the parsing table for ACTION[43, \"grammar\"]",
		desc:     "unexpected string \"grammar\"",
		pos:      "demo.grammar:1:9",
		shifted:  1,
		reduced:  0,
	},
	// 36
	{
		tokens:   "\"grammar\" \"grammar\" demo.grammar:1:1|\"IDENT\" \"test\" demo.grammar:1:9|\"IDENT\" \"test\" demo.grammar:1:14|\";\" \";\" demo.grammar:1:18|",
		lexErr:   "EOF",
		parseErr: "demo.grammar:1:18: unexpected string \";\": no action exists in the parsing table for ACTION[42, \";\"]",
		desc:     "unexpected string \";\"",
		pos:      "demo.grammar:1:18",
		shifted:  3,
		reduced:  4,
	},
	// 37
	{
		tokens:   "\"grammar\" \"grammar\" demo.grammar:1:1|\"IDENT\" \"test\" demo.grammar:1:9|\";\" \";\" demo.grammar:1:13|\"=\" \"=\" demo.grammar:2:1|\"IDENT\" \"b\" demo.grammar:2:3|\";\" \";\" demo.grammar:2:4|",
		lexErr:   "EOF",
		parseErr: "demo.grammar:2:1: unexpected string \"=\": no action exists in the parsing table for ACTION[53, \"=\"]",
		desc:     "unexpected string \"=\"",
		pos:      "demo.grammar:2:1",
		shifted:  3,
		reduced:  0,
	},
	// 38
	{
		tokens:   "\"grammar\" \"grammar\" demo.grammar:1:1|\"IDENT\" \"test\" demo.grammar:1:9|\";\" \";\" demo.grammar:1:13|\"IDENT\" \"a\" demo.grammar:2:1|\"=\" \"=\" demo.grammar:2:3|\"IDENT\" \"b\" demo.grammar:2:5|\";\" \";\" demo.grammar:2:6|\";\" \";\" demo.grammar:2:7|",
		lexErr:   "EOF",
		parseErr: "demo.grammar:2:7: unexpected string \";\": no action exists in the parsing table for ACTION[15, \";\"]",
		desc:     "unexpected string \";\"",
		pos:      "demo.grammar:2:7",
		shifted:  7,
		reduced:  8,
	},
	// 39
	{
		tokens:   "\"grammar\" \"grammar\" demo.grammar:1:1|\"IDENT\" \"test\" demo.grammar:1:9|\";\" \";\" demo.grammar:1:13|\"IDENT\" \"a\" demo.grammar:2:1|\"=\" \"=\" demo.grammar:2:3|\"IDENT\" \"b\" demo.grammar:2:5|\"|\" \"|\" demo.grammar:3:3|\"IDENT\" \"c\" demo.grammar:3:5|\")\" \")\" demo.grammar:3:7|\"|\" \"|\" demo.grammar:4:3|\"IDENT\" \"d\" demo.grammar:4:5|\";\" \";\" demo.grammar:4:6|",
		lexErr:   "EOF",
		parseErr: "demo.grammar:3:7: unexpected string \")\": no action exists in the parsing table for ACTION[8, \")\"]",
		desc:     "unexpected string \")\"",
		pos:      "demo.grammar:3:7",
		shifted:  8,
		reduced:  10,
	},
	// 40
	{
		tokens:   "\"grammar\" \"grammar\" demo.grammar:1:1|\"IDENT\" \"test\" demo.grammar:1:9|\";\" \";\" demo.grammar:1:13|\"IDENT\" \"a\" demo.grammar:3:1|\"=\" \"=\" demo.grammar:3:3|\"[\" \"[\" demo.grammar:3:5|\"IDENT\" \"b\" demo.grammar:3:7|\"}\" \"}\" demo.grammar:3:9|\";\" \";\" demo.grammar:3:10|",
		lexErr:   "EOF",
		parseErr: "demo.grammar:3:9: unexpected string \"}\": no action exists in the parsing table for ACTION[27, \"}\"]",
		desc:     "unexpected string \"}\"",
		pos:      "demo.grammar:3:9",
		shifted:  7,
		reduced:  7,
	},
	// 41
	{
		tokens:   "\"grammar\" \"grammar\" demo.grammar:1:1|\"IDENT\" \"test\" demo.grammar:1:9|\";\" \";\" demo.grammar:1:13|\"IDENT\" \"a\" demo.grammar:2:2|\"=\" \"=\" demo.grammar:2:4|\"{{\" \"{{\" demo.grammar:2:6|\"IDENT\" \"b\" demo.grammar:2:9|\"}\" \"}\" demo.grammar:2:11|\";\" \";\" demo.grammar:2:12|",
		lexErr:   "EOF",
		parseErr: "demo.grammar:2:11: unexpected string \"}\": no action exists in the parsing table for ACTION[29, \"}\"]",
		desc:     "unexpected string \"}\"",
		pos:      "demo.grammar:2:11",
		shifted:  7,
		reduced:  7,
	},
	// 42
	{
		tokens:   "\"grammar\" \"grammar\" demo.grammar:1:1|\"IDENT\" \"test\" demo.grammar:1:9|\";\" \";\" demo.grammar:1:13|\"@left\" \"@left\" demo.grammar:2:1|\";\" \";\" demo.grammar:2:7|",
		lexErr:   "EOF",
		parseErr: "demo.grammar:2:7: unexpected string \";\": no action exists in the parsing table for ACTION[36, \";\"]",
		desc:     "unexpected string \";\"",
		pos:      "demo.grammar:2:7",
		shifted:  4,
		reduced:  3,
	},
	// 43
	{
		tokens:   "\"grammar\" \"grammar\" demo.grammar:1:1|\"IDENT\" \"test\" demo.grammar:1:9|\";\" \";\" demo.grammar:1:13|\"@none\" \"@none\" demo.grammar:2:1|\"<\" \"<\" demo.grammar:2:7|\"IDENT\" \"a\" demo.grammar:2:8|\"IDENT\" \"b\" demo.grammar:2:10|\">\" \">\" demo.grammar:2:11|",
		lexErr:   "EOF",
		parseErr: "demo.grammar:2:10: unexpected string \"b\": no action exists in the parsing table for ACTION[42, \"IDENT\"]",
		desc:     "unexpected string \"b\"",
		pos:      "demo.grammar:2:10",
		shifted:  6,
		reduced:  4,
	},
	// 44
	{
		tokens:   "\"grammar\" \"grammar\" demo.grammar:1:1|\"IDENT\" \"test\" demo.grammar:1:9|\";\" \";\" demo.grammar:1:13|\"TOKEN\" \"TOK\" demo.grammar:2:1|\"=\" \"=\" demo.grammar:2:5|\"IDENT\" \"a\" demo.grammar:2:7|\";\" \";\" demo.grammar:2:8|",
		lexErr:   "EOF",
		parseErr: "demo.grammar:2:7: unexpected string \"a\": no action exists in the parsing table for ACTION[32, \"IDENT\"]",
		desc:     "unexpected string \"a\"",
		pos:      "demo.grammar:2:7",
		shifted:  5,
		reduced:  3,
	},
	// 45
	{
		tokens:   "\"grammar\" \"grammar\" demo.grammar:1:1|\"IDENT\" \"test\" demo.grammar:1:9|\";\" \";\" demo.grammar:1:13|\"IDENT\" \"a\" demo.grammar:2:17|\"=\" \"=\" demo.grammar:2:19|\"=\" \"=\" demo.grammar:2:21|\"IDENT\" \"b\" demo.grammar:2:23|\";\" \";\" demo.grammar:2:24|",
		lexErr:   "EOF",
		parseErr: "demo.grammar:2:21: unexpected string \"=\": no action exists in the parsing table for ACTION[30, \"=\"]",
		desc:     "unexpected string \"=\"",
		pos:      "demo.grammar:2:21",
		shifted:  5,
		reduced:  5,
	},
	// 46
	{
		tokens:   "\"grammar\" \"grammar\" demo.grammar:1:1|\"IDENT\" \"test\" demo.grammar:1:9|\";\" \";\" demo.grammar:1:13|\"IDENT\" \"a\" demo.grammar:2:1|\"=\" \"=\" demo.grammar:2:3|\"IDENT\" \"b\" demo.grammar:2:5|\";\" \";\" demo.grammar:2:6|\"}}\" \"}}\" demo.grammar:2:8|\"IDENT\" \"trailing\" demo.grammar:2:11|\"STRING\" \"garbage\" demo.grammar:2:20|",
		lexErr:   "lexical error at demo.grammar:2:30:",
		parseErr: "demo.grammar:2:8: unexpected string \"}}\": no action exists in the parsing table for ACTION[15, \"}}\"]",
		desc:     "unexpected string \"}}\"",
		pos:      "demo.grammar:2:8",
		shifted:  7,
		reduced:  8,
	},
	// 47
	{
		tokens:   "\"grammar\" \"grammar\" demo.grammar:1:1|\"IDENT\" \"test\" demo.grammar:1:9|\";\" \";\" demo.grammar:1:13|\"IDENT\" \"a\" demo.grammar:1:15|\"=\" \"=\" demo.grammar:1:17|\"IDENT\" \"b\" demo.grammar:1:19|\";\" \";\" demo.grammar:1:20|\"IDENT\" \"c\" demo.grammar:1:22|\"=\" \"=\" demo.grammar:1:24|\"IDENT\" \"d\" demo.grammar:1:26|\"IDENT\" \"e\" demo.grammar:1:28|\"IDENT\" \"f\" demo.grammar:1:30|\"|\" \"|\" demo.grammar:1:32|\";\" \";\" demo.grammar:1:34|\";\" \";\" demo.grammar:1:36|\"IDENT\" \"x\" demo.grammar:1:38|",
		lexErr:   "EOF",
		parseErr: "demo.grammar:1:36: unexpected string \";\": no action exists in the parsing table for ACTION[15, \";\"]",
		desc:     "unexpected string \";\"",
		pos:      "demo.grammar:1:36",
		shifted:  14,
		reduced:  22,
	},
	// 48
	{
		tokens:   "",
		lexErr:   "lexical error at demo.grammar:1:1:L",
		parseErr: "lexical error at demo.grammar:1:1:L",
		desc:     "",
		pos:      "0",
		shifted:  0,
		reduced:  0,
	},
	// 49
	{
		tokens:   "\"grammar\" \"grammar\" demo.grammar:60001:1|\"IDENT\" \"test\" demo.grammar:60001:9|\";\" \";\" demo.grammar:60001:13|\"IDENT\" \"a\" demo.grammar:60002:1|\"=\" \"=\" demo.grammar:60002:3|\"]\" \"]\" demo.grammar:60002:5|\";\" \";\" demo.grammar:60002:6|",
		lexErr:   "EOF",
		parseErr: "demo.grammar:60002:5: unexpected string \"]\": no action exists in the parsing table for ACTION[30, \"]\"]",
		desc:     "unexpected string \"]\"",
		pos:      "demo.grammar:60002:5",
		shifted:  5,
		reduced:  5,
	},
}

func TestRefactorDemo_Specifications(t *testing.T) {
	if len(demoInputs) != len(demoExpected) {
		t.Fatalf("%d inputs, %d expectations", len(demoInputs), len(demoExpected))
	}

	for i, src := range demoInputs {
		t.Run(fmt.Sprintf("%02d", i), func(t *testing.T) {
			if got := demoRun(t, src); got != demoExpected[i] {
				t.Errorf("input %q\n got: %+v\nwant: %+v", demoClip(src), got, demoExpected[i])
			}
		})
	}
}

func demoClip(s string) string {
	if len(s) > 120 {
		return s[:60] + "..." + s[len(s)-60:]
	}
	return s
}

// Nothing after the offending token influences the message.
func TestRefactorDemo_SuffixIndependence(t *testing.T) {
	prefixes := []string{
		"grammar test;\na = b\n  | c )",
		"grammar test;\na = \"x\" #",
		"grammar test;\n\n\t@left ;",
		"test",
	}
	suffixes := []string{"", " ", "\n", ";", " x = y;", " # \"", "\n/* open", " \xff", "\n\n}} ]"}

	for _, prefix := range prefixes {
		want := demoRun(t, prefix)
		if want.parseErr == "" {
			t.Fatalf("%q is accepted", prefix)
		}

		for _, suffix := range suffixes {
			got := demoRun(t, prefix+suffix)
			if got.parseErr != want.parseErr || got.pos != want.pos || got.shifted != want.shifted || got.reduced != want.reduced {
				t.Errorf("%q + %q\n got: %+v\nwant: %+v", prefix, suffix, got, want)
			}
		}
	}
}

// The parser on top of a scripted lexer: what the lexer hands out with an error, and what the token function sees.
func TestRefactorDemo_ScriptedLexer(t *testing.T) {
	at := func(offset, line, column int) lexer.Position {
		return lexer.Position{Filename: "mock", Offset: offset, Line: line, Column: column}
	}

	kw := lexer.Token{Terminal: "grammar", Lexeme: "grammar", Pos: at(0, 1, 1)}
	id := lexer.Token{Terminal: "IDENT", Lexeme: "x", Pos: at(8, 1, 9)}
	odd := lexer.Token{Terminal: "ODD", Lexeme: "odd", Pos: at(10, 2, 1)}

	tests := []struct {
		name         string
		mocks        []NextTokenMock
		tokenErrAt   int // The token function fails at this call (1-based), never if 0.
		prodErrAt    int // The production function fails at this call (1-based), never if 0.
		expectedErr  string
		expectedPos  lexer.Position
		expectedDesc string
		expectedSeen []lexer.Token // The tokens the token function was called with.
		expectedLast lexer.Token   // What the pointer the token function got points to in the end.
	}{
		{
			name:         "EOF_With_Token",
			mocks:        []NextTokenMock{{OutToken: odd, OutError: io.EOF}},
			expectedErr:  `mock:2:1: unexpected string "": no action exists in the parsing table for ACTION[0, $]`,
			expectedPos:  at(10, 2, 1),
			expectedDesc: `unexpected string ""`,
		},
		{
			name:         "Wrapped_EOF_After_Keyword",
			mocks:        []NextTokenMock{{OutToken: kw}, {OutError: fmt.Errorf("read: %w", io.EOF)}},
			expectedErr:  `unexpected string "": no action exists in the parsing table for ACTION[43, $]`,
			expectedDesc: `unexpected string ""`,
			expectedSeen: []lexer.Token{kw},
			expectedLast: lexer.Token{Terminal: grammar.Endmarker},
		},
		{
			name:         "Lexer_Fails_With_Token",
			mocks:        []NextTokenMock{{OutToken: kw}, {OutToken: odd, OutError: errors.New("lexical error at mock:2:1:odd")}},
			expectedErr:  `lexical error at mock:2:1:odd`,
			expectedSeen: []lexer.Token{kw},
			expectedLast: odd,
		},
		{
			name:        "Lexer_Fails_First",
			mocks:       []NextTokenMock{{OutToken: odd, OutError: errors.New("boom")}},
			expectedErr: `boom`,
		},
		{
			name:         "Unknown_Terminal",
			mocks:        []NextTokenMock{{OutToken: kw}, {OutToken: id}, {OutToken: odd}},
			expectedErr:  `mock:2:1: unexpected string "odd": no action exists in the parsing table for ACTION[23, "ODD"]`,
			expectedPos:  at(10, 2, 1),
			expectedDesc: `unexpected string "odd"`,
			expectedSeen: []lexer.Token{kw, id},
			expectedLast: odd,
		},
		{
			name:         "TokenFunc_Fails",
			mocks:        []NextTokenMock{{OutToken: kw}, {OutToken: id}, {OutToken: odd}},
			tokenErrAt:   2,
			expectedErr:  `mock:1:9: token func`,
			expectedPos:  at(8, 1, 9),
			expectedSeen: []lexer.Token{kw, id},
			expectedLast: id,
		},
		{
			name:         "ProdFunc_Fails",
			mocks:        []NextTokenMock{{OutToken: kw}, {OutToken: id}, {OutError: io.EOF}},
			prodErrAt:    1,
			expectedErr:  `prod func`,
			expectedSeen: []lexer.Token{kw, id},
			expectedLast: lexer.Token{Terminal: grammar.Endmarker},
		},
		{
			name:         "Accepted",
			mocks:        []NextTokenMock{{OutToken: kw}, {OutToken: id}, {OutError: io.EOF}},
			expectedSeen: []lexer.Token{kw, id},
			expectedLast: lexer.Token{Terminal: grammar.Endmarker},
		},
	}

	for _, tc := range tests {
		t.Run(tc.name, func(t *testing.T) {
			p := &Parser{L: &MockLexer{NextTokenMocks: tc.mocks}}

			var seen []lexer.Token
			var last *lexer.Token
			var prods int

			err := p.Parse(
				func(token *lexer.Token) error {
					seen, last = append(seen, *token), token
					if len(seen) == tc.tokenErrAt {
						return errors.New("token func")
					}
					return nil
				},
				func(int) error {
					if prods++; prods == tc.prodErrAt {
						return errors.New("prod func")
					}
					return nil
				},
			)

			if tc.expectedErr == "" {
				if err != nil {
					t.Fatalf("unexpected error: %v", err)
				}
			} else {
				var pe *algoparser.ParseError
				if !errors.As(err, &pe) {
					t.Fatalf("not a ParseError: %v", err)
				}
				if pe.Error() != tc.expectedErr || pe.Pos != tc.expectedPos || pe.Description != tc.expectedDesc {
					t.Errorf("got %q at %v (%q), want %q at %v (%q)", pe.Error(), pe.Pos, pe.Description, tc.expectedErr, tc.expectedPos, tc.expectedDesc)
				}
			}

			if fmt.Sprint(seen) != fmt.Sprint(tc.expectedSeen) {
				t.Errorf("token function saw %v, want %v", seen, tc.expectedSeen)
			}

			if last == nil {
				if len(tc.expectedSeen) != 0 {
					t.Errorf("token function never called")
				}
			} else if *last != tc.expectedLast {
				t.Errorf("the token ends as %v, want %v", *last, tc.expectedLast)
			}
		})
	}
}
