package spec

import (
	"fmt"
	"os"
	"sort"
	"strings"
	"testing"
)

// demoDump renders everything Parse returns for a source in a canonical, order-independent text.
func demoDump(src string) string {
	var b strings.Builder

	spec, err := Parse("demo", strings.NewReader(src))
	if err != nil {
		fmt.Fprintf(&b, "error: %s\n", err)
		return b.String()
	}

	fmt.Fprintf(&b, "name: %s\n", spec.Name)

	var terms []string
	for a := range spec.Grammar.Terminals.All() {
		terms = append(terms, fmt.Sprintf("%q", string(a)))
	}
	sort.Strings(terms)
	fmt.Fprintf(&b, "terminals: %s\n", strings.Join(terms, " "))

	var nonterms []string
	for A := range spec.Grammar.NonTerminals.All() {
		nonterms = append(nonterms, string(A))
	}
	sort.Strings(nonterms)
	fmt.Fprintf(&b, "nonterminals: %s\n", strings.Join(nonterms, " "))

	for _, p := range spec.Productions() {
		fmt.Fprintf(&b, "  %s\n", p)
	}

	for _, d := range spec.Definitions {
		fmt.Fprintf(&b, "def: %q %q regex=%t at %s\n", string(d.Terminal), d.Value, d.IsRegex, d.Pos)
	}

	for _, l := range spec.Precedences {
		fmt.Fprintf(&b, "prec: %s\n", l)
	}

	return b.String()
}

var demoSources = []string{
	// 0: every operator once
	`grammar g; start = ("a" | "b") ["c"] {"d"} {{"e"}};`,
	// 1: the same sub-expression under every operator, and repeated
	`grammar g; start = ("a" "b") ["a" "b"] {"a" "b"} {{"a" "b"}} ("a" "b") {"a" "b"};`,
	// 2: alternatives inside repetitions, in two different written orders
	`grammar g; start = {"b" | "a"} x; x = {{"a" | "b"}} {"a" | "b"} {{"b" | "a"}};`,
	// 3: nesting
	`grammar g; start = {{ [ ("a" | "b" "c") ] { x | } }}; x = "x" | ;`,
	// 4: empty alternatives
	`grammar g; start = ("a" | ) ["b" | ] {"c" | } {{"d" | }};`,
	// 5: empty rule and empty alternative of a rule
	`grammar g; start = a b; a = ; b = "b" | ;`,
	// 6: single symbols name the generated non-terminals
	`grammar g; start = {x} [x] (x) {{x}} {"+"} ["("] {{";"}} ("if"); x = "x";`,
	// 7: concatenation of alternations distributes
	`grammar g; start = ("a" | "b") ("c" | "d") | ("a" | "b") x; x = "x" ("a" | "b");`,
	// 8: user names that look like generated ones
	`grammar g; start = gen9_star {"a" "b"} gen_y_opt [x] star_gen; gen9_star = "s"; gen_y_opt = "o"; x = "x"; star_gen = {gen9_star};`,
	// 9: escapes in string literals
	`grammar g; QQ = "\"" start = {"\\"} ["\""] QQ ("a\\b" | "\"\"") "\q";`,
	// 10: tokens and directives
	`grammar g;
ID = $ID
NUM = /[0-9]+/
SEMI = ";"
@left "+" "-"
@right "*" <e = e "^" e> ID
@none <e = "-" e> "="
start = {{ s SEMI }};
s = ID "=" e | ;
e = e ("+" | "-" | "*" | "^") e | e "^" e | "-" e | NUM | ID;`,
	// 11: directive with a rule handle with several alternatives and an empty rule handle
	`grammar g; @left <e = "a" | "b"> <e = > "c" @none "d"; start = e "c" "d"; e = "a" | "b" | ;`,
	// 12: errors collected by the actions and the final checks
	`grammar g; ID = $NOPE NUM = $INT start = ID NUM UNDEF {y};`,
	// 13: no start symbol
	`grammar g; s = {"a"} ["a"];`,
	// 14: syntax error
	`grammar g; start = {"a" ;`,
	// 15: the same operand under one operator in several rules
	`grammar g; start = {"a" | "b" "c"} x y; x = {"b" "c" | "a"}; y = ["b" "c" | "a"] {{"a" | "b" "c"}};`,
	// 16: deep nesting of one operator
	`grammar g; start = {{{{{{ "a" }} }} }} [[[ "b" ]]] ((( "c" ))) { {{ "d" }} };`,
	// 17: three-way products
	`grammar g; start = ("a" | "b" | ) ("c" | ) ("d" | "e");`,
	// 18: escapes in string literals, in the grammar and in a definition
	`grammar g; QQ = "q\"q" start = {"\\"} ["\""] ("a\\b" | "\"\"") "\q" QQ {{"\\\\" | "\\"}};`,
}

var demoUnescape = [][2]string{
	{``, ``},
	{`abc`, `abc`},
	{`\"`, `"`},
	{`a\"b`, `a"b`},
	{`\\`, `\`},
	{`\\\\`, `\\`},
	{`\\\"`, `\"`},
	{`\`, `\`},
	{`a\`, `a\`},
	{`\\\`, `\\`},
	{`\n`, `n`},
	{`\a\b\c`, `abc`},
	{`x\\y\\z`, `x\y\z`},
	{`\\"`, `\"`},
	{`no escapes at all`, `no escapes at all`},
	{"\\\u00e9t\\\u00e9", "\u00e9t\u00e9"},
	{`ab\\`, `ab\`},
	{`\ab`, `ab`},
}

func TestRefactorDemo_Unescape(t *testing.T) {
	for _, c := range demoUnescape {
		if got := unescape(c[0]); got != c[1] {
			t.Errorf("unescape(%q) = %q, expected %q", c[0], got, c[1])
		}
	}
}

func TestRefactorDemo_Parse(t *testing.T) {
	if os.Getenv("REFACTOR_DEMO_PRINT") != "" {
		for i, src := range demoSources {
			fmt.Printf("\t// %d\n\t`%s`,\n", i, demoDump(src))
		}
		return
	}

	if len(demoExpected) != len(demoSources) {
		t.Fatalf("%d sources, %d expectations", len(demoSources), len(demoExpected))
	}

	for i, src := range demoSources {
		// Twice, to show that nothing depends on state left behind by an earlier call.
		for round := 0; round < 2; round++ {
			if got := demoDump(src); got != demoExpected[i] {
				t.Errorf("source %d, round %d:\n%s\ngot:\n%s\nexpected:\n%s", i, round, src, got, demoExpected[i])
			}
		}
	}
}

// demoExpected was recorded from the code before the refactoring.
var demoExpected = []string{
	// 0
	`name: g
terminals: "a" "b" "c" "d" "e"
nonterminals: gen1_group gen2_opt gen3_star gen4_plus start
  gen1_group → "a"
  gen1_group → "b"
  gen2_opt → "c"
  gen2_opt → ε
  gen3_star → gen3_star "d"
  gen3_star → ε
  gen4_plus → gen4_plus "e"
  gen4_plus → "e"
  start → gen1_group gen2_opt gen3_star gen4_plus
def: "a" "a" regex=false at <nil>
def: "b" "b" regex=false at <nil>
def: "c" "c" regex=false at <nil>
def: "d" "d" regex=false at <nil>
def: "e" "e" regex=false at <nil>
`,
	// 1
	`name: g
terminals: "a" "b"
nonterminals: gen1_group gen2_opt gen3_star gen4_plus start
  gen1_group → "a" "b"
  gen2_opt → "a" "b"
  gen2_opt → ε
  gen3_star → gen3_star "a" "b"
  gen3_star → ε
  gen4_plus → gen4_plus "a" "b"
  gen4_plus → "a" "b"
  start → gen1_group gen2_opt gen3_star gen4_plus gen1_group gen3_star
def: "a" "a" regex=false at <nil>
def: "b" "b" regex=false at <nil>
`,
	// 2
	`name: g
terminals: "a" "b"
nonterminals: gen1_star gen2_plus start x
  gen1_star → gen1_star "a"
  gen1_star → gen1_star "b"
  gen1_star → ε
  gen2_plus → gen2_plus "a"
  gen2_plus → gen2_plus "b"
  gen2_plus → "a"
  gen2_plus → "b"
  start → gen1_star x
  x → gen2_plus gen1_star gen2_plus
def: "a" "a" regex=false at <nil>
def: "b" "b" regex=false at <nil>
`,
	// 3
	`name: g
terminals: "a" "b" "c" "x"
nonterminals: gen1_group gen2_star gen3_plus gen_gen1_group_opt start x
  gen1_group → "b" "c"
  gen1_group → "a"
  gen2_star → gen2_star x
  gen2_star → gen2_star
  gen2_star → ε
  gen3_plus → gen3_plus gen_gen1_group_opt gen2_star
  gen3_plus → gen_gen1_group_opt gen2_star
  gen_gen1_group_opt → gen1_group
  gen_gen1_group_opt → ε
  start → gen3_plus
  x → "x"
  x → ε
def: "a" "a" regex=false at <nil>
def: "b" "b" regex=false at <nil>
def: "c" "c" regex=false at <nil>
def: "x" "x" regex=false at <nil>
`,
	// 4
	`name: g
terminals: "a" "b" "c" "d"
nonterminals: gen1_group gen2_opt gen3_star gen4_plus start
  gen1_group → "a"
  gen1_group → ε
  gen2_opt → "b"
  gen2_opt → ε
  gen3_star → gen3_star "c"
  gen3_star → gen3_star
  gen3_star → ε
  gen4_plus → gen4_plus "d"
  gen4_plus → gen4_plus
  gen4_plus → "d"
  gen4_plus → ε
  start → gen1_group gen2_opt gen3_star gen4_plus
def: "a" "a" regex=false at <nil>
def: "b" "b" regex=false at <nil>
def: "c" "c" regex=false at <nil>
def: "d" "d" regex=false at <nil>
`,
	// 5
	`name: g
terminals: "b"
nonterminals: a b start
  a → ε
  b → "b"
  b → ε
  start → a b
def: "b" "b" regex=false at <nil>
`,
	// 6
	`name: g
terminals: "(" "+" ";" "if" "x"
nonterminals: gen1_group gen_lparen_opt gen_plus_star gen_semi_plus gen_x_group gen_x_opt gen_x_plus gen_x_star start x
  gen1_group → "if"
  gen_lparen_opt → "("
  gen_lparen_opt → ε
  gen_plus_star → gen_plus_star "+"
  gen_plus_star → ε
  gen_semi_plus → gen_semi_plus ";"
  gen_semi_plus → ";"
  gen_x_group → x
  gen_x_opt → x
  gen_x_opt → ε
  gen_x_plus → gen_x_plus x
  gen_x_plus → x
  gen_x_star → gen_x_star x
  gen_x_star → ε
  start → gen_x_star gen_x_opt gen_x_group gen_x_plus gen_plus_star gen_lparen_opt gen_semi_plus gen1_group
  x → "x"
def: "(" "(" regex=false at <nil>
def: "+" "+" regex=false at <nil>
def: ";" ";" regex=false at <nil>
def: "x" "x" regex=false at <nil>
def: "if" "if" regex=false at <nil>
`,
	// 7
	`name: g
terminals: "a" "b" "c" "d" "x"
nonterminals: gen1_group gen2_group start x
  gen1_group → "a"
  gen1_group → "b"
  gen2_group → "c"
  gen2_group → "d"
  start → gen1_group gen2_group
  start → gen1_group x
  x → "x" gen1_group
def: "a" "a" regex=false at <nil>
def: "b" "b" regex=false at <nil>
def: "c" "c" regex=false at <nil>
def: "d" "d" regex=false at <nil>
def: "x" "x" regex=false at <nil>
`,
	// 8
	`name: g
terminals: "a" "b" "o" "s" "x"
nonterminals: gen1_star gen9_star gen_gen9_star_star gen_x_opt gen_y_opt star_gen start x
  gen1_star → gen1_star "a" "b"
  gen1_star → ε
  gen9_star → "s"
  gen_gen9_star_star → gen_gen9_star_star gen9_star
  gen_gen9_star_star → ε
  gen_x_opt → x
  gen_x_opt → ε
  gen_y_opt → "o"
  star_gen → gen_gen9_star_star
  start → gen9_star gen1_star gen_y_opt gen_x_opt star_gen
  x → "x"
def: "a" "a" regex=false at <nil>
def: "b" "b" regex=false at <nil>
def: "o" "o" regex=false at <nil>
def: "s" "s" regex=false at <nil>
def: "x" "x" regex=false at <nil>
`,
	// 9
	`error: 1 error occurred:

  • multiple definitions with the same value: "\""
      <nil>: "\""
      demo:1:12: "QQ"

`,
	// 10
	`name: g
terminals: "*" "+" "-" "=" "ID" "NUM" "SEMI" "^"
nonterminals: e gen1_plus gen2_group s start
  e → e gen2_group e
  e → e "^" e
  e → "-" e
  e → "ID"
  e → "NUM"
  gen1_plus → gen1_plus s "SEMI"
  gen1_plus → s "SEMI"
  gen2_group → "*"
  gen2_group → "+"
  gen2_group → "-"
  gen2_group → "^"
  s → "ID" "=" e
  s → ε
  start → gen1_plus
def: "*" "*" regex=false at <nil>
def: "+" "+" regex=false at <nil>
def: "-" "-" regex=false at <nil>
def: "=" "=" regex=false at <nil>
def: "^" "^" regex=false at <nil>
def: "SEMI" ";" regex=false at demo:4:1
def: "ID" "[A-Za-z_][0-9A-Za-z_]*" regex=true at demo:2:1
def: "NUM" "[0-9]+" regex=true at demo:3:1
prec: LEFT "+", "-"
prec: RIGHT "*", "ID", e = e "^" e
prec: NONE "=", e = "-" e
`,
	// 11
	`name: g
terminals: "a" "b" "c" "d"
nonterminals: e start
  e → "a"
  e → "b"
  e → ε
  start → e "c" "d"
def: "a" "a" regex=false at <nil>
def: "b" "b" regex=false at <nil>
def: "c" "c" regex=false at <nil>
def: "d" "d" regex=false at <nil>
prec: LEFT "c", e = "a", e = "b", e = ε
prec: NONE "d"
`,
	// 12
	`error: 5 errors occurred:

  • invalid predefined regex: $NOPE
  • invalid predefined regex: $INT
  • no definition for terminal "ID"
  • no definition for terminal "NUM"
  • no definition for terminal "UNDEF"

`,
	// 13
	`error: 1 error occurred:

  • missing production rule with the start symbol: start

`,
	// 14
	`error: demo:1:25: unexpected string ";": no action exists in the parsing table for ACTION[28, ";"]
`,
	// 15
	`name: g
terminals: "a" "b" "c"
nonterminals: gen1_star gen2_opt gen3_plus start x y
  gen1_star → gen1_star "b" "c"
  gen1_star → gen1_star "a"
  gen1_star → ε
  gen2_opt → "b" "c"
  gen2_opt → "a"
  gen2_opt → ε
  gen3_plus → gen3_plus "b" "c"
  gen3_plus → gen3_plus "a"
  gen3_plus → "b" "c"
  gen3_plus → "a"
  start → gen1_star x y
  x → gen1_star
  y → gen2_opt gen3_plus
def: "a" "a" regex=false at <nil>
def: "b" "b" regex=false at <nil>
def: "c" "c" regex=false at <nil>
`,
	// 16
	`name: g
terminals: "a" "b" "c" "d"
nonterminals: gen1_plus gen2_opt gen3_group gen4_plus gen_gen1_plus_plus gen_gen2_opt_opt gen_gen3_group_group gen_gen4_plus_star gen_gen_gen1_plus_plus_plus gen_gen_gen2_opt_opt_opt gen_gen_gen3_group_group_group start
  gen1_plus → gen1_plus "a"
  gen1_plus → "a"
  gen2_opt → "b"
  gen2_opt → ε
  gen3_group → "c"
  gen4_plus → gen4_plus "d"
  gen4_plus → "d"
  gen_gen1_plus_plus → gen_gen1_plus_plus gen1_plus
  gen_gen1_plus_plus → gen1_plus
  gen_gen2_opt_opt → gen2_opt
  gen_gen2_opt_opt → ε
  gen_gen3_group_group → gen3_group
  gen_gen4_plus_star → gen_gen4_plus_star gen4_plus
  gen_gen4_plus_star → ε
  gen_gen_gen1_plus_plus_plus → gen_gen_gen1_plus_plus_plus gen_gen1_plus_plus
  gen_gen_gen1_plus_plus_plus → gen_gen1_plus_plus
  gen_gen_gen2_opt_opt_opt → gen_gen2_opt_opt
  gen_gen_gen2_opt_opt_opt → ε
  gen_gen_gen3_group_group_group → gen_gen3_group_group
  start → gen_gen_gen1_plus_plus_plus gen_gen_gen2_opt_opt_opt gen_gen_gen3_group_group_group gen_gen4_plus_star
def: "a" "a" regex=false at <nil>
def: "b" "b" regex=false at <nil>
def: "c" "c" regex=false at <nil>
def: "d" "d" regex=false at <nil>
`,
	// 17
	`name: g
terminals: "a" "b" "c" "d" "e"
nonterminals: gen1_group gen2_group gen3_group start
  gen1_group → "a"
  gen1_group → "b"
  gen1_group → ε
  gen2_group → "c"
  gen2_group → ε
  gen3_group → "d"
  gen3_group → "e"
  start → gen1_group gen2_group gen3_group
def: "a" "a" regex=false at <nil>
def: "b" "b" regex=false at <nil>
def: "c" "c" regex=false at <nil>
def: "d" "d" regex=false at <nil>
def: "e" "e" regex=false at <nil>
`,
	// 18
	`name: g
terminals: "QQ" "\"" "\"\"" "\\" "\\\\" "a\\b" "q"
nonterminals: gen1_group gen2_plus gen_backslash_star gen_dquot_opt start
  gen1_group → "\"\""
  gen1_group → "a\\b"
  gen2_plus → gen2_plus "\\"
  gen2_plus → gen2_plus "\\\\"
  gen2_plus → "\\"
  gen2_plus → "\\\\"
  gen_backslash_star → gen_backslash_star "\\"
  gen_backslash_star → ε
  gen_dquot_opt → "\""
  gen_dquot_opt → ε
  start → gen_backslash_star gen_dquot_opt gen1_group "q" "QQ" gen2_plus
def: "\"" "\"" regex=false at <nil>
def: "\\" "\\" regex=false at <nil>
def: "q" "q" regex=false at <nil>
def: "\"\"" "\"\"" regex=false at <nil>
def: "QQ" "q\"q" regex=false at demo:1:12
def: "\\\\" "\\\\" regex=false at <nil>
def: "a\\b" "a\\b" regex=false at <nil>
`,
}
