package golang

import (
	"bytes"
	"encoding/json"
	"fmt"
	"os"
	"os/exec"
	"path/filepath"
	"reflect"
	"strings"
	"testing"

	"github.com/gardenbed/charm/ui"

	"github.com/gardenbed/emerge/internal/ebnf/parser/spec"
)

// The driver is compiled together with the emitted lexer package.
// It tokenises every input file twice (whole reads and one-byte reads) and prints the token streams as JSON.
const refactorDemoDriver = `package main

import (
	"bytes"
	"encoding/json"
	"fmt"
	"io"
	"os"
	"testing/iotest"

	"demo/lx"
)

func run(src io.Reader) []string {
	out := []string{}

	l, err := lx.New("f", src)
	if err != nil {
		return append(out, "NEW "+err.Error())
	}

	for errs := 0; errs < 3; {
		tok, err := l.NextToken()
		if err == io.EOF {
			return append(out, "EOF")
		}

		if err != nil {
			errs++
			if !tok.Equal(lx.Token{}) {
				out = append(out, "TOKEN WITH ERROR")
			}
			out = append(out, "E "+err.Error())
			continue
		}

		if tok.Pos.Filename != "f" {
			out = append(out, "BAD FILENAME")
		}

		out = append(out, fmt.Sprintf("%s %q @%d:%d:%d", tok.Terminal.Name(), tok.Lexeme, tok.Pos.Offset, tok.Pos.Line, tok.Pos.Column))
	}

	return append(out, "STOP")
}

func main() {
	var all [][2][]string

	for _, name := range os.Args[1:] {
		b, err := os.ReadFile(name)
		if err != nil {
			panic(err)
		}

		all = append(all, [2][]string{
			run(bytes.NewReader(b)),
			run(iotest.OneByteReader(bytes.NewReader(b))),
		})
	}

	if err := json.NewEncoder(os.Stdout).Encode(all); err != nil {
		panic(err)
	}
}
`

func TestRefactorDemo_EmittedLexer(t *testing.T) {
	if _, err := exec.LookPath("go"); err != nil {
		t.Skip("go toolchain not found")
	}

	root := t.TempDir()

	g := &generator{
		UI: ui.NewNop(),
		Params: &Params{
			Path: root,
			Spec: &spec.Spec{
				Name: "lx",
				Definitions: []*spec.TerminalDef{
					{Terminal: "ID", Value: "[A-Za-z_][0-9A-Za-z_]*", IsRegex: true},
					{Terminal: "NUM", Value: "[0-9]+", IsRegex: true},
					{Terminal: "IF", Value: "if"},
					{Terminal: "ASSIGN", Value: "="},
					{Terminal: "EQ", Value: "=="},
					{Terminal: "SPACESHIP", Value: "<=>"},
					{Terminal: "ACCENT", Value: "é"},
					{Terminal: "ARROW", Value: "→"},
					{Terminal: "GRIN", Value: "😀"},
					{Terminal: "EOL", Value: "\n"},
					{Terminal: "WS", Value: "~+", IsRegex: true},
					{Terminal: "COMMENT", Value: "#[a-z ]*", IsRegex: true},
				},
			},
		},
	}

	if err := g.prepare(); err != nil {
		t.Fatal(err)
	}
	if err := g.generateCore(); err != nil {
		t.Fatal(err)
	}
	if err := g.generateLexer(); err != nil {
		t.Fatal(err)
	}

	write := func(name, content string) string {
		path := filepath.Join(root, name)
		if err := os.WriteFile(path, []byte(content), 0o644); err != nil {
			t.Fatal(err)
		}
		return path
	}

	write("go.mod", "module demo\n\ngo 1.24\n")
	write("main.go", refactorDemoDriver)

	tok := func(term, lexeme string, offset, line, column int) string {
		return fmt.Sprintf("%s %q @%d:%d:%d", term, lexeme, offset, line, column)
	}

	const lexErr = "E lexical error at f:"

	as4095 := strings.Repeat("a", 4095)
	sevens := strings.Repeat("7", 4000)

	// 3000 identifiers in 9000 bytes: the forward pointer wraps around the two halves of the buffer.
	var wrapped []string
	for k := 0; k < 3000; k++ {
		wrapped = append(wrapped, tok("ID", "ab", 3*k, 1, 3*k+1))
	}
	wrapped = append(wrapped, "EOF")

	// Lines of 8 bytes, 512 lines fill one half of the buffer exactly, 1024 lines fill the buffer exactly.
	lines := func(n int) []string {
		var out []string
		for k := 0; k < n; k++ {
			out = append(out, tok("ID", "abcdefg", 8*k, k+1, 1))
		}
		return append(out, "EOF")
	}

	tests := []struct {
		name     string
		input    string
		expected []string
	}{
		// An empty input is reported as the end of the input by New already.
		{"Empty", "", []string{"NEW EOF"}},
		{"OnlyBlanks", " \t\r\n \n", []string{"EOF"}},
		{"OneToken", "abc", []string{tok("ID", "abc", 0, 1, 1), "EOF"}},
		{"OneTokenNewline", "abc\n", []string{tok("ID", "abc", 0, 1, 1), "EOF"}},
		{"KeywordAndLongestMatch", "if iff x1 42", []string{
			tok("IF", "if", 0, 1, 1), tok("ID", "iff", 3, 1, 4), tok("ID", "x1", 7, 1, 8), tok("NUM", "42", 10, 1, 11), "EOF",
		}},
		{"Adjacent", "a==b=c===", []string{
			tok("ID", "a", 0, 1, 1), tok("EQ", "==", 1, 1, 2), tok("ID", "b", 3, 1, 4), tok("ASSIGN", "=", 4, 1, 5),
			tok("ID", "c", 5, 1, 6), tok("EQ", "==", 6, 1, 7), tok("ASSIGN", "=", 8, 1, 9), "EOF",
		}},
		{"ThreeRunes", "a<=>b", []string{
			tok("ID", "a", 0, 1, 1), tok("SPACESHIP", "<=>", 1, 1, 2), tok("ID", "b", 4, 1, 5), "EOF",
		}},
		{"NotAccepting", "a<=b", []string{
			tok("ID", "a", 0, 1, 1), lexErr + "1:2:<=", tok("ID", "b", 3, 1, 4), "EOF",
		}},
		{"NotAcceptingAtEnd", "a <", []string{tok("ID", "a", 0, 1, 1), lexErr + "1:3:<", "EOF"}},
		{"NoTokenStartsHere", "$", []string{lexErr + "1:1:", lexErr + "1:1:", lexErr + "1:1:", "STOP"}},
		{"NoTokenStartsHereLater", "ab\n $", []string{
			tok("ID", "ab", 0, 1, 1), lexErr + "2:2:", lexErr + "2:2:", lexErr + "2:2:", "STOP",
		}},
		{"Skipped", "x → y\r\n\tz # note\nw~~~v#", []string{
			tok("ID", "x", 0, 1, 1), tok("ARROW", "→", 2, 1, 3), tok("ID", "y", 4, 1, 5),
			tok("ID", "z", 8, 2, 2), tok("ID", "w", 17, 3, 1), tok("ID", "v", 21, 3, 5), "EOF",
		}},
		{"Lines", "a\nb\n\nc", []string{tok("ID", "a", 0, 1, 1), tok("ID", "b", 2, 2, 1), tok("ID", "c", 5, 4, 1), "EOF"}},
		{"RuneSizes", "é😀→x", []string{
			tok("ACCENT", "é", 0, 1, 1), tok("GRIN", "😀", 1, 1, 2), tok("ARROW", "→", 2, 1, 3), tok("ID", "x", 3, 1, 4), "EOF",
		}},
		{"InvalidUTF8", "a\xffb", []string{"E f:1:2: invalid utf-8 character", tok("ID", "a\xffb", 0, 1, 1), "EOF"}},
		{"AcrossHalves", as4095 + "==" + sevens + "\n", []string{
			tok("ID", as4095, 0, 1, 1), tok("EQ", "==", 4095, 1, 4096), tok("NUM", sevens, 4097, 1, 4098), "EOF",
		}},
		{"RetractAcrossHalves", as4095[:4094] + "→=", []string{
			tok("ID", as4095[:4094], 0, 1, 1), tok("ARROW", "→", 4094, 1, 4095), tok("ASSIGN", "=", 4095, 1, 4096), "EOF",
		}},
		{"Wrapped", strings.Repeat("ab ", 3000), wrapped},
		{"ExactlyOneHalf", strings.Repeat("abcdefg\n", 512), lines(512)},
		{"ExactlyOneHalfNoNewline", strings.TrimSuffix(strings.Repeat("abcdefg\n", 512), "\n"), lines(512)},
		{"ExactlyTwoHalves", strings.Repeat("abcdefg\n", 1024), lines(1024)},
		{"MoreThanTwoHalves", strings.Repeat("abcdefg\n", 1500), lines(1500)},
	}

	args := []string{"run", "."}
	for i, tc := range tests {
		args = append(args, write(fmt.Sprintf("in_%02d", i), tc.input))
	}

	var stdout, stderr bytes.Buffer
	cmd := exec.Command("go", args...)
	cmd.Dir = root
	cmd.Env = append(os.Environ(), "GOFLAGS=-mod=mod", "GOPROXY=off", "GOWORK=off")
	cmd.Stdout, cmd.Stderr = &stdout, &stderr
	if err := cmd.Run(); err != nil {
		t.Fatalf("the emitted lexer does not compile or run: %s\n%s", err, stderr.String())
	}

	var all [][2][]string
	if err := json.Unmarshal(stdout.Bytes(), &all); err != nil {
		t.Fatal(err)
	}

	if len(all) != len(tests) {
		t.Fatalf("expected %d results, got %d", len(tests), len(all))
	}

	for i, tc := range tests {
		t.Run(tc.name, func(t *testing.T) {
			for mode, got := range all[i] {
				if reflect.DeepEqual(tc.expected, got) {
					continue
				}

				k := 0
				for k < len(got) && k < len(tc.expected) && got[k] == tc.expected[k] {
					k++
				}

				exp, act := "nothing", "nothing"
				if k < len(tc.expected) {
					exp = tc.expected[k]
				}
				if k < len(got) {
					act = got[k]
				}

				t.Errorf("mode %d: %d items expected, got %d; item %d: expected %.80s, got %.80s", mode, len(tc.expected), len(got), k, exp, act)
			}
		})
	}
}
