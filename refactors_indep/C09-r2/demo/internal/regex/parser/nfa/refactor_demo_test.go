package nfa

import (
	"fmt"
	"strings"
	"testing"

	auto "github.com/moorara/algo/automata"
	comb "github.com/moorara/algo/parser/combinator"
)

// This file characterizes the behaviour of the pattern front end (Parse and the mappers it is built from).
// Every expectation is a concrete value; the file passes unchanged before and after the refactoring.

func demoString(s string) auto.String {
	str := auto.String{}
	for _, r := range s {
		str = append(str, auto.Symbol(r))
	}
	return str
}

func demoIntPtr(v int) *int {
	return &v
}

// TestRefactorDemo_Parse pins, for a number of patterns, either the exact error or the language of the result.
func TestRefactorDemo_Parse(t *testing.T) {
	tests := []struct {
		regex   string
		err     string   // exact error text; empty if the pattern is accepted
		accepts []string // strings in the language of an accepted pattern
		rejects []string // strings not in the language of an accepted pattern
	}{
		// The whole text must be a sentence of the grammar.
		{regex: ``, err: "invalid regular expression: "},
		{regex: `[`, err: "invalid regular expression: ["},
		{regex: `]`, err: "invalid regular expression: ]"},
		{regex: `a)`, err: "invalid regular expression: a)"},
		{regex: `(a`, err: "invalid regular expression: (a"},
		{regex: `()`, err: "invalid regular expression: ()"},
		{regex: `a|`, err: "invalid regular expression: a|"},
		{regex: `|a`, err: "invalid regular expression: |a"},
		{regex: `*a`, err: "invalid regular expression: *a"},
		{regex: `a**`, err: "invalid regular expression: a**"},
		{regex: `a{`, err: "invalid regular expression: a{"},
		{regex: `a{}`, err: "invalid regular expression: a{}"},
		{regex: `a{,3}`, err: "invalid regular expression: a{,3}"},
		{regex: `a{2`, err: "invalid regular expression: a{2"},
		{regex: `a{2,3`, err: "invalid regular expression: a{2,3"},
		{regex: `a{2,3}}`, err: "invalid regular expression: a{2,3}}"},
		{regex: `[]`, err: "invalid regular expression: []"},
		{regex: `[^]`, err: "invalid regular expression: [^]"},
		{regex: `[a-z`, err: "invalid regular expression: [a-z"},
		{regex: `[a-z]]`, err: "invalid regular expression: [a-z]]"},
		{regex: `\q`, err: `invalid regular expression: \q`},
		{regex: `\`, err: `invalid regular expression: \`},
		{regex: `\x4`, err: `invalid regular expression: \x4`},
		{regex: `\xag`, err: `invalid regular expression: \xag`},
		{regex: `\p{Foo}`, err: `invalid regular expression: \p{Foo}`},
		{regex: `\p{Lu`, err: `invalid regular expression: \p{Lu`},
		{regex: `[:digit:`, err: `invalid regular expression: [:digit:`},
		{regex: `[:nope:]x)`, err: `invalid regular expression: [:nope:]x)`},
		{regex: "a\tb", err: "invalid regular expression: a\tb"},
		{regex: "é", err: "invalid regular expression: é"},
		{regex: `ab(c|d))`, err: `invalid regular expression: ab(c|d))`},

		// Grammatical, but meaningless.
		{regex: `[9-0]`, err: "invalid character range 9-0"},
		{regex: `[z-a]`, err: "invalid character range z-a"},
		{regex: `[a-c9-0]`, err: "invalid character range 9-0"},
		{regex: `[\x7A-\x61]`, err: "invalid character range z-a"},
		{regex: `a{4,2}`, err: "invalid repetition range {4,2}"},
		{regex: `a{1,0}`, err: "invalid repetition range {1,0}"},
		{regex: `(ab){10,9}?`, err: "invalid repetition range {10,9}"},
		{regex: `[0-9]{4,2}`, err: "invalid repetition range {4,2}"},
		{regex: `[9-0]{4,2}`, err: "invalid character range 9-0\ninvalid repetition range {4,2}"},
		{regex: `[9-0][z-a]`, err: "invalid character range 9-0\ninvalid character range z-a"},
		{regex: `a{2,1}b{3,2}`, err: "invalid repetition range {2,1}\ninvalid repetition range {3,2}"},
		{regex: `[\x0100]`, err: "unsupported non-ASCII character in character group"},
		{regex: `[a\x0100-\x0101]`, err: "unsupported non-ASCII character in character group"},
		{regex: `[^\x0100]`, err: "unsupported non-ASCII character in character group"},
		{regex: `[\x0101-\x0100]`, err: "invalid character range ā-Ā"},

		// The documented constructs in their unambiguous forms.
		{regex: `a`, accepts: []string{"a"}, rejects: []string{"", "b", "aa"}},
		{regex: `abc`, accepts: []string{"abc"}, rejects: []string{"ab", "abcd"}},
		{regex: `a|b`, accepts: []string{"a", "b"}, rejects: []string{"", "ab"}},
		{regex: `a|b|cd`, accepts: []string{"a", "b", "cd"}, rejects: []string{"c", "d", "bcd"}},
		{regex: `.`, accepts: []string{"a", " ", "\x01", "\x7f"}, rejects: []string{"ab", "é", "\u0080"}},
		{regex: `a?`, accepts: []string{"", "a"}, rejects: []string{"aa"}},
		{regex: `a*`, accepts: []string{"", "a", "aaaa"}, rejects: []string{"b", "ab"}},
		{regex: `a+`, accepts: []string{"a", "aaa"}, rejects: []string{"", "b"}},
		{regex: `a??`, accepts: []string{"", "a"}, rejects: []string{"aa"}},
		{regex: `a*?`, accepts: []string{"", "aaa"}, rejects: []string{"b"}},
		{regex: `a+?`, accepts: []string{"a", "aa"}, rejects: []string{""}},
		{regex: `a{2}`, accepts: []string{"aa"}, rejects: []string{"", "a", "aaa"}},
		{regex: `a{0}`, accepts: []string{""}, rejects: []string{"a"}},
		{regex: `a{2,}`, accepts: []string{"aa", "aaaaa"}, rejects: []string{"", "a"}},
		{regex: `a{0,}`, accepts: []string{"", "a", "aaa"}, rejects: []string{"b"}},
		{regex: `a{2,4}`, accepts: []string{"aa", "aaa", "aaaa"}, rejects: []string{"a", "aaaaa"}},
		{regex: `a{2,2}`, accepts: []string{"aa"}, rejects: []string{"a", "aaa"}},
		{regex: `a{0,0}`, accepts: []string{""}, rejects: []string{"a"}},
		{regex: `a{2,4}?`, accepts: []string{"aa", "aaaa"}, rejects: []string{"a", "aaaaa"}},
		{regex: `(ab)`, accepts: []string{"ab"}, rejects: []string{"", "a"}},
		{regex: `(ab)*`, accepts: []string{"", "ab", "abab"}, rejects: []string{"a", "aba"}},
		{regex: `(ab)+?c`, accepts: []string{"abc", "ababc"}, rejects: []string{"c", "ab"}},
		{regex: `(a|b){2,3}`, accepts: []string{"ab", "bab"}, rejects: []string{"a", "abab"}},
		{regex: `((a))`, accepts: []string{"a"}, rejects: []string{""}},
		{regex: `[abc]`, accepts: []string{"a", "b", "c"}, rejects: []string{"", "d", "ab"}},
		{regex: `[^abc]`, accepts: []string{"d", "\x01", "\x7f"}, rejects: []string{"a", "b", "c", "dd"}},
		{regex: `[a-c]`, accepts: []string{"a", "b", "c"}, rejects: []string{"d", "`"}},
		{regex: `[a-a]`, accepts: []string{"a"}, rejects: []string{"b"}},
		{regex: `[^a-c]`, accepts: []string{"d", "A"}, rejects: []string{"a", "b", "c"}},
		{regex: `[0-9A-Fa-f-]`, accepts: []string{"0", "9", "A", "F", "a", "f", "-"}, rejects: []string{"g", "G", "+"}},
		{regex: `[\x41-\x43]`, accepts: []string{"A", "B", "C"}, rejects: []string{"D", "@"}},
		{regex: `[\x0041-\x0043]`, accepts: []string{"A", "B", "C"}, rejects: []string{"D"}},
		{regex: `[\d_]+`, accepts: []string{"0", "_", "4_2"}, rejects: []string{"", "a"}},
		{regex: `[^\w]`, accepts: []string{"-", " "}, rejects: []string{"a", "Z", "0", "_"}},
		{regex: `[[:digit:]x]`, accepts: []string{"5", "x"}, rejects: []string{"y"}},
		{regex: `[\]\[]`, accepts: []string{"]", "["}, rejects: []string{"\\"}},
		{regex: `\d`, accepts: []string{"0", "9"}, rejects: []string{"a", ""}},
		{regex: `\D`, accepts: []string{"a", " "}, rejects: []string{"0", "9"}},
		{regex: `\s`, accepts: []string{" ", "\t", "\n"}, rejects: []string{"a"}},
		{regex: `\S`, accepts: []string{"a"}, rejects: []string{" ", "\t"}},
		{regex: `\w`, accepts: []string{"a", "Z", "0", "_"}, rejects: []string{"-"}},
		{regex: `\W`, accepts: []string{"-"}, rejects: []string{"a", "_"}},
		{regex: `[:alpha:]`, accepts: []string{"a", "Z"}, rejects: []string{"0"}},
		{regex: `[:xdigit:]{2}`, accepts: []string{"0f", "AB"}, rejects: []string{"0g", "0"}},
		{regex: `\p{Lu}`, accepts: []string{"A", "Z"}, rejects: []string{"a", "0"}},
		{regex: `\x41`, accepts: []string{"A"}, rejects: []string{"B"}},
		{regex: `\x0041`, accepts: []string{"A"}, rejects: []string{"B"}},
		{regex: `\x00E9`, accepts: []string{"é"}, rejects: []string{"e"}},
		{regex: `\.\*\+\?\(\)\[\]\{\}\|\$\\`, accepts: []string{`.*+?()[]{}|$\`}, rejects: []string{"a"}},
		{regex: `a^`, accepts: []string{"a^"}, rejects: []string{"a", "^"}}, // only a leading ^ is an anchor
		{regex: `^a`, accepts: []string{"a"}, rejects: []string{"^a"}},
		{regex: `a$`, accepts: []string{"a"}, rejects: []string{"a$"}},
		{regex: `^a$`, accepts: []string{"a"}, rejects: []string{""}},
		{regex: `a-b`, accepts: []string{"a-b"}, rejects: []string{"a", "b"}},
		{regex: `a,b`, accepts: []string{"a,b"}, rejects: []string{"ab"}},
		{regex: `^[A-Z]?[a-z][0-9A-Za-z]{1,}$`, accepts: []string{"Ab1", "xy", "Zz9z"}, rejects: []string{"A", "AB1", "a"}},
		{regex: `"([^\\"]|\\[\\"'tnr])*"`, accepts: []string{`""`, `"ab"`, `"a\"b"`, `"\n"`}, rejects: []string{`"`, `"a"b"`, `"\q"`}},
	}

	for _, tc := range tests {
		t.Run(tc.regex, func(t *testing.T) {
			nfa, err := Parse(tc.regex)

			if tc.err != "" {
				if nfa != nil {
					t.Errorf("Parse(%q): expected no NFA", tc.regex)
				}
				if err == nil || err.Error() != tc.err {
					t.Fatalf("Parse(%q): expected error %q, got %v", tc.regex, tc.err, err)
				}
				return
			}

			if err != nil || nfa == nil {
				t.Fatalf("Parse(%q): expected to be accepted, got %v", tc.regex, err)
			}
			for _, s := range tc.accepts {
				if !nfa.Accept(demoString(s)) {
					t.Errorf("Parse(%q): expected %q in the language", tc.regex, s)
				}
			}
			for _, s := range tc.rejects {
				if nfa.Accept(demoString(s)) {
					t.Errorf("Parse(%q): expected %q not in the language", tc.regex, s)
				}
			}
		})
	}
}

// TestRefactorDemo_SuffixNeverIgnored appends text that cannot continue a pattern to valid patterns.
func TestRefactorDemo_SuffixNeverIgnored(t *testing.T) {
	valids := []string{`a`, `a*`, `a{2,3}`, `(a|b)`, `[a-z]+`, `\d`, `[:alpha:]`, `\p{Lu}?`, `^a$`}
	suffixes := []string{`)`, `]`, `}`, `|`, `(`, `[`, `\`, "\n", "é", `{2,1`, `**`, `\y`}

	for _, v := range valids {
		if _, err := Parse(v); err != nil {
			t.Fatalf("Parse(%q): expected to be accepted, got %v", v, err)
		}

		for _, s := range suffixes {
			regex := v + s

			nfa, err := Parse(regex)
			if nfa != nil || err == nil || err.Error() != "invalid regular expression: "+regex {
				t.Errorf("Parse(%q): expected to be rejected as a whole, got %v", regex, err)
			}
		}
	}
}

// TestRefactorDemo_ToRange calls the mapper directly with every form of upper bound.
func TestRefactorDemo_ToRange(t *testing.T) {
	tests := []struct {
		low   int
		bound any
		up    *int
		err   string
	}{
		{low: 0, bound: comb.Empty{}, up: demoIntPtr(0)},
		{low: 3, bound: comb.Empty{}, up: demoIntPtr(3)},
		{low: 3, bound: nil, up: demoIntPtr(3)},
		{low: 3, bound: 7, up: demoIntPtr(3)}, // an int is not an upper bound
		{low: 3, bound: (*int)(nil), up: nil},
		{low: 0, bound: (*int)(nil), up: nil},
		{low: 3, bound: demoIntPtr(3), up: demoIntPtr(3)},
		{low: 3, bound: demoIntPtr(4), up: demoIntPtr(4)},
		{low: 0, bound: demoIntPtr(0), up: demoIntPtr(0)},
		{low: 3, bound: demoIntPtr(2), up: demoIntPtr(2), err: "invalid repetition range {3,2}"},
		{low: 1, bound: demoIntPtr(0), up: demoIntPtr(0), err: "invalid repetition range {1,0}"},
		{low: 100, bound: demoIntPtr(99), up: demoIntPtr(99), err: "invalid repetition range {100,99}"},
	}

	for i, tc := range tests {
		t.Run(fmt.Sprint(i), func(t *testing.T) {
			m := new(mappers)
			res, ok := m.ToRange(comb.Result{
				Val: comb.List{
					{Val: '{', Pos: 5},
					{Val: tc.low, Pos: 6},
					{Val: tc.bound, Pos: 7},
					{Val: '}', Pos: 9},
				},
				Pos: 5,
			})

			if !ok || res.Pos != 5 || res.Bag != nil {
				t.Fatalf("unexpected result %v %t", res, ok)
			}

			rng, isRange := res.Val.(tuple[int, *int])
			if !isRange || rng.p != tc.low {
				t.Fatalf("unexpected value %v", res.Val)
			}
			if (rng.q == nil) != (tc.up == nil) || (rng.q != nil && *rng.q != *tc.up) {
				t.Errorf("unexpected upper bound %v", rng.q)
			}

			if tc.err == "" && m.errors != nil {
				t.Errorf("unexpected error %v", m.errors)
			}
			if tc.err != "" && (m.errors == nil || m.errors.Error() != tc.err) {
				t.Errorf("expected error %q, got %v", tc.err, m.errors)
			}
		})
	}

	// Errors accumulate in the order in which they are found.
	m := new(mappers)
	for _, low := range []int{5, 1, 9} {
		m.ToRange(comb.Result{Val: comb.List{{Val: '{'}, {Val: low}, {Val: demoIntPtr(4)}, {Val: '}'}}})
	}
	m.ToCharRange(comb.Result{Val: comb.List{{Val: 'b'}, {Val: '-'}, {Val: 'a'}}})
	expected := "invalid repetition range {5,4}\ninvalid repetition range {9,4}\ninvalid character range b-a"
	if m.errors == nil || m.errors.Error() != expected {
		t.Errorf("expected error %q, got %v", expected, m.errors)
	}
}

// TestRefactorDemo_ToCharGroup calls the mapper directly, including with characters outside of the supported set.
func TestRefactorDemo_ToCharGroup(t *testing.T) {
	tests := []struct {
		name    string
		neg     bool
		items   comb.List
		symbols string // the symbols of the resulting NFA, if fewer than all
		count   int    // the number of symbols of the resulting NFA (the automata package does not count symbol 0)
		in      string // some characters in the group
		out     string // some characters not in the group
		err     string
	}{
		{name: "Plain", items: comb.List{{Bag: comb.Bag{bagKeyChars: []rune{'a', 'c'}}}, {Bag: comb.Bag{bagKeyChars: []rune{'b', 'a'}}}}, symbols: "abc", count: 3, in: "abc", out: "d`"},
		{name: "Negated", neg: true, items: comb.List{{Bag: comb.Bag{bagKeyChars: []rune{'a', 'c'}}}}, count: 125, in: "bd\x01\x7f", out: "ac"},
		{name: "NoBag", items: comb.List{{Val: 'x'}}, symbols: "", count: 0, out: "xa"},
		{name: "NoBagNegated", neg: true, items: comb.List{{Val: 'x'}}, count: 127, in: "xa\x01\x7f"},
		{name: "OtherBag", items: comb.List{{Bag: comb.Bag{bagKeyChars: "ab"}}, {Bag: comb.Bag{bagKeyLazyQuantifier: true}}}, symbols: "", count: 0, out: "ab"},
		{name: "Bounds", items: comb.List{{Bag: comb.Bag{bagKeyChars: []rune{0, 127}}}}, symbols: "\x7f", count: 1, in: "\x7f", out: "\x01\x7e"},
		{name: "TooLarge", items: comb.List{{Bag: comb.Bag{bagKeyChars: []rune{'a', 128, 'b'}}}}, symbols: "ab", count: 2, in: "ab", out: "c\u0080",
			err: "unsupported non-ASCII character in character group"},
		{name: "Negative", items: comb.List{{Bag: comb.Bag{bagKeyChars: []rune{-1}}}, {Bag: comb.Bag{bagKeyChars: []rune{'z'}}}}, symbols: "z", count: 1, in: "z", out: "y",
			err: "unsupported non-ASCII character in character group"},
		{name: "TooLargeTwiceNegated", neg: true, items: comb.List{{Bag: comb.Bag{bagKeyChars: []rune{0x100, 'a'}}}, {Bag: comb.Bag{bagKeyChars: []rune{0x10FFFF}}}}, count: 126, in: "bz\x01", out: "a\u0100",
			err: "unsupported non-ASCII character in character group"},
	}

	for _, tc := range tests {
		t.Run(tc.name, func(t *testing.T) {
			var neg any = comb.Empty{}
			if tc.neg {
				neg = '^'
			}

			m := new(mappers)
			res, ok := m.ToCharGroup(comb.Result{
				Val: comb.List{
					{Val: '[', Pos: 3},
					{Val: neg, Pos: 4},
					{Val: tc.items, Pos: 5},
					{Val: ']', Pos: 8},
				},
				Pos: 3,
			})

			if !ok || res.Pos != 3 || res.Bag != nil {
				t.Fatalf("unexpected result %v %t", res, ok)
			}

			nfa := res.Val.(*auto.NFA)
			if n := len(nfa.Symbols()); n != tc.count {
				t.Errorf("expected %d symbols, got %d", tc.count, n)
			}
			for _, a := range nfa.Symbols() {
				if !nfa.Accept(auto.String{a}) {
					t.Errorf("expected %q to be accepted", rune(a))
				}
				if tc.count < 100 && !strings.ContainsRune(tc.symbols, rune(a)) {
					t.Errorf("unexpected symbol %q", rune(a))
				}
			}
			for _, c := range tc.in {
				if !nfa.Accept(demoString(string(c))) {
					t.Errorf("expected %q in the group", c)
				}
			}
			for _, c := range tc.out {
				if nfa.Accept(demoString(string(c))) {
					t.Errorf("expected %q not in the group", c)
				}
			}

			if tc.err == "" && m.errors != nil {
				t.Errorf("unexpected error %v", m.errors)
			}
			if tc.err != "" && (m.errors == nil || m.errors.Error() != tc.err) {
				t.Errorf("expected error %q, got %v", tc.err, m.errors)
			}
		})
	}
}

// TestRefactorDemo_ToMatchAndToGroup calls the two mappers that apply an optional quantifier.
func TestRefactorDemo_ToMatchAndToGroup(t *testing.T) {
	tests := []struct {
		name       string
		quantifier any
		lazy       bool
		accepts    []string
		rejects    []string
	}{
		{name: "None", quantifier: comb.Empty{}, accepts: []string{"a"}, rejects: []string{"", "aa"}},
		{name: "Nil", quantifier: nil, accepts: []string{"a"}, rejects: []string{"", "aa"}},
		{name: "Rune", quantifier: '*', accepts: []string{"a"}, rejects: []string{"", "aa"}}, // not a quantifier
		{name: "Opt", quantifier: tuple[any, bool]{p: '?'}, accepts: []string{"", "a"}, rejects: []string{"aa"}},
		{name: "Star", quantifier: tuple[any, bool]{p: '*'}, accepts: []string{"", "a", "aaa"}, rejects: []string{"b"}},
		{name: "Plus", quantifier: tuple[any, bool]{p: '+'}, accepts: []string{"a", "aaa"}, rejects: []string{""}},
		{name: "LazyOpt", quantifier: tuple[any, bool]{p: '?', q: true}, lazy: true, accepts: []string{"", "a"}, rejects: []string{"aa"}},
		{name: "LazyStar", quantifier: tuple[any, bool]{p: '*', q: true}, lazy: true, accepts: []string{"", "aa"}, rejects: []string{"b"}},
		{name: "LazyPlus", quantifier: tuple[any, bool]{p: '+', q: true}, lazy: true, accepts: []string{"a", "aa"}, rejects: []string{""}},
		{name: "Fixed", quantifier: tuple[any, bool]{p: tuple[int, *int]{p: 2, q: demoIntPtr(2)}}, accepts: []string{"aa"}, rejects: []string{"a", "aaa"}},
		{name: "Unbounded", quantifier: tuple[any, bool]{p: tuple[int, *int]{p: 1, q: nil}}, accepts: []string{"a", "aaaa"}, rejects: []string{""}},
		{name: "Bounded", quantifier: tuple[any, bool]{p: tuple[int, *int]{p: 1, q: demoIntPtr(3)}}, accepts: []string{"a", "aaa"}, rejects: []string{"", "aaaa"}},
		{name: "LazyBounded", quantifier: tuple[any, bool]{p: tuple[int, *int]{p: 0, q: demoIntPtr(1)}, q: true}, lazy: true, accepts: []string{"", "a"}, rejects: []string{"aa"}},
		{name: "Meaningless", quantifier: tuple[any, bool]{p: tuple[int, *int]{p: 2, q: demoIntPtr(1)}}, accepts: []string{"aa"}, rejects: []string{"a", "aaa"}},
	}

	check := func(t *testing.T, res comb.Result, ok bool, pos int, lazy bool, accepts, rejects []string) {
		if !ok || res.Pos != pos {
			t.Fatalf("unexpected result %v %t", res, ok)
		}

		if !lazy && res.Bag != nil {
			t.Errorf("expected a nil bag, got %v", res.Bag)
		}
		if lazy && (len(res.Bag) != 1 || res.Bag[bagKeyLazyQuantifier] != true) {
			t.Errorf("expected a bag with the lazy quantifier only, got %v", res.Bag)
		}

		nfa := res.Val.(*auto.NFA)
		for _, s := range accepts {
			if !nfa.Accept(demoString(s)) {
				t.Errorf("expected %q in the language", s)
			}
		}
		for _, s := range rejects {
			if nfa.Accept(demoString(s)) {
				t.Errorf("expected %q not in the language", s)
			}
		}
	}

	for _, tc := range tests {
		t.Run(tc.name, func(t *testing.T) {
			m := new(mappers)

			res, ok := m.ToMatch(comb.Result{
				Val: comb.List{
					{Val: runeToNFA('a'), Pos: 4},
					{Val: tc.quantifier, Pos: 5},
				},
				Pos: 4,
			})
			check(t, res, ok, 4, tc.lazy, tc.accepts, tc.rejects)

			res, ok = m.ToGroup(comb.Result{
				Val: comb.List{
					{Val: '(', Pos: 2},
					{Val: runeToNFA('a'), Pos: 3},
					{Val: ')', Pos: 4},
					{Val: tc.quantifier, Pos: 5},
				},
				Pos: 2,
			})
			check(t, res, ok, 2, tc.lazy, tc.accepts, tc.rejects)

			if m.errors != nil {
				t.Errorf("unexpected error %v", m.errors)
			}
		})
	}
}
