package ast

import (
	"testing"

	auto "github.com/moorara/algo/automata"
	comb "github.com/moorara/algo/parser/combinator"
	"github.com/stretchr/testify/assert"
)

// Characterization of the rune helpers (runesToAlt / runeRangesToAlt) and of the mappers that call them.
// Every expectation is written out concretely and independently of the code under test.

const (
	demoDigits = "0123456789"
	demoUpper  = "ABCDEFGHIJKLMNOPQRSTUVWXYZ"
	demoLower  = "abcdefghijklmnopqrstuvwxyz"
)

// demoASCIIExcept is the oracle for complements: the ASCII table in order without the given characters.
func demoASCIIExcept(excluded string) []rune {
	out := []rune{}
	for r := rune(0); r <= 0x7F; r++ {
		found := false
		for _, e := range excluded {
			found = found || e == r
		}
		if !found {
			out = append(out, r)
		}
	}
	return out
}

// demoAlt is the oracle for the node: an alternation with one Char (no position yet) per character.
// Without characters the alternation has no list of expressions at all.
func demoAlt(chars []rune) *Alt {
	alt := &Alt{}
	for _, c := range chars {
		alt.Exprs = append(alt.Exprs, &Char{Val: c})
	}
	return alt
}

func demoString(s string) auto.String {
	out := auto.String{}
	for _, r := range s {
		out = append(out, auto.Symbol(r))
	}
	return out
}

// demoCheck asserts the value, the position and the bag of a result.
func demoCheck(t *testing.T, res comb.Result, pos int, chars []rune) {
	t.Helper()

	got, ok := res.Val.(*Alt)
	if !assert.True(t, ok, "value must be an Alt") {
		return
	}

	assert.Equal(t, demoAlt(chars), got)
	assert.Equal(t, len(chars) == 0, got.Exprs == nil)
	assert.Equal(t, pos, res.Pos)
	assert.Len(t, res.Bag, 1)

	bag, ok := res.Bag[bagKeyChars].([]rune)
	assert.True(t, ok, "bag must hold a []rune")
	assert.NotNil(t, bag, "bag must never hold a nil slice")
	assert.Equal(t, chars, bag)

	// One node per character of the bag, in the same order, and no node shared between two characters.
	seen := map[*Char]bool{}
	for i, e := range got.Exprs {
		c := e.(*Char)
		assert.Equal(t, bag[i], c.Val)
		assert.False(t, seen[c])
		seen[c] = true
	}
}

func TestRefactorDemo_ToCharClass(t *testing.T) {
	space := " \t\n\r\f"
	word := demoDigits + demoUpper + "_" + demoLower

	tests := []struct {
		class string
		chars []rune
		count int
	}{
		{`\s`, []rune(space), 5},
		{`\S`, demoASCIIExcept(space), 123},
		{`\d`, []rune(demoDigits), 10},
		{`\D`, demoASCIIExcept(demoDigits), 118},
		{`\w`, []rune(word), 63},
		{`\W`, demoASCIIExcept(word), 65},
	}

	for _, tc := range tests {
		t.Run(tc.class, func(t *testing.T) {
			m := new(mappers)
			res, ok := m.ToCharClass(comb.Result{Val: tc.class, Pos: 7})
			assert.True(t, ok)
			assert.NoError(t, m.errors)
			assert.Len(t, tc.chars, tc.count)
			demoCheck(t, res, 7, tc.chars)
		})
	}

	for _, class := range []string{`\x`, `\b`, `s`, `\ſ`, `\K`, ``, `[:digit:]`, `ASCII`} {
		m := new(mappers)
		res, ok := m.ToCharClass(comb.Result{Val: class, Pos: 7})
		assert.False(t, ok, class)
		assert.Equal(t, comb.Result{}, res, class)
		assert.NoError(t, m.errors)
	}
}

func TestRefactorDemo_ToASCIICharClass(t *testing.T) {
	tests := []struct {
		class string
		chars string
	}{
		{`[:blank:]`, " \t"},
		{`[:space:]`, " \t\n\r\f\v"},
		{`[:digit:]`, demoDigits},
		{`[:xdigit:]`, demoDigits + "ABCDEF" + "abcdef"},
		{`[:upper:]`, demoUpper},
		{`[:lower:]`, demoLower},
		{`[:alpha:]`, demoUpper + demoLower},
		{`[:alnum:]`, demoDigits + demoUpper + demoLower},
		{`[:word:]`, demoDigits + demoUpper + "_" + demoLower},
	}

	for _, tc := range tests {
		t.Run(tc.class, func(t *testing.T) {
			m := new(mappers)
			res, ok := m.ToASCIICharClass(comb.Result{Val: tc.class, Pos: 3})
			assert.True(t, ok)
			assert.NoError(t, m.errors)
			demoCheck(t, res, 3, []rune(tc.chars))
		})
	}

	t.Run("[:ascii:]", func(t *testing.T) {
		m := new(mappers)
		res, ok := m.ToASCIICharClass(comb.Result{Val: `[:ascii:]`, Pos: 3})
		assert.True(t, ok)
		demoCheck(t, res, 3, demoASCIIExcept(""))
	})

	m := new(mappers)
	res, ok := m.ToASCIICharClass(comb.Result{Val: `[:nope:]`, Pos: 3})
	assert.False(t, ok)
	assert.Equal(t, comb.Result{}, res)
}

func TestRefactorDemo_ToUnicodeCharClass(t *testing.T) {
	tests := []struct {
		prop, class string
		chars       []rune
	}{
		{`\p`, "Lu", []rune(demoUpper)},
		{`\P`, "Lu", demoASCIIExcept(demoUpper)},
		{`\p`, "Ll", []rune(demoLower)},
		{`\P`, "Ll", demoASCIIExcept(demoLower)},
		{`\p`, "L", []rune(demoUpper + demoLower)},
		{`\P`, "L", demoASCIIExcept(demoUpper + demoLower)},
		{`\p`, "Letter", []rune(demoUpper + demoLower)},
		{`\P`, "Letter", demoASCIIExcept(demoUpper + demoLower)},
		// A category without ASCII members: nothing, respectively the whole table.
		{`\p`, "Lt", []rune{}},
		{`\P`, "Lt", demoASCIIExcept("")},
	}

	for _, tc := range tests {
		t.Run(tc.prop+"{"+tc.class+"}", func(t *testing.T) {
			m := new(mappers)
			res, ok := m.ToUnicodeCharClass(comb.Result{
				Val: comb.List{
					{Val: tc.prop, Pos: 2},
					{Val: '{', Pos: 4},
					{Val: tc.class, Pos: 5},
					{Val: '}', Pos: 11},
				},
				Pos: 2,
			})
			assert.True(t, ok)
			assert.NoError(t, m.errors)
			demoCheck(t, res, 2, tc.chars)
		})
	}

	m := new(mappers)
	res, ok := m.ToUnicodeCharClass(comb.Result{
		Val: comb.List{{Val: `\P`, Pos: 2}, {Val: '{', Pos: 4}, {Val: "Klingon", Pos: 5}, {Val: '}', Pos: 12}},
		Pos: 2,
	})
	assert.False(t, ok)
	assert.Equal(t, comb.Result{}, res)
}

func TestRefactorDemo_ToCharRange(t *testing.T) {
	tests := []struct {
		name    string
		low, up rune
		chars   []rune
		err     string
	}{
		{"a-f", 'a', 'f', []rune("abcdef"), ""},
		{"a-a", 'a', 'a', []rune("a"), ""},
		{"0-9", '0', '9', []rune(demoDigits), ""},
		{"NUL-TAB", 0, '\t', []rune{0, 1, 2, 3, 4, 5, 6, 7, 8, 9}, ""},
		{"x-DEL", 'x', 0x7F, []rune{'x', 'y', 'z', '{', '|', '}', '~', 0x7F}, ""},
		// Out of the table: one character past the end stands for all the unsupported ones.
		{"x-é", 'x', 'é', []rune{'x', 'y', 'z', '{', '|', '}', '~', 0x7F, 0x80}, ""},
		{"é-ÿ", 'é', 'ÿ', []rune{0x80}, ""},
		{"}-max", '}', 0x7FFFFFFF, []rune{'}', '~', 0x7F, 0x80}, ""},
		// Reversed ranges are reported and contribute nothing.
		{"f-a", 'f', 'a', []rune{}, "invalid character range f-a"},
		{"ÿ-a", 'ÿ', 'a', []rune{}, "invalid character range ÿ-a"},
	}

	for _, tc := range tests {
		t.Run(tc.name, func(t *testing.T) {
			m := new(mappers)
			res, ok := m.ToCharRange(comb.Result{
				Val: comb.List{{Val: tc.low, Pos: 4}, {Val: '-', Pos: 5}, {Val: tc.up, Pos: 6}},
				Pos: 4,
			})
			assert.True(t, ok)
			if tc.err == "" {
				assert.NoError(t, m.errors)
			} else {
				assert.EqualError(t, m.errors, tc.err)
			}
			demoCheck(t, res, 4, tc.chars)
		})
	}
}

func TestRefactorDemo_Helpers(t *testing.T) {
	check := func(n *Alt, chars, expected []rune) {
		t.Helper()
		assert.NotNil(t, chars)
		assert.Equal(t, expected, chars)
		assert.Equal(t, demoAlt(expected), n)
	}

	// No runes at all.
	n, chars := runesToAlt(false)
	check(n, chars, []rune{})
	n, chars = runesToAlt(true)
	check(n, chars, demoASCIIExcept(""))

	// Order and duplicates are kept as given; the complement is in table order whatever the order given.
	n, chars = runesToAlt(false, 'b', 'a', 'b', 'é')
	check(n, chars, []rune{'b', 'a', 'b', 'é'})
	n, chars = runesToAlt(true, 'b', 'a', 'b', 'é')
	check(n, chars, demoASCIIExcept("ab"))
	n, chars = runesToAlt(true, 0, 0x7F)
	check(n, chars, demoASCIIExcept("\x00\x7F"))

	// The characters handed out are not the slice of the caller.
	in := []rune{'x', 'y'}
	_, chars = runesToAlt(false, in...)
	chars[0] = 'z'
	assert.Equal(t, []rune{'x', 'y'}, in)

	// Ranges: none, one, several (overlapping ones repeat their characters), empty and complemented ones.
	n, chars = runeRangesToAlt(false)
	check(n, chars, []rune{})
	n, chars = runeRangesToAlt(true)
	check(n, chars, demoASCIIExcept(""))
	n, chars = runeRangesToAlt(false, [2]rune{'a', 'c'}, [2]rune{'0', '1'}, [2]rune{'b', 'd'})
	check(n, chars, []rune("abc01bcd"))
	n, chars = runeRangesToAlt(false, [2]rune{'c', 'a'})
	check(n, chars, []rune{})
	n, chars = runeRangesToAlt(true, [2]rune{'a', 'c'}, [2]rune{'0', '1'}, [2]rune{'b', 'd'})
	check(n, chars, demoASCIIExcept("abcd01"))
	n, chars = runeRangesToAlt(true, [2]rune{'c', 'a'})
	check(n, chars, demoASCIIExcept(""))
	n, chars = runeRangesToAlt(true, [2]rune{0, 0x7F})
	check(n, chars, []rune{})
}

func TestRefactorDemo_ToCharGroup(t *testing.T) {
	group := func(neg bool, bags ...[]rune) comb.Result {
		items := comb.List{}
		for i, b := range bags {
			items = append(items, comb.Result{Val: demoAlt(b), Pos: 3 + i, Bag: comb.Bag{bagKeyChars: b}})
		}
		var mod comb.Result = comb.Result{Val: comb.Empty{}}
		if neg {
			mod = comb.Result{Val: '^', Pos: 2}
		}
		return comb.Result{
			Val: comb.List{{Val: '[', Pos: 1}, mod, {Val: items, Pos: 3}, {Val: ']', Pos: 9}},
			Pos: 1,
		}
	}

	// The bags are produced by the refactored mappers themselves.
	bagOf := func(res comb.Result, ok bool) []rune {
		assert.True(t, ok)
		return res.Bag[bagKeyChars].([]rune)
	}
	m := new(mappers)
	digits := bagOf(m.ToCharClass(comb.Result{Val: `\d`}))
	notWord := bagOf(m.ToCharClass(comb.Result{Val: `\W`}))
	upper := bagOf(m.ToASCIICharClass(comb.Result{Val: `[:upper:]`}))
	aToF := bagOf(m.ToCharRange(comb.Result{Val: comb.List{{Val: 'a'}, {Val: '-'}, {Val: 'f'}}}))
	beyond := bagOf(m.ToCharRange(comb.Result{Val: comb.List{{Val: 'y'}, {Val: '-'}, {Val: 'é'}}}))
	assert.NoError(t, m.errors)

	tests := []struct {
		name  string
		r     comb.Result
		chars []rune
		err   string
	}{
		{"[0-9a-f-]", group(false, digits, aToF, []rune{'-'}), []rune("-" + demoDigits + "abcdef"), ""},
		{"[^0-9a-f-]", group(true, digits, aToF, []rune{'-'}), demoASCIIExcept("-" + demoDigits + "abcdef"), ""},
		{"[\\W[:upper:]]", group(false, notWord, upper), demoASCIIExcept(demoDigits + "_" + demoLower), ""},
		{"[^\\W[:upper:]]", group(true, notWord, upper), []rune(demoDigits + "_" + demoLower), ""},
		{"[y-é]", group(false, beyond), []rune{'y', 'z', '{', '|', '}', '~', 0x7F},
			"unsupported non-ASCII character in character group"},
		{"[^y-é]", group(true, beyond), demoASCIIExcept("yz{|}~\x7F"),
			"unsupported non-ASCII character in character group"},
	}

	for _, tc := range tests {
		t.Run(tc.name, func(t *testing.T) {
			m := new(mappers)
			res, ok := m.ToCharGroup(tc.r)
			assert.True(t, ok)
			if tc.err == "" {
				assert.NoError(t, m.errors)
			} else {
				assert.EqualError(t, m.errors, tc.err)
			}

			assert.Equal(t, demoAlt(tc.chars), res.Val)
			assert.Equal(t, 1, res.Pos)
			assert.Nil(t, res.Bag)
		})
	}
}

func TestRefactorDemo_Parse(t *testing.T) {
	tests := []struct {
		regex    string
		accepted []string
		rejected []string
	}{
		{`\d`, []string{"0", "5", "9"}, []string{"", "a", "00", "/", ":"}},
		{`\D`, []string{"a", "/", ":", "\x00", "\x7F", " "}, []string{"", "0", "9", "aa", "é"}},
		{`\s`, []string{" ", "\t", "\n", "\r", "\f"}, []string{"", "\v", "a", "  "}},
		{`\S`, []string{"\v", "a", "0", "\x00"}, []string{"", " ", "\t", "\n", "\r", "\f"}},
		{`\w+`, []string{"a", "Z", "_", "0", "a_0Z"}, []string{"", "-", "a-b", " "}},
		{`\W`, []string{"-", " ", "`", "@", "[", "{", "/", ":"}, []string{"", "a", "Z", "_", "0", "--"}},
		{`[[:xdigit:]]{2}`, []string{"0f", "AF", "9a"}, []string{"", "0", "0g", "Ga", "0f0"}},
		{`[[:blank:]]*x`, []string{"x", " x", "\t x"}, []string{"", " ", "\nx"}},
		{`\p{Lu}\p{Ll}*`, []string{"A", "Abc", "Zz"}, []string{"", "a", "AB", "A1"}},
		{`\P{L}`, []string{"0", "_", " ", "\x7F"}, []string{"", "a", "Z", "00"}},
		{`\P{Lt}`, []string{"a", "0", "\x00"}, []string{"", "aa", "é"}},
		{`[a-f]`, []string{"a", "c", "f"}, []string{"", "g", "`", "A", "af"}},
		{`[^a-f]`, []string{"g", "`", "A", "\x00", "\x7F"}, []string{"", "a", "c", "f", "gg"}},
		{`[a-cx-z0]+`, []string{"a", "0", "z", "abcxyz0"}, []string{"", "d", "w", "1", "ad"}},
		{`[^\d\s]`, []string{"a", "\v", "-"}, []string{"", "0", "9", " ", "\n"}},
		{`[\D]`, []string{"a", " "}, []string{"", "0", "5"}},
		{`[^\W]`, []string{"a", "_", "0"}, []string{"", "-", " "}},
		{`[^[:alnum:]_]`, []string{"-", " "}, []string{"", "a", "Z", "5", "_"}},
	}

	for _, tc := range tests {
		t.Run(tc.regex, func(t *testing.T) {
			a, err := Parse(tc.regex)
			if !assert.NoError(t, err) {
				return
			}

			dfa := a.ToDFA()
			min := dfa.Minimize().EliminateDeadStates().ReindexStates()

			for _, s := range tc.accepted {
				assert.True(t, dfa.Accept(demoString(s)), "DFA must accept %q", s)
				assert.True(t, min.Accept(demoString(s)), "minimal DFA must accept %q", s)
			}
			for _, s := range tc.rejected {
				assert.False(t, dfa.Accept(demoString(s)), "DFA must reject %q", s)
				assert.False(t, min.Accept(demoString(s)), "minimal DFA must reject %q", s)
			}
		})
	}

	for regex, msg := range map[string]string{
		`[f-a]`:    "invalid character range f-a",
		`[a-cz-x]`: "invalid character range z-x",
	} {
		_, err := Parse(regex)
		assert.EqualError(t, err, msg, regex)
	}
}
