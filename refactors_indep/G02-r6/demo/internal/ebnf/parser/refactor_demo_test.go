package parser

import (
	"errors"
	"fmt"
	"io"
	"math/rand"
	"strings"
	"testing"

	"github.com/moorara/algo/generic"
	"github.com/moorara/algo/grammar"
	"github.com/moorara/algo/lexer"
	"github.com/moorara/algo/list"
	"github.com/moorara/algo/parser"
	"github.com/moorara/algo/parser/lr"
)

// demoLexer replays a fixed list of tokens.
// After the list is exhausted it keeps returning endTok/endErr (io.EOF by default).
// If failAt >= 0, the failAt-th call (0-based) returns failErr instead.
type demoLexer struct {
	toks    []lexer.Token
	calls   int
	failAt  int
	failErr error
	endTok  lexer.Token
	endErr  error
}

func newDemoLexer(toks []lexer.Token) *demoLexer {
	return &demoLexer{toks: toks, failAt: -1, endErr: io.EOF}
}

func (l *demoLexer) NextToken() (lexer.Token, error) {
	i := l.calls
	l.calls++

	if i == l.failAt {
		return lexer.Token{}, l.failErr
	}

	if i < len(l.toks) {
		return l.toks[i], nil
	}

	return l.endTok, l.endErr
}

// demoRefParse is the table-driven LR driver exactly as it was written before the clean-up
// (array-list stack from the algo module, Pop in a loop, ACCEPT as a switch case).
// It only depends on ACTION, GOTO and productions and is used as the oracle for the differential tests.
func demoRefParse(L lexer.Lexer, tokenF parser.TokenFunc, prodF ProductionFunc) error {
	nextToken := func() (lexer.Token, error) {
		token, err := L.NextToken()
		if err != nil && errors.Is(err, io.EOF) {
			token.Terminal, token.Lexeme = grammar.Endmarker, ""
			return token, nil
		}
		return token, err
	}

	stack := list.NewStack[int](1024, generic.NewEqualFunc[int]())
	stack.Push(0)

	token, err := nextToken()
	if err != nil {
		return &parser.ParseError{Cause: err}
	}

	for {
		s, _ := stack.Peek()
		a := token.Terminal

		action, param, err := ACTION(s, a)
		if err != nil {
			return &parser.ParseError{
				Description: fmt.Sprintf("unexpected string %q", token.Lexeme),
				Cause:       err,
				Pos:         token.Pos,
			}
		}

		switch action {
		case lr.SHIFT:
			stack.Push(param)
			if tokenF != nil {
				if err := tokenF(&token); err != nil {
					return &parser.ParseError{Cause: err, Pos: token.Pos}
				}
			}
			token, err = nextToken()
			if err != nil {
				return &parser.ParseError{Cause: err}
			}

		case lr.REDUCE:
			A, β := productions[param].Head, productions[param].Body
			for range len(β) {
				stack.Pop()
			}
			t, _ := stack.Peek()
			stack.Push(GOTO(t, A))
			if prodF != nil {
				if err := prodF(param); err != nil {
					return &parser.ParseError{Cause: err}
				}
			}

		case lr.ACCEPT:
			return nil
		}
	}
}

// demoTrace records everything observable about one run of a driver.
type demoTrace struct {
	events []string
	ptrs   map[*lexer.Token]bool
	last   *lexer.Token
}

// demoRun runs a driver with recording callbacks.
// failTok/failProd (1-based, 0 = never) make the n-th token/production callback fail.
func demoRun(run func(parser.TokenFunc, ProductionFunc) error, failTok, failProd int) (*demoTrace, error) {
	tr := &demoTrace{ptrs: map[*lexer.Token]bool{}}
	nt, np := 0, 0

	err := run(
		func(tok *lexer.Token) error {
			nt++
			tr.ptrs[tok], tr.last = true, tok
			tr.events = append(tr.events, fmt.Sprintf("S %s %q %s", tok.Terminal, tok.Lexeme, tok.Pos))
			if nt == failTok {
				return fmt.Errorf("token callback #%d failed", nt)
			}
			return nil
		},
		func(i int) error {
			np++
			tr.events = append(tr.events, fmt.Sprintf("R %d", i))
			if np == failProd {
				return fmt.Errorf("production callback #%d failed", np)
			}
			return nil
		},
	)

	return tr, err
}

// demoDescribeErr renders an error including the dynamic type and all fields of a ParseError.
func demoDescribeErr(err error) string {
	if err == nil {
		return "<nil>"
	}

	var pe *parser.ParseError
	if e, ok := err.(*parser.ParseError); ok {
		pe = e
		return fmt.Sprintf("ParseError{Desc:%q Cause:%T(%v) Pos:%#v} => %s", pe.Description, pe.Cause, pe.Cause, pe.Pos, err)
	}

	return fmt.Sprintf("%T => %s", err, err)
}

// demoCompare runs the refactored driver and the oracle on the same token list and compares everything.
func demoCompare(t *testing.T, label string, mk func() *demoLexer, failTok, failProd int) {
	t.Helper()

	gotL, wantL := mk(), mk()
	p := &Parser{L: gotL}

	got, gotErr := demoRun(p.Parse, failTok, failProd)
	want, wantErr := demoRun(func(tf parser.TokenFunc, pf ProductionFunc) error {
		return demoRefParse(wantL, tf, pf)
	}, failTok, failProd)

	if g, w := demoDescribeErr(gotErr), demoDescribeErr(wantErr); g != w {
		t.Fatalf("%s: error mismatch\n got: %s\nwant: %s", label, g, w)
	}

	if g, w := strings.Join(got.events, "\n"), strings.Join(want.events, "\n"); g != w {
		t.Fatalf("%s: trace mismatch\n got:\n%s\nwant:\n%s", label, g, w)
	}

	if gotL.calls != wantL.calls {
		t.Fatalf("%s: the lexer was called %d times, want %d", label, gotL.calls, wantL.calls)
	}

	if len(got.ptrs) != len(want.ptrs) {
		t.Fatalf("%s: %d distinct token pointers were yielded, want %d", label, len(got.ptrs), len(want.ptrs))
	}

	if got.last != nil && *got.last != *want.last {
		t.Fatalf("%s: the yielded token variable ends as %v, want %v", label, *got.last, *want.last)
	}
}

func demoTok(term string, lexeme string, off int) lexer.Token {
	return lexer.Token{
		Terminal: grammar.Terminal(term),
		Lexeme:   lexeme,
		Pos:      lexer.Position{Filename: "demo", Offset: off, Line: 1 + off/40, Column: 1 + off%40},
	}
}

// demoLex tokenizes a space-separated list of terminals into tokens with synthetic lexemes/positions.
func demoLex(src string) []lexer.Token {
	var toks []lexer.Token
	for i, f := range strings.Fields(src) {
		lexeme := f
		switch f {
		case "IDENT":
			lexeme = fmt.Sprintf("id%d", i)
		case "TOKEN":
			lexeme = fmt.Sprintf("TK%d", i)
		case "STRING":
			lexeme = fmt.Sprintf("%q", fmt.Sprintf("s%d", i))
		case "REGEX":
			lexeme = fmt.Sprintf("/r%d/", i)
		case "PREDEF":
			lexeme = "$ID"
		}
		toks = append(toks, demoTok(f, lexeme, 3*i))
	}
	return toks
}

// demoGenRHS generates a random sentence of the rhs non-terminal as a list of terminals.
func demoGenRHS(r *rand.Rand, depth int) []string {
	if depth <= 0 {
		return []string{[]string{"IDENT", "TOKEN", "STRING"}[r.Intn(3)]}
	}

	switch r.Intn(10) {
	case 0, 1:
		return append(demoGenRHS(r, depth-1), demoGenRHS(r, depth-1)...)
	case 2:
		return append(append([]string{"("}, demoGenRHS(r, depth-1)...), ")")
	case 3:
		return append(append([]string{"["}, demoGenRHS(r, depth-1)...), "]")
	case 4:
		return append(append([]string{"{"}, demoGenRHS(r, depth-1)...), "}")
	case 5:
		return append(append([]string{"{{"}, demoGenRHS(r, depth-1)...), "}}")
	case 6:
		return append(append(demoGenRHS(r, depth-1), "|"), demoGenRHS(r, depth-1)...)
	case 7:
		return append(demoGenRHS(r, depth-1), "|")
	default:
		return demoGenRHS(r, 0)
	}
}

// demoGenGrammar generates a random sentence of the EBNF grammar as a list of terminals.
func demoGenGrammar(r *rand.Rand) []string {
	out := []string{"grammar", "IDENT"}
	if r.Intn(2) == 0 {
		out = append(out, ";")
	}

	for n := r.Intn(6); n > 0; n-- {
		switch r.Intn(3) {
		case 0: // token
			out = append(out, "TOKEN", "=", []string{"STRING", "REGEX", "PREDEF"}[r.Intn(3)])
			if r.Intn(2) == 0 {
				out = append(out, ";")
			}
		case 1: // directive
			out = append(out, []string{"@left", "@right", "@none"}[r.Intn(3)])
			for h := 1 + r.Intn(3); h > 0; h-- {
				switch r.Intn(3) {
				case 0:
					out = append(out, "TOKEN")
				case 1:
					out = append(out, "STRING")
				default:
					out = append(out, "<", "IDENT", "=")
					if r.Intn(4) != 0 {
						out = append(out, demoGenRHS(r, 2)...)
					}
					out = append(out, ">")
				}
			}
			if r.Intn(2) == 0 {
				out = append(out, ";")
			}
		default: // rule
			out = append(out, "IDENT", "=")
			if r.Intn(5) != 0 {
				out = append(out, demoGenRHS(r, 3)...)
			}
			out = append(out, ";")
		}
	}

	return out
}

var demoAllTerminals = []string{
	"=", ";", "|", "(", ")", "[", "]", "{", "}", "{{", "}}", "<", ">",
	"grammar", "@left", "@right", "@none", "IDENT", "TOKEN", "STRING", "REGEX", "PREDEF",
	"WS", "ERR", "$",
}

// TestRefactorDemo_Differential compares the driver with the pre-refactoring driver on
// random sentences of the grammar, random corruptions of them, lexer failures at every
// position and callback failures at every step.
func TestRefactorDemo_Differential(t *testing.T) {
	r := rand.New(rand.NewSource(20261001))
	accepted, rejected := 0, 0

	for n := 0; n < 400; n++ {
		terms := demoGenGrammar(r)

		// Three out of four inputs are corrupted: drop, insert, replace or swap one terminal.
		if n%4 != 0 && len(terms) > 1 {
			i := r.Intn(len(terms))
			switch r.Intn(4) {
			case 0:
				terms = append(terms[:i:i], terms[i+1:]...)
			case 1:
				x := demoAllTerminals[r.Intn(len(demoAllTerminals))]
				terms = append(terms[:i:i], append([]string{x}, terms[i:]...)...)
			case 2:
				terms = append([]string{}, terms...)
				terms[i] = demoAllTerminals[r.Intn(len(demoAllTerminals))]
			default:
				terms = append([]string{}, terms...)
				j := r.Intn(len(terms))
				terms[i], terms[j] = terms[j], terms[i]
			}
		}

		src := strings.Join(terms, " ")
		toks := demoLex(src)
		mk := func() *demoLexer { return newDemoLexer(toks) }

		demoCompare(t, fmt.Sprintf("#%d %q", n, src), mk, 0, 0)

		if err := (&Parser{L: mk()}).Parse(nil, nil); err == nil {
			accepted++
		} else {
			rejected++
		}

		// Nil callbacks agree as well.
		gotErr := (&Parser{L: mk()}).Parse(nil, nil)
		wantErr := demoRefParse(mk(), nil, nil)
		if g, w := demoDescribeErr(gotErr), demoDescribeErr(wantErr); g != w {
			t.Fatalf("#%d %q (nil callbacks): got %s, want %s", n, src, g, w)
		}

		if n%10 != 0 {
			continue
		}

		// The lexer fails at every position, with a plain error and with a wrapped io.EOF.
		for k := 0; k <= len(toks); k++ {
			for _, e := range []error{errors.New("cannot read rune"), fmt.Errorf("early: %w", io.EOF)} {
				mkFail := func() *demoLexer {
					l := newDemoLexer(toks)
					l.failAt, l.failErr = k, e
					return l
				}
				demoCompare(t, fmt.Sprintf("#%d %q lexer fails at %d with %v", n, src, k, e), mkFail, 0, 0)
			}
		}

		// Every callback invocation fails in turn.
		tr, _ := demoRun((&Parser{L: mk()}).Parse, 0, 0)
		nTok, nProd := 0, 0
		for _, ev := range tr.events {
			if strings.HasPrefix(ev, "S ") {
				nTok++
			} else {
				nProd++
			}
		}
		for k := 1; k <= nTok; k++ {
			demoCompare(t, fmt.Sprintf("#%d %q token callback %d fails", n, src, k), mk, k, 0)
		}
		for k := 1; k <= nProd; k++ {
			demoCompare(t, fmt.Sprintf("#%d %q production callback %d fails", n, src, k), mk, 0, k)
		}
	}

	if accepted < 80 || rejected < 200 {
		t.Fatalf("weak input mix: %d accepted, %d rejected", accepted, rejected)
	}
}

// TestRefactorDemo_DeepNesting makes the state stack grow far beyond its initial capacity of 1024.
func TestRefactorDemo_DeepNesting(t *testing.T) {
	const depth = 3000

	terms := []string{"grammar", "IDENT", "IDENT", "="}
	for i := 0; i < depth; i++ {
		terms = append(terms, []string{"(", "[", "{", "{{"}[i%4])
	}
	terms = append(terms, "TOKEN")
	for i := depth - 1; i >= 0; i-- {
		terms = append(terms, []string{")", "]", "}", "}}"}[i%4])
	}
	terms = append(terms, ";")

	toks := demoLex(strings.Join(terms, " "))
	demoCompare(t, "deep nesting", func() *demoLexer { return newDemoLexer(toks) }, 0, 0)

	tr, err := demoRun((&Parser{L: newDemoLexer(toks)}).Parse, 0, 0)
	if err != nil {
		t.Fatalf("deep nesting: unexpected error: %s", err)
	}
	if want := len(toks) + depth + 11; len(tr.events) != want || tr.events[len(tr.events)-1] != "R 0" {
		t.Fatalf("deep nesting: %d events ending with %q, want %d ending with \"R 0\"", len(tr.events), tr.events[len(tr.events)-1], want)
	}

	// Missing the innermost closing bracket is detected at the right token.
	bad := append(append([]lexer.Token{}, toks[:depth+5]...), toks[depth+6:]...)
	demoCompare(t, "deep nesting, unbalanced", func() *demoLexer { return newDemoLexer(bad) }, 0, 0)
}

// demoProds extracts the production indices from a trace.
func demoProds(events []string) string {
	var out []string
	for _, ev := range events {
		if strings.HasPrefix(ev, "R ") {
			out = append(out, ev[2:])
		}
	}
	return strings.Join(out, " ")
}

// TestRefactorDemo_Pinned asserts concrete results of Parse for hand-picked inputs.
func TestRefactorDemo_Pinned(t *testing.T) {
	tests := []struct {
		name          string
		src           string // read by the real lexer
		expectedProds string
		expectedError string
	}{
		{
			name:          "OnlyName",
			src:           `grammar g`,
			expectedProds: "8 1 3 0",
		},
		{
			name:          "NameWithSemi",
			src:           `grammar g;`,
			expectedProds: "7 1 3 0",
		},
		{
			// Juxtaposition binds tighter than "|": (b c) | d.
			name:          "ConcatBindsTighterThanAlt",
			src:           `grammar g; a = b c | d;`,
			expectedProds: "7 1 3 32 22 32 30 32 30 23 32 30 28 20 6 2 0",
		},
		{
			// "|" groups to the right: b | (c | d).
			name:          "AltGroupsToTheRight",
			src:           `grammar g; a = b | c | d;`,
			expectedProds: "7 1 3 32 22 32 30 32 30 32 30 28 28 20 6 2 0",
		},
		{
			// Juxtaposition groups to the left: (b c) d.
			name:          "ConcatGroupsToTheLeft",
			src:           `grammar g; a = b c d;`,
			expectedProds: "7 1 3 32 22 32 30 32 30 23 32 30 23 20 6 2 0",
		},
		{
			// An operand after "|" is consumed greedily: b | (c d), and a trailing "|" is an empty alternative.
			name:          "GreedyOperandAndEmptyAlternative",
			src:           `grammar g; a = b | c d |;`,
			expectedProds: "7 1 3 32 22 32 30 32 30 32 30 23 29 28 20 6 2 0",
		},
		{
			name:          "EmptyRule",
			src:           `grammar g; a = ;`,
			expectedProds: "7 1 3 32 22 21 6 2 0",
		},
		{
			// Handles are consumed greedily: BB and "c" and <e = f> all belong to the one directive.
			name:          "DirectiveHandlesGreedy",
			src:           `grammar g; @left BB "c" <e = f> ; TT = /x/`,
			expectedProds: "7 1 3 33 17 34 15 32 22 32 30 20 19 16 12 7 5 2 10 8 4 2 0",
		},
		{
			name:          "TokenDecls",
			src:           "grammar g\nAA = \"a\"\nBB = /b/;\nCC = $ID",
			expectedProds: "8 1 3 9 8 4 2 10 7 4 2 11 8 4 2 0",
		},
		{
			name:          "Empty",
			src:           ``,
			expectedError: `unexpected string "": no action exists in the parsing table for ACTION[0, $]`,
		},
		{
			name:          "MissingRuleSemi",
			src:           `grammar g; a = b`,
			expectedProds: "7 1 3 32 22",
			expectedError: `unexpected string "": no action exists in the parsing table for ACTION[`,
		},
		{
			name:          "UnbalancedParen",
			src:           `grammar g; a = ( b ;`,
			expectedProds: "7 1 3 32 22 32 30",
			expectedError: `demo:1:20: unexpected string ";": no action exists in the parsing table for ACTION[`,
		},
		{
			name:          "PredefInRule",
			src:           `grammar g; a = $ID;`,
			expectedProds: "7 1 3 32 22",
			expectedError: `demo:1:16: unexpected string "$ID": no action exists in the parsing table for ACTION[`,
		},
		{
			name:          "TextAfterAccept",
			src:           `grammar g; grammar h;`,
			expectedProds: "",
			expectedError: `demo:1:12: unexpected string "grammar": no action exists in the parsing table for ACTION[`,
		},
	}

	for _, tc := range tests {
		t.Run(tc.name, func(t *testing.T) {
			p, err := New("demo", strings.NewReader(tc.src))
			if err != nil {
				t.Fatal(err)
			}

			tr, err := demoRun(p.Parse, 0, 0)

			if got := demoProds(tr.events); got != tc.expectedProds {
				t.Errorf("productions:\n got: %s\nwant: %s", got, tc.expectedProds)
			}

			switch {
			case tc.expectedError == "" && err != nil:
				t.Errorf("unexpected error: %s", err)
			case tc.expectedError != "" && err == nil:
				t.Errorf("expected error %q", tc.expectedError)
			case tc.expectedError != "" && !strings.HasPrefix(err.Error(), tc.expectedError):
				t.Errorf("error:\n got: %s\nwant prefix: %s", err, tc.expectedError)
			}

			if err != nil {
				if _, ok := err.(*parser.ParseError); !ok {
					t.Errorf("error has type %T, want *parser.ParseError", err)
				}
			}
		})
	}
}

// TestRefactorDemo_EndOfInputAndErrors pins how nextToken and the error returns of Parse behave.
func TestRefactorDemo_EndOfInputAndErrors(t *testing.T) {
	name := demoLex("grammar IDENT")
	pos := lexer.Position{Filename: "demo", Offset: 77, Line: 7, Column: 7}

	t.Run("WrappedEOFEndsTheInput", func(t *testing.T) {
		l := newDemoLexer(name)
		l.endErr = fmt.Errorf("reading: %w", io.EOF)
		tr, err := demoRun((&Parser{L: l}).Parse, 0, 0)
		if err != nil || demoProds(tr.events) != "8 1 3 0" {
			t.Fatalf("got %v / %q", err, demoProds(tr.events))
		}
		if l.calls != 3 {
			t.Fatalf("lexer called %d times, want 3", l.calls)
		}
	})

	t.Run("EOFTokenKeepsPositionButLosesLexeme", func(t *testing.T) {
		l := newDemoLexer(demoLex("grammar"))
		l.endTok = lexer.Token{Terminal: "IDENT", Lexeme: "junk", Pos: pos}
		_, err := demoRun((&Parser{L: l}).Parse, 0, 0)
		pe, ok := err.(*parser.ParseError)
		if !ok {
			t.Fatalf("got %T", err)
		}
		if pe.Description != `unexpected string ""` || pe.Pos != pos {
			t.Fatalf("got %s", demoDescribeErr(err))
		}
		if want := `demo:7:7: unexpected string "": no action exists in the parsing table for ACTION[43, $]`; err.Error() != want {
			t.Fatalf("got %q, want %q", err.Error(), want)
		}
	})

	t.Run("LexerErrorIsWrappedWithoutPosition", func(t *testing.T) {
		cause := errors.New("cannot read rune")
		for k := 0; k <= 2; k++ {
			l := newDemoLexer(name)
			l.failAt, l.failErr = k, cause
			tr, err := demoRun((&Parser{L: l}).Parse, 0, 0)
			pe, ok := err.(*parser.ParseError)
			if !ok || pe.Cause != cause || pe.Description != "" || !pe.Pos.IsZero() || err.Error() != "cannot read rune" {
				t.Fatalf("k=%d: got %s", k, demoDescribeErr(err))
			}
			if n := len(tr.events); n != k {
				t.Fatalf("k=%d: %d events, want %d", k, n, k)
			}
		}
	})

	t.Run("TokenCallbackErrorCarriesPosition", func(t *testing.T) {
		_, err := demoRun((&Parser{L: newDemoLexer(name)}).Parse, 2, 0)
		pe, ok := err.(*parser.ParseError)
		if !ok || pe.Description != "" || pe.Pos != name[1].Pos {
			t.Fatalf("got %s", demoDescribeErr(err))
		}
		if want := "demo:1:4: token callback #2 failed"; err.Error() != want {
			t.Fatalf("got %q, want %q", err.Error(), want)
		}
	})

	t.Run("ProductionCallbackErrorHasNoPosition", func(t *testing.T) {
		tr, err := demoRun((&Parser{L: newDemoLexer(name)}).Parse, 0, 2)
		pe, ok := err.(*parser.ParseError)
		if !ok || pe.Description != "" || !pe.Pos.IsZero() || err.Error() != "production callback #2 failed" {
			t.Fatalf("got %s", demoDescribeErr(err))
		}
		if got := demoProds(tr.events); got != "8 1" {
			t.Fatalf("got %q", got)
		}
	})

	t.Run("YieldedPointerIsTheDriverVariable", func(t *testing.T) {
		tr, err := demoRun((&Parser{L: newDemoLexer(name)}).Parse, 0, 0)
		if err != nil {
			t.Fatal(err)
		}
		if len(tr.ptrs) != 1 || tr.last.Terminal != grammar.Endmarker || tr.last.Lexeme != "" {
			t.Fatalf("%d pointers, last %v", len(tr.ptrs), *tr.last)
		}
	})
}

func demoSexpr(n parser.Node) string {
	switch n := n.(type) {
	case *parser.LeafNode:
		return fmt.Sprintf("%s@%d:%d", n.Lexeme, n.Position.Line, n.Position.Column)
	case *parser.InternalNode:
		parts := []string{string(n.NonTerminal)}
		for _, c := range n.Children {
			parts = append(parts, demoSexpr(c))
		}
		if n.Children == nil {
			parts = append(parts, "nil")
		}
		return "(" + strings.Join(parts, " ") + ")"
	default:
		return fmt.Sprintf("?%T", n)
	}
}

// TestRefactorDemo_ASTAndEvaluate pins the results of the two wrappers of Parse.
func TestRefactorDemo_ASTAndEvaluate(t *testing.T) {
	const src = `grammar g a = b CC | "d" | ;`

	const expectedAST = `(grammar (name grammar@1:1 g@1:9 (semi_opt nil)) (decls (decls nil) (decl (rule (lhs (nonterm a@1:11)) =@1:13 ` +
		`(rhs (rhs (rhs (nonterm b@1:15)) (rhs (term CC@1:17))) |@1:20 (rhs (rhs (term d@1:22)) |@1:26))) ;@1:28)))`

	const expectedVal = `0[1[grammar g 8[]] 2[3[] 6[20[22[32[a]] = 28[23[30[32[b]] 31[33[CC]]] | 29[31[34[d]] |]]] ;]]]`

	t.Run("ParseAndBuildAST", func(t *testing.T) {
		p, err := New("demo", strings.NewReader(src))
		if err != nil {
			t.Fatal(err)
		}

		root, err := p.ParseAndBuildAST()
		if err != nil {
			t.Fatal(err)
		}

		if got := demoSexpr(root); got != expectedAST {
			t.Errorf("\n got: %s\nwant: %s", got, expectedAST)
		}

		if in := root.(*parser.InternalNode); in.Production != productions[0] {
			t.Errorf("root production is %v", in.Production)
		}
	})

	t.Run("ParseAndEvaluate", func(t *testing.T) {
		p, err := New("demo", strings.NewReader(src))
		if err != nil {
			t.Fatal(err)
		}

		root, err := p.ParseAndEvaluate(func(i int, rhs []*lr.Value) (any, error) {
			if len(rhs) != len(productions[i].Body) {
				return nil, fmt.Errorf("production %d called with %d values", i, len(rhs))
			}
			parts := make([]string, len(rhs))
			for k, v := range rhs {
				parts[k] = fmt.Sprint(v.Val)
			}
			return fmt.Sprintf("%d[%s]", i, strings.Join(parts, " ")), nil
		})
		if err != nil {
			t.Fatal(err)
		}

		if got := fmt.Sprint(root.Val); got != expectedVal {
			t.Errorf("\n got: %s\nwant: %s", got, expectedVal)
		}

		if root.Pos == nil || root.Pos.String() != "demo:1:1" {
			t.Errorf("root position is %v", root.Pos)
		}
	})

	t.Run("Failures", func(t *testing.T) {
		for _, bad := range []string{``, `grammar`, `grammar g; a = (;`, `grammar g; AA = b;`} {
			p, _ := New("demo", strings.NewReader(bad))
			root, err := p.ParseAndBuildAST()
			if root != nil || err == nil {
				t.Errorf("ParseAndBuildAST(%q) = %v, %v", bad, root, err)
			}

			q, _ := New("demo", strings.NewReader(bad))
			val, err2 := q.ParseAndEvaluate(func(int, []*lr.Value) (any, error) { return nil, nil })
			if val != nil || err2 == nil || err2.Error() != err.Error() {
				t.Errorf("ParseAndEvaluate(%q) = %v, %v; want the error %v", bad, val, err2, err)
			}
		}

		p, _ := New("demo", strings.NewReader(src))
		val, err := p.ParseAndEvaluate(func(i int, _ []*lr.Value) (any, error) {
			if i == 23 {
				return nil, errors.New("no concatenation please")
			}
			return i, nil
		})
		if val != nil || err == nil || err.Error() != "no concatenation please" {
			t.Errorf("got %v, %v", val, err)
		}
	})
}
