package golang

import (
	"fmt"
	"os"
	"path/filepath"
	"sort"
	"strings"
	"testing"

	"github.com/gardenbed/charm/ui"

	"github.com/gardenbed/emerge/internal/ebnf/parser/spec"
)

// Characterization test for the output-directory handling of the generator (property C16):
// success iff every file of the package was written into <out>/<name>; an unusable name is rejected before
// anything is created; nothing that existed before is modified, truncated or deleted.

// demoUI records every leveled message so that the order of the progress output is pinned down, too.
type demoUI struct {
	ui.UI
	lines []string
}

func newDemoUI() *demoUI { return &demoUI{UI: ui.NewNop()} }

func (u *demoUI) Debugf(_ ui.Style, format string, a ...interface{}) {
	u.lines = append(u.lines, "D:"+fmt.Sprintf(format, a...))
}

func (u *demoUI) Infof(_ ui.Style, format string, a ...interface{}) {
	u.lines = append(u.lines, "I:"+fmt.Sprintf(format, a...))
}

func demoSpec(name string) *spec.Spec {
	return &spec.Spec{
		Name:        name,
		Definitions: definitions,
		Grammar:     grammars[0],
		Precedences: precedences[0],
	}
}

// demoSnapshot lists every entry below root as "relative/path mode size\ncontent".
func demoSnapshot(t *testing.T, root string) map[string]string {
	t.Helper()
	snap := map[string]string{}
	err := filepath.Walk(root, func(p string, info os.FileInfo, err error) error {
		if err != nil {
			return err
		}
		rel, _ := filepath.Rel(root, p)
		if info.IsDir() {
			snap[rel] = "dir " + info.Mode().Perm().String()
			return nil
		}
		b, err := os.ReadFile(p)
		if err != nil {
			return err
		}
		snap[rel] = fmt.Sprintf("file %s %d\n%s", info.Mode().Perm(), info.Size(), b)
		return nil
	})
	if err != nil {
		t.Fatalf("snapshot of %s: %s", root, err)
	}
	return snap
}

func demoKeys(m map[string]string) []string {
	keys := make([]string, 0, len(m))
	for k := range m {
		keys = append(keys, k)
	}
	sort.Strings(keys)
	return keys
}

func demoEqualSnap(t *testing.T, what string, before, after map[string]string) {
	t.Helper()
	if got, want := strings.Join(demoKeys(after), ","), strings.Join(demoKeys(before), ","); got != want {
		t.Errorf("%s: entries changed:\n got %s\nwant %s", what, got, want)
		return
	}
	for k, v := range before {
		if after[k] != v {
			t.Errorf("%s: entry %q was modified", what, k)
		}
	}
}

var demoAllFiles = []string{"errors.go", "input.go", "lexer.go", "parser.go", "stack.go", "types.go"}

func TestRefactorDemo_PrepareRejections(t *testing.T) {
	root := t.TempDir()
	aFile := filepath.Join(root, "afile")
	if err := os.WriteFile(aFile, []byte("precious"), 0644); err != nil {
		t.Fatal(err)
	}
	outDir := filepath.Join(root, "out")
	if err := os.Mkdir(outDir, 0755); err != nil {
		t.Fatal(err)
	}
	// A package directory that exists already, with content.
	if err := os.Mkdir(filepath.Join(outDir, "taken"), 0755); err != nil {
		t.Fatal(err)
	}
	if err := os.WriteFile(filepath.Join(outDir, "taken", "types.go"), []byte("package taken\n"), 0644); err != nil {
		t.Fatal(err)
	}
	// A regular file where the package directory would go.
	if err := os.WriteFile(filepath.Join(outDir, "plain"), []byte("x"), 0600); err != nil {
		t.Fatal(err)
	}

	tests := []struct {
		name      string
		path      string
		pkg       string
		wantErr   string
		wantLines []string
	}{
		{
			name:      "PathMissing",
			path:      filepath.Join(root, "missing"),
			pkg:       "expr",
			wantErr:   fmt.Sprintf("output path does not exist: %q", filepath.Join(root, "missing")),
			wantLines: []string{fmt.Sprintf("D:     Checking output path %q ...", filepath.Join(root, "missing"))},
		},
		{
			name:      "PathMissingUncleaned",
			path:      root + "/./out/../missing//",
			pkg:       "expr",
			wantErr:   fmt.Sprintf("output path does not exist: %q", filepath.Join(root, "missing")),
			wantLines: []string{fmt.Sprintf("D:     Checking output path %q ...", filepath.Join(root, "missing"))},
		},
		{
			name:      "PathIsFile",
			path:      aFile,
			pkg:       "expr",
			wantErr:   fmt.Sprintf("output path is not a directory: %q", aFile),
			wantLines: []string{fmt.Sprintf("D:     Checking output path %q ...", aFile)},
		},
		{
			name:      "PathBelowFile",
			path:      filepath.Join(aFile, "sub"),
			pkg:       "expr",
			wantErr:   fmt.Sprintf("error on checking output path: stat %s: not a directory", filepath.Join(aFile, "sub")),
			wantLines: []string{fmt.Sprintf("D:     Checking output path %q ...", filepath.Join(aFile, "sub"))},
		},
		{
			name:    "PackageDirExists",
			path:    outDir,
			pkg:     "taken",
			wantErr: fmt.Sprintf("error on creating package directory: mkdir %s: file exists", filepath.Join(outDir, "taken")),
			wantLines: []string{
				fmt.Sprintf("D:     Checking output path %q ...", outDir),
				`D:     Checking package directory "taken" ...`,
			},
		},
		{
			name:    "PackageDirIsFile",
			path:    outDir,
			pkg:     "plain",
			wantErr: fmt.Sprintf("error on creating package directory: mkdir %s: file exists", filepath.Join(outDir, "plain")),
			wantLines: []string{
				fmt.Sprintf("D:     Checking output path %q ...", outDir),
				`D:     Checking package directory "plain" ...`,
			},
		},
	}

	// Names that are not usable as a Go package identifier.
	for _, bad := range []string{"", "_", "1abc", "a-b", "a b", "a/b", "..", ".", "../escape", "func", "string", "nil", "append", "\x00", "é-"} {
		tests = append(tests, struct {
			name      string
			path      string
			pkg       string
			wantErr   string
			wantLines []string
		}{
			name:    fmt.Sprintf("BadName_%q", bad),
			path:    outDir,
			pkg:     bad,
			wantErr: "invalid package name: " + bad,
			wantLines: []string{
				fmt.Sprintf("D:     Checking output path %q ...", outDir),
				fmt.Sprintf("D:     Checking package directory %q ...", bad),
			},
		})
	}

	for _, tc := range tests {
		t.Run(tc.name, func(t *testing.T) {
			before := demoSnapshot(t, root)

			// Through the unexported step ...
			u := newDemoUI()
			g := &generator{UI: u, Params: &Params{Path: tc.path, Spec: demoSpec(tc.pkg)}}
			err := g.prepare()
			if err == nil || err.Error() != tc.wantErr {
				t.Errorf("prepare: got error %v, want %q", err, tc.wantErr)
			}
			if got, want := strings.Join(u.lines, "\n"), strings.Join(tc.wantLines, "\n"); got != want {
				t.Errorf("prepare: messages:\n got %q\nwant %q", got, want)
			}
			if want := filepath.Clean(tc.path); g.Path != want {
				t.Errorf("prepare: Path is %q, want %q", g.Path, want)
			}
			demoEqualSnap(t, "prepare", before, demoSnapshot(t, root))

			// ... and through the exported entry point: same error, no generation stage is started.
			u = newDemoUI()
			err = Generate(u, &Params{Path: tc.path, Spec: demoSpec(tc.pkg)})
			if err == nil || err.Error() != tc.wantErr {
				t.Errorf("Generate: got error %v, want %q", err, tc.wantErr)
			}
			if got, want := strings.Join(u.lines, "\n"), strings.Join(tc.wantLines, "\n"); got != want {
				t.Errorf("Generate: messages:\n got %q\nwant %q", got, want)
			}
			demoEqualSnap(t, "Generate", before, demoSnapshot(t, root))
		})
	}
}

func TestRefactorDemo_GenerateSuccess(t *testing.T) {
	root := t.TempDir()
	if err := os.WriteFile(filepath.Join(root, "neighbour.txt"), []byte("keep me"), 0644); err != nil {
		t.Fatal(err)
	}
	if err := os.Mkdir(filepath.Join(root, "other"), 0755); err != nil {
		t.Fatal(err)
	}
	if err := os.WriteFile(filepath.Join(root, "other", "lexer.go"), []byte("package other\n"), 0644); err != nil {
		t.Fatal(err)
	}

	wantLines := func(path, name string) []string {
		return []string{
			fmt.Sprintf("D:     Checking output path %q ...", path),
			fmt.Sprintf("D:     Checking package directory %q ...", name),
			"I:     Generating core types ...",
			`D:       Rendering "errors.go" ...`,
			`D:       Rendering "types.go" ...`,
			`D:       Rendering "stack.go" ...`,
			"I:     Generating the lexer ...",
			"I:       Constructing Automaton ...",
			`D:       Rendering "input.go" ...`,
			`D:       Rendering "lexer.go" ...`,
			"I:     Generating the parser ...",
			"I:       Constructing LALR(1) Parsing Table ...",
			`D:       Rendering "parser.go" ...`,
		}
	}

	var reference map[string]string

	for i, tc := range []struct{ path, name string }{
		{root, "expr"},
		{root + "/other/../.", "Expr2"},
		{root + "//", "_p"},
		{root, "πακέτο"},
	} {
		before := demoSnapshot(t, root)

		u := newDemoUI()
		if err := Generate(u, &Params{Path: tc.path, Spec: demoSpec(tc.name)}); err != nil {
			t.Fatalf("Generate(%q, %q): %s", tc.path, tc.name, err)
		}
		if got, want := strings.Join(u.lines, "\n"), strings.Join(wantLines(root, tc.name), "\n"); got != want {
			t.Errorf("Generate(%q, %q): messages:\n got %q\nwant %q", tc.path, tc.name, got, want)
		}

		// Exactly the six files, directly in <out>/<name>, each starting with the package clause.
		pkgDir := filepath.Join(root, tc.name)
		pkg := demoSnapshot(t, pkgDir)
		if got, want := strings.Join(demoKeys(pkg), ","), ".,"+strings.Join(demoAllFiles, ","); got != want {
			t.Errorf("Generate(%q, %q): package entries %s, want %s", tc.path, tc.name, got, want)
		}
		normalized := map[string]string{}
		for _, f := range demoAllFiles {
			b, err := os.ReadFile(filepath.Join(pkgDir, f))
			if err != nil {
				t.Fatal(err)
			}
			if (f != "parser.go" && len(b) < 200) || !strings.Contains(string(b), "package "+tc.name+"\n") {
				t.Errorf("%s/%s: incomplete file (%d bytes)", tc.name, f, len(b))
			}
			normalized[f] = strings.ReplaceAll(string(b), "package "+tc.name+"\n", "package P\n")
		}

		// The content does not depend on the path spelling or on the name (other than the package clause).
		if i == 0 {
			reference = normalized
		} else {
			for _, f := range demoAllFiles {
				if normalized[f] != reference[f] {
					t.Errorf("%s/%s: content differs from expr/%s", tc.name, f, f)
				}
			}
		}

		// Everything that existed before is still there, unchanged.
		after := demoSnapshot(t, root)
		for k := range after {
			if k == tc.name || strings.HasPrefix(k, tc.name+string(filepath.Separator)) {
				delete(after, k)
			}
		}
		demoEqualSnap(t, "Generate "+tc.name, before, after)

		// A second run into the same place must fail and must not touch the first result.
		before = demoSnapshot(t, root)
		err := Generate(newDemoUI(), &Params{Path: tc.path, Spec: demoSpec(tc.name)})
		want := fmt.Sprintf("error on creating package directory: mkdir %s: file exists", pkgDir)
		if err == nil || err.Error() != want {
			t.Errorf("second Generate(%q, %q): got error %v, want %q", tc.path, tc.name, err, want)
		}
		demoEqualSnap(t, "second Generate "+tc.name, before, demoSnapshot(t, root))
	}
}

// The stages and the files inside a stage are independent: a failure is reported but does not stop the others,
// and a file that is in the way is never overwritten.
func TestRefactorDemo_PartialFailures(t *testing.T) {
	t.Run("LexerStageFails", func(t *testing.T) {
		root := t.TempDir()
		s := demoSpec("expr")
		s.Definitions = []*spec.TerminalDef{{Terminal: "ID", Value: "[A-Z", IsRegex: true}}

		u := newDemoUI()
		err := Generate(u, &Params{Path: root, Spec: s})
		if err == nil || !strings.Contains(err.Error(), `"ID": invalid regular expression: [A-Z`) {
			t.Fatalf("got error %v", err)
		}
		if strings.Contains(err.Error(), "errors occurred") {
			t.Errorf("expected exactly one error, got %q", err)
		}

		got := strings.Join(demoKeys(demoSnapshot(t, filepath.Join(root, "expr"))), ",")
		if want := ".,errors.go,parser.go,stack.go,types.go"; got != want {
			t.Errorf("entries %s, want %s", got, want)
		}
		wantLines := []string{
			fmt.Sprintf("D:     Checking output path %q ...", root),
			`D:     Checking package directory "expr" ...`,
			"I:     Generating core types ...",
			`D:       Rendering "errors.go" ...`,
			`D:       Rendering "types.go" ...`,
			`D:       Rendering "stack.go" ...`,
			"I:     Generating the lexer ...",
			"I:       Constructing Automaton ...",
			"I:     Generating the parser ...",
			"I:       Constructing LALR(1) Parsing Table ...",
			`D:       Rendering "parser.go" ...`,
		}
		if got, want := strings.Join(u.lines, "\n"), strings.Join(wantLines, "\n"); got != want {
			t.Errorf("messages:\n got %q\nwant %q", got, want)
		}
	})

	t.Run("FilesInTheWay", func(t *testing.T) {
		root := t.TempDir()
		pkgDir := filepath.Join(root, "expr")
		if err := os.Mkdir(pkgDir, 0755); err != nil {
			t.Fatal(err)
		}
		for _, f := range []string{"types.go", "lexer.go"} {
			if err := os.WriteFile(filepath.Join(pkgDir, f), []byte("// mine: "+f), 0644); err != nil {
				t.Fatal(err)
			}
		}
		// A directory in the way, too.
		if err := os.Mkdir(filepath.Join(pkgDir, "parser.go"), 0755); err != nil {
			t.Fatal(err)
		}

		g := &generator{UI: newDemoUI(), Params: &Params{Path: root, Spec: demoSpec("expr")}}

		errCore := g.generateCore()
		wantCore := fmt.Sprintf("open %s: file exists", filepath.Join(pkgDir, "types.go"))
		if errCore == nil || !strings.Contains(errCore.Error(), wantCore) || strings.Contains(errCore.Error(), "errors.go") || strings.Contains(errCore.Error(), "stack.go") {
			t.Errorf("generateCore: got error %v, want only %q", errCore, wantCore)
		}

		errLexer := g.generateLexer()
		wantLexer := fmt.Sprintf("open %s: file exists", filepath.Join(pkgDir, "lexer.go"))
		if errLexer == nil || !strings.Contains(errLexer.Error(), wantLexer) || strings.Contains(errLexer.Error(), "input.go") {
			t.Errorf("generateLexer: got error %v, want only %q", errLexer, wantLexer)
		}

		errParser := g.generateParser()
		wantParser := fmt.Sprintf("open %s: file exists", filepath.Join(pkgDir, "parser.go"))
		if errParser == nil || !strings.Contains(errParser.Error(), wantParser) {
			t.Errorf("generateParser: got error %v, want %q", errParser, wantParser)
		}

		// A single file, directly.
		errOne := g.renderTemplate("types.go", &coreData{Package: "expr"})
		if errOne == nil || errOne.Error() != wantCore {
			t.Errorf("renderTemplate: got error %v, want %q", errOne, wantCore)
		}

		snap := demoSnapshot(t, pkgDir)
		if got, want := strings.Join(demoKeys(snap), ","), ".,errors.go,input.go,lexer.go,parser.go,stack.go,types.go"; got != want {
			t.Errorf("entries %s, want %s", got, want)
		}
		for _, f := range []string{"types.go", "lexer.go"} {
			if want := fmt.Sprintf(" %d\n// mine: %s", len("// mine: "+f), f); !strings.HasSuffix(snap[f], want) {
				t.Errorf("%s was modified: %q", f, snap[f])
			}
		}
		if !strings.HasPrefix(snap["parser.go"], "dir ") {
			t.Errorf("parser.go directory was modified: %q", snap["parser.go"])
		}
		for _, f := range []string{"errors.go", "stack.go", "input.go"} {
			if !strings.Contains(snap[f], "package expr\n") {
				t.Errorf("%s was not written", f)
			}
		}
	})

	t.Run("PackageDirMissing", func(t *testing.T) {
		root := t.TempDir()
		g := &generator{UI: newDemoUI(), Params: &Params{Path: root, Spec: demoSpec("expr")}}

		err := g.generateCore()
		if err == nil || strings.Count(err.Error(), "no such file or directory") != 3 {
			t.Fatalf("got error %v", err)
		}
		msg := err.Error()
		last := -1
		for _, f := range []string{"errors.go", "types.go", "stack.go"} {
			i := strings.Index(msg, fmt.Sprintf("open %s: no such file or directory", filepath.Join(root, "expr", f)))
			if i <= last {
				t.Errorf("error for %s missing or out of order in %q", f, msg)
			}
			last = i
		}

		// The template is looked up before the destination: an unknown template fails the same way anywhere.
		err = (&generator{UI: newDemoUI()}).renderTemplate("nothing.go", nil)
		if want := "open templates/nothing.go.tmpl: file does not exist"; err == nil || err.Error() != want {
			t.Errorf("got error %v, want %q", err, want)
		}

		if got := strings.Join(demoKeys(demoSnapshot(t, root)), ","); got != "." {
			t.Errorf("entries created: %s", got)
		}
	})
}
