package golang

import (
	"crypto/sha256"
	"encoding/hex"
	"fmt"
	"os"
	"path/filepath"
	"sort"
	"strings"
	"testing"

	"github.com/gardenbed/charm/ui"
	"github.com/moorara/algo/parser/lr"

	"github.com/gardenbed/emerge/internal/ebnf/parser/spec"
)

// demoUI records every message the generator shows, in order.
type demoUI struct {
	ui.UI
	log []string
}

func newDemoUI() *demoUI {
	return &demoUI{UI: ui.NewNop()}
}

func (u *demoUI) Debugf(_ ui.Style, format string, a ...interface{}) {
	u.log = append(u.log, "D:"+strings.TrimSpace(fmt.Sprintf(format, a...)))
}

func (u *demoUI) Infof(_ ui.Style, format string, a ...interface{}) {
	u.log = append(u.log, "I:"+strings.TrimSpace(fmt.Sprintf(format, a...)))
}

// demoSnapshot maps every path below root to "dir" or to the SHA-256 of the file's content.
func demoSnapshot(t *testing.T, root string) map[string]string {
	t.Helper()

	snap := map[string]string{}
	err := filepath.Walk(root, func(path string, info os.FileInfo, err error) error {
		if err != nil {
			return err
		}

		rel, _ := filepath.Rel(root, path)
		if info.IsDir() {
			snap[rel] = "dir"
			return nil
		}

		b, err := os.ReadFile(path)
		if err != nil {
			return err
		}

		sum := sha256.Sum256(b)
		snap[rel] = hex.EncodeToString(sum[:])
		return nil
	})

	if err != nil {
		t.Fatalf("walking %s: %s", root, err)
	}

	return snap
}

func demoShow(snap map[string]string) string {
	keys := make([]string, 0, len(snap))
	for k := range snap {
		keys = append(keys, k)
	}
	sort.Strings(keys)

	var b strings.Builder
	for _, k := range keys {
		fmt.Fprintf(&b, "%s=%s\n", k, snap[k])
	}

	return b.String()
}

func demoErr(err error) string {
	if err == nil {
		return "<nil>"
	}
	return err.Error()
}

// The digests of the six files generated for the specification of the fixtures with the package name "expr".
var demoExprFiles = map[string]string{
	"errors.go": "512111d1107a96eb5ce7237893b02310ad04a755152f2e50b7ed9dcb4ab1aa23",
	"types.go":  "a64ece996bc55a9050c1ec5fc70b5b5ab4995e3c9a601d9cb5973e6ac5d15eb4",
	"stack.go":  "b6d6040d95d82bec8efccf9b9845e7b6b4c5a919ef23af24802649063b107aad",
	"input.go":  "f1a1e2b98a5ae2c173b4e4e731650566bf844a2da264958640b945e936e71de1",
	"lexer.go":  "f46958c2cad7b562c5ea1b41b0f344ad326e74ff8913d06e471b5a2d6d127583",
	"parser.go": "058298c155f503553f23b12dd97a389ba9bbf9c179c8b37cef3caf0f8106d221",
}

func demoGoodSpec(name string) *spec.Spec {
	return &spec.Spec{
		Name:        name,
		Definitions: definitions,
		Grammar:     grammars[0],
		Precedences: precedences[0],
	}
}

const demoLexerError = "\"ID\": invalid regular expression: [A-Z\n\"NUM\": invalid regular expression: [0-9\n"

const demoParserError = "error on building LALR(1) parsing table:\n" +
	"Error:      Ambiguous Grammar\n" +
	"Cause:      Multiple conflicts in the parsing table:\n" +
	"              1. Shift/Reduce conflict in ACTION[2, \"*\"]\n" +
	"              2. Shift/Reduce conflict in ACTION[2, \"+\"]\n" +
	"              3. Shift/Reduce conflict in ACTION[3, \"*\"]\n" +
	"              4. Shift/Reduce conflict in ACTION[3, \"+\"]\n" +
	"Resolution: Specify associativity and precedence for these Terminals/Productions:\n" +
	"              • \"*\" vs. \"*\", \"+\"\n" +
	"              • \"+\" vs. \"*\", \"+\"\n" +
	"            Terminals/Productions listed earlier will have higher precedence.\n" +
	"            Terminals/Productions in the same line will have the same precedence.\n\n"

var demoBadDefinitions = []*spec.TerminalDef{
	{Terminal: "ID", Value: "[A-Z", IsRegex: true},
	{Terminal: "NUM", Value: "[0-9", IsRegex: true},
}

func TestRefactorDemo_Generate(t *testing.T) {
	const messagesSuccess = `D:Checking output path "<OUT>" ...
D:Checking package directory "<PKG>" ...
I:Generating core types ...
D:Rendering "errors.go" ...
D:Rendering "types.go" ...
D:Rendering "stack.go" ...
I:Generating the lexer ...
I:Constructing Automaton ...
D:Rendering "input.go" ...
D:Rendering "lexer.go" ...
I:Generating the parser ...
I:Constructing LALR(1) Parsing Table ...
D:Rendering "parser.go" ...`

	tests := []struct {
		name string
		// setup prepares the output directory and returns the parameters.
		setup func(t *testing.T, out string) *Params
		// expectedError is the exact error text; <OUT> stands for the output directory.
		expectedError string
		// expectedNew are the entries that must have appeared below the output directory (relative path -> digest or "dir").
		expectedNew map[string]string
		// expectedLog is the exact sequence of messages (checked if not empty).
		expectedLog string
	}{
		{
			name: "Success",
			setup: func(t *testing.T, out string) *Params {
				return &Params{Path: out, Spec: demoGoodSpec("expr")}
			},
			expectedNew: map[string]string{
				"expr":           "dir",
				"expr/errors.go": demoExprFiles["errors.go"],
				"expr/types.go":  demoExprFiles["types.go"],
				"expr/stack.go":  demoExprFiles["stack.go"],
				"expr/input.go":  demoExprFiles["input.go"],
				"expr/lexer.go":  demoExprFiles["lexer.go"],
				"expr/parser.go": demoExprFiles["parser.go"],
			},
			expectedLog: strings.ReplaceAll(messagesSuccess, "<PKG>", "expr"),
		},
		{
			name: "Success_UncleanPath_Debug",
			setup: func(t *testing.T, out string) *Params {
				return &Params{Debug: true, Path: out + "/./sub/..//", Spec: demoGoodSpec("expr")}
			},
			expectedNew: map[string]string{
				"expr":           "dir",
				"expr/errors.go": demoExprFiles["errors.go"],
				"expr/types.go":  demoExprFiles["types.go"],
				"expr/stack.go":  demoExprFiles["stack.go"],
				"expr/input.go":  demoExprFiles["input.go"],
				"expr/lexer.go":  demoExprFiles["lexer.go"],
				"expr/parser.go": demoExprFiles["parser.go"],
			},
			expectedLog: strings.ReplaceAll(messagesSuccess, "<PKG>", "expr"),
		},
		{
			name: "Success_UnicodeName",
			setup: func(t *testing.T, out string) *Params {
				return &Params{Path: out, Spec: demoGoodSpec("_ünï٣")}
			},
			expectedNew: map[string]string{
				"_ünï٣":           "dir",
				"_ünï٣/errors.go": "*",
				"_ünï٣/types.go":  "*",
				"_ünï٣/stack.go":  "*",
				"_ünï٣/input.go":  "*",
				"_ünï٣/lexer.go":  "*",
				"_ünï٣/parser.go": "*",
			},
			expectedLog: strings.ReplaceAll(messagesSuccess, "<PKG>", "_ünï٣"),
		},
		{
			name: "OutMissing",
			setup: func(t *testing.T, out string) *Params {
				return &Params{Path: filepath.Join(out, "missing", "."), Spec: demoGoodSpec("expr")}
			},
			expectedError: `output path does not exist: "<OUT>/missing"`,
			expectedNew:   map[string]string{},
			expectedLog:   `D:Checking output path "<OUT>/missing" ...`,
		},
		{
			name: "OutMissing_NilSpec",
			setup: func(t *testing.T, out string) *Params {
				return &Params{Path: filepath.Join(out, "missing")}
			},
			expectedError: `output path does not exist: "<OUT>/missing"`,
			expectedNew:   map[string]string{},
		},
		{
			name: "OutIsFile",
			setup: func(t *testing.T, out string) *Params {
				return &Params{Path: filepath.Join(out, "keep.txt"), Spec: demoGoodSpec("expr")}
			},
			expectedError: `output path is not a directory: "<OUT>/keep.txt"`,
			expectedNew:   map[string]string{},
			expectedLog:   `D:Checking output path "<OUT>/keep.txt" ...`,
		},
		{
			name: "OutBelowFile",
			setup: func(t *testing.T, out string) *Params {
				return &Params{Path: filepath.Join(out, "keep.txt", "below"), Spec: demoGoodSpec("expr")}
			},
			expectedError: `error on checking output path: stat <OUT>/keep.txt/below: not a directory`,
			expectedNew:   map[string]string{},
		},
		{
			name: "OutNameTooLong",
			setup: func(t *testing.T, out string) *Params {
				return &Params{Path: filepath.Join(out, strings.Repeat("x", 300)), Spec: demoGoodSpec("expr")}
			},
			expectedError: `error on checking output path: stat <OUT>/` + strings.Repeat("x", 300) + `: file name too long`,
			expectedNew:   map[string]string{},
		},
		{
			name: "InvalidName_OutMissing_PathWins",
			setup: func(t *testing.T, out string) *Params {
				return &Params{Path: filepath.Join(out, "missing"), Spec: demoGoodSpec("4ever")}
			},
			expectedError: `output path does not exist: "<OUT>/missing"`,
			expectedNew:   map[string]string{},
		},
		{
			name: "InvalidName_Keyword",
			setup: func(t *testing.T, out string) *Params {
				return &Params{Path: out, Spec: demoGoodSpec("func")}
			},
			expectedError: `invalid package name: func`,
			expectedNew:   map[string]string{},
			expectedLog:   "D:Checking output path \"<OUT>\" ...\nD:Checking package directory \"func\" ...",
		},
		{
			name: "InvalidName_Empty",
			setup: func(t *testing.T, out string) *Params {
				return &Params{Path: out, Spec: demoGoodSpec("")}
			},
			expectedError: `invalid package name: `,
			expectedNew:   map[string]string{},
		},
		{
			name: "InvalidName_Blank",
			setup: func(t *testing.T, out string) *Params {
				return &Params{Path: out, Spec: demoGoodSpec("_")}
			},
			expectedError: `invalid package name: _`,
			expectedNew:   map[string]string{},
		},
		{
			name: "InvalidName_Traversal",
			setup: func(t *testing.T, out string) *Params {
				return &Params{Path: out, Spec: demoGoodSpec("../escape")}
			},
			expectedError: `invalid package name: ../escape`,
			expectedNew:   map[string]string{},
		},
		{
			name: "InvalidName_ExistingDir",
			setup: func(t *testing.T, out string) *Params {
				return &Params{Path: out, Spec: demoGoodSpec("old-pkg")}
			},
			expectedError: `invalid package name: old-pkg`,
			expectedNew:   map[string]string{},
		},
		{
			name: "PackageDirExists",
			setup: func(t *testing.T, out string) *Params {
				return &Params{Path: out, Spec: demoGoodSpec("oldpkg")}
			},
			expectedError: `error on creating package directory: mkdir <OUT>/oldpkg: file exists`,
			expectedNew:   map[string]string{},
			expectedLog:   "D:Checking output path \"<OUT>\" ...\nD:Checking package directory \"oldpkg\" ...",
		},
		{
			name: "PackageNameIsExistingFile",
			setup: func(t *testing.T, out string) *Params {
				return &Params{Path: out, Spec: demoGoodSpec("keep")}
			},
			expectedError: `error on creating package directory: mkdir <OUT>/keep: file exists`,
			expectedNew:   map[string]string{},
		},
		{
			name: "OutReadOnly",
			setup: func(t *testing.T, out string) *Params {
				if os.Geteuid() == 0 {
					t.Skip("a read-only directory does not stop root")
				}
				ro := filepath.Join(out, "ro")
				if err := os.Chmod(ro, 0555); err != nil {
					t.Fatal(err)
				}
				t.Cleanup(func() { _ = os.Chmod(ro, 0755) })
				return &Params{Path: ro, Spec: demoGoodSpec("expr")}
			},
			expectedError: `error on creating package directory: mkdir <OUT>/ro/expr: permission denied`,
			expectedNew:   map[string]string{},
		},
		{
			name: "LexerFails_OthersStillRun",
			setup: func(t *testing.T, out string) *Params {
				s := demoGoodSpec("expr")
				s.Definitions = demoBadDefinitions
				return &Params{Path: out, Spec: s}
			},
			expectedError: demoLexerError,
			expectedNew: map[string]string{
				"expr":           "dir",
				"expr/errors.go": demoExprFiles["errors.go"],
				"expr/types.go":  demoExprFiles["types.go"],
				"expr/stack.go":  demoExprFiles["stack.go"],
				"expr/parser.go": demoExprFiles["parser.go"],
			},
			expectedLog: `D:Checking output path "<OUT>" ...
D:Checking package directory "expr" ...
I:Generating core types ...
D:Rendering "errors.go" ...
D:Rendering "types.go" ...
D:Rendering "stack.go" ...
I:Generating the lexer ...
I:Constructing Automaton ...
I:Generating the parser ...
I:Constructing LALR(1) Parsing Table ...
D:Rendering "parser.go" ...`,
		},
		{
			name: "ParserFails_OthersStillRun",
			setup: func(t *testing.T, out string) *Params {
				s := demoGoodSpec("expr")
				s.Precedences = lr.PrecedenceLevels{}
				return &Params{Path: out, Spec: s}
			},
			expectedError: demoParserError,
			expectedNew: map[string]string{
				"expr":           "dir",
				"expr/errors.go": demoExprFiles["errors.go"],
				"expr/types.go":  demoExprFiles["types.go"],
				"expr/stack.go":  demoExprFiles["stack.go"],
				"expr/input.go":  demoExprFiles["input.go"],
				"expr/lexer.go":  demoExprFiles["lexer.go"],
			},
		},
		{
			name: "LexerAndParserFail",
			setup: func(t *testing.T, out string) *Params {
				s := demoGoodSpec("expr")
				s.Definitions = demoBadDefinitions
				s.Precedences = lr.PrecedenceLevels{}
				return &Params{Path: out, Spec: s}
			},
			expectedError: demoLexerError + demoParserError,
			expectedNew: map[string]string{
				"expr":           "dir",
				"expr/errors.go": demoExprFiles["errors.go"],
				"expr/types.go":  demoExprFiles["types.go"],
				"expr/stack.go":  demoExprFiles["stack.go"],
			},
		},
	}

	for _, tc := range tests {
		t.Run(tc.name, func(t *testing.T) {
			// Every case starts from the same output directory with bystanders that must never change.
			out, err := filepath.EvalSymlinks(t.TempDir())
			if err != nil {
				t.Fatal(err)
			}

			for path, content := range map[string]string{
				"keep.txt":          "do not touch\n",
				"keep":              "",
				"oldpkg/parser.go":  "package oldpkg // hand-written\n",
				"old-pkg/lexer.go":  "package old\n",
				"ro/placeholder.md": "# ro\n",
			} {
				full := filepath.Join(out, path)
				if err := os.MkdirAll(filepath.Dir(full), 0755); err != nil {
					t.Fatal(err)
				}
				if err := os.WriteFile(full, []byte(content), 0644); err != nil {
					t.Fatal(err)
				}
			}

			params := tc.setup(t, out)
			before := demoSnapshot(t, out)

			u := newDemoUI()
			err = Generate(u, params)

			// The result: an untyped nil or the exact text.
			expectedError := strings.ReplaceAll(tc.expectedError, "<OUT>", out)
			if expectedError == "" {
				if err != nil {
					t.Errorf("unexpected error: %#v", err)
				}
			} else if demoErr(err) != expectedError {
				t.Errorf("error:\n got %q\nwant %q", demoErr(err), expectedError)
			}

			// The messages.
			if tc.expectedLog != "" {
				expectedLog := strings.ReplaceAll(tc.expectedLog, "<OUT>", out)
				if got := strings.Join(u.log, "\n"); got != expectedLog {
					t.Errorf("messages:\n got:\n%s\nwant:\n%s", got, expectedLog)
				}
			}

			// The file system: whatever existed is unchanged, and exactly the expected entries are new.
			after := demoSnapshot(t, out)
			created := map[string]string{}
			for path, digest := range after {
				old, ok := before[path]
				switch {
				case !ok:
					created[path] = digest
				case old != digest:
					t.Errorf("%s existed and has been modified", path)
				}
			}

			for path := range before {
				if _, ok := after[path]; !ok {
					t.Errorf("%s existed and has been removed", path)
				}
			}

			expectedNew := map[string]string{}
			for path, digest := range tc.expectedNew {
				if digest == "*" {
					if d, ok := created[path]; ok && d != "dir" {
						digest = d
					}
				}
				expectedNew[path] = digest
			}

			if got, want := demoShow(created), demoShow(expectedNew); got != want {
				t.Errorf("created entries:\n got:\n%s\nwant:\n%s", got, want)
			}

			// A successful run leaves complete files: each one names the package and ends with a newline.
			if err == nil {
				for path, digest := range created {
					if digest == "dir" {
						continue
					}
					b, _ := os.ReadFile(filepath.Join(out, path))
					if !strings.Contains(string(b), "package "+params.Spec.Name+"\n") || !strings.HasSuffix(string(b), "\n") {
						t.Errorf("%s is not a complete file of package %s", path, params.Spec.Name)
					}
				}
			}
		})
	}
}

// TestRefactorDemo_Steps drives the unexported steps the way Generate does, but on unprepared directories.
func TestRefactorDemo_Steps(t *testing.T) {
	out, err := filepath.EvalSymlinks(t.TempDir())
	if err != nil {
		t.Fatal(err)
	}

	newGen := func(s *spec.Spec) (*generator, *demoUI) {
		u := newDemoUI()
		return &generator{UI: u, Params: &Params{Path: out, Spec: s}}, u
	}

	t.Run("prepare_CleansPath", func(t *testing.T) {
		g, _ := newGen(demoGoodSpec("prep"))
		g.Path = out + "//x/../"
		if err := g.prepare(); err != nil {
			t.Fatalf("unexpected error: %s", err)
		}
		if g.Path != out {
			t.Errorf("path: got %q want %q", g.Path, out)
		}
		if info, err := os.Stat(filepath.Join(out, "prep")); err != nil || !info.IsDir() {
			t.Errorf("package directory has not been created")
		}
		entries, _ := os.ReadDir(filepath.Join(out, "prep"))
		if len(entries) != 0 {
			t.Errorf("prepare has written files")
		}

		// A second run finds the directory and refuses.
		g, _ = newGen(demoGoodSpec("prep"))
		want := "error on creating package directory: mkdir " + out + "/prep: file exists"
		if err := g.prepare(); demoErr(err) != want {
			t.Errorf("error:\n got %q\nwant %q", demoErr(err), want)
		}
	})

	t.Run("generateCore_NoPackageDir", func(t *testing.T) {
		g, u := newGen(demoGoodSpec("nodir"))
		want := "open <OUT>/nodir/errors.go: no such file or directory\nopen <OUT>/nodir/types.go: no such file or directory\nopen <OUT>/nodir/stack.go: no such file or directory\n"
		if err := g.generateCore(); demoErr(err) != strings.ReplaceAll(want, "<OUT>", out) {
			t.Errorf("error:\n got %q\nwant %q", demoErr(err), want)
		}
		wantLog := `I:Generating core types ...
D:Rendering "errors.go" ...
D:Rendering "types.go" ...
D:Rendering "stack.go" ...`
		if got := strings.Join(u.log, "\n"); got != wantLog {
			t.Errorf("messages:\n got:\n%s\nwant:\n%s", got, wantLog)
		}
	})

	t.Run("generateLexer_NoPackageDir", func(t *testing.T) {
		g, _ := newGen(demoGoodSpec("nodir"))
		want := "open <OUT>/nodir/input.go: no such file or directory\nopen <OUT>/nodir/lexer.go: no such file or directory\n"
		if err := g.generateLexer(); demoErr(err) != strings.ReplaceAll(want, "<OUT>", out) {
			t.Errorf("error:\n got %q\nwant %q", demoErr(err), want)
		}
	})

	t.Run("generateParser_NoPackageDir", func(t *testing.T) {
		g, _ := newGen(demoGoodSpec("nodir"))
		want := "open <OUT>/nodir/parser.go: no such file or directory\n"
		if err := g.generateParser(); demoErr(err) != strings.ReplaceAll(want, "<OUT>", out) {
			t.Errorf("error:\n got %q\nwant %q", demoErr(err), want)
		}
	})

	t.Run("generateCore_OneFileExists", func(t *testing.T) {
		// types.go exists already: it is left alone, it is reported, and the other two files are still written.
		dir := filepath.Join(out, "partial")
		if err := os.Mkdir(dir, 0755); err != nil {
			t.Fatal(err)
		}
		if err := os.WriteFile(filepath.Join(dir, "types.go"), []byte("mine\n"), 0644); err != nil {
			t.Fatal(err)
		}

		g, _ := newGen(demoGoodSpec("partial"))
		want := "open <OUT>/partial/types.go: file exists\n"
		if err := g.generateCore(); demoErr(err) != strings.ReplaceAll(want, "<OUT>", out) {
			t.Errorf("error:\n got %q\nwant %q", demoErr(err), want)
		}

		if b, _ := os.ReadFile(filepath.Join(dir, "types.go")); string(b) != "mine\n" {
			t.Errorf("types.go has been modified: %q", b)
		}
		for _, name := range []string{"errors.go", "stack.go"} {
			b, err := os.ReadFile(filepath.Join(dir, name))
			if err != nil || !strings.Contains(string(b), "package partial\n") {
				t.Errorf("%s has not been written", name)
			}
		}
	})

	t.Run("renderTemplate", func(t *testing.T) {
		dir := filepath.Join(out, "render")
		if err := os.Mkdir(dir, 0755); err != nil {
			t.Fatal(err)
		}

		g, u := newGen(demoGoodSpec("render"))

		// An unknown template is refused before the package directory is looked at.
		want := "open templates/nothing.go.tmpl: file does not exist"
		if err := g.renderTemplate("nothing.go", nil); demoErr(err) != want {
			t.Errorf("error:\n got %q\nwant %q", demoErr(err), want)
		}
		if _, err := os.Stat(filepath.Join(dir, "nothing.go")); !os.IsNotExist(err) {
			t.Errorf("nothing.go has been created")
		}

		// Without params the unknown template is still the first complaint (no nil dereference).
		bare := &generator{UI: ui.NewNop()}
		if err := bare.renderTemplate("nothing.go", nil); demoErr(err) != want {
			t.Errorf("error:\n got %q\nwant %q", demoErr(err), want)
		}

		// The first rendering writes the file, the second one refuses to overwrite it.
		if err := g.renderTemplate("stack.go", &coreData{Package: "render"}); err != nil {
			t.Fatalf("unexpected error: %s", err)
		}
		first, _ := os.ReadFile(filepath.Join(dir, "stack.go"))
		if !strings.HasPrefix(string(first), "package render\n\n// stack represents") {
			t.Errorf("stack.go starts with %q", string(first[:60]))
		}

		want = "open " + dir + "/stack.go: file exists"
		if err := g.renderTemplate("stack.go", &coreData{Package: "other"}); demoErr(err) != want {
			t.Errorf("error:\n got %q\nwant %q", demoErr(err), want)
		}
		second, _ := os.ReadFile(filepath.Join(dir, "stack.go"))
		if string(first) != string(second) {
			t.Errorf("stack.go has been modified by the refused rendering")
		}

		wantLog := `D:Rendering "nothing.go" ...
D:Rendering "stack.go" ...
D:Rendering "stack.go" ...`
		if got := strings.Join(u.log, "\n"); got != wantLog {
			t.Errorf("messages:\n got:\n%s\nwant:\n%s", got, wantLog)
		}
	})
}

func TestRefactorDemo_Names(t *testing.T) {
	tests := map[string]bool{
		"expr": true, "Expr": true, "_x": true, "x_": true, "__": true, "x1": true, "über": true, "λ": true, "п1": true, "a٣": true,
		"nilx": true, "Nil": true, "go1": true, "main": true, "init": true, "string_": true,
		"": false, "_": false, "1x": false, "٣a": false, "a-b": false, "a.b": false, "a/b": false, "..": false, ".": false, "a b": false,
		" a": false, "a\n": false, "a\x00": false, "\x00": false, "a\xff": false, "é́-": false, "a$": false,
		"go": false, "func": false, "package": false, "nil": false, "true": false, "iota": false, "string": false, "any": false,
		"len": false, "recover": false, "uintptr": false, "comparable": false, "clear": false, "fallthrough": false,
	}

	for name, expected := range tests {
		if got := isIDValid(name); got != expected {
			t.Errorf("isIDValid(%q): got %t want %t", name, got, expected)
		}
	}
}
