package golang

// Characterization test for the emitted reader (templates/input.go.tmpl) and the lexer running on top of it.
//
// The test emits a lexer package for a small token specification, adds a probe file and a main program to it,
// compiles and runs the program once, and compares what the compiled code did with
//
//   - an oracle that walks the token automaton of the specification (Spec.DFA) over the runes of the input, and
//   - a model of the reader (Next / Retract / Lexeme / Skip) that works on the runes of the input and knows nothing of buffers.
//
// Neither depends on the buffer size, on how the io.Reader chops the input, or on where the halves of the buffer begin.

import (
	"encoding/json"
	"fmt"
	"os"
	"os/exec"
	"path/filepath"
	"strings"
	"testing"
	"unicode/utf8"

	"github.com/gardenbed/charm/ui"
	auto "github.com/moorara/algo/automata"

	"github.com/gardenbed/emerge/internal/ebnf/parser/spec"
)

const demoPackage = "lexdemo"

var demoDefinitions = []*spec.TerminalDef{
	{Terminal: "if", Value: "if"},
	{Terminal: "=", Value: "="},
	{Terminal: "==>", Value: "==>"},
	{Terminal: "LAMBDA", Value: "λ→"},
	{Terminal: "GRIN", Value: "😀"},
	{Terminal: "ID", Value: "[A-Za-z_][0-9A-Za-z_]*", IsRegex: true},
	{Terminal: "NUM", Value: "[0-9]+", IsRegex: true},
	{Terminal: "COMMENT", Value: "#[a-z]*", IsRegex: true},
}

// demoCase is one run of the compiled code. It is shared with the probe (see demoProbe) through a JSON file.
type demoCase struct {
	Name  string
	Input []byte
	Buf   int    // N, the size of one half of the buffer
	Chunk int    // 0: the reader hands out as much as asked for; k > 0: at most k bytes per Read
	Tail  bool   // the reader returns io.EOF together with the last bytes
	Ops   string // empty: run the lexer; otherwise a script for the reader (N, R, L, S)
}

const demoProbe = `package ` + demoPackage + `

import (
	"fmt"
	"io"
)

type Case struct {
	Name  string
	Input []byte
	Buf   int
	Chunk int
	Tail  bool
	Ops   string
}

type chunkReader struct {
	data  []byte
	chunk int
	tail  bool
}

func (r *chunkReader) Read(p []byte) (int, error) {
	if len(r.data) == 0 {
		return 0, io.EOF
	}
	n := len(p)
	if r.chunk > 0 && n > r.chunk {
		n = r.chunk
	}
	if n > len(r.data) {
		n = len(r.data)
	}
	copy(p, r.data[:n])
	r.data = r.data[n:]
	if r.tail && len(r.data) == 0 {
		return n, io.EOF
	}
	return n, nil
}

func fmtPos(p Position) string {
	return fmt.Sprintf("%s,%d,%d,%d", p.Filename, p.Offset, p.Line, p.Column)
}

func Run(c Case) []string {
	out := []string{}
	in, err := newInput("demo", &chunkReader{data: c.Input, chunk: c.Chunk, tail: c.Tail}, c.Buf)
	if err != nil {
		return append(out, "ERR:"+err.Error())
	}

	if c.Ops == "" {
		l := &Lexer{in: in}
		for k := 0; k < 1000000; k++ {
			tok, err := l.NextToken()
			if err != nil {
				return append(out, "ERR:"+err.Error())
			}
			out = append(out, fmt.Sprintf("%s|%q|%s", tok.Terminal.Name(), tok.Lexeme, fmtPos(tok.Pos)))
		}
		return append(out, "RUNAWAY")
	}

	for _, op := range c.Ops {
		switch op {
		case 'N':
			r, err := in.Next()
			if err != nil {
				out = append(out, "N:"+err.Error())
			} else {
				out = append(out, fmt.Sprintf("N:%x", r))
			}
		case 'R':
			in.Retract()
			out = append(out, "R")
		case 'L':
			s, p := in.Lexeme()
			out = append(out, fmt.Sprintf("L:%q@%s", s, fmtPos(p)))
		case 'S':
			p := in.Skip()
			out = append(out, "S@"+fmtPos(p))
		}
	}
	return out
}
`

const demoMain = `package main

import (
	"encoding/json"
	"os"

	"refactordemo/` + demoPackage + `"
)

func main() {
	data, err := os.ReadFile(os.Args[1])
	if err != nil {
		panic(err)
	}
	var cases []` + demoPackage + `.Case
	if err := json.Unmarshal(data, &cases); err != nil {
		panic(err)
	}
	results := make([][]string, len(cases))
	for i, c := range cases {
		results[i] = ` + demoPackage + `.Run(c)
	}
	if err := json.NewEncoder(os.Stdout).Encode(results); err != nil {
		panic(err)
	}
}
`

// demoPos gives the position of the rune with index idx: offset in runes, line and column, both 1-based.
func demoPos(runes []rune, idx int) string {
	line, col := 1, 1
	for _, r := range runes[:idx] {
		if r == '\n' {
			line, col = line+1, 1
		} else {
			col++
		}
	}
	return fmt.Sprintf("demo,%d,%d,%d", idx, line, col)
}

func demoLineCol(runes []rune, idx int) string {
	parts := strings.Split(demoPos(runes, idx), ",")
	return parts[2] + ":" + parts[3]
}

// demoOracle tokenises the input the way the token automaton prescribes.
// It also returns the largest number of bytes that are pending (lexeme plus lookahead) at any time.
func demoOracle(dfa *auto.DFA, owner map[auto.State]string, input []byte) ([]string, int) {
	runes := []rune(string(input))
	out := []string{}
	if len(runes) == 0 {
		return append(out, "ERR:EOF"), 1
	}

	maxPending := 1
	pending := func(from, to int) {
		if n := len(string(runes[from:to])); n > maxPending {
			maxPending = n
		}
	}

	begin, fwd := 0, 0
	for {
		curr := dfa.Start
		var emit bool
		for !emit {
			if fwd == len(runes) {
				if curr == dfa.Start {
					return append(out, "ERR:EOF"), maxPending
				}
				break
			}
			r := runes[fwd]
			fwd++
			pending(begin, fwd)
			next := dfa.Next(curr, auto.Symbol(r))
			if next == -1 {
				if curr == dfa.Start && (r == ' ' || r == '\t' || r == '\n' || r == '\r') {
					begin = fwd
					continue
				}
				fwd--
				emit = true
				break
			}
			curr = next
		}

		lexeme, at := string(runes[begin:fwd]), begin
		begin = fwd
		switch term, ok := owner[curr]; {
		case !ok:
			return append(out, fmt.Sprintf("ERR:lexical error at demo:%s:%s", demoLineCol(runes, at), lexeme)), maxPending
		case term == "WS" || term == "EOL" || term == "COMMENT":
		default:
			out = append(out, fmt.Sprintf("%s|%q|%s", term, lexeme, demoPos(runes, at)))
		}
	}
}

type demoRand uint64

func (r *demoRand) next(n int) int {
	*r = *r*6364136223846793005 + 1442695040888963407
	return int((uint64(*r) >> 33) % uint64(n))
}

// demoScript makes a script for the reader and the trace the model expects from it.
// The pending bytes never exceed n: what lies further back is no longer in the buffer.
func demoScript(input []byte, n int, rnd *demoRand) (string, []string) {
	runes := []rune(string(input))
	var ops strings.Builder
	trace := []string{}
	begin, fwd := 0, 0
	eofs := 0

	for eofs < 4 {
		op := "NNNNNRRLS"[rnd.next(9)]
		if op == 'N' && fwd < len(runes) && len(string(runes[begin:fwd+1])) > n {
			op = "LS"[rnd.next(2)]
		}
		ops.WriteByte(op)
		switch op {
		case 'N':
			if fwd == len(runes) {
				trace = append(trace, "N:EOF")
				eofs++
			} else {
				trace = append(trace, fmt.Sprintf("N:%x", runes[fwd]))
				fwd++
			}
		case 'R':
			if fwd > begin {
				fwd--
			}
			trace = append(trace, "R")
		case 'L':
			trace = append(trace, fmt.Sprintf("L:%q@%s", string(runes[begin:fwd]), demoPos(runes, begin)))
			begin = fwd
		case 'S':
			trace = append(trace, "S@"+demoPos(runes, begin))
			begin = fwd
		}
	}

	return ops.String(), trace
}

func demoInputs() map[string][]byte {
	inputs := map[string][]byte{
		"empty":       {},
		"one":         []byte("x"),
		"newline":     []byte("\n"),
		"stmt":        []byte("if x1 = 42"),
		"stmt-nl":     []byte("if x1 = 42\n"),
		"stmt-crlf":   []byte("if x1 = 42\r\n"),
		"keyword-ish": []byte("iffy if i f if0 _if"),
		"arrow":       []byte("a==>b = ==> =="),
		"arrow-err":   []byte("a ==b"),
		"arrow-eof":   []byte("a =="),
		"unknown":     []byte("ab $ cd"),
		"nul":         []byte("ab\x00cd"),
		"unicode":     []byte("λ→😀λ→ x😀\n😀\tλ→"),
		"lambda-err":  []byte("x λ y"),
		"comment":     []byte("#note x #\n#a#b 12#c"),
		"blank-lines": []byte("\n\n  \t\r\n a\n\n\nb \n"),
		"eight":       []byte("abcdefgh"),
		"eight-nl":    []byte("abcdefg\n"),
		"sixteen":     []byte("ab cd ef gh 1 2 "),
		"seventeen":   []byte("ab cd ef gh 1 2 3"),
	}

	// Longer inputs of every length around the multiples of the buffer sizes used below.
	vocab := []string{"if", "iffy", "x", "abc_1", "42", "7", "=", "==>", "λ→", "😀", "#note", "q", "Z9"}
	blanks := []string{" ", " ", "  ", "\t", "\n", "\r\n", "\n\n "}
	rnd := demoRand(19)
	var long []byte
	for len(long) < 9000 {
		long = append(long, vocab[rnd.next(len(vocab))]...)
		long = append(long, blanks[rnd.next(len(blanks))]...)
	}
	for _, n := range []int{7, 8, 9, 15, 16, 17, 23, 24, 25, 31, 32, 33, 47, 48, 49, 63, 64, 65, 127, 128, 129, 4095, 4096, 4097, 8191, 8192, 8193, 9000} {
		cut := long[:n]
		for !utf8.Valid(cut) {
			cut = cut[:len(cut)-1]
		}
		inputs[fmt.Sprintf("long-%d", n)] = cut
		head := cut[:len(cut)-1]
		for !utf8.Valid(head) {
			head = head[:len(head)-1]
		}
		inputs[fmt.Sprintf("long-%d-nl", n)] = append(append([]byte{}, head...), '\n')
	}

	// One token per line: every byte count up to a few halves of the smallest buffers.
	for n := 1; n <= 20; n++ {
		inputs[fmt.Sprintf("ones-%d", n)] = []byte(strings.Repeat("a\n", n)[:n])
	}

	return inputs
}

func TestRefactorDemo_EmittedReaderAndLexer(t *testing.T) {
	if testing.Short() {
		t.Skip("compiles and runs the emitted code")
	}

	dir := t.TempDir()
	sp := &spec.Spec{Name: demoPackage, Definitions: demoDefinitions}
	g := &generator{UI: ui.NewNop(), Params: &Params{Path: dir, Spec: sp}}
	for _, step := range []func() error{g.prepare, g.generateCore, g.generateLexer} {
		if err := step(); err != nil {
			t.Fatalf("emitting the lexer: %s", err)
		}
	}

	dfa, termMap, err := sp.DFA()
	if err != nil {
		t.Fatal(err)
	}
	if dfa.Start != 0 {
		t.Fatalf("start state: %d", dfa.Start)
	}
	owner := map[auto.State]string{}
	for term, states := range termMap {
		for _, s := range states {
			owner[s] = string(term)
		}
	}

	// Cases
	var cases []demoCase
	var expected [][]string
	add := func(c demoCase, exp []string) {
		c.Name = fmt.Sprintf("%s/buf=%d/chunk=%d/tail=%t/ops=%t", c.Name, c.Buf, c.Chunk, c.Tail, c.Ops != "")
		cases = append(cases, c)
		expected = append(expected, exp)
	}

	readers := []struct {
		chunk int
		tail  bool
	}{{0, false}, {0, true}, {1, false}, {3, true}, {5, false}}

	rnd := demoRand(7)
	for name, input := range demoInputs() {
		exp, maxPending := demoOracle(dfa, owner, input)

		sizes := map[int]bool{}
		for _, n := range []int{maxPending, maxPending + 1, 2*maxPending - 1, 7, 8, 16, 64, 4096} {
			if n >= maxPending {
				sizes[n] = true
			}
		}
		for n := range sizes {
			for _, rd := range readers {
				if len(input) > 1000 && rd.chunk == 1 {
					continue
				}
				add(demoCase{Name: name, Input: input, Buf: n, Chunk: rd.chunk, Tail: rd.tail}, exp)
			}
		}

		if len(input) == 0 || len(input) > 200 {
			continue
		}
		maxRune := 1
		for _, r := range string(input) {
			maxRune = max(maxRune, utf8.RuneLen(r))
		}
		for _, n := range []int{1, 2, 3, 4, 5, 8, 16, len(input) - 1, len(input), len(input) + 1} {
			if n < maxRune {
				continue
			}
			for _, rd := range readers[:4] {
				ops, trace := demoScript(input, n, &rnd)
				add(demoCase{Name: name, Input: input, Buf: n, Chunk: rd.chunk, Tail: rd.tail, Ops: ops}, trace)
			}
		}
	}

	// Concrete results, written down by hand.
	fixed := []struct {
		input string
		exp   []string
	}{
		{"if x1 = 42", []string{`if|"if"|demo,0,1,1`, `ID|"x1"|demo,3,1,4`, `=|"="|demo,6,1,7`, `NUM|"42"|demo,8,1,9`, "ERR:EOF"}},
		{"if x1 = 42\n", []string{`if|"if"|demo,0,1,1`, `ID|"x1"|demo,3,1,4`, `=|"="|demo,6,1,7`, `NUM|"42"|demo,8,1,9`, "ERR:EOF"}},
		{"iffy\n λ→ #c\n==>😀7", []string{`ID|"iffy"|demo,0,1,1`, `LAMBDA|"λ→"|demo,6,2,2`, `==>|"==>"|demo,12,3,1`, `GRIN|"😀"|demo,15,3,4`, `NUM|"7"|demo,16,3,5`, "ERR:EOF"}},
		{"a ==b", []string{`ID|"a"|demo,0,1,1`, "ERR:lexical error at demo:1:3:=="}},
		{"a\n $", []string{`ID|"a"|demo,0,1,1`, "ERR:lexical error at demo:2:2:"}},
		{"a\xffb", []string{"ERR:demo:1:2: invalid utf-8 character"}},
		{"ab \xe2\x28\xa1", []string{`ID|"ab"|demo,0,1,1`, "ERR:demo:1:4: invalid utf-8 character"}},
		{"", []string{"ERR:EOF"}},
	}
	for i, f := range fixed {
		for _, n := range []int{7, 8, 9, 10, 11, 12, 13, 14, 4096} {
			for _, rd := range readers {
				add(demoCase{Name: fmt.Sprintf("fixed-%d", i), Input: []byte(f.input), Buf: n, Chunk: rd.chunk, Tail: rd.tail}, f.exp)
			}
		}
	}

	// Compile and run
	write := func(name, content string) {
		if err := os.WriteFile(filepath.Join(dir, name), []byte(content), 0o644); err != nil {
			t.Fatal(err)
		}
	}
	data, err := json.Marshal(cases)
	if err != nil {
		t.Fatal(err)
	}
	write("go.mod", "module refactordemo\n\ngo 1.24\n")
	write("main.go", demoMain)
	write(filepath.Join(demoPackage, "probe.go"), demoProbe)
	write("cases.json", string(data))

	cmd := exec.Command("go", "run", ".", "cases.json")
	cmd.Dir = dir
	var stderr strings.Builder
	cmd.Stderr = &stderr
	stdout, err := cmd.Output()
	if err != nil {
		t.Fatalf("running the emitted code: %s\n%s", err, stderr.String())
	}

	var results [][]string
	if err := json.Unmarshal(stdout, &results); err != nil {
		t.Fatal(err)
	}
	if len(results) != len(cases) {
		t.Fatalf("results: %d, cases: %d", len(results), len(cases))
	}

	failures := 0
	for i, c := range cases {
		got, exp := results[i], expected[i]
		if strings.Join(got, "\n") == strings.Join(exp, "\n") {
			continue
		}
		if failures++; failures > 10 {
			continue
		}
		k := 0
		for k < len(got) && k < len(exp) && got[k] == exp[k] {
			k++
		}
		g, e := "<end>", "<end>"
		if k < len(got) {
			g = got[k]
		}
		if k < len(exp) {
			e = exp[k]
		}
		t.Errorf("%s: step %d of %d/%d (ops %q):\n  got      %s\n  expected %s", c.Name, k, len(got), len(exp), c.Ops, g, e)
	}
	if failures > 0 {
		t.Errorf("%d of %d cases failed", failures, len(cases))
	}
	t.Logf("%d cases compared", len(cases))
}
