package spec

import (
	"fmt"
	"os"
	"strings"
	"testing"

	"github.com/moorara/algo/grammar"
	"github.com/moorara/algo/lexer"
	"github.com/moorara/algo/parser/lr"
)

// demoHeader is shared by the inline grammars of the characterization test.
const demoHeader = `grammar demo;
ID  = $ID
NUM = /[0-9]+/
`

// demoRules gives every symbol used by the inline grammars a definition.
const demoRules = `
start = expr;
expr  = expr "+" expr | expr "-" expr | expr "*" expr | expr "/" expr | "-" expr | expr "?" | NUM | ID;
`

type demoCase struct {
	name       string
	directives string
	extraRules string
	// levels are the expected levels in order, each rendered by (*lr.PrecedenceLevel).String.
	levels []string
	// prodHandles is the expected number of production handles per level.
	prodHandles []int
	// errs are substrings of the expected error (no spec is returned then).
	errs []string
}

var demoCases = []demoCase{
	{
		name:        "NoDirectives",
		directives:  ``,
		levels:      []string{},
		prodHandles: []int{},
	},
	{
		name:        "SingleTerminalLeft",
		directives:  `@left "+"`,
		levels:      []string{`LEFT "+"`},
		prodHandles: []int{0},
	},
	{
		name:        "SingleTerminalRight",
		directives:  `@right "+"`,
		levels:      []string{`RIGHT "+"`},
		prodHandles: []int{0},
	},
	{
		name:        "SingleTerminalNone",
		directives:  `@none "+"`,
		levels:      []string{`NONE "+"`},
		prodHandles: []int{0},
	},
	{
		name: "SourceOrderIsKept",
		directives: `@left "*" "/"
@left "+" "-"
@none "?"`,
		levels:      []string{`LEFT "*", "/"`, `LEFT "+", "-"`, `NONE "?"`},
		prodHandles: []int{0, 0, 0},
	},
	{
		name: "SourceOrderIsKeptReversed",
		directives: `@none "?";
@left "+" "-";
@left "*" "/";`,
		levels:      []string{`NONE "?"`, `LEFT "+", "-"`, `LEFT "*", "/"`},
		prodHandles: []int{0, 0, 0},
	},
	{
		name: "AllThreeKinds",
		directives: `@right "*"
@none "+"
@left "-"
@right "/"`,
		levels:      []string{`RIGHT "*"`, `NONE "+"`, `LEFT "-"`, `RIGHT "/"`},
		prodHandles: []int{0, 0, 0, 0},
	},
	{
		name:        "TokenTerminals",
		directives:  `@left NUM ID "+"`,
		levels:      []string{`LEFT "+", "ID", "NUM"`},
		prodHandles: []int{0},
	},
	{
		name:        "DuplicateTerminalInOneDirective",
		directives:  `@left "+" "+" "-" "+"`,
		levels:      []string{`LEFT "+", "-"`},
		prodHandles: []int{0},
	},
	{
		name:        "SingleRuleHandle",
		directives:  `@right <expr = "-" expr>`,
		levels:      []string{`RIGHT expr = "-" expr`},
		prodHandles: []int{1},
	},
	{
		name:        "RuleHandleFirstThenTerminals",
		directives:  `@left <expr = expr "?"> "+" "-"`,
		levels:      []string{`LEFT "+", "-", expr = expr "?"`},
		prodHandles: []int{1},
	},
	{
		name:        "TerminalsThenRuleHandles",
		directives:  `@left "+" <expr = expr "?"> "-" <expr = "-" expr>`,
		levels:      []string{`LEFT "+", "-", expr = "-" expr, expr = expr "?"`},
		prodHandles: []int{2},
	},
	{
		name:        "TwoRuleHandles",
		directives:  `@none <expr = expr "*" expr> <expr = expr "/" expr>`,
		levels:      []string{`NONE expr = expr "*" expr, expr = expr "/" expr`},
		prodHandles: []int{2},
	},
	{
		name:        "RuleHandleWithAlternation",
		directives:  `@left <expr = expr "+" expr | expr "-" expr>`,
		levels:      []string{`LEFT expr = expr "+" expr, expr = expr "-" expr`},
		prodHandles: []int{2},
	},
	{
		name:        "RuleHandleWithTrailingBar",
		directives:  `@left <opt = "?" |>`,
		extraRules:  `opt = "?" | ;`,
		levels:      []string{`LEFT opt = "?", opt = ε`},
		prodHandles: []int{2},
	},
	{
		name:        "RuleHandleWithEmptyBody",
		directives:  `@none <nothing = >`,
		extraRules:  `nothing = ;`,
		levels:      []string{`NONE nothing = ε`},
		prodHandles: []int{1},
	},
	{
		name:        "RuleHandleWithGroup",
		directives:  `@left <expr = expr ("+" | "-") expr>`,
		levels:      []string{`LEFT expr = expr gen1_group expr`},
		prodHandles: []int{1},
	},
	{
		name:        "RuleHandleWithOption",
		directives:  `@left <pair = ID ["+" ID]>`,
		levels:      []string{`LEFT pair = "ID" gen1_opt`},
		prodHandles: []int{1},
	},
	{
		name:        "RuleHandleWithStarAndPlus",
		directives:  `@right <list = {ID} | {{NUM}}>`,
		levels:      []string{`RIGHT list = gen1_star, list = gen2_plus`},
		prodHandles: []int{2},
	},
	{
		name:        "RuleHandleCrossProduct",
		directives:  `@left <sum = (ID | NUM) ("+" | "-")>  "*"`,
		levels:      []string{`LEFT "*", sum = gen1_group gen2_group`},
		prodHandles: []int{1},
	},
	{
		name:        "RuleHandleConcatOfAlternatives",
		directives:  `@left <sum = ID "+" | NUM "-" | >`,
		levels:      []string{`LEFT sum = "ID" "+", sum = "NUM" "-", sum = ε`},
		prodHandles: []int{3},
	},
	{
		name:        "RepeatedRuleHandleInOneDirective",
		directives:  `@left <expr = "-" expr> <expr = "-" expr>`,
		levels:      []string{`LEFT expr = "-" expr`},
		prodHandles: []int{1},
	},
	{
		name: "MixedLevels",
		directives: `@right <expr = "-" expr>
@left "*" "/" <expr = expr "?">
@left "+" "-"
@none NUM <start = expr>`,
		levels: []string{
			`RIGHT expr = "-" expr`,
			`LEFT "*", "/", expr = expr "?"`,
			`LEFT "+", "-"`,
			`NONE "NUM", start = expr`,
		},
		prodHandles: []int{1, 1, 0, 1},
	},
	{
		name:        "EscapedStringTerminal",
		directives:  `@left "\"" "+"`,
		extraRules:  `quote = "\"";`,
		levels:      []string{`LEFT "\"", "+"`},
		prodHandles: []int{0},
	},
	{
		name: "TerminalInTwoLevels",
		directives: `@left "+" "-"
@right "*" "+"`,
		errs: []string{`"+" appeared in more than one precedence level`},
	},
	{
		name: "RuleHandleInTwoLevels",
		directives: `@left <expr = "-" expr>
@none "*"
@right <expr = "-" expr>`,
		errs: []string{`expr = "-" expr appeared in more than one precedence level`},
	},
	{
		name:       "UndefinedTokenInDirective",
		directives: `@left FOO "+"`,
		errs:       []string{`no definition for terminal "FOO"`},
	},
}

func TestRefactorDemo_ParseDirectives(t *testing.T) {
	dump := os.Getenv("REFACTOR_DEMO_DUMP") != ""

	for _, tc := range demoCases {
		t.Run(tc.name, func(t *testing.T) {
			src := demoHeader + tc.directives + "\n" + demoRules + tc.extraRules + "\n"

			spec, err := Parse(tc.name, strings.NewReader(src))

			if dump {
				if err != nil {
					t.Logf("DUMP %s: error: %s", tc.name, err)
				} else {
					for i, l := range spec.Precedences {
						t.Logf("DUMP %s[%d]: %s", tc.name, i, l)
					}
				}
			}

			if len(tc.errs) > 0 {
				if err == nil || spec != nil {
					t.Fatalf("expected an error and no spec, got spec=%v err=%v", spec, err)
				}
				for _, want := range tc.errs {
					if !strings.Contains(err.Error(), want) {
						t.Errorf("error %q does not contain %q", err, want)
					}
				}
				return
			}

			if err != nil {
				t.Fatalf("unexpected error: %s", err)
			}

			if spec.Precedences == nil {
				t.Fatalf("the list of levels must never be nil")
			}

			if got, want := len(spec.Precedences), len(tc.levels); got != want {
				t.Fatalf("expected %d levels, got %d:\n%s", want, got, spec.Precedences)
			}

			for i, level := range spec.Precedences {
				if got := level.String(); got != tc.levels[i] {
					t.Errorf("level %d: expected %q, got %q", i, tc.levels[i], got)
				}

				// The order of a handle is the index of the directive that lists it.
				prods := 0
				for h := range level.Handles.All() {
					prec, ok := spec.Precedences.Precedence(h)
					if !ok || prec.Order != i || prec.Associativity != level.Associativity {
						t.Errorf("level %d: handle %s resolves to %v, %t", i, h, prec, ok)
					}

					switch {
					case h.IsProduction():
						prods++
						// Every production of a rule handle is one of the productions of the grammar.
						found := false
						for p := range spec.Grammar.Productions.All() {
							if p.Equal(h.Production) {
								found = true
							}
						}
						if !found {
							t.Errorf("level %d: %s is not a production of the grammar", i, h)
						}
					case h.IsTerminal():
						if !spec.Grammar.Terminals.Contains(*h.Terminal) {
							t.Errorf("level %d: %s is not a terminal of the grammar", i, h)
						}
					default:
						t.Errorf("level %d: handle is neither a terminal nor a production", i)
					}
				}

				if prods != tc.prodHandles[i] {
					t.Errorf("level %d: expected %d production handles, got %d", i, tc.prodHandles[i], prods)
				}
			}
		})
	}
}

// The operators inside a rule handle must define their generated non-terminals in the grammar.
func TestRefactorDemo_RuleHandleExpansionIsInGrammar(t *testing.T) {
	src := demoHeader + `@right <list = {ID} | {{NUM}} | [ID NUM]>` + "\n" + demoRules

	spec, err := Parse("expansion", strings.NewReader(src))
	if err != nil {
		t.Fatalf("unexpected error: %s", err)
	}

	want := []string{
		`list → gen1_star`,
		`list → gen2_plus`,
		`list → gen3_opt`,
		`gen1_star → gen1_star "ID"`,
		`gen1_star → ε`,
		`gen2_plus → gen2_plus "NUM"`,
		`gen2_plus → "NUM"`,
		`gen3_opt → "ID" "NUM"`,
		`gen3_opt → ε`,
	}

	have := map[string]bool{}
	for p := range spec.Grammar.Productions.All() {
		have[p.String()] = true
	}

	for _, w := range want {
		if !have[w] {
			t.Errorf("production %s is missing from the grammar: %v", w, have)
		}
	}

	if got, want := spec.Precedences.String(), `RIGHT list = gen1_star, list = gen2_plus, list = gen3_opt`; got != want {
		t.Errorf("expected %q, got %q", want, got)
	}
}

func TestRefactorDemo_SymbolTable(t *testing.T) {
	st := NewSymbolTable()

	if l := st.Precedences(); l == nil || len(l) != 0 {
		t.Fatalf("expected an empty, non-nil list, got %#v", l)
	}

	plus, minus := grammar.Terminal("+"), grammar.Terminal("-")
	p1 := &grammar.Production{Head: "e", Body: grammar.String[grammar.Symbol]{grammar.NonTerminal("e"), plus, grammar.NonTerminal("e")}}
	p1dup := &grammar.Production{Head: "e", Body: grammar.String[grammar.Symbol]{grammar.NonTerminal("e"), plus, grammar.NonTerminal("e")}}
	p2 := &grammar.Production{Head: "e", Body: grammar.E}

	l1 := &lr.PrecedenceLevel{Associativity: lr.LEFT, Handles: lr.NewPrecedenceHandles(&lr.PrecedenceHandle{Terminal: &plus})}
	l2 := &lr.PrecedenceLevel{Associativity: lr.NONE, Handles: lr.NewPrecedenceHandles(&lr.PrecedenceHandle{Production: p1})}
	l3 := &lr.PrecedenceLevel{Associativity: lr.RIGHT, Handles: lr.NewPrecedenceHandles(&lr.PrecedenceHandle{Terminal: &minus})}

	for i, l := range []*lr.PrecedenceLevel{l1, l2, l3} {
		st.AddPrecedence(l)
		got := st.Precedences()
		if len(got) != i+1 || got[i] != l {
			t.Fatalf("after %d additions: %v", i+1, got)
		}
	}

	got := st.Precedences()
	if got[0] != l1 || got[1] != l2 || got[2] != l3 {
		t.Errorf("levels are not kept in the order they were added: %s", got)
	}
	if want := "LEFT \"+\"\nNONE e = e \"+\" e\nRIGHT \"-\""; got.String() != want {
		t.Errorf("expected %q, got %q", want, got.String())
	}

	pos := func(line int) *lexer.Position {
		return &lexer.Position{Filename: "f", Offset: line * 10, Line: line, Column: 1}
	}

	st.AddProduction(p1, pos(1))
	st.AddProduction(p2, pos(2))
	st.AddProduction(p1dup, pos(3))
	st.AddProduction(p1, pos(4))
	st.AddProduction(p2, nil)

	if n := len(st.Productions()); n != 2 {
		t.Errorf("expected 2 distinct productions, got %d", n)
	}

	check := func(p *grammar.Production, index int, occurrences string) {
		e, ok := st.productions.table.Get(p)
		if !ok {
			t.Fatalf("no entry for %s", p)
		}
		if e.index != index {
			t.Errorf("%s: expected index %d, got %d", p, index, e.index)
		}
		if got := fmt.Sprint(e.occurrences); got != occurrences {
			t.Errorf("%s: expected occurrences %s, got %s", p, occurrences, got)
		}
	}

	check(p1, 1, "[f:1:1 f:3:1 f:4:1]")
	check(p1dup, 1, "[f:1:1 f:3:1 f:4:1]")
	check(p2, 2, "[f:2:1 <nil>]")

	if st.productions.counter != 2 {
		t.Errorf("expected the counter to be 2, got %d", st.productions.counter)
	}

	st.Reset()
	if l := st.Precedences(); l == nil || len(l) != 0 {
		t.Errorf("expected an empty, non-nil list after Reset, got %#v", l)
	}
}
