package lexer

import (
	"crypto/sha256"
	"errors"
	"fmt"
	"io"
	"math/rand"
	"strings"
	"testing"

	"github.com/moorara/algo/lexer"
)

// demoRender scans the whole text and renders every token as TERMINAL<lexeme>@offset:line:column.
// The first error ends the rendering; the results of two more calls are appended after it,
// which pins down what the reader has consumed when an error is reported.
func demoRender(t *testing.T, text string) string {
	t.Helper()

	l, err := New("f", strings.NewReader(text))
	if err != nil {
		t.Fatalf("New: %v", err)
	}

	var b strings.Builder
	one := func() bool {
		tok, err := l.NextToken()
		if err != nil {
			if (tok != lexer.Token{}) {
				t.Errorf("%q: token %v alongside error %v", text, tok, err)
			}
			fmt.Fprintf(&b, "!%s\n", err)
			return false
		}
		fmt.Fprintf(&b, "%s<%s>@%d:%d:%d\n", string(tok.Terminal), tok.Lexeme, tok.Pos.Offset, tok.Pos.Line, tok.Pos.Column)
		if tok.Pos.Filename != "f" {
			t.Errorf("%q: filename %q", text, tok.Pos.Filename)
		}
		return true
	}

	for n := 0; n <= len(text)+1; n++ {
		if !one() {
			break
		}
	}
	one()
	one()

	return b.String()
}

func TestRefactorDemo_TokenStreams(t *testing.T) {
	const eof3 = "!EOF\n!EOF\n!EOF\n"

	tests := []struct {
		text     string
		expected string
	}{
		{"", eof3},
		{" \t \n\r\n", eof3},
		{"// only a comment", eof3},
		{"/* a */ /* b */\n// c\n", eof3},
		{"/**/", eof3},
		{"/***/", eof3},
		{
			"grammar demo;",
			"grammar<grammar>@0:1:1\nIDENT<demo>@8:1:9\n;<;>@12:1:13\n" + eof3,
		},
		{
			// Keywords win over identifiers, the longest run wins over keywords.
			"grammar grammars gramma g gr_ grammar_1 Grammar GRAMMAR",
			"grammar<grammar>@0:1:1\nIDENT<grammars>@8:1:9\nIDENT<gramma>@17:1:18\nIDENT<g>@24:1:25\nIDENT<gr_>@26:1:27\n" +
				"IDENT<grammar_1>@30:1:31\n!lexical error at f:1:41:G\nIDENT<rammar>@41:1:42\nTOKEN<GRAMMAR>@48:1:49\n",
		},
		{
			"= ; | ( ) [ ] { } {{ }} < >",
			"=<=>@0:1:1\n;<;>@2:1:3\n|<|>@4:1:5\n(<(>@6:1:7\n)<)>@8:1:9\n[<[>@10:1:11\n]<]>@12:1:13\n{<{>@14:1:15\n}<}>@16:1:17\n" +
				"{{<{{>@18:1:19\n}}<}}>@21:1:22\n<<<>@24:1:25\n><>>@26:1:27\n" + eof3,
		},
		{
			"{{{}}}",
			"{{<{{>@0:1:1\n{<{>@2:1:3\n}}<}}>@3:1:4\n}<}>@5:1:6\n" + eof3,
		},
		{
			"@left @right @none@left",
			"@left<@left>@0:1:1\n@right<@right>@6:1:7\n@none<@none>@13:1:14\n@left<@left>@18:1:19\n" + eof3,
		},
		{
			"@lef t",
			"!lexical error at f:1:1:@lef\nIDENT<t>@5:1:6\n!EOF\n",
		},
		{
			"@leftx",
			"@left<@left>@0:1:1\nIDENT<x>@5:1:6\n" + eof3,
		},
		{
			"$INT $A_1x $",
			"PREDEF<$INT>@0:1:1\nPREDEF<$A_1>@5:1:6\nIDENT<x>@9:1:10\n!lexical error at f:1:12:$\n!EOF\n!EOF\n",
		},
		{
			"$a",
			"!lexical error at f:1:1:$\nIDENT<a>@1:1:2\n!EOF\n",
		},
		{
			// A token name has at least two characters.
			"AB A_ A1 A",
			"TOKEN<AB>@0:1:1\nTOKEN<A_>@3:1:4\nTOKEN<A1>@6:1:7\n!lexical error at f:1:10:A\n!EOF\n!EOF\n",
		},
		{
			"abC1 a_b9Z",
			"IDENT<ab>@0:1:1\nTOKEN<C1>@2:1:3\nIDENT<a_b9>@5:1:6\n!lexical error at f:1:10:Z\n!EOF\n!EOF\n",
		},
		{
			// The lexeme of a string is the text between the quotes.
			`"a" "\"" "a\\" "//" "/*" "x"y`,
			"STRING<a>@0:1:1\nSTRING<\\\">@4:1:5\nSTRING<a\\\\>@9:1:10\nSTRING<//>@15:1:16\nSTRING</*>@20:1:21\nSTRING<x>@25:1:26\nIDENT<y>@28:1:29\n" + eof3,
		},
		{
			`""`,
			"!lexical error at f:1:1:\"\n!lexical error at f:1:2:\"\n!EOF\n",
		},
		{
			`"a b"`,
			"!lexical error at f:1:1:\"a\nIDENT<b>@3:1:4\n!lexical error at f:1:5:\"\n",
		},
		{
			`"abc`,
			"!lexical error at f:1:1:\"abc\n!EOF\n!EOF\n",
		},
		{
			// The lexeme of a pattern is the text between the slashes.
			`/a b/ /[0-9]+\/x/ /\\/ /"/`,
			"REGEX<a b>@0:1:1\nREGEX<[0-9]+\\/x>@6:1:7\nREGEX<\\\\>@18:1:19\nREGEX<\">@23:1:24\n" + eof3,
		},
		{
			"/a*/ /ab\n/",
			"REGEX<a*>@0:1:1\n!lexical error at f:1:6:/ab\n!lexical error at f:2:1:/\n!EOF\n",
		},
		{
			"/ /x",
			"REGEX< >@0:1:1\nIDENT<x>@3:1:4\n" + eof3,
		},
		{
			"/",
			"!lexical error at f:1:1:/\n!EOF\n!EOF\n",
		},
		{
			// A comment ends at the first */ and a line comment at the end of the line.
			"a /* x */ b */ c",
			"IDENT<a>@0:1:1\nIDENT<b>@10:1:11\n!lexical error at f:1:13:\n!lexical error at f:1:13:\n!lexical error at f:1:13:\n",
		},
		{
			"a // x /* y\nb /* 1\n2 **/ c",
			"IDENT<a>@0:1:1\nIDENT<b>@12:2:1\nIDENT<c>@25:3:7\n" + eof3,
		},
		{
			"a /* open",
			"IDENT<a>@0:1:1\n!lexical error at f:1:3:/* open\n!EOF\n!EOF\n",
		},
		{
			"a /* open *",
			"IDENT<a>@0:1:1\n!lexical error at f:1:3:/* open *\n!EOF\n!EOF\n",
		},
		{
			// Offsets and columns count runes, not bytes; a comment may hold ASCII only.
			"a // é\nb",
			"IDENT<a>@0:1:1\n!lexical error at f:1:6:\n!lexical error at f:1:6:\n!lexical error at f:1:6:\n",
		},
		{
			"a é b",
			"IDENT<a>@0:1:1\n!lexical error at f:1:3:\n!lexical error at f:1:3:\n!lexical error at f:1:3:\n",
		},
		{
			"ab\xffcd",
			// The error is at the position of the byte; the pending lexeme is not evaluated.
			"!f:1:3: invalid utf-8 character\n!f:1:3: invalid utf-8 character\n!f:1:3: invalid utf-8 character\n",
		},
		{
			"\n\n  ab\xff",
			"!f:3:5: invalid utf-8 character\n!f:3:5: invalid utf-8 character\n!f:3:5: invalid utf-8 character\n",
		},
		{
			"\"a\xc3\"",
			"!f:1:3: invalid utf-8 character\n!f:1:3: invalid utf-8 character\n!f:1:3: invalid utf-8 character\n",
		},
		{
			"x\r\n\r\ny\rz\n\tw",
			"IDENT<x>@0:1:1\nIDENT<y>@5:3:1\nIDENT<z>@7:3:3\nIDENT<w>@10:4:2\n" + eof3,
		},
		{
			"grammar g;\n\nexpr = expr \"+\" term @left\n     | NUM /* n */ ;\nNUM = /[0-9]+/;\n",
			"grammar<grammar>@0:1:1\nIDENT<g>@8:1:9\n;<;>@9:1:10\nIDENT<expr>@12:3:1\n=<=>@17:3:6\nIDENT<expr>@19:3:8\nSTRING<+>@24:3:13\n" +
				"IDENT<term>@28:3:17\n@left<@left>@33:3:22\n|<|>@44:4:6\nTOKEN<NUM>@46:4:8\n;<;>@58:4:20\nTOKEN<NUM>@60:5:1\n=<=>@64:5:5\n" +
				"REGEX<[0-9]+>@66:5:7\n;<;>@74:5:15\n" + eof3,
		},
		{
			"#",
			"!lexical error at f:1:1:\n!lexical error at f:1:1:\n!lexical error at f:1:1:\n",
		},
	}

	for _, tc := range tests {
		if got := demoRender(t, tc.text); got != tc.expected {
			t.Errorf("text %q\n got: %q\nwant: %q", tc.text, got, tc.expected)
		}
	}
}

// TestRefactorDemo_Corpus renders the token streams of a fixed pseudo-random corpus and compares a digest of them.
func TestRefactorDemo_Corpus(t *testing.T) {
	// The pieces after the first clean ones are no tokens, or no text at all.
	const clean = 44
	pieces := []string{
		"grammar", "gramma", "g", "r", "a", "m", "x_1", "AB", "A1", "Z9_", "$X", "$INT_1", "@left", "@right", "@none",
		"=", ";", "|", "(", ")", "[", "]", "{", "}", "{{", "}}", "<", ">", "\"", "\\", "/", "*", "//", "/*", "*/",
		" ", "\t", "\n", "\r", "\r\n", "0", "_", "+", ".",
		"$", "@", "@no", "A", "#", "'", "é", "€", "\U0001F600", "\uFFFD", "\xff", "\xc3", "\xe2\x82",
	}

	rnd := rand.New(rand.NewSource(905))
	h := sha256.New()
	errs, toks := 0, 0

	for n := 0; n < 4000; n++ {
		var b strings.Builder
		// Every other text is made of the clean pieces only.
		limit := len(pieces)
		if n%2 == 0 {
			limit = clean
		}

		for k := rnd.Intn(16); k > 0; k-- {
			b.WriteString(pieces[rnd.Intn(limit)])
		}

		out := demoRender(t, b.String())
		errs += strings.Count(out, "!lexical") + strings.Count(out, "invalid utf-8")
		toks += strings.Count(out, ">@")
		fmt.Fprintf(h, "%q\n%s\n", b.String(), out)
	}

	got := fmt.Sprintf("%x tokens=%d errors=%d", h.Sum(nil)[:8], toks, errs)
	const expected = "ebfb724bb585fbca tokens=6277 errors=7915"
	if got != expected {
		t.Errorf("corpus digest\n got: %s\nwant: %s", got, expected)
	}
}

// TestRefactorDemo_Reader drives the in-memory reader directly through its four operations.
func TestRefactorDemo_Reader(t *testing.T) {
	pos := func(p lexer.Position) string {
		return fmt.Sprintf("%s@%d:%d:%d", p.Filename, p.Offset, p.Line, p.Column)
	}

	var in inputBuffer = newTextInput("r", []byte("aé\n€\U0001F600�b\r\nc\xffd"))
	var log []string

	next := func() {
		r, err := in.Next()
		switch {
		case err == nil:
			log = append(log, fmt.Sprintf("N%q", r))
		case errors.Is(err, io.EOF):
			log = append(log, "Neof")
		default:
			log = append(log, "N!"+err.Error())
		}
	}
	retract := func() { in.Retract(); log = append(log, "R") }
	lexeme := func() { s, p := in.Lexeme(); log = append(log, fmt.Sprintf("L%q%s", s, pos(p))) }
	skip := func() { log = append(log, "S"+pos(in.Skip())) }

	retract() // Nothing is pending: no effect.
	lexeme()
	next()
	next()
	retract()
	next()
	lexeme() // "aé"
	next()   // \n
	next()   // €
	next()   // emoji
	retract()
	retract()
	retract()
	retract() // Nothing is pending any more.
	skip()
	next() // \n again
	skip()
	next() // €
	next() // emoji
	next() // U+FFFD, written out: valid
	retract()
	lexeme() // "€emoji"
	next()   // U+FFFD
	next()   // b
	next()   // \r
	next()   // \n
	next()   // c
	next()   // \xff: error at the position of forward
	next()   // the same again
	retract()
	lexeme() // U+FFFD b \r \n
	next()   // c
	next()   // error
	skip()
	next() // error, now with nothing pending
	skip()
	lexeme()

	expected := []string{
		"R", `L""r@0:1:1`, "N'a'", "N'é'", "R", "N'é'", `L"aé"r@0:1:1`,
		`N'\n'`, "N'€'", "N'\U0001F600'", "R", "R", "R", "R", "Sr@2:1:3",
		`N'\n'`, "Sr@2:1:3",
		"N'€'", "N'\U0001F600'", "N'�'", "R", "L\"€\U0001F600\"r@3:2:1",
		"N'�'", "N'b'", `N'\r'`, `N'\n'`, "N'c'",
		"N!r:3:2: invalid utf-8 character", "N!r:3:2: invalid utf-8 character",
		"R", "L\"�b\\r\\n\"r@5:2:3",
		"N'c'", "N!r:3:2: invalid utf-8 character", "Sr@9:3:1",
		"N!r:3:2: invalid utf-8 character", "Sr@10:3:2", `L""r@10:3:2`,
	}

	if got, want := strings.Join(log, " | "), strings.Join(expected, " | "); got != want {
		t.Errorf("reader log\n got: %s\nwant: %s", got, want)
	}

	// The end of the input is reported as often as it is asked for, and a retraction makes the last rune available again.
	in = newTextInput("r", []byte("ab"))
	log = nil
	next()
	next()
	next()
	next()
	retract()
	next()
	next()
	lexeme()
	next()
	skip()

	expected = []string{"N'a'", "N'b'", "Neof", "Neof", "R", "N'b'", "Neof", `L"ab"r@0:1:1`, "Neof", "Sr@2:1:3"}
	if got, want := strings.Join(log, " | "), strings.Join(expected, " | "); got != want {
		t.Errorf("reader log at the end\n got: %s\nwant: %s", got, want)
	}
}
