package ast

import (
	"fmt"
	"regexp"
	"sort"
	"strings"
	"testing"

	auto "github.com/moorara/algo/automata"

	"github.com/gardenbed/emerge/internal/regex/parser/nfa"
)

// demoPoses renders a set of positions, distinguishing a nil slice from an empty one.
func demoPoses(p Poses) string {
	if p == nil {
		return "nil"
	}
	return fmt.Sprint([]Pos(p))
}

func demoComp(c *computed) string {
	if c == nil {
		return "{-}"
	}
	n := "f"
	if c.nullable {
		n = "t"
	}
	return fmt.Sprintf("{%s %s %s}", n, demoPoses(c.firstPos), demoPoses(c.lastPos))
}

// demoTree renders a syntax tree together with the memoized values of every Concat and Alt node.
func demoTree(n Node) string {
	list := func(ns []Node) string {
		ss := make([]string, len(ns))
		for i, e := range ns {
			ss[i] = demoTree(e)
		}
		return strings.Join(ss, " ")
	}

	switch v := n.(type) {
	case *Concat:
		return "C" + demoComp(v.comp) + "(" + list(v.Exprs) + ")"
	case *Alt:
		return "A" + demoComp(v.comp) + "(" + list(v.Exprs) + ")"
	case *Star:
		return "S(" + demoTree(v.Expr) + ")"
	case *Empty:
		return "e"
	case *Char:
		if v.Val == endMarker {
			return fmt.Sprintf("#%d", v.Pos)
		}
		return fmt.Sprintf("%c%d", v.Val, v.Pos)
	default:
		return "?"
	}
}

func demoFollows(a *AST) string {
	keys := make([]int, 0, len(a.follows))
	for p := range a.follows {
		keys = append(keys, int(p))
	}
	sort.Ints(keys)

	ss := make([]string, len(keys))
	for i, p := range keys {
		ss[i] = fmt.Sprintf("%d:%s", p, demoPoses(a.follows[Pos(p)]))
	}
	return strings.Join(ss, " ")
}

func demoIndex(a *AST) string {
	ps := make([]string, 0, len(a.posToChar))
	for p := Pos(1); p <= a.lastPos; p++ {
		c := a.posToChar[p]
		if c == endMarker {
			ps = append(ps, fmt.Sprintf("%d=#", p))
		} else {
			ps = append(ps, fmt.Sprintf("%d=%c", p, c))
		}
	}

	chars := make([]int, 0, len(a.charToPos))
	for c := range a.charToPos {
		chars = append(chars, int(c))
	}
	sort.Ints(chars)

	cs := make([]string, len(chars))
	for i, c := range chars {
		if rune(c) == endMarker {
			cs[i] = fmt.Sprintf("#=%s", demoPoses(a.charToPos[rune(c)]))
		} else {
			cs[i] = fmt.Sprintf("%c=%s", rune(c), demoPoses(a.charToPos[rune(c)]))
		}
	}

	return fmt.Sprintf("last=%d len=%d %s | %s", a.lastPos, len(a.posToChar), strings.Join(ps, " "), strings.Join(cs, " "))
}

// demoWords returns all the strings over the given alphabet with a length of at most max, in a fixed order.
func demoWords(alphabet string, max int) []string {
	words := []string{""}
	for prev, l := []string{""}, 1; l <= max; l++ {
		next := []string{}
		for _, w := range prev {
			for _, c := range alphabet {
				next = append(next, w+string(c))
			}
		}
		words = append(words, next...)
		prev = next
	}
	return words
}

func demoString(w string) auto.String {
	s := auto.String{}
	for _, c := range w {
		s = append(s, auto.Symbol(c))
	}
	return s
}

// TestRefactorDemo_Parse pins the result of the preprocessing done by Parse
// (positions, character index, followpos and the memoized nullable/firstpos/lastpos of every node).
func TestRefactorDemo_Parse(t *testing.T) {
	tests := []struct {
		regex           string
		expectedTree    string
		expectedIndex   string
		expectedFollows string
	}{
		{
			"a",
			"C{-}(C{f [1] [1]}(a1) #2)",
			"last=2 len=2 1=a 2=# | a=[1] #=[2]",
			"1:[2]",
		},
		{
			"ab",
			"C{-}(C{f [1] [2]}(a1 b2) #3)",
			"last=3 len=3 1=a 2=b 3=# | a=[1] b=[2] #=[3]",
			"1:[2] 2:[3]",
		},
		{
			"a?",
			"C{-}(C{t [1] [1]}(A{t [1] [1]}(e a1)) #2)",
			"last=2 len=2 1=a 2=# | a=[1] #=[2]",
			"1:[2]",
		},
		{
			"a*",
			"C{-}(C{t [1] [1]}(S(a1)) #2)",
			"last=2 len=2 1=a 2=# | a=[1] #=[2]",
			"1:[1 2]",
		},
		{
			"a+",
			"C{-}(C{f [1] [1 2]}(C{f [1] [1 2]}(a1 S(a2))) #3)",
			"last=3 len=3 1=a 2=a 3=# | a=[1 2] #=[3]",
			"1:[2 3] 2:[2 3]",
		},
		{
			"(a|b)*abb",
			"C{-}(C{f [1 2 3] [5]}(S(A{f [1 2] [1 2]}(C{f [1] [1]}(a1) C{f [2] [2]}(b2))) a3 b4 b5) #6)",
			"last=6 len=6 1=a 2=b 3=a 4=b 5=b 6=# | a=[1 3] b=[2 4 5] #=[6]",
			"1:[1 2 3] 2:[1 2 3] 3:[4] 4:[5] 5:[6]",
		},
		{
			"a?b?c",
			"C{-}(C{f [1 2 3] [3]}(A{t [1] [1]}(e a1) A{t [2] [2]}(e b2) c3) #4)",
			"last=4 len=4 1=a 2=b 3=c 4=# | a=[1] b=[2] c=[3] #=[4]",
			"1:[2 3] 2:[3] 3:[4]",
		},
		{
			"ab?c?",
			"C{-}(C{f [1] [1 2 3]}(a1 A{t [2] [2]}(e b2) A{t [3] [3]}(e c3)) #4)",
			"last=4 len=4 1=a 2=b 3=c 4=# | a=[1] b=[2] c=[3] #=[4]",
			"1:[2 3 4] 2:[3 4] 3:[4]",
		},
		{
			"a?b*",
			"C{-}(C{t [1 2] [1 2]}(A{t [1] [1]}(e a1) S(b2)) #3)",
			"last=3 len=3 1=a 2=b 3=# | a=[1] b=[2] #=[3]",
			"1:[2 3] 2:[2 3]",
		},
		{
			"(a*)*",
			"C{-}(C{t [1] [1]}(S(C{t [1] [1]}(S(a1)))) #2)",
			"last=2 len=2 1=a 2=# | a=[1] #=[2]",
			"1:[1 1 2]",
		},
		{
			"(a?)*",
			"C{-}(C{t [1] [1]}(S(C{t [1] [1]}(A{t [1] [1]}(e a1)))) #2)",
			"last=2 len=2 1=a 2=# | a=[1] #=[2]",
			"1:[1 2]",
		},
		{
			"(a*b*)*c",
			"C{-}(C{f [1 2 3] [3]}(S(C{t [1 2] [1 2]}(S(a1) S(b2))) c3) #4)",
			"last=4 len=4 1=a 2=b 3=c 4=# | a=[1] b=[2] c=[3] #=[4]",
			"1:[1 1 2 2 3] 2:[1 2 2 3] 3:[4]",
		},
		{
			"a{2,3}",
			"C{-}(C{f [1] [2 3]}(C{f [1] [2 3]}(a1 a2 A{t [3] [3]}(e a3))) #4)",
			"last=4 len=4 1=a 2=a 3=a 4=# | a=[1 2 3] #=[4]",
			"1:[2] 2:[3 4] 3:[4]",
		},
		{
			"a{0,2}",
			"C{-}(C{t [1 2] [1 2]}(C{t [1 2] [1 2]}(A{t [1] [1]}(e a1) A{t [2] [2]}(e a2))) #3)",
			"last=3 len=3 1=a 2=a 3=# | a=[1 2] #=[3]",
			"1:[2 3] 2:[3]",
		},
		{
			"a{2,}",
			"C{-}(C{f [1] [2 3]}(C{f [1] [2 3]}(a1 a2 S(a3))) #4)",
			"last=4 len=4 1=a 2=a 3=a 4=# | a=[1 2 3] #=[4]",
			"1:[2] 2:[3 4] 3:[3 4]",
		},
		{
			"a{0,}",
			"C{-}(C{t [1] [1]}(C{t [1] [1]}(S(a1))) #2)",
			"last=2 len=2 1=a 2=# | a=[1] #=[2]",
			"1:[1 2]",
		},
		{
			"a{3}",
			"C{-}(C{f [1] [3]}(C{f [1] [3]}(a1 a2 a3)) #4)",
			"last=4 len=4 1=a 2=a 3=a 4=# | a=[1 2 3] #=[4]",
			"1:[2] 2:[3] 3:[4]",
		},
		{
			"a{0}",
			"C{-}(C{t [] []}(C{t [] []}()) #1)",
			"last=1 len=1 1=# | #=[1]",
			"",
		},
		{
			"ba{0,0}",
			"C{-}(C{f [1] [1]}(b1 C{t [] []}()) #2)",
			"last=2 len=2 1=b 2=# | b=[1] #=[2]",
			"1:[2]",
		},
		{
			"(a?){2}",
			"C{-}(C{t [1 2] [1 2]}(C{t [1 2] [1 2]}(C{t [1] [1]}(A{t [1] [1]}(e a1)) C{t [2] [2]}(A{t [2] [2]}(e a2)))) #3)",
			"last=3 len=3 1=a 2=a 3=# | a=[1 2] #=[3]",
			"1:[2 3] 2:[3]",
		},
		{
			"(ab?){1,2}",
			"C{-}(C{f [1] [1 2 3 4]}(C{f [1] [1 2 3 4]}(C{f [1] [1 2]}(a1 A{t [2] [2]}(e b2)) A{t [3] [3 4]}(e C{f [3] [3 4]}(a3 A{t [4] [4]}(e b4))))) #5)",
			"last=5 len=5 1=a 2=b 3=a 4=b 5=# | a=[1 3] b=[2 4] #=[5]",
			"1:[2 3 5] 2:[3 5] 3:[4 5] 4:[5]",
		},
		{
			"(a|b?)c",
			"C{-}(C{f [1 2 3] [3]}(A{t [1 2] [1 2]}(C{f [1] [1]}(a1) C{t [2] [2]}(A{t [2] [2]}(e b2))) c3) #4)",
			"last=4 len=4 1=a 2=b 3=c 4=# | a=[1] b=[2] c=[3] #=[4]",
			"1:[3] 2:[3] 3:[4]",
		},
		{
			"(a*|b)+",
			"C{-}(C{t [1 2 3 4] [1 2 3 4]}(C{t [1 2 3 4] [1 2 3 4]}(A{t [1 2] [1 2]}(C{t [1] [1]}(S(a1)) C{f [2] [2]}(b2)) S(A{t [3 4] [3 4]}(C{t [3] [3]}(S(a3)) C{f [4] [4]}(b4))))) #5)",
			"last=5 len=5 1=a 2=b 3=a 4=b 5=# | a=[1 3] b=[2 4] #=[5]",
			"1:[1 3 4 5] 2:[3 4 5] 3:[3 3 4 5] 4:[3 4 5]",
		},
		{
			"[ab]c?",
			"C{-}(C{f [1 2] [1 2 3]}(A{f [1 2] [1 2]}(a1 b2) A{t [3] [3]}(e c3)) #4)",
			"last=4 len=4 1=a 2=b 3=c 4=# | a=[1] b=[2] c=[3] #=[4]",
			"1:[3 4] 2:[3 4] 3:[4]",
		},
		{
			"(a|b){0,1}(c|d){2}",
			"C{-}(C{f [1 2 3 4] [5 6]}(C{t [1 2] [1 2]}(A{t [1 2] [1 2]}(e A{f [1 2] [1 2]}(C{f [1] [1]}(a1) C{f [2] [2]}(b2)))) C{f [3 4] [5 6]}(A{f [3 4] [3 4]}(C{f [3] [3]}(c3) C{f [4] [4]}(d4)) A{f [5 6] [5 6]}(C{f [5] [5]}(c5) C{f [6] [6]}(d6)))) #7)",
			"last=7 len=7 1=a 2=b 3=c 4=d 5=c 6=d 7=# | a=[1] b=[2] c=[3 5] d=[4 6] #=[7]",
			"1:[3 4] 2:[3 4] 3:[5 6] 4:[5 6] 5:[7] 6:[7]",
		},
		{
			"(a?b?){2,}",
			"C{-}(C{t [1 2 3 4 5 6] [1 2 3 4 5 6]}(C{t [1 2 3 4 5 6] [1 2 3 4 5 6]}(C{t [1 2] [1 2]}(A{t [1] [1]}(e a1) A{t [2] [2]}(e b2)) C{t [3 4] [3 4]}(A{t [3] [3]}(e a3) A{t [4] [4]}(e b4)) S(C{t [5 6] [5 6]}(A{t [5] [5]}(e a5) A{t [6] [6]}(e b6))))) #7)",
			"last=7 len=7 1=a 2=b 3=a 4=b 5=a 6=b 7=# | a=[1 3 5] b=[2 4 6] #=[7]",
			"1:[2 3 4 5 6 7] 2:[3 4 5 6 7] 3:[4 5 6 7] 4:[5 6 7] 5:[5 6 6 7] 6:[5 6 7]",
		},
		{
			"((a|b)c?)*",
			"C{-}(C{t [1 2] [1 2 3]}(S(C{f [1 2] [1 2 3]}(A{f [1 2] [1 2]}(C{f [1] [1]}(a1) C{f [2] [2]}(b2)) A{t [3] [3]}(e c3)))) #4)",
			"last=4 len=4 1=a 2=b 3=c 4=# | a=[1] b=[2] c=[3] #=[4]",
			"1:[1 2 3 4] 2:[1 2 3 4] 3:[1 2 4]",
		},
		{
			"a(b*c*)d",
			"C{-}(C{f [1] [4]}(a1 C{t [2 3] [2 3]}(S(b2) S(c3)) d4) #5)",
			"last=5 len=5 1=a 2=b 3=c 4=d 5=# | a=[1] b=[2] c=[3] d=[4] #=[5]",
			"1:[2 3 4] 2:[2 3 4] 3:[3 4] 4:[5]",
		},
	}

	for _, tc := range tests {
		t.Run(tc.regex, func(t *testing.T) {
			a, err := Parse(tc.regex)
			if err != nil {
				t.Fatalf("unexpected error: %s", err)
			}

			if got := demoTree(a.Root); got != tc.expectedTree {
				t.Errorf("tree:\n got: %s\nwant: %s", got, tc.expectedTree)
			}
			if got := demoIndex(a); got != tc.expectedIndex {
				t.Errorf("index:\n got: %s\nwant: %s", got, tc.expectedIndex)
			}
			if got := demoFollows(a); got != tc.expectedFollows {
				t.Errorf("follows:\n got: %s\nwant: %s", got, tc.expectedFollows)
			}

			// followPos is a plain lookup into the follows map.
			for p := Pos(0); p <= a.lastPos+1; p++ {
				if got, want := demoPoses(a.followPos(p)), demoPoses(a.follows[p]); got != want {
					t.Errorf("followPos(%d): got %s, want %s", p, got, want)
				}
			}
		})
	}
}

// TestRefactorDemo_Errors pins the error cases of Parse, including the rejection of the end-marker.
func TestRefactorDemo_Errors(t *testing.T) {
	tests := []struct {
		regex         string
		expectedError string
	}{
		{"(", "invalid regular expression: ("},
		{"a{3,1}", "invalid repetition range {3,1}"},
		{"[z-a]", "invalid character range z-a"},
		{`\xEEEE`, `unsupported character U+EEEE in regular expression: \xEEEE`},
		{`a\xEEEEb`, `unsupported character U+EEEE in regular expression: a\xEEEEb`},
		{`(a|b)*\xEEEE`, `unsupported character U+EEEE in regular expression: (a|b)*\xEEEE`},
		{`(a|\xEEEE)b`, `unsupported character U+EEEE in regular expression: (a|\xEEEE)b`},
		{`a(b\xEEEE)+`, `unsupported character U+EEEE in regular expression: a(b\xEEEE)+`},
		{`(x\xEEEE?){2,3}`, `unsupported character U+EEEE in regular expression: (x\xEEEE?){2,3}`},
		{`a{0}(b|(c|\x0000EEEE*))`, `unsupported character U+EEEE in regular expression: a{0}(b|(c|\x0000EEEE*))`},
	}

	for _, tc := range tests {
		a, err := Parse(tc.regex)
		if a != nil || err == nil || err.Error() != tc.expectedError {
			t.Errorf("Parse(%q): got (%v, %v), want error %q", tc.regex, a, err, tc.expectedError)
		}
	}

	// A character close to the end-marker is fine.
	if _, err := Parse(`a\xEEEFb\xEEED`); err != nil {
		t.Errorf("unexpected error: %s", err)
	}
}

func TestRefactorDemo_ContainsChar(t *testing.T) {
	tree := &Concat{
		Exprs: []Node{
			&Alt{Exprs: []Node{&Empty{}, &Char{Val: 'a'}}},
			&Star{Expr: &Concat{Exprs: []Node{&Char{Val: 'b'}, &Star{Expr: &Char{Val: 'c'}}}}},
			&Alt{},
			&Concat{},
			&Char{Val: 'd'},
		},
	}

	for c, expected := range map[rune]bool{'a': true, 'b': true, 'c': true, 'd': true, 'e': false, 0: false, endMarker: false} {
		if got := containsChar(tree, c); got != expected {
			t.Errorf("containsChar(tree, %q): got %t, want %t", c, got, expected)
		}
	}

	if containsChar(nil, 'a') || containsChar(&Empty{}, 'a') || containsChar(&Star{Expr: &Empty{}}, 'a') {
		t.Error("containsChar: unexpected match")
	}
	if !containsChar(&Char{Val: 'a'}, 'a') || containsChar(&Char{Val: 'a'}, 'b') {
		t.Error("containsChar: wrong result for a leaf")
	}
}

// TestRefactorDemo_IndexAndFollows drives indexChars and computeFollows directly on a hand-built tree for (a?b*|ε)(c|d)*e?#
func TestRefactorDemo_IndexAndFollows(t *testing.T) {
	root := &Concat{
		Exprs: []Node{
			&Alt{Exprs: []Node{
				&Concat{Exprs: []Node{
					&Alt{Exprs: []Node{&Empty{}, &Char{Val: 'a'}}},
					&Star{Expr: &Char{Val: 'b'}},
				}},
				&Empty{},
			}},
			&Star{Expr: &Alt{Exprs: []Node{&Char{Val: 'c'}, &Char{Val: 'd'}}}},
			&Alt{Exprs: []Node{&Empty{}, &Char{Val: 'e'}}},
			&Char{Val: endMarker},
		},
	}

	a := &AST{
		Root:      root,
		posToChar: map[Pos]rune{},
		charToPos: map[rune]Poses{},
		follows:   map[Pos]Poses{},
	}

	a.indexChars(a.Root)

	if got, want := demoTree(a.Root), "C{-}(A{-}(C{-}(A{-}(e a1) S(b2)) e) S(A{-}(c3 d4)) A{-}(e e5) #6)"; got != want {
		t.Errorf("tree after indexChars:\n got: %s\nwant: %s", got, want)
	}
	if got, want := demoIndex(a), "last=6 len=6 1=a 2=b 3=c 4=d 5=e 6=# | a=[1] b=[2] c=[3] d=[4] e=[5] #=[6]"; got != want {
		t.Errorf("index:\n got: %s\nwant: %s", got, want)
	}

	a.computeFollows(a.Root)
	for _, l := range a.follows {
		sort.Sort(l)
	}

	if got, want := demoFollows(a), "1:[2 3 4 5 6] 2:[2 3 4 5 6] 3:[3 4 5 6] 4:[3 4 5 6] 5:[6]"; got != want {
		t.Errorf("follows:\n got: %s\nwant: %s", got, want)
	}

	// The root is never asked for its own functions by the preprocessing; every other inner node is.
	if got, want := demoTree(a.Root), "C{-}(A{t [1 2] [1 2]}(C{t [1 2] [1 2]}(A{t [1] [1]}(e a1) S(b2)) e) S(A{f [3 4] [3 4]}(c3 d4)) A{t [5] [5]}(e e5) #6)"; got != want {
		t.Errorf("tree after computeFollows:\n got: %s\nwant: %s", got, want)
	}

	if got := fmt.Sprintf("%t %s %s", a.Root.nullable(), demoPoses(a.Root.firstPos()), demoPoses(a.Root.lastPos())); got != "false [1 2 3 4 5 6] [6]" {
		t.Errorf("root functions: got %s", got)
	}
}

// TestRefactorDemo_NodeFunctions pins nullable, firstpos and lastpos of hand-built nodes,
// and which operands get evaluated (and memoized) while computing them.
func TestRefactorDemo_NodeFunctions(t *testing.T) {
	ch := func(c rune, p Pos) Node { return &Char{Val: c, Pos: p} }
	opt := func(n Node) Node { return &Alt{Exprs: []Node{&Empty{}, n}} }
	grp := func(ns ...Node) Node { return &Alt{Exprs: ns} }

	tests := []struct {
		name             string
		node             Node
		expectedNullable bool
		expectedFirstPos string
		expectedLastPos  string
		expectedTree     string
	}{
		{"EmptyConcat", &Concat{}, true, "[]", "[]", "C{t [] []}()"},
		{"EmptyAlt", &Alt{}, false, "[]", "[]", "A{f [] []}()"},
		{"Empty", &Empty{}, true, "[]", "[]", "e"},
		{"Char", ch('a', 7), false, "[7]", "[7]", "a7"},
		{"Star", &Star{Expr: grp(ch('a', 1), ch('b', 2))}, true, "[1 2]", "[1 2]", "S(A{f [1 2] [1 2]}(a1 b2))"},
		{"StarOfEmpty", &Star{Expr: &Empty{}}, true, "[]", "[]", "S(e)"},
		{
			"ConcatOfEmpties", &Concat{Exprs: []Node{&Empty{}, &Empty{}}},
			true, "[]", "[]", "C{t [] []}(e e)",
		},
		{
			"ConcatSingle", &Concat{Exprs: []Node{grp(ch('a', 1))}},
			false, "[1]", "[1]", "C{f [1] [1]}(A{f [1] [1]}(a1))",
		},
		{
			"ConcatSingleNullable", &Concat{Exprs: []Node{opt(ch('a', 1))}},
			true, "[1]", "[1]", "C{t [1] [1]}(A{t [1] [1]}(e a1))",
		},
		{
			// The operands in the middle are neither needed for firstpos nor for lastpos.
			"ConcatMiddleUntouched", &Concat{Exprs: []Node{grp(ch('a', 1)), grp(ch('b', 2)), grp(ch('c', 3)), grp(ch('d', 4))}},
			false, "[1]", "[4]", "C{f [1] [4]}(A{f [1] [1]}(a1) A{-}(b2) A{-}(c3) A{f [4] [4]}(d4))",
		},
		{
			"ConcatNullablePrefix", &Concat{Exprs: []Node{opt(ch('a', 1)), &Star{Expr: ch('b', 2)}, grp(ch('c', 3)), grp(ch('d', 4)), grp(ch('e', 5))}},
			false, "[1 2 3]", "[5]", "C{f [1 2 3] [5]}(A{t [1] [1]}(e a1) S(b2) A{f [3] [3]}(c3) A{-}(d4) A{f [5] [5]}(e5))",
		},
		{
			"ConcatNullableSuffix", &Concat{Exprs: []Node{grp(ch('a', 1)), grp(ch('b', 2)), grp(ch('c', 3)), opt(ch('d', 4)), &Star{Expr: ch('e', 5)}}},
			false, "[1]", "[3 4 5]", "C{f [1] [3 4 5]}(A{f [1] [1]}(a1) A{-}(b2) A{f [3] [3]}(c3) A{t [4] [4]}(e d4) S(e5))",
		},
		{
			"ConcatAllNullable", &Concat{Exprs: []Node{opt(ch('a', 1)), &Empty{}, &Star{Expr: grp(ch('b', 2), ch('c', 3))}, opt(ch('d', 4))}},
			true, "[1 2 3 4]", "[1 2 3 4]", "C{t [1 2 3 4] [1 2 3 4]}(A{t [1] [1]}(e a1) e S(A{f [2 3] [2 3]}(b2 c3)) A{t [4] [4]}(e d4))",
		},
		{
			"ConcatNullableInside", &Concat{Exprs: []Node{ch('a', 1), opt(ch('b', 2)), ch('c', 3)}},
			false, "[1]", "[3]", "C{f [1] [3]}(a1 A{-}(e b2) c3)",
		},
		{
			"ConcatRange", &Concat{Exprs: []Node{ch('a', 1), ch('a', 2), opt(ch('a', 3)), opt(ch('a', 4))}},
			false, "[1]", "[2 3 4]", "C{f [1] [2 3 4]}(a1 a2 A{t [3] [3]}(e a3) A{t [4] [4]}(e a4))",
		},
		{
			"AltMixed", &Alt{Exprs: []Node{&Concat{Exprs: []Node{ch('a', 1), ch('b', 2)}}, &Star{Expr: ch('c', 3)}, ch('d', 4)}},
			true, "[1 3 4]", "[2 3 4]", "A{t [1 3 4] [2 3 4]}(C{f [1] [2]}(a1 b2) S(c3) d4)",
		},
		{
			"AltDuplicates", &Alt{Exprs: []Node{ch('a', 1), ch('a', 1), &Empty{}}},
			true, "[1 1]", "[1 1]", "A{t [1 1] [1 1]}(a1 a1 e)",
		},
	}

	for _, tc := range tests {
		t.Run(tc.name, func(t *testing.T) {
			// Evaluate twice: the second round is answered from the memoized values.
			for round := 0; round < 2; round++ {
				if got := tc.node.nullable(); got != tc.expectedNullable {
					t.Errorf("nullable: got %t, want %t", got, tc.expectedNullable)
				}
				if got := demoPoses(tc.node.firstPos()); got != tc.expectedFirstPos {
					t.Errorf("firstPos: got %s, want %s", got, tc.expectedFirstPos)
				}
				if got := demoPoses(tc.node.lastPos()); got != tc.expectedLastPos {
					t.Errorf("lastPos: got %s, want %s", got, tc.expectedLastPos)
				}
				if got := demoTree(tc.node); got != tc.expectedTree {
					t.Errorf("tree:\n got: %s\nwant: %s", got, tc.expectedTree)
				}
			}
		})
	}
}

func TestRefactorDemo_Poses(t *testing.T) {
	containsTests := []struct {
		p        Poses
		q        Pos
		expected bool
	}{
		{nil, 0, false},
		{Poses{}, 1, false},
		{Poses{1}, 1, true},
		{Poses{3, 1, 2}, 2, true},
		{Poses{3, 1, 2}, 4, false},
		{Poses{5, 5, 5}, 5, true},
		{Poses{-1, 0}, 0, true},
	}

	for _, tc := range containsTests {
		if got := tc.p.Contains(tc.q); got != tc.expected {
			t.Errorf("%v.Contains(%d): got %t, want %t", tc.p, tc.q, got, tc.expected)
		}
	}

	equalTests := []struct {
		p, q     Poses
		expected bool
	}{
		{nil, nil, true},
		{nil, Poses{}, true},
		{Poses{}, nil, true},
		{Poses{1}, nil, false},
		{nil, Poses{1}, false},
		{Poses{1, 2, 3}, Poses{3, 2, 1}, true},
		{Poses{1, 2, 3}, Poses{1, 2}, false},
		{Poses{1, 2}, Poses{1, 2, 3}, false},
		{Poses{1, 1, 2}, Poses{2, 1}, true}, // set semantics: duplicates do not count
		{Poses{2, 1}, Poses{1, 2, 2, 2}, true},
		{Poses{1, 2, 4}, Poses{1, 2, 3}, false},
		{Poses{7}, Poses{7}, true},
	}

	for _, tc := range equalTests {
		if got := tc.p.Equal(tc.q); got != tc.expected {
			t.Errorf("%v.Equal(%v): got %t, want %t", tc.p, tc.q, got, tc.expected)
		}
	}

	unionTests := []struct {
		p, q     Poses
		expected string
	}{
		{nil, nil, "[]"},
		{Poses{}, Poses{}, "[]"},
		{nil, Poses{2, 1}, "[2 1]"},
		{Poses{2, 1}, nil, "[2 1]"},
		{Poses{1, 2, 3}, Poses{3, 4, 1, 5}, "[1 2 3 4 5]"},
		{Poses{3, 1}, Poses{2, 2, 2}, "[3 1 2]"},
		{Poses{1, 1}, Poses{1}, "[1 1]"}, // duplicates of the receiver are kept
		{Poses{5}, Poses{4, 3}, "[5 4 3]"},
	}

	for _, tc := range unionTests {
		p := append(Poses(nil), tc.p...)
		if got := demoPoses(tc.p.Union(tc.q)); got != tc.expected {
			t.Errorf("%v.Union(%v): got %s, want %s", tc.p, tc.q, got, tc.expected)
		}
		if demoPoses(p) != demoPoses(append(Poses(nil), tc.p...)) {
			t.Errorf("Union modified its receiver: %v", tc.p)
		}
	}

	// Union never writes into the spare capacity of its receiver.
	base := make(Poses, 2, 8)
	base[0], base[1] = 1, 2
	u1, u2 := base.Union(Poses{3}), base.Union(Poses{4})
	if demoPoses(u1) != "[1 2 3]" || demoPoses(u2) != "[1 2 4]" || demoPoses(base[:3]) != "[1 2 0]" {
		t.Errorf("Union aliasing: %v %v %v", u1, u2, base[:3])
	}

	sorted := Poses{5, 3, 3, 9, 1}
	sort.Sort(sorted)
	if demoPoses(sorted) != "[1 3 3 5 9]" || sorted.Len() != 5 || !sorted.Less(0, 1) || sorted.Less(1, 2) {
		t.Errorf("sorting: %v", sorted)
	}
}

// TestRefactorDemo_Language checks that the DFA constructed directly from the syntax tree, the DFA constructed via the NFA,
// and the documented meaning of the pattern (as implemented by the standard library) all agree on every short string.
func TestRefactorDemo_Language(t *testing.T) {
	tests := []struct {
		regex    string
		alphabet string
		maxLen   int
		accepted string // all the accepted strings of at most three characters; - stands for the empty string
	}{
		{"a", "ab", 5, "a"},
		{"ab", "ab", 5, "ab"},
		{"a?", "ab", 5, "- a"},
		{"a*", "ab", 5, "- a aa aaa"},
		{"a+", "ab", 5, "a aa aaa"},
		{"(a|b)*abb", "ab", 5, "abb"},
		{"a?b?c", "abc", 5, "c ac bc abc"},
		{"ab?c?", "abc", 5, "a ab ac abc"},
		{"a?b*", "ab", 5, "- a b ab bb abb bbb"},
		{"(a*)*", "ab", 5, "- a aa aaa"},
		{"(a?)*", "ab", 5, "- a aa aaa"},
		{"(a*b*)*c", "abc", 5, "c ac bc aac abc bac bbc"},
		{"a{2,3}", "ab", 5, "aa aaa"},
		{"a{0,2}", "ab", 5, "- a aa"},
		{"a{2,}", "ab", 5, "aa aaa"},
		{"a{0,}", "ab", 5, "- a aa aaa"},
		{"a{3}", "ab", 5, "aaa"},
		{"a{0}", "ab", 5, "-"},
		{"ba{0,0}", "ab", 5, "b"},
		{"(a?){2}", "ab", 5, "- a aa"},
		{"(ab?){1,2}", "ab", 5, "a aa ab aab aba"},
		{"(a|b?)c", "abc", 5, "c ac bc"},
		{"(a*|b)+", "ab", 5, "- a b aa ab ba bb aaa aab aba abb baa bab bba bbb"},
		{"[ab]c?", "abc", 5, "a b ac bc"},
		{"(a|b){0,1}(c|d){2}", "abcd", 5, "cc cd dc dd acc acd adc add bcc bcd bdc bdd"},
		{"(a?b?){2,}", "ab", 5, "- a b aa ab ba bb aaa aab aba abb baa bab bba bbb"},
		{"((a|b)c?)*", "abc", 5, "- a b aa ab ac ba bb bc aaa aab aac aba abb abc aca acb baa bab bac bba bbb bbc bca bcb"},
		{"a(b*c*)d", "abcd", 5, "ad abd acd"},
	}

	for _, tc := range tests {
		t.Run(tc.regex, func(t *testing.T) {
			a, err := Parse(tc.regex)
			if err != nil {
				t.Fatalf("unexpected error: %s", err)
			}

			n, err := nfa.Parse(tc.regex)
			if err != nil {
				t.Fatalf("unexpected error: %s", err)
			}

			direct, viaNFA := a.ToDFA(), n.ToDFA()
			oracle := regexp.MustCompile(`^(?:` + tc.regex + `)$`)

			accepted := []string{}
			for _, w := range demoWords(tc.alphabet, tc.maxLen) {
				want := oracle.MatchString(w)
				if got := direct.Accept(demoString(w)); got != want {
					t.Errorf("direct DFA on %q: got %t, want %t", w, got, want)
				}
				if got := viaNFA.Accept(demoString(w)); got != want {
					t.Errorf("DFA via NFA on %q: got %t, want %t", w, got, want)
				}
				if got := n.Accept(demoString(w)); got != want {
					t.Errorf("NFA on %q: got %t, want %t", w, got, want)
				}

				if direct.Accept(demoString(w)) && len(w) <= 3 {
					if w == "" {
						w = "-"
					}
					accepted = append(accepted, w)
				}
			}

			if got := strings.Join(accepted, " "); got != tc.accepted {
				t.Errorf("accepted strings:\n got: %s\nwant: %s", got, tc.accepted)
			}

			// Converting twice gives the same automaton (the memoized values are not disturbed by ToDFA).
			if again := a.ToDFA(); !again.Isomorphic(direct) {
				t.Errorf("second ToDFA differs:\n%s\n%s", direct, again)
			}
		})
	}
}
