package spec

import (
	"fmt"
	"strings"
	"testing"

	"github.com/moorara/algo/grammar"
	"github.com/moorara/algo/lexer"
)

// demoSpecs are small specifications, well-formed and ill-formed, parsed from source.
var demoSpecs = []struct {
	name string
	src  string
}{
	{"ok_minimal", "grammar g;\nstart = \"a\";\n"},
	{"ok_tokens", "grammar g;\nSEMI = \";\"\nID = $ID\nNUM = /[0-9]+/\nstart = ID \"=\" NUM SEMI | \"if\" ID;\n"},
	{"ok_all_predefs", "grammar g;\nWS = $WS\nDG = $DIGIT\nLT = $LETTER\nID = $ID\nNUM = $NUMBER\nSTR = $STRING\nCM = $COMMENT\nstart = WS DG LT ID NUM STR CM;\n"},
	{"ok_escaped", "grammar g;\nQUOT = \"\\\"\"\nstart = QUOT \"\\\\\" QUOT;\n"},
	{"ok_unused_token", "grammar g;\nSEMI = \";\"\nstart = \"a\";\n"},
	{"undefined_one", "grammar g;\nstart = ID;\n"},
	{"undefined_many", "grammar g;\nstart = ZED ID \"x\" NUM ID;\n"},
	{"duplicate_string", "grammar g;\nSEMI = \";\"\nSEMI = \",\"\nstart = SEMI;\n"},
	{"duplicate_mixed", "grammar g;\nID = $ID\nID = /[a-z]+/\nID = \"id\"\nstart = ID;\n"},
	{"duplicate_same", "grammar g;\nSEMI = \";\"\nSEMI = \";\"\nstart = SEMI;\n"},
	{"same_value_tokens", "grammar g;\nSEMI = \";\"\nSC = \";\"\nstart = SEMI SC;\n"},
	{"same_value_literal", "grammar g;\nSEMI = \";\"\nstart = SEMI \";\";\n"},
	{"same_value_regex_string", "grammar g;\nAA = \"abc\"\nBB = /abc/\nstart = AA BB;\n"},
	{"same_value_three", "grammar g;\nCC = \"x\"\nAA = \"x\"\nBB = \"x\"\nstart = AA BB CC;\n"},
	{"same_value_two_groups", "grammar g;\nAA = \"x\"\nBB = \"x\"\nPP = \"+\"\nQQ = \"+\"\nstart = AA BB PP QQ \"x\";\n"},
	{"same_value_predef", "grammar g;\nAA = $DIGIT\nBB = $DIGIT\nCC = /[0-9]/\nstart = AA BB CC;\n"},
	{"duplicate_hides_same_value", "grammar g;\nAA = \"x\"\nAA = \"y\"\nBB = \"x\"\nstart = AA BB;\n"},
	{"no_start", "grammar g;\nprogram = \"a\";\n"},
	{"no_start_no_rules", "grammar g;\n"},
	{"everything", "grammar g;\nAA = \"x\"\nAA = \"y\"\nBB = \"z\"\nCC = \"z\"\nprogram = AA BB CC DD \"z\";\n"},
	{"bad_predef", "grammar g;\nID = $IDN\nstart = ID;\n"},
	{"bad_predef_and_no_start", "grammar g;\nID = $NOPE\nprogram = ID \"a\";\n"},
	{"no_production", "grammar g;\nstart = expr \"a\";\n"},
	{"precedence_twice", "grammar g;\n@left \"+\"\n@right \"+\"\nstart = start \"+\" start | \"a\";\n"},
}

func describeSpec(name, src string) string {
	var b strings.Builder

	s, err := Parse(name, strings.NewReader(src))
	if err != nil {
		fmt.Fprintf(&b, "ERROR %s", err)
		return b.String()
	}

	fmt.Fprintf(&b, "OK %s", s.Name)
	for _, def := range s.Definitions {
		pos := "-"
		if def.Pos != nil {
			pos = def.Pos.String()
		}
		fmt.Fprintf(&b, "\n  %s value=%q regex=%t pos=%s", def.Terminal, def.Value, def.IsRegex, pos)
	}

	return b.String()
}

// demoOp is one call on a symbol table.
type demoOp struct {
	kind  string // str, re, lit, tok, nt, prod
	name  string
	value string
	line  int
}

// demoTables are symbol tables populated directly through the API, in the given order.
var demoTables = []struct {
	name string
	ops  []demoOp
}{
	{"empty", nil},
	{"only_start", []demoOp{{"prod", "start", "", 1}}},
	{"def_then_use", []demoOp{{"str", "SEMI", ";", 1}, {"tok", "SEMI", "", 2}, {"tok", "SEMI", "", 3}, {"prod", "start", "", 2}}},
	{"use_then_def", []demoOp{{"tok", "NUM", "", 1}, {"re", "NUM", "[0-9]+", 2}, {"prod", "start", "", 1}}},
	{"use_never_def", []demoOp{{"tok", "NUM", "", 1}, {"tok", "ID", "", 1}, {"prod", "start", "", 1}}},
	{"def_twice_str_re", []demoOp{{"str", "ID", "id", 1}, {"re", "ID", "[a-z]+", 2}, {"str", "ID", "id", 3}, {"prod", "start", "", 4}}},
	{"literal_then_def_same_name", []demoOp{{"lit", "if", "", 1}, {"str", "if", "IF", 2}, {"prod", "start", "", 3}}},
	{"same_value_many", []demoOp{
		{"str", "ZZ", "v", 1}, {"re", "MM", "v", 2}, {"str", "AA", "v", 3}, {"lit", "v", "", 4},
		{"str", "KK", "w", 5}, {"lit", "w", "", 6}, {"str", "UNIQ", "u", 7}, {"prod", "start", "", 8},
	}},
	{"empty_values", []demoOp{{"str", "E1", "", 1}, {"re", "E2", "", 2}, {"prod", "other", "", 3}}},
	{"all_problems", []demoOp{
		{"tok", "UNDEF", "", 1}, {"str", "DUP", "a", 2}, {"str", "DUP", "b", 3}, {"str", "S1", "a", 4},
		{"str", "S2", "a", 5}, {"lit", "b", "", 6}, {"nt", "expr", "", 7}, {"prod", "expr", "", 7},
	}},
	{"order_independent_1", []demoOp{{"str", "B1", "q", 1}, {"str", "A1", "q", 2}, {"tok", "C1", "", 3}, {"tok", "A0", "", 4}}},
	{"order_independent_2", []demoOp{{"tok", "A0", "", 4}, {"tok", "C1", "", 3}, {"str", "A1", "q", 2}, {"str", "B1", "q", 1}}},
}

func describeTable(ops []demoOp) string {
	st := NewSymbolTable()

	for _, op := range ops {
		pos := &lexer.Position{Filename: "t", Offset: op.line * 10, Line: op.line, Column: 1}
		switch op.kind {
		case "str":
			st.AddStringTokenDef(grammar.Terminal(op.name), op.value, pos)
		case "re":
			st.AddRegexTokenDef(grammar.Terminal(op.name), op.value, pos)
		case "lit":
			st.AddStringTerminal(grammar.Terminal(op.name), pos)
		case "tok":
			st.AddTokenTerminal(grammar.Terminal(op.name), pos)
		case "nt":
			st.AddNonTerminal(grammar.NonTerminal(op.name), pos)
		case "prod":
			st.AddProduction(&grammar.Production{Head: grammar.NonTerminal(op.name), Body: grammar.E}, pos)
		}
	}

	var b strings.Builder

	// The entries, in the order in which they were created.
	fmt.Fprintf(&b, "counter=%d size=%d", st.terminals.counter, st.terminals.table.Size())
	for idx := 1; idx <= st.terminals.counter; idx++ {
		for a, e := range st.terminals.table.All() {
			if e.index != idx {
				continue
			}

			fmt.Fprintf(&b, "\n  #%d %s defs(nil=%t)=[", e.index, a, e.definitions == nil)
			for i, def := range e.definitions {
				if i > 0 {
					b.WriteString(" ")
				}
				fmt.Fprintf(&b, "%s:%q:%t:%v", def.Terminal, def.Value, def.IsRegex, def.Pos)
			}
			fmt.Fprintf(&b, "] occs(nil=%t)=%v", e.occurrences == nil, e.occurrences)
		}
	}

	if err := st.Verify(); err != nil {
		fmt.Fprintf(&b, "\nVERIFY %s", err)
	} else {
		b.WriteString("\nVERIFY ok")
	}

	b.WriteString("\nDEFS")
	for _, def := range st.Definitions() {
		fmt.Fprintf(&b, " %s=%q/%t", def.Terminal, def.Value, def.IsRegex)
	}

	return b.String()
}

// The expected texts below were recorded from the code before the refactoring.

var demoSpecsWant = map[string]string{
	"ok_minimal":                 "OK g\n  \"a\" value=\"a\" regex=false pos=-",
	"ok_tokens":                  "OK g\n  \"=\" value=\"=\" regex=false pos=-\n  \"if\" value=\"if\" regex=false pos=-\n  \"SEMI\" value=\";\" regex=false pos=ok_tokens:2:1\n  \"ID\" value=\"[A-Za-z_][0-9A-Za-z_]*\" regex=true pos=ok_tokens:3:1\n  \"NUM\" value=\"[0-9]+\" regex=true pos=ok_tokens:4:1",
	"ok_all_predefs":             "OK g\n  \"CM\" value=\"(#|//)[\\\\x09\\\\x20-\\\\x7E]*|/\\\\*[\\\\x09\\\\x0A\\\\x0D\\\\x20-\\\\x7E]*?\\\\*/\" regex=true pos=ok_all_predefs:8:1\n  \"DG\" value=\"[0-9]\" regex=true pos=ok_all_predefs:3:1\n  \"ID\" value=\"[A-Za-z_][0-9A-Za-z_]*\" regex=true pos=ok_all_predefs:5:1\n  \"LT\" value=\"[A-Za-z]\" regex=true pos=ok_all_predefs:4:1\n  \"WS\" value=\"[\\\\x09\\\\x0A\\\\x0D\\\\x20]\" regex=true pos=ok_all_predefs:2:1\n  \"NUM\" value=\"-?[0-9]+(\\\\.[0-9]+)?\" regex=true pos=ok_all_predefs:6:1\n  \"STR\" value=\"\\\"([\\\\x21\\\\x23-\\\\x5B\\\\x5D-\\\\x7E]|\\\\\\\\[\\\\x21-\\\\x7E])+\\\"\" regex=true pos=ok_all_predefs:7:1",
	"ok_escaped":                 "OK g\n  \"\\\\\" value=\"\\\\\" regex=false pos=-\n  \"QUOT\" value=\"\\\"\" regex=false pos=ok_escaped:2:1",
	"ok_unused_token":            "OK g\n  \"a\" value=\"a\" regex=false pos=-\n  \"SEMI\" value=\";\" regex=false pos=ok_unused_token:2:1",
	"undefined_one":              "ERROR 1 error occurred:\n\n  • no definition for terminal \"ID\"\n",
	"undefined_many":             "ERROR 3 errors occurred:\n\n  • no definition for terminal \"ID\"\n  • no definition for terminal \"NUM\"\n  • no definition for terminal \"ZED\"\n",
	"duplicate_string":           "ERROR 1 error occurred:\n\n  • multiple definitions for terminal \"SEMI\":\n      duplicate_string:2:1\n      duplicate_string:3:1\n",
	"duplicate_mixed":            "ERROR 1 error occurred:\n\n  • multiple definitions for terminal \"ID\":\n      duplicate_mixed:2:1\n      duplicate_mixed:3:1\n      duplicate_mixed:4:1\n",
	"duplicate_same":             "ERROR 1 error occurred:\n\n  • multiple definitions for terminal \"SEMI\":\n      duplicate_same:2:1\n      duplicate_same:3:1\n",
	"same_value_tokens":          "ERROR 1 error occurred:\n\n  • multiple definitions with the same value: \";\"\n      same_value_tokens:3:1: \"SC\"\n      same_value_tokens:2:1: \"SEMI\"\n",
	"same_value_literal":         "ERROR 1 error occurred:\n\n  • multiple definitions with the same value: \";\"\n      <nil>: \";\"\n      same_value_literal:2:1: \"SEMI\"\n",
	"same_value_regex_string":    "ERROR 1 error occurred:\n\n  • multiple definitions with the same value: \"abc\"\n      same_value_regex_string:2:1: \"AA\"\n      same_value_regex_string:3:1: \"BB\"\n",
	"same_value_three":           "ERROR 1 error occurred:\n\n  • multiple definitions with the same value: \"x\"\n      same_value_three:3:1: \"AA\"\n      same_value_three:4:1: \"BB\"\n      same_value_three:2:1: \"CC\"\n",
	"same_value_two_groups":      "ERROR 2 errors occurred:\n\n  • multiple definitions with the same value: \"+\"\n      same_value_two_groups:4:1: \"PP\"\n      same_value_two_groups:5:1: \"QQ\"\n  • multiple definitions with the same value: \"x\"\n      same_value_two_groups:2:1: \"AA\"\n      same_value_two_groups:3:1: \"BB\"\n      <nil>: \"x\"\n",
	"same_value_predef":          "ERROR 1 error occurred:\n\n  • multiple definitions with the same value: \"[0-9]\"\n      same_value_predef:2:1: \"AA\"\n      same_value_predef:3:1: \"BB\"\n      same_value_predef:4:1: \"CC\"\n",
	"duplicate_hides_same_value": "ERROR 1 error occurred:\n\n  • multiple definitions for terminal \"AA\":\n      duplicate_hides_same_value:2:1\n      duplicate_hides_same_value:3:1\n",
	"no_start":                   "ERROR 1 error occurred:\n\n  • missing production rule with the start symbol: start\n",
	"no_start_no_rules":          "ERROR 1 error occurred:\n\n  • missing production rule with the start symbol: start\n",
	"everything":                 "ERROR 4 errors occurred:\n\n  • multiple definitions for terminal \"AA\":\n      everything:2:1\n      everything:3:1\n  • no definition for terminal \"DD\"\n  • multiple definitions with the same value: \"z\"\n      everything:4:1: \"BB\"\n      everything:5:1: \"CC\"\n      <nil>: \"z\"\n  • missing production rule with the start symbol: start\n",
	"bad_predef":                 "ERROR 2 errors occurred:\n\n  • invalid predefined regex: $IDN\n  • no definition for terminal \"ID\"\n",
	"bad_predef_and_no_start":    "ERROR 3 errors occurred:\n\n  • invalid predefined regex: $NOPE\n  • no definition for terminal \"ID\"\n  • missing production rule with the start symbol: start\n",
	"no_production":              "ERROR 1 error occurred:\n\n  • no production rule for non-terminal symbol expr\n",
	"precedence_twice":           "ERROR 1 error occurred:\n\n  • \"+\" appeared in more than one precedence level\n",
}

var demoTablesWant = map[string]string{
	"empty":                      "counter=0 size=0\nVERIFY 1 error occurred:\n\n  • missing production rule with the start symbol: start\n\nDEFS",
	"only_start":                 "counter=0 size=0\nVERIFY ok\nDEFS",
	"def_then_use":               "counter=1 size=1\n  #1 \"SEMI\" defs(nil=false)=[\"SEMI\":\";\":false:t:1:1] occs(nil=false)=[t:2:1 t:3:1]\nVERIFY ok\nDEFS \"SEMI\"=\";\"/false",
	"use_then_def":               "counter=1 size=1\n  #1 \"NUM\" defs(nil=false)=[\"NUM\":\"[0-9]+\":true:t:2:1] occs(nil=false)=[t:1:1]\nVERIFY ok\nDEFS \"NUM\"=\"[0-9]+\"/true",
	"use_never_def":              "counter=2 size=2\n  #1 \"NUM\" defs(nil=false)=[] occs(nil=false)=[t:1:1]\n  #2 \"ID\" defs(nil=false)=[] occs(nil=false)=[t:1:1]\nVERIFY 2 errors occurred:\n\n  • no definition for terminal \"ID\"\n  • no definition for terminal \"NUM\"\n\nDEFS",
	"def_twice_str_re":           "counter=1 size=1\n  #1 \"ID\" defs(nil=false)=[\"ID\":\"id\":false:t:1:1 \"ID\":\"[a-z]+\":true:t:2:1 \"ID\":\"id\":false:t:3:1] occs(nil=false)=[]\nVERIFY 1 error occurred:\n\n  • multiple definitions for terminal \"ID\":\n      t:1:1\n      t:2:1\n      t:3:1\n\nDEFS",
	"literal_then_def_same_name": "counter=1 size=1\n  #1 \"if\" defs(nil=false)=[\"if\":\"if\":false:<nil> \"if\":\"IF\":false:t:2:1] occs(nil=false)=[t:1:1]\nVERIFY 1 error occurred:\n\n  • multiple definitions for terminal \"if\":\n      <nil>\n      t:2:1\n\nDEFS",
	"same_value_many":            "counter=7 size=7\n  #1 \"ZZ\" defs(nil=false)=[\"ZZ\":\"v\":false:t:1:1] occs(nil=false)=[]\n  #2 \"MM\" defs(nil=false)=[\"MM\":\"v\":true:t:2:1] occs(nil=false)=[]\n  #3 \"AA\" defs(nil=false)=[\"AA\":\"v\":false:t:3:1] occs(nil=false)=[]\n  #4 \"v\" defs(nil=false)=[\"v\":\"v\":false:<nil>] occs(nil=false)=[t:4:1]\n  #5 \"KK\" defs(nil=false)=[\"KK\":\"w\":false:t:5:1] occs(nil=false)=[]\n  #6 \"w\" defs(nil=false)=[\"w\":\"w\":false:<nil>] occs(nil=false)=[t:6:1]\n  #7 \"UNIQ\" defs(nil=false)=[\"UNIQ\":\"u\":false:t:7:1] occs(nil=false)=[]\nVERIFY 2 errors occurred:\n\n  • multiple definitions with the same value: \"v\"\n      t:3:1: \"AA\"\n      t:2:1: \"MM\"\n      t:1:1: \"ZZ\"\n      <nil>: \"v\"\n  • multiple definitions with the same value: \"w\"\n      t:5:1: \"KK\"\n      <nil>: \"w\"\n\nDEFS \"v\"=\"v\"/false \"w\"=\"w\"/false \"AA\"=\"v\"/false \"KK\"=\"w\"/false \"ZZ\"=\"v\"/false \"UNIQ\"=\"u\"/false \"MM\"=\"v\"/true",
	"empty_values":               "counter=2 size=2\n  #1 \"E1\" defs(nil=false)=[\"E1\":\"\":false:t:1:1] occs(nil=false)=[]\n  #2 \"E2\" defs(nil=false)=[\"E2\":\"\":true:t:2:1] occs(nil=false)=[]\nVERIFY 2 errors occurred:\n\n  • multiple definitions with the same value: \"\"\n      t:1:1: \"E1\"\n      t:2:1: \"E2\"\n  • missing production rule with the start symbol: start\n\nDEFS \"E1\"=\"\"/false \"E2\"=\"\"/true",
	"all_problems":               "counter=5 size=5\n  #1 \"UNDEF\" defs(nil=false)=[] occs(nil=false)=[t:1:1]\n  #2 \"DUP\" defs(nil=false)=[\"DUP\":\"a\":false:t:2:1 \"DUP\":\"b\":false:t:3:1] occs(nil=false)=[]\n  #3 \"S1\" defs(nil=false)=[\"S1\":\"a\":false:t:4:1] occs(nil=false)=[]\n  #4 \"S2\" defs(nil=false)=[\"S2\":\"a\":false:t:5:1] occs(nil=false)=[]\n  #5 \"b\" defs(nil=false)=[\"b\":\"b\":false:<nil>] occs(nil=false)=[t:6:1]\nVERIFY 4 errors occurred:\n\n  • multiple definitions for terminal \"DUP\":\n      t:2:1\n      t:3:1\n  • no definition for terminal \"UNDEF\"\n  • multiple definitions with the same value: \"a\"\n      t:4:1: \"S1\"\n      t:5:1: \"S2\"\n  • missing production rule with the start symbol: start\n\nDEFS \"b\"=\"b\"/false \"S1\"=\"a\"/false \"S2\"=\"a\"/false",
	"order_independent_1":        "counter=4 size=4\n  #1 \"B1\" defs(nil=false)=[\"B1\":\"q\":false:t:1:1] occs(nil=false)=[]\n  #2 \"A1\" defs(nil=false)=[\"A1\":\"q\":false:t:2:1] occs(nil=false)=[]\n  #3 \"C1\" defs(nil=false)=[] occs(nil=false)=[t:3:1]\n  #4 \"A0\" defs(nil=false)=[] occs(nil=false)=[t:4:1]\nVERIFY 4 errors occurred:\n\n  • no definition for terminal \"A0\"\n  • no definition for terminal \"C1\"\n  • multiple definitions with the same value: \"q\"\n      t:2:1: \"A1\"\n      t:1:1: \"B1\"\n  • missing production rule with the start symbol: start\n\nDEFS \"A1\"=\"q\"/false \"B1\"=\"q\"/false",
	"order_independent_2":        "counter=4 size=4\n  #1 \"A0\" defs(nil=false)=[] occs(nil=false)=[t:4:1]\n  #2 \"C1\" defs(nil=false)=[] occs(nil=false)=[t:3:1]\n  #3 \"A1\" defs(nil=false)=[\"A1\":\"q\":false:t:2:1] occs(nil=false)=[]\n  #4 \"B1\" defs(nil=false)=[\"B1\":\"q\":false:t:1:1] occs(nil=false)=[]\nVERIFY 4 errors occurred:\n\n  • no definition for terminal \"A0\"\n  • no definition for terminal \"C1\"\n  • multiple definitions with the same value: \"q\"\n      t:2:1: \"A1\"\n      t:1:1: \"B1\"\n  • missing production rule with the start symbol: start\n\nDEFS \"A1\"=\"q\"/false \"B1\"=\"q\"/false",
}

func TestRefactorDemo_Specs(t *testing.T) {
	if len(demoSpecsWant) != len(demoSpecs) {
		t.Fatalf("expected %d recorded results, got %d", len(demoSpecs), len(demoSpecsWant))
	}

	for _, tc := range demoSpecs {
		t.Run(tc.name, func(t *testing.T) {
			want, ok := demoSpecsWant[tc.name]
			if !ok {
				t.Fatalf("no recorded result for %s", tc.name)
			}

			// Repeat to make sure the result does not depend on hash table or map iteration order.
			for range 5 {
				if got := describeSpec(tc.name, tc.src); got != want {
					t.Fatalf("unexpected result\n got: %q\nwant: %q", got, want)
				}
			}

			// A specification is rejected if and only if it is one of the ill-formed ones.
			if rejected := strings.HasPrefix(want, "ERROR"); rejected == strings.HasPrefix(tc.name, "ok_") {
				t.Fatalf("rejected=%t for %s", rejected, tc.name)
			}
		})
	}
}

func TestRefactorDemo_Tables(t *testing.T) {
	if len(demoTablesWant) != len(demoTables) {
		t.Fatalf("expected %d recorded results, got %d", len(demoTables), len(demoTablesWant))
	}

	for _, tc := range demoTables {
		t.Run(tc.name, func(t *testing.T) {
			want, ok := demoTablesWant[tc.name]
			if !ok {
				t.Fatalf("no recorded result for %s", tc.name)
			}

			for range 5 {
				if got := describeTable(tc.ops); got != want {
					t.Fatalf("unexpected result\n got: %q\nwant: %q", got, want)
				}
			}
		})
	}
}
