package ast

import (
	"fmt"
	"reflect"
	"strings"
	"sync"
	"testing"

	auto "github.com/moorara/algo/automata"
)

// demoASCIIExcept is an independent oracle: the ASCII table in order, without the excluded characters.
func demoASCIIExcept(excluded string) []rune {
	skip := map[rune]bool{}
	for _, r := range excluded {
		skip[r] = true
	}

	out := []rune{}
	for r := rune(0); r <= 0x7F; r++ {
		if !skip[r] {
			out = append(out, r)
		}
	}

	return out
}

func demoString(s string) auto.String {
	out := auto.String{}
	for _, r := range s {
		out = append(out, auto.Symbol(r))
	}
	return out
}

func TestRefactorDemo_RunesToAlt(t *testing.T) {
	const digits = "0123456789"
	const word = "0123456789ABCDEFGHIJKLMNOPQRSTUVWXYZ_abcdefghijklmnopqrstuvwxyz"

	tests := []struct {
		name      string
		neg       bool
		runes     []rune
		wantChars []rune
		wantLen   int
	}{
		{"Empty", false, []rune{}, []rune{}, 0},
		{"Nil", false, nil, []rune{}, 0},
		{"Single", false, []rune{'a'}, []rune{'a'}, 1},
		{"OrderKept", false, []rune{'z', 'a', 'm'}, []rune{'z', 'a', 'm'}, 3},
		{"DuplicatesKept", false, []rune{'a', 'b', 'a'}, []rune{'a', 'b', 'a'}, 3},
		{"NonASCIIKept", false, []rune{'é', 0x10FFFF}, []rune{'é', 0x10FFFF}, 2},
		{"Digits", false, []rune(digits), []rune(digits), 10},
		{"NegEmpty", true, []rune{}, demoASCIIExcept(""), 128},
		{"NegNil", true, nil, demoASCIIExcept(""), 128},
		{"NegSingle", true, []rune{'a'}, demoASCIIExcept("a"), 127},
		{"NegDuplicates", true, []rune{'a', 'b', 'a'}, demoASCIIExcept("ab"), 126},
		{"NegUnordered", true, []rune{'z', 0x00, 0x7F}, demoASCIIExcept("z\x00\x7F"), 125},
		{"NegNonASCIIIgnored", true, []rune{'é', 0x80, -1}, demoASCIIExcept(""), 128},
		{"NegDigits", true, []rune(digits), demoASCIIExcept(digits), 118},
		{"NegWord", true, []rune(word), demoASCIIExcept(word), 65},
		{"NegSpace", true, []rune{' ', '\t', '\n', '\r', '\f'}, demoASCIIExcept(" \t\n\r\f"), 123},
		{"NegAll", true, demoASCIIExcept(""), []rune{}, 0},
	}

	for _, tc := range tests {
		t.Run(tc.name, func(t *testing.T) {
			arg := append([]rune(nil), tc.runes...)
			alt, chars := runesToAlt(tc.neg, arg...)

			if chars == nil {
				t.Fatalf("chars is nil")
			}
			if len(chars) != tc.wantLen {
				t.Fatalf("len(chars) = %d, want %d", len(chars), tc.wantLen)
			}
			if !reflect.DeepEqual(chars, tc.wantChars) {
				t.Fatalf("chars = %q, want %q", chars, tc.wantChars)
			}
			if len(arg) != len(tc.runes) || (len(arg) > 0 && !reflect.DeepEqual(arg, tc.runes)) {
				t.Fatalf("argument modified: %q, want %q", arg, tc.runes)
			}

			if alt == nil {
				t.Fatalf("alt is nil")
			}
			if len(tc.wantChars) == 0 && alt.Exprs != nil {
				t.Fatalf("Exprs = %v, want nil", alt.Exprs)
			}
			if len(alt.Exprs) != len(tc.wantChars) {
				t.Fatalf("len(Exprs) = %d, want %d", len(alt.Exprs), len(tc.wantChars))
			}
			for i, e := range alt.Exprs {
				c, ok := e.(*Char)
				if !ok || c.Val != tc.wantChars[i] || c.Pos != 0 {
					t.Fatalf("Exprs[%d] = %#v, want Char %q without position", i, e, tc.wantChars[i])
				}
			}

			// The returned slice is owned by the caller: writing to it must not affect a later call.
			for i := range chars {
				chars[i] = '!'
			}
			_, again := runesToAlt(tc.neg, arg...)
			if !reflect.DeepEqual(again, tc.wantChars) {
				t.Fatalf("second call: chars = %q, want %q", again, tc.wantChars)
			}
		})
	}
}

var demoAcceptCases = []struct {
	regex  string
	accept []string
	reject []string
}{
	{`\s`, []string{" ", "\t", "\n", "\r", "\f"}, []string{"", "a", "\v", "  "}},
	{`\S`, []string{"a", "0", "\v", "\x00", "\x7F", "_"}, []string{"", " ", "\t", "\n", "\r", "\f", "é", "ab"}},
	{`\d+`, []string{"0", "42", "0123456789"}, []string{"", "a", "4a"}},
	{`\D`, []string{"a", " ", "/", ":", "\x00"}, []string{"", "0", "5", "9", "é"}},
	{`\w*`, []string{"", "a_Z09", "_"}, []string{"-", "a b", "é"}},
	{`\W`, []string{" ", "-", "@", "[", "`", "{", "/", ":"}, []string{"", "a", "Z", "0", "_", "é"}},
	{`[:xdigit:]{2}`, []string{"0F", "aA", "9f"}, []string{"", "0", "0G", "000"}},
	{`[:blank:]`, []string{" ", "\t"}, []string{"", "\n", "a"}},
	{`\p{Lu}\p{Ll}*`, []string{"A", "Abc", "Z"}, []string{"", "a", "AB", "A1"}},
	{`\P{L}`, []string{"0", " ", "_", "\x7F"}, []string{"", "a", "Z", "é"}},
	{`\P{Lt}`, []string{"a", "0", "\x00"}, []string{"", "é"}},
	{`\p{Lt}`, []string{}, []string{"", "a"}},
	{`\P{N}+`, []string{"abc", "-"}, []string{"", "1", "a1"}},
	{`[a-c]`, []string{"a", "b", "c"}, []string{"", "d", "ab"}},
	{`[^a-c]`, []string{"d", "A", "\x00", "\x7F", "^"}, []string{"", "a", "b", "c", "é"}},
	{`[^\d\s]`, []string{"a", "_", "\v"}, []string{"", "0", "9", " ", "\n"}},
	{`[^\D]`, []string{"0", "5", "9"}, []string{"", "a", " "}},
	{`[\W]`, []string{"-", " "}, []string{"", "a", "_", "0"}},
	{`[^[:alpha:]_]+`, []string{"0", "09 -"}, []string{"", "a", "_", "0a"}},
	{`[\p{Lu}\P{L}]`, []string{"A", "0", " "}, []string{"", "a", "z"}},
	{`.`, []string{"a", "\x00", "\x7F", "\n"}, []string{"", "é", "ab"}},
	{`^(ab|c)?d{2,3}$`, []string{"dd", "abdd", "cddd"}, []string{"", "d", "dddd", "abcdd"}},
	{`x{2,}`, []string{"xx", "xxxxx"}, []string{"", "x"}},
}

func TestRefactorDemo_ParseAccept(t *testing.T) {
	for _, tc := range demoAcceptCases {
		t.Run(tc.regex, func(t *testing.T) {
			a, err := Parse(tc.regex)
			if err != nil {
				t.Fatalf("unexpected error: %s", err)
			}
			n := a.ToDFA()

			for _, s := range tc.accept {
				if !n.Accept(demoString(s)) {
					t.Errorf("%q should be accepted", s)
				}
			}
			for _, s := range tc.reject {
				if n.Accept(demoString(s)) {
					t.Errorf("%q should be rejected", s)
				}
			}
		})
	}
}

var demoErrorCases = []struct {
	regex string
	want  string
}{
	{`[`, "invalid regular expression: ["},
	{`a{`, "invalid regular expression: a{"},
	{`\p{Foo}`, `invalid regular expression: \p{Foo}`},
	{`a{3,1}`, "invalid repetition range {3,1}"},
	{`[z-a]`, "invalid character range z-a"},
	{`[z-a]{3,1}`, "invalid character range z-a\ninvalid repetition range {3,1}"},
	{`a{2,1}b{4,3}[9-0]`, "invalid repetition range {2,1}\ninvalid repetition range {4,3}\ninvalid character range 9-0"},
	{`a\xEEEE`, `unsupported character U+EEEE in regular expression: a\xEEEE`},
	{`[\xE9]`, "unsupported non-ASCII character in character group"},
	{`[^a-\xE9]`, "unsupported non-ASCII character in character group"},
	{`[\xE9][b-a]`, "unsupported non-ASCII character in character group\ninvalid character range b-a"},
	{`[b-a\xE9]`, "invalid character range b-a\nunsupported non-ASCII character in character group"},
}

func TestRefactorDemo_ParseErrors(t *testing.T) {
	for _, tc := range demoErrorCases {
		t.Run(tc.regex, func(t *testing.T) {
			n, err := Parse(tc.regex)
			if err == nil {
				t.Fatalf("expected an error, got none")
			}
			if n != nil {
				t.Errorf("expected a nil AST")
			}
			if err.Error() != tc.want {
				t.Errorf("error = %q, want %q", err.Error(), tc.want)
			}
		})
	}
}

// demoDump renders a tree with the values and the positions of its characters.
func demoDump(b *strings.Builder, n Node) {
	switch v := n.(type) {
	case *Concat:
		b.WriteString("Concat(")
		for _, e := range v.Exprs {
			demoDump(b, e)
		}
		b.WriteString(")")
	case *Alt:
		b.WriteString("Alt(")
		for _, e := range v.Exprs {
			demoDump(b, e)
		}
		b.WriteString(")")
	case *Star:
		b.WriteString("Star(")
		demoDump(b, v.Expr)
		b.WriteString(")")
	case *Empty:
		b.WriteString("Empty ")
	case *Char:
		fmt.Fprintf(b, "%U@%d ", v.Val, v.Pos)
	default:
		fmt.Fprintf(b, "?%T ", n)
	}
}

// demoOutcome renders the result of one Parse call in a comparable form.
func demoOutcome(regex string) string {
	a, err := Parse(regex)
	if err != nil {
		return "error: " + err.Error()
	}

	b := new(strings.Builder)
	demoDump(b, a.Root)
	fmt.Fprintf(b, "\nlast=%d\n", a.lastPos)
	for p := Pos(1); p <= a.lastPos; p++ {
		fmt.Fprintf(b, "%d:%v ", p, a.followPos(p))
	}

	return b.String()
}

// The outcome for a pattern neither depends on what was parsed before (in particular, errors of
// a previous call do not leak) nor on what is being parsed concurrently.
func TestRefactorDemo_Isolation(t *testing.T) {
	regexes := []string{}
	for _, tc := range demoAcceptCases {
		regexes = append(regexes, tc.regex)
	}
	for _, tc := range demoErrorCases {
		regexes = append(regexes, tc.regex)
	}

	// Baseline: first time each pattern is seen.
	baseline := map[string]string{}
	for _, re := range regexes {
		baseline[re] = demoOutcome(re)
	}

	// Sequential: reverse order, each one preceded by a failing pattern.
	for i := len(regexes) - 1; i >= 0; i-- {
		if _, err := Parse(`[z-a]{9,1}`); err == nil || err.Error() != "invalid character range z-a\ninvalid repetition range {9,1}" {
			t.Fatalf("unexpected error for the failing pattern: %v", err)
		}
		if got := demoOutcome(regexes[i]); got != baseline[regexes[i]] {
			t.Errorf("%q: outcome differs after other patterns:\n%s\nwant:\n%s", regexes[i], got, baseline[regexes[i]])
		}
	}

	// Concurrent: several goroutines, each going through all the patterns at a different offset.
	const workers = 8
	var wg sync.WaitGroup
	errs := make(chan error, workers*len(regexes))
	for w := 0; w < workers; w++ {
		wg.Add(1)
		go func(w int) {
			defer wg.Done()
			for i := range regexes {
				re := regexes[(i+w*5)%len(regexes)]
				if got := demoOutcome(re); got != baseline[re] {
					errs <- fmt.Errorf("%q: outcome differs under concurrency", re)
				}
			}
		}(w)
	}
	wg.Wait()
	close(errs)
	for err := range errs {
		t.Error(err)
	}
}
