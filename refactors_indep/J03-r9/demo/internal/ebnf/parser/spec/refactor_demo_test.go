package spec

import (
	"fmt"
	"math/rand"
	"sort"
	"strings"
	"testing"

	"github.com/moorara/algo/errors"
	"github.com/moorara/algo/grammar"
	"github.com/moorara/algo/lexer"
)

// This file characterizes the definition bookkeeping of the symbol table (AddStringTokenDef, AddRegexTokenDef,
// AddStringTerminal, AddTokenTerminal) and the checks of Verify, with concrete expectations,
// with a naive model on generated sequences of calls, and through Parse on small specifications.

func demoPos(line, col int) *lexer.Position {
	return &lexer.Position{Filename: "demo", Offset: 100*line + col, Line: line, Column: col}
}

func demoStart(st *SymbolTable) {
	st.AddProduction(
		&grammar.Production{Head: "start", Body: grammar.String[grammar.Symbol]{grammar.Terminal("x")}},
		demoPos(99, 1),
	)
}

// demoMessages returns the messages of the problems reported by Verify, in order.
func demoMessages(t *testing.T, err error) []string {
	if err == nil {
		return nil
	}

	me, ok := err.(*errors.MultiError)
	if !ok {
		t.Fatalf("unexpected error type %T", err)
	}

	var msgs []string
	for _, e := range me.Unwrap() {
		msgs = append(msgs, e.Error())
	}

	return msgs
}

func demoDefs(defs []*TerminalDef) []string {
	out := []string{}
	for _, d := range defs {
		out = append(out, fmt.Sprintf("%s|%s|%t|%s", d.Terminal, d.Value, d.IsRegex, d.Pos))
	}
	return out
}

func demoEqual(t *testing.T, what string, got, want []string) {
	t.Helper()
	if len(got) != len(want) {
		t.Errorf("%s: got %d items, want %d\n got: %q\nwant: %q", what, len(got), len(want), got, want)
		return
	}
	for i := range got {
		if got[i] != want[i] {
			t.Errorf("%s: item %d\n got: %q\nwant: %q", what, i, got[i], want[i])
		}
	}
}

func TestRefactorDemo_Concrete(t *testing.T) {
	t.Run("EntriesAndIndexes", func(t *testing.T) {
		st := NewSymbolTable()
		p1, p2, p3, p4, p5, p6 := demoPos(1, 1), demoPos(2, 2), demoPos(3, 3), demoPos(4, 4), demoPos(5, 5), demoPos(6, 6)

		st.AddStringTerminal("+", p1)      // new, defines itself: index 1
		st.AddTokenTerminal("ID", p2)      // new, no definition: index 2
		st.AddStringTokenDef("K", "k", p3) // new through a definition: index 3
		st.AddStringTerminal("+", p4)      // seen
		st.AddRegexTokenDef("ID", "[a-z]+", p5)
		st.AddTokenTerminal("K", p6)
		st.AddStringTerminal("K", p1)         // a literal spelled like a defined token: no second definition
		st.AddRegexTokenDef("N", "[0-9]", p2) // index 4
		st.AddTokenTerminal("ID", p3)

		type want struct {
			index int
			defs  []string
			occ   []*lexer.Position
		}

		wants := map[grammar.Terminal]want{
			"+":  {1, []string{`"+"|+|false|<nil>`}, []*lexer.Position{p1, p4}},
			"ID": {2, []string{`"ID"|[a-z]+|true|demo:5:5`}, []*lexer.Position{p2, p3}},
			"K":  {3, []string{`"K"|k|false|demo:3:3`}, []*lexer.Position{p6, p1}},
			"N":  {4, []string{`"N"|[0-9]|true|demo:2:2`}, []*lexer.Position{}},
		}

		if got := st.terminals.table.Size(); got != len(wants) {
			t.Fatalf("got %d terminals, want %d", got, len(wants))
		}
		if st.terminals.counter != 4 {
			t.Errorf("counter: got %d, want 4", st.terminals.counter)
		}

		for a, w := range wants {
			e, ok := st.terminals.table.Get(a)
			if !ok {
				t.Fatalf("no entry for %s", a)
			}
			if e.index != w.index {
				t.Errorf("%s: index %d, want %d", a, e.index, w.index)
			}
			if e.definitions == nil || e.occurrences == nil {
				t.Errorf("%s: nil slices in the entry", a)
			}
			demoEqual(t, string(a)+" definitions", demoDefs(e.definitions), w.defs)
			if len(e.occurrences) != len(w.occ) {
				t.Fatalf("%s: %d occurrences, want %d", a, len(e.occurrences), len(w.occ))
			}
			for i := range w.occ {
				if e.occurrences[i] != w.occ[i] {
					t.Errorf("%s: occurrence %d differs", a, i)
				}
			}
		}

		demoEqual(t, "Definitions", demoDefs(st.Definitions()), []string{
			`"+"|+|false|<nil>`,
			`"K"|k|false|demo:3:3`,
			`"N"|[0-9]|true|demo:2:2`,
			`"ID"|[a-z]+|true|demo:5:5`,
		})

		demoEqual(t, "Verify", demoMessages(t, st.Verify()), []string{
			"missing production rule with the start symbol: start",
		})

		// Reset empties the table but the numbering goes on.
		st.Reset()
		st.AddTokenTerminal("Z", p1)
		e, _ := st.terminals.table.Get("Z")
		if e.index != 5 || len(e.definitions) != 0 || len(e.occurrences) != 1 {
			t.Errorf("after Reset: %+v", e)
		}
	})

	t.Run("VerifyFullText", func(t *testing.T) {
		st := NewSymbolTable()
		st.AddTokenTerminal("UNDEF", demoPos(1, 1))
		st.AddTokenTerminal("AUNDEF", demoPos(1, 2))
		st.AddStringTokenDef("DUP", "d1", demoPos(2, 1))
		st.AddRegexTokenDef("DUP", "d2", demoPos(3, 1))
		st.AddStringTokenDef("DUP", "same", demoPos(4, 1))
		st.AddStringTokenDef("B", "same", demoPos(5, 1))
		st.AddRegexTokenDef("A", "same", demoPos(6, 1))
		st.AddStringTerminal("same", demoPos(7, 1))
		st.AddStringTokenDef("Y", "", demoPos(8, 1))
		st.AddStringTokenDef("X", "", demoPos(9, 1))
		st.AddStringTokenDef("LONE", "lone", demoPos(10, 1))
		st.AddStringTokenDef("Q", "a\"b\n", demoPos(11, 1))
		st.AddStringTerminal("a\"b\n", demoPos(12, 1))

		want := "7 errors occurred:\n\n" +
			"  • no definition for terminal \"AUNDEF\"\n" +
			"  • multiple definitions for terminal \"DUP\":\n" +
			"      demo:2:1\n" +
			"      demo:3:1\n" +
			"      demo:4:1\n" +
			"  • no definition for terminal \"UNDEF\"\n" +
			"  • multiple definitions with the same value: \"\"\n" +
			"      demo:9:1: \"X\"\n" +
			"      demo:8:1: \"Y\"\n" +
			"  • multiple definitions with the same value: \"a\\\"b\\n\"\n" +
			"      demo:11:1: \"Q\"\n" +
			"      <nil>: \"a\\\"b\\n\"\n" +
			"  • multiple definitions with the same value: \"same\"\n" +
			"      demo:6:1: \"A\"\n" +
			"      demo:5:1: \"B\"\n" +
			"      <nil>: \"same\"\n" +
			"  • missing production rule with the start symbol: start\n"

		err := st.Verify()
		if err == nil || err.Error() != want {
			t.Errorf("got:\n%v\nwant:\n%s", err, want)
		}

		// Verify does not change the table: a second call gives the same answer.
		if err2 := st.Verify(); err2 == nil || err2.Error() != want {
			t.Errorf("second call differs:\n%v", err2)
		}
	})

	t.Run("VerifyAccepts", func(t *testing.T) {
		st := NewSymbolTable()
		demoStart(st)
		if err := st.Verify(); err != nil {
			t.Errorf("empty table with start: %v", err)
		}

		st.AddStringTerminal("x", demoPos(1, 1))
		st.AddStringTokenDef("X", "X", demoPos(2, 1)) // value differs from "x"
		st.AddRegexTokenDef("R", "x+", demoPos(3, 1))
		st.AddTokenTerminal("R", demoPos(4, 1))
		if err := st.Verify(); err != nil {
			t.Errorf("well-formed table: %v", err)
		}

		// Values are compared as strings, whether pattern or not; prefixes do not clash.
		st.AddRegexTokenDef("R2", "x", demoPos(5, 1))
		demoEqual(t, "Verify", demoMessages(t, st.Verify()), []string{
			"multiple definitions with the same value: \"x\"\n  demo:5:1: \"R2\"\n  <nil>: \"x\"",
		})
	})
}

// demoModel is a naive restatement of the bookkeeping and of the checks.
type demoModel struct {
	counter int
	order   []grammar.Terminal
	index   map[grammar.Terminal]int
	defs    map[grammar.Terminal][]*TerminalDef
	occ     map[grammar.Terminal][]*lexer.Position
}

func newDemoModel(counter int) *demoModel {
	return &demoModel{
		counter: counter,
		index:   map[grammar.Terminal]int{},
		defs:    map[grammar.Terminal][]*TerminalDef{},
		occ:     map[grammar.Terminal][]*lexer.Position{},
	}
}

func (m *demoModel) touch(a grammar.Terminal) bool {
	if _, ok := m.index[a]; ok {
		return true
	}
	m.counter++
	m.index[a] = m.counter
	m.order = append(m.order, a)
	return false
}

func (m *demoModel) messages(hasStart bool) []string {
	terms := append([]grammar.Terminal{}, m.order...)
	sort.Slice(terms, func(i, j int) bool { return terms[i] < terms[j] })

	var msgs []string
	for _, a := range terms {
		switch n := len(m.defs[a]); {
		case n == 0:
			msgs = append(msgs, fmt.Sprintf("no definition for terminal %s", a))
		case n > 1:
			var lines []string
			for _, d := range m.defs[a] {
				lines = append(lines, fmt.Sprintf("  %s", d.Pos))
			}
			msgs = append(msgs, fmt.Sprintf("multiple definitions for terminal %s:\n%s", a, strings.Join(lines, "\n")))
		}
	}

	byValue := map[string][]string{}
	var values []string
	for _, a := range terms {
		if len(m.defs[a]) == 1 {
			d := m.defs[a][0]
			if _, ok := byValue[d.Value]; !ok {
				values = append(values, d.Value)
			}
			byValue[d.Value] = append(byValue[d.Value], fmt.Sprintf("  %s: %s", d.Pos, d.Terminal))
		}
	}
	sort.Strings(values)
	for _, v := range values {
		if len(byValue[v]) > 1 {
			msgs = append(msgs, fmt.Sprintf("multiple definitions with the same value: %q\n%s", v, strings.Join(byValue[v], "\n")))
		}
	}

	if !hasStart {
		msgs = append(msgs, "missing production rule with the start symbol: start")
	}

	return msgs
}

func TestRefactorDemo_Model(t *testing.T) {
	names := []grammar.Terminal{"A", "B", "AB", "a", "b", "ab", "", "+", "é", "a\nb", "ID", "NUM"}
	values := []string{"a", "b", "ab", "", "+", "[0-9]+", "é", "a\nb", "A", "zz"}

	rnd := rand.New(rand.NewSource(20261002))
	st := NewSymbolTable()
	counter := 0
	rejected, accepted := 0, 0

	for round := 0; round < 600; round++ {
		st.Reset()
		m := newDemoModel(counter)

		hasStart := rnd.Intn(4) != 0
		if hasStart {
			demoStart(st)
		}

		nOps := rnd.Intn(14)
		nNames := 1 + rnd.Intn(len(names))
		nValues := 1 + rnd.Intn(len(values))

		for i := 0; i < nOps; i++ {
			a := names[rnd.Intn(nNames)]
			v := values[rnd.Intn(nValues)]
			pos := demoPos(round+1, i+1)

			switch rnd.Intn(4) {
			case 0:
				st.AddStringTokenDef(a, v, pos)
				m.touch(a)
				m.defs[a] = append(m.defs[a], &TerminalDef{Terminal: a, Value: v, IsRegex: false, Pos: pos})
			case 1:
				st.AddRegexTokenDef(a, v, pos)
				m.touch(a)
				m.defs[a] = append(m.defs[a], &TerminalDef{Terminal: a, Value: v, IsRegex: true, Pos: pos})
			case 2:
				st.AddStringTerminal(a, pos)
				if !m.touch(a) {
					m.defs[a] = append(m.defs[a], &TerminalDef{Terminal: a, Value: string(a)})
				}
				m.occ[a] = append(m.occ[a], pos)
			case 3:
				st.AddTokenTerminal(a, pos)
				m.touch(a)
				m.occ[a] = append(m.occ[a], pos)
			}
		}
		counter = m.counter

		// The state of the table.
		if st.terminals.counter != m.counter {
			t.Fatalf("round %d: counter %d, want %d", round, st.terminals.counter, m.counter)
		}
		if st.terminals.table.Size() != len(m.order) {
			t.Fatalf("round %d: %d terminals, want %d", round, st.terminals.table.Size(), len(m.order))
		}
		for _, a := range m.order {
			e, ok := st.terminals.table.Get(a)
			if !ok {
				t.Fatalf("round %d: no entry for %s", round, a)
			}
			if e.index != m.index[a] {
				t.Fatalf("round %d: %s has index %d, want %d", round, a, e.index, m.index[a])
			}
			if e.definitions == nil || e.occurrences == nil {
				t.Fatalf("round %d: %s has nil slices", round, a)
			}
			demoEqual(t, fmt.Sprintf("round %d: definitions of %s", round, a), demoDefs(e.definitions), demoDefs(m.defs[a]))
			if len(e.occurrences) != len(m.occ[a]) {
				t.Fatalf("round %d: %s has %d occurrences, want %d", round, a, len(e.occurrences), len(m.occ[a]))
			}
			for i, p := range m.occ[a] {
				if e.occurrences[i] != p {
					t.Fatalf("round %d: occurrence %d of %s differs", round, i, a)
				}
			}
		}

		// The verdict and the diagnostics.
		want := m.messages(hasStart)
		err := st.Verify()
		demoEqual(t, fmt.Sprintf("round %d: Verify", round), demoMessages(t, err), want)
		if (err == nil) != (len(want) == 0) {
			t.Fatalf("round %d: verdict %v with %d expected problems", round, err, len(want))
		}
		if err == nil {
			accepted++
		} else {
			rejected++
		}

		// Definitions lists the sole definitions: strings first, then by length of the name, then by name.
		var sole []*TerminalDef
		for _, a := range m.order {
			if len(m.defs[a]) == 1 {
				sole = append(sole, m.defs[a][0])
			}
		}
		sort.Slice(sole, func(i, j int) bool {
			l, r := sole[i], sole[j]
			if l.IsRegex != r.IsRegex {
				return !l.IsRegex
			}
			if len(l.Terminal) != len(r.Terminal) {
				return len(l.Terminal) < len(r.Terminal)
			}
			return l.Terminal < r.Terminal
		})
		demoEqual(t, fmt.Sprintf("round %d: Definitions", round), demoDefs(st.Definitions()), demoDefs(sole))

		if t.Failed() {
			t.FailNow()
		}
	}

	if accepted < 20 || rejected < 100 {
		t.Errorf("the generator is lopsided: %d accepted, %d rejected", accepted, rejected)
	}
}

func TestRefactorDemo_Parse(t *testing.T) {
	tests := []struct {
		name  string
		src   string
		defs  []string // for accepted specifications
		error string   // for rejected ones, the whole text
	}{
		{
			name: "Accepted",
			src:  "grammar g;\nID = $ID\nSEMI = \";\"\nNUM = /[0-9]+/\nstart = ID \"=\" NUM SEMI | \"if\" ID;\n",
			defs: []string{
				`"="|=|false|<nil>`,
				`"if"|if|false|<nil>`,
				`"SEMI"|;|false|demo:3:1`,
				`"ID"|[A-Za-z_][0-9A-Za-z_]*|true|demo:2:1`,
				`"NUM"|[0-9]+|true|demo:4:1`,
			},
		},
		{
			name: "LiteralUsedTwice",
			src:  "grammar g;\nstart = \"a\" s \"a\";\ns = \"a\" | ;\n",
			defs: []string{`"a"|a|false|<nil>`},
		},
		{
			name:  "Undefined",
			src:   "grammar g;\nstart = NUM NUM ID;\n",
			error: "2 errors occurred:\n\n  • no definition for terminal \"ID\"\n  • no definition for terminal \"NUM\"\n",
		},
		{
			name:  "DefinedTwice",
			src:   "grammar g;\nAA = \"a\"\nAA = /b/\nstart = AA;\n",
			error: "1 error occurred:\n\n  • multiple definitions for terminal \"AA\":\n      demo:2:1\n      demo:3:1\n",
		},
		{
			name:  "SameValue",
			src:   "grammar g;\nBB = \"x\"\nAA = \"x\"\nstart = AA BB;\n",
			error: "1 error occurred:\n\n  • multiple definitions with the same value: \"x\"\n      demo:3:1: \"AA\"\n      demo:2:1: \"BB\"\n",
		},
		{
			name:  "LiteralAgainstToken",
			src:   "grammar g;\nAA = \"x\"\nstart = AA \"x\";\n",
			error: "1 error occurred:\n\n  • multiple definitions with the same value: \"x\"\n      demo:2:1: \"AA\"\n      <nil>: \"x\"\n",
		},
		{
			name:  "StringAgainstPattern",
			src:   "grammar g;\nAA = \"[0-9]+\"\nBB = /[0-9]+/\nstart = AA BB;\n",
			error: "1 error occurred:\n\n  • multiple definitions with the same value: \"[0-9]+\"\n      demo:2:1: \"AA\"\n      demo:3:1: \"BB\"\n",
		},
		{
			name:  "NoStart",
			src:   "grammar g;\nAA = \"a\"\ns = AA;\n",
			error: "1 error occurred:\n\n  • missing production rule with the start symbol: start\n",
		},
		{
			name: "Everything",
			src: "grammar g;\nCC = \"v\"\nBB = \"v\"\nAA = \"v\"\nDD = \"w\"\nDD = \"v\"\nEE = \"u\"\nFF = /u/\n" +
				"s = AA BB CC DD EE FF GG \"u\";\n",
			error: "5 errors occurred:\n\n" +
				"  • multiple definitions for terminal \"DD\":\n      demo:5:1\n      demo:6:1\n" +
				"  • no definition for terminal \"GG\"\n" +
				"  • multiple definitions with the same value: \"u\"\n      demo:7:1: \"EE\"\n      demo:8:1: \"FF\"\n      <nil>: \"u\"\n" +
				"  • multiple definitions with the same value: \"v\"\n      demo:4:1: \"AA\"\n      demo:3:1: \"BB\"\n      demo:2:1: \"CC\"\n" +
				"  • missing production rule with the start symbol: start\n",
		},
	}

	for _, tc := range tests {
		t.Run(tc.name, func(t *testing.T) {
			// Twice, as the result must not depend on the randomized sorting.
			for i := 0; i < 2; i++ {
				s, err := Parse("demo", strings.NewReader(tc.src))

				if tc.error != "" {
					if s != nil || err == nil || err.Error() != tc.error {
						t.Fatalf("got:\n%v\nwant:\n%s", err, tc.error)
					}
					continue
				}

				if err != nil {
					t.Fatalf("unexpected error: %v", err)
				}
				demoEqual(t, "definitions", demoDefs(s.Definitions), tc.defs)

				// Every terminal of the grammar has exactly one definition.
				count := map[grammar.Terminal]int{}
				for _, d := range s.Definitions {
					count[d.Terminal]++
				}
				for a := range s.Grammar.Terminals.All() {
					if count[a] != 1 {
						t.Errorf("terminal %s has %d definitions", a, count[a])
					}
				}
				if len(count) != s.Grammar.Terminals.Size() {
					t.Errorf("%d defined terminals, %d in the grammar", len(count), s.Grammar.Terminals.Size())
				}
			}
		})
	}
}
