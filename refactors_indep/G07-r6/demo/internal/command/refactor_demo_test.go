package command

// Characterization test for the clean-up of Command.Run (and, end to end, of golang.Generate).
// It pins down: which argument is taken as the input file, how -name / -out / -debug reach the generator,
// that "Successful!" is announced if and only if Run returns nil, and what is (not) touched on disk.
// It passes unchanged on the code before and after the refactoring.

import (
	"errors"
	"fmt"
	"io"
	"os"
	"path/filepath"
	"sort"
	"strings"
	"testing"

	"github.com/gardenbed/charm/ui"

	"github.com/gardenbed/emerge/internal/ebnf/parser/spec"
	"github.com/gardenbed/emerge/internal/generate/golang"
)

const demoGrammar = `grammar calc;

NUM = /[0-9]+/

@left "*"
@left "+"

start = expr;
expr  = expr "+" expr | expr "*" expr | "(" expr ")" | NUM;
`

// An ambiguous grammar without precedence directives: accepted by the EBNF parser, rejected when the table is built.
const demoConflictGrammar = `grammar calc;

NUM = /[0-9]+/

start = expr;
expr  = expr "+" expr | NUM;
`

const demoSyntaxErrorGrammar = `grammar calc;

expr = expr "+" ;;; = |
`

var demoPackageFiles = []string{"errors.go", "input.go", "lexer.go", "parser.go", "stack.go", "types.go"}

// demoUI records every leveled message in order; emojis (random) are replaced by '#'.
type demoUI struct {
	msgs []string
}

func (u *demoUI) rec(level, format string, a ...interface{}) {
	for i := range a {
		if _, ok := a[i].(rune); ok {
			a[i] = '#'
		}
	}
	u.msgs = append(u.msgs, level+":"+fmt.Sprintf(format, a...))
}

func (u *demoUI) Printf(format string, a ...interface{})             { u.rec("P", format, a...) }
func (u *demoUI) GetLevel() ui.Level                                 { return ui.Info }
func (u *demoUI) SetLevel(ui.Level)                                  {}
func (u *demoUI) Tracef(_ ui.Style, format string, a ...interface{}) {}
func (u *demoUI) Debugf(_ ui.Style, format string, a ...interface{}) {}
func (u *demoUI) Infof(_ ui.Style, format string, a ...interface{})  { u.rec("I", format, a...) }
func (u *demoUI) Warnf(_ ui.Style, format string, a ...interface{})  { u.rec("W", format, a...) }
func (u *demoUI) Errorf(_ ui.Style, format string, a ...interface{}) { u.rec("E", format, a...) }

func (u *demoUI) successes() int {
	n := 0
	for _, m := range u.msgs {
		if strings.Contains(m, "Successful!") {
			n++
		}
	}
	return n
}

func demoWrite(t *testing.T, path, content string) string {
	t.Helper()
	if err := os.WriteFile(path, []byte(content), 0644); err != nil {
		t.Fatal(err)
	}
	return path
}

// demoTree lists everything below root as "relative/path[/]:size" lines (sizes only for files).
func demoTree(t *testing.T, root string) []string {
	t.Helper()
	out := []string{}
	err := filepath.Walk(root, func(p string, info os.FileInfo, err error) error {
		if err != nil {
			return err
		}
		rel, _ := filepath.Rel(root, p)
		switch {
		case rel == ".":
		case info.IsDir():
			out = append(out, rel+"/")
		default:
			out = append(out, fmt.Sprintf("%s:%d", rel, info.Size()))
		}
		return nil
	})
	if err != nil {
		t.Fatal(err)
	}
	sort.Strings(out)
	return out
}

func demoNames(t *testing.T, dir string) []string {
	t.Helper()
	entries, err := os.ReadDir(dir)
	if err != nil {
		t.Fatal(err)
	}
	names := []string{}
	for _, e := range entries {
		names = append(names, e.Name())
	}
	sort.Strings(names)
	return names
}

func demoEqual(t *testing.T, what string, got, want []string) {
	t.Helper()
	if strings.Join(got, "\n") != strings.Join(want, "\n") || len(got) != len(want) {
		t.Errorf("%s:\n got: %q\nwant: %q", what, got, want)
	}
}

func demoReal(u ui.UI) *Command {
	c := &Command{UI: u}
	c.funcs.Parse = spec.Parse
	c.funcs.Generate = golang.Generate
	return c
}

func TestRefactorDemo_RunEndToEnd(t *testing.T) {
	tests := []struct {
		name           string
		grammar        string
		flagName       string
		prepare        func(t *testing.T, out string) // creates pre-existing content below out
		outSuffix      string                         // appended to out for the -out flag
		expectedPkg    string                         // non-empty: success expected, package written there
		expectedError  string                         // substring of the error otherwise
		expectedExact  bool                           // expectedError must be the whole message
		expectedNewDir string                         // on failure: directory (below out) allowed to appear, "" for none
	}{
		{name: "GrammarName", grammar: demoGrammar, expectedPkg: "calc"},
		{name: "NameOverride", grammar: demoGrammar, flagName: "custom", expectedPkg: "custom"},
		{name: "NameOverrideUnicode", grammar: demoGrammar, flagName: "Größe_2", expectedPkg: "Größe_2"},
		{name: "OutNotClean", grammar: demoGrammar, outSuffix: "/./", expectedPkg: "calc"},
		{name: "InvalidName_Dash", grammar: demoGrammar, flagName: "my-pkg", expectedError: "invalid package name: my-pkg", expectedExact: true},
		{name: "InvalidName_Keyword", grammar: demoGrammar, flagName: "package", expectedError: "invalid package name: package", expectedExact: true},
		{name: "InvalidName_Path", grammar: demoGrammar, flagName: "../evil", expectedError: "invalid package name: ../evil", expectedExact: true},
		{name: "InvalidName_Blank", grammar: demoGrammar, flagName: "_", expectedError: "invalid package name: _", expectedExact: true},
		{name: "InvalidName_Digit", grammar: demoGrammar, flagName: "9lives", expectedError: "invalid package name: 9lives", expectedExact: true},
		{
			name: "PackageDirExists", grammar: demoGrammar,
			prepare: func(t *testing.T, out string) {
				if err := os.Mkdir(filepath.Join(out, "calc"), 0755); err != nil {
					t.Fatal(err)
				}
				demoWrite(t, filepath.Join(out, "calc", "lexer.go"), "package calc // mine")
				demoWrite(t, filepath.Join(out, "calc", "notes.md"), "notes")
			},
			expectedError: "error on creating package directory: mkdir ",
		},
		{
			name: "PackageDirExistsUnderOverride", grammar: demoGrammar, flagName: "mine",
			prepare: func(t *testing.T, out string) {
				if err := os.Mkdir(filepath.Join(out, "mine"), 0755); err != nil {
					t.Fatal(err)
				}
			},
			expectedError: "error on creating package directory: mkdir ",
		},
		{name: "OutMissing", grammar: demoGrammar, outSuffix: "/nope", expectedError: "output path does not exist: "},
		{name: "SyntaxError", grammar: demoSyntaxErrorGrammar, expectedError: "rammar.ebnf"},
		{name: "Conflict", grammar: demoConflictGrammar, expectedError: "onflict", expectedNewDir: "calc"},
	}

	for _, tc := range tests {
		t.Run(tc.name, func(t *testing.T) {
			work := t.TempDir()
			out := filepath.Join(work, "out")
			if err := os.Mkdir(out, 0755); err != nil {
				t.Fatal(err)
			}
			input := demoWrite(t, filepath.Join(work, "grammar.ebnf"), tc.grammar)
			demoWrite(t, filepath.Join(out, "bystander.go"), "package bystander")
			if tc.prepare != nil {
				tc.prepare(t, out)
			}
			before := demoTree(t, work)

			u := &demoUI{}
			c := demoReal(u)
			c.Out = out + tc.outSuffix
			c.Name = tc.flagName

			err := c.Run([]string{"-verbose", "-out=" + c.Out, input})

			if tc.expectedPkg != "" {
				if err != nil {
					t.Fatalf("unexpected error: %s", err)
				}
				demoEqual(t, "ui", u.msgs, []string{
					`I:# Parsing "grammar.ebnf" ...`,
					"I:# Generating parser ...",
					"I:     Generating core types ...",
					"I:     Generating the lexer ...",
					"I:       Constructing Automaton ...",
					"I:     Generating the parser ...",
					"I:       Constructing LALR(1) Parsing Table ...",
					"I:# Successful!",
				})
				wantTop := []string{"bystander.go", tc.expectedPkg}
				sort.Strings(wantTop)
				demoEqual(t, "out dir", demoNames(t, out), wantTop)
				demoEqual(t, "package dir", demoNames(t, filepath.Join(out, tc.expectedPkg)), demoPackageFiles)
				for _, name := range demoPackageFiles {
					b, err := os.ReadFile(filepath.Join(out, tc.expectedPkg, name))
					if err != nil {
						t.Fatal(err)
					}
					if !strings.Contains(string(b), "package "+tc.expectedPkg+"\n") || !strings.HasSuffix(string(b), "\n") {
						t.Errorf("%s is incomplete or has the wrong package clause: %.60q", name, b)
					}
				}
				if b, _ := os.ReadFile(filepath.Join(out, "bystander.go")); string(b) != "package bystander" {
					t.Errorf("bystander modified: %q", b)
				}
				if b, _ := os.ReadFile(input); string(b) != tc.grammar {
					t.Errorf("input modified")
				}
				return
			}

			if err == nil {
				t.Fatalf("expected an error containing %q", tc.expectedError)
			}
			if !strings.Contains(err.Error(), tc.expectedError) || (tc.expectedExact && err.Error() != tc.expectedError) {
				t.Errorf("error %q, want %q (exact=%v)", err, tc.expectedError, tc.expectedExact)
			}
			if n := u.successes(); n != 0 {
				t.Errorf("success announced %d times for a failed run: %q", n, u.msgs)
			}
			if len(u.msgs) == 0 || u.msgs[0] != `I:# Parsing "grammar.ebnf" ...` {
				t.Errorf("unexpected first message: %q", u.msgs)
			}

			// Whatever existed before is still there with the same size; nothing new appears except the allowed package dir.
			after := demoTree(t, work)
			var kept []string
			for _, e := range after {
				if tc.expectedNewDir != "" && strings.HasPrefix(e, filepath.Join("out", tc.expectedNewDir)) {
					continue
				}
				kept = append(kept, e)
			}
			demoEqual(t, "tree", kept, before)
			if tc.name == "PackageDirExists" {
				if b, _ := os.ReadFile(filepath.Join(out, "calc", "lexer.go")); string(b) != "package calc // mine" {
					t.Errorf("existing lexer.go modified: %q", b)
				}
			}
			if tc.name == "Conflict" {
				// The steps before the failing one have run to completion; the failing step wrote nothing.
				demoEqual(t, "package dir", demoNames(t, filepath.Join(out, "calc")), []string{"errors.go", "input.go", "lexer.go", "stack.go", "types.go"})
			}
		})
	}
}

func TestRefactorDemo_RunArguments(t *testing.T) {
	work := t.TempDir()
	first := demoWrite(t, filepath.Join(work, "first.ebnf"), demoGrammar)
	second := demoWrite(t, filepath.Join(work, "second.ebnf"), demoGrammar)
	dashed := demoWrite(t, filepath.Join(work, "-dashed.ebnf"), demoGrammar)

	tests := []struct {
		name          string
		args          []string
		expectedFile  string // base name handed to Parse; "" when Parse must not be called
		expectedError string
	}{
		{name: "Nil", args: nil, expectedError: "no input file specified, please provide a file path"},
		{name: "Empty", args: []string{}, expectedError: "no input file specified, please provide a file path"},
		{name: "OnlyFlags", args: []string{"-verbose", "--debug", "-", "--", "-name=x"}, expectedError: "no input file specified, please provide a file path"},
		{name: "FlagLookingFile", args: []string{"-dashed.ebnf"}, expectedError: "no input file specified, please provide a file path"},
		{name: "Single", args: []string{first}, expectedFile: "first.ebnf"},
		{name: "AfterFlags", args: []string{"-verbose", "-out=/x", "--name=y", first}, expectedFile: "first.ebnf"},
		{name: "BeforeFlags", args: []string{second, "-verbose"}, expectedFile: "second.ebnf"},
		{name: "FirstOfTwo", args: []string{"-debug", second, first}, expectedFile: "second.ebnf"},
		{name: "FirstOfTwo_MissingFirst", args: []string{filepath.Join(work, "absent.ebnf"), first}, expectedError: "open " + filepath.Join(work, "absent.ebnf") + ": no such file or directory"},
		{name: "EmptyStringIsAPath", args: []string{"-debug", "", first}, expectedError: "open : no such file or directory"},
		{name: "DirectoryPathWithDashInside", args: []string{filepath.Join(work, "-dashed.ebnf")}, expectedFile: "-dashed.ebnf"},
		{name: "TrailingSlash", args: []string{first + "/"}, expectedError: "open " + first + "/: not a directory"},
	}
	_ = dashed

	for _, tc := range tests {
		t.Run(tc.name, func(t *testing.T) {
			u := &demoUI{}
			var parsed []string
			var generated int
			c := &Command{UI: u}
			c.funcs.Parse = func(filename string, r io.Reader) (*spec.Spec, error) {
				parsed = append(parsed, filename)
				b, err := io.ReadAll(r)
				if err != nil || string(b) != demoGrammar {
					t.Errorf("reader not usable during Parse: %v, %d bytes", err, len(b))
				}
				return &spec.Spec{Name: "fromgrammar"}, nil
			}
			c.funcs.Generate = func(ui.UI, *golang.Params) error {
				generated++
				return nil
			}

			err := c.Run(tc.args)

			if tc.expectedError != "" {
				if err == nil || err.Error() != tc.expectedError {
					t.Errorf("error %v, want %q", err, tc.expectedError)
				}
				if len(parsed) != 0 || generated != 0 || u.successes() != 0 {
					t.Errorf("parsed=%v generated=%d msgs=%q", parsed, generated, u.msgs)
				}
				if tc.expectedError == "no input file specified, please provide a file path" && len(u.msgs) != 0 {
					t.Errorf("messages before the argument check: %q", u.msgs)
				}
				return
			}

			if err != nil {
				t.Fatalf("unexpected error: %s", err)
			}
			demoEqual(t, "parsed", parsed, []string{tc.expectedFile})
			if generated != 1 {
				t.Errorf("Generate called %d times", generated)
			}
			demoEqual(t, "ui", u.msgs, []string{
				fmt.Sprintf("I:# Parsing %q ...", tc.expectedFile),
				"I:# Generating parser ...",
				"I:# Successful!",
			})
		})
	}
}

func TestRefactorDemo_RunWiring(t *testing.T) {
	work := t.TempDir()
	input := demoWrite(t, filepath.Join(work, "g.ebnf"), demoGrammar)
	errParse := errors.New("parse failed")
	errGenerate := errors.New("generate failed")

	tests := []struct {
		name         string
		flagName     string
		flagOut      string
		flagDebug    bool
		parseErr     error
		generateErr  error
		expectedName string
	}{
		{name: "Defaults", flagOut: "/some/where", expectedName: "fromgrammar"},
		{name: "Override", flagName: "other", flagOut: "rel/path/", flagDebug: true, expectedName: "other"},
		{name: "OverrideInvalidIsPassedOn", flagName: "not valid!", flagOut: "", expectedName: "not valid!"},
		{name: "ParseFails", flagName: "other", parseErr: errParse},
		{name: "GenerateFails", flagName: "other", flagOut: "/o", generateErr: errGenerate, expectedName: "other"},
		{name: "GenerateFailsNoOverride", flagOut: "/o", generateErr: errGenerate, expectedName: "fromgrammar"},
	}

	for _, tc := range tests {
		t.Run(tc.name, func(t *testing.T) {
			u := &demoUI{}
			parsedSpec := &spec.Spec{Name: "fromgrammar"}
			var got []*golang.Params
			var gotUI ui.UI

			c := &Command{UI: u, Out: tc.flagOut, Name: tc.flagName, Debug: tc.flagDebug}
			c.funcs.Parse = func(string, io.Reader) (*spec.Spec, error) {
				if tc.parseErr != nil {
					return nil, tc.parseErr
				}
				return parsedSpec, nil
			}
			c.funcs.Generate = func(gu ui.UI, p *golang.Params) error {
				gotUI = gu
				got = append(got, p)
				// The name is already final when the generator starts.
				if p.Spec.Name != tc.expectedName {
					t.Errorf("name at generation time %q, want %q", p.Spec.Name, tc.expectedName)
				}
				if n := u.successes(); n != 0 {
					t.Errorf("success announced before generation finished")
				}
				return tc.generateErr
			}

			err := c.Run([]string{input})

			switch {
			case tc.parseErr != nil:
				if err != tc.parseErr {
					t.Errorf("error %v, want the parse error itself", err)
				}
				if len(got) != 0 {
					t.Errorf("Generate called after a parse failure")
				}
				demoEqual(t, "ui", u.msgs, []string{`I:# Parsing "g.ebnf" ...`})
				return
			case tc.generateErr != nil:
				if err != tc.generateErr {
					t.Errorf("error %v, want the generate error itself", err)
				}
				demoEqual(t, "ui", u.msgs, []string{`I:# Parsing "g.ebnf" ...`, "I:# Generating parser ..."})
			default:
				if err != nil {
					t.Fatalf("unexpected error: %s", err)
				}
				demoEqual(t, "ui", u.msgs, []string{`I:# Parsing "g.ebnf" ...`, "I:# Generating parser ...", "I:# Successful!"})
			}

			if len(got) != 1 {
				t.Fatalf("Generate called %d times", len(got))
			}
			p := got[0]
			if gotUI != ui.UI(u) {
				t.Errorf("a different UI was handed to Generate")
			}
			if p.Spec != parsedSpec || p.Path != tc.flagOut || p.Debug != tc.flagDebug || p.Spec.Name != tc.expectedName {
				t.Errorf("params %+v (spec %+v)", p, p.Spec)
			}
		})
	}
}
