package golang

// Characterization test for the clean-up of Generate / generate* / renderTemplate.
// It pins down, with concrete expectations, what ends up on disk, which errors travel to the caller (and in which order),
// and what is reported to the UI. It passes unchanged on the code before and after the refactoring.

import (
	"crypto/sha256"
	stderrors "errors"
	"fmt"
	"go/parser"
	"go/token"
	"os"
	"path/filepath"
	"regexp"
	"sort"
	"strings"
	"testing"

	"github.com/gardenbed/charm/ui"
	"github.com/moorara/algo/grammar"
	"github.com/moorara/algo/parser/lr"

	"github.com/gardenbed/emerge/internal/ebnf/parser/spec"
)

// demoUI records every leveled message (formatted) in order.
type demoUI struct {
	msgs []string
}

func (u *demoUI) rec(level, format string, a ...interface{}) {
	u.msgs = append(u.msgs, level+":"+strings.TrimSpace(fmt.Sprintf(format, a...)))
}

func (u *demoUI) Printf(format string, a ...interface{})             { u.rec("P", format, a...) }
func (u *demoUI) GetLevel() ui.Level                                 { return ui.Trace }
func (u *demoUI) SetLevel(ui.Level)                                  {}
func (u *demoUI) Tracef(_ ui.Style, format string, a ...interface{}) { u.rec("T", format, a...) }
func (u *demoUI) Debugf(_ ui.Style, format string, a ...interface{}) { u.rec("D", format, a...) }
func (u *demoUI) Infof(_ ui.Style, format string, a ...interface{})  { u.rec("I", format, a...) }
func (u *demoUI) Warnf(_ ui.Style, format string, a ...interface{})  { u.rec("W", format, a...) }
func (u *demoUI) Errorf(_ ui.Style, format string, a ...interface{}) { u.rec("E", format, a...) }

// Golden SHA-256 sums of the files generated for demoSpec("expr") (recorded on the code before the refactoring).
var demoGolden = map[string]string{
	"errors.go": "512111d1107a96eb5ce7237893b02310ad04a755152f2e50b7ed9dcb4ab1aa23",
	"types.go":  "a64ece996bc55a9050c1ec5fc70b5b5ab4995e3c9a601d9cb5973e6ac5d15eb4",
	"stack.go":  "b6d6040d95d82bec8efccf9b9845e7b6b4c5a919ef23af24802649063b107aad",
	"input.go":  "f1a1e2b98a5ae2c173b4e4e731650566bf844a2da264958640b945e936e71de1",
	"lexer.go":  "f46958c2cad7b562c5ea1b41b0f344ad326e74ff8913d06e471b5a2d6d127583",
	"parser.go": "058298c155f503553f23b12dd97a389ba9bbf9c179c8b37cef3caf0f8106d221",
}

var demoAllFiles = []string{"errors.go", "input.go", "lexer.go", "parser.go", "stack.go", "types.go"}

func demoSpec(name string) *spec.Spec {
	return &spec.Spec{
		Name:        name,
		Definitions: definitions,
		Grammar:     grammars[0],
		Precedences: precedences[0],
	}
}

// demoBadLexerSpec has a terminal definition whose regex cannot be compiled, so the lexer step fails.
func demoBadLexerSpec(name string) *spec.Spec {
	s := demoSpec(name)
	s.Definitions = []*spec.TerminalDef{
		{Terminal: "ID", Value: "[A-Za-z_][0-9A-Za-z_]*", IsRegex: true},
		{Terminal: "BAD", Value: "[a-", IsRegex: true},
	}
	return s
}

// demoBadParserSpec has an ambiguous grammar without precedences, so the parser step fails.
func demoBadParserSpec(name string) *spec.Spec {
	s := demoSpec(name)
	s.Precedences = lr.PrecedenceLevels{}
	return s
}

func demoSum(t *testing.T, path string) string {
	t.Helper()
	b, err := os.ReadFile(path)
	if err != nil {
		t.Fatalf("cannot read %s: %s", path, err)
	}
	return fmt.Sprintf("%x", sha256.Sum256(b))
}

// demoTree lists everything below root as "relative/path[/]:size" lines (sizes only for files).
func demoTree(t *testing.T, root string) []string {
	t.Helper()
	var out []string
	err := filepath.Walk(root, func(p string, info os.FileInfo, err error) error {
		if err != nil {
			return err
		}
		rel, _ := filepath.Rel(root, p)
		if rel == "." {
			return nil
		}
		if info.IsDir() {
			out = append(out, rel+"/")
		} else {
			out = append(out, fmt.Sprintf("%s:%d", rel, info.Size()))
		}
		return nil
	})
	if err != nil {
		t.Fatal(err)
	}
	sort.Strings(out)
	return out
}

func demoNames(t *testing.T, dir string) []string {
	t.Helper()
	entries, err := os.ReadDir(dir)
	if err != nil {
		t.Fatal(err)
	}
	names := []string{}
	for _, e := range entries {
		names = append(names, e.Name())
	}
	sort.Strings(names)
	return names
}

func demoEqual(t *testing.T, what string, got, want []string) {
	t.Helper()
	if strings.Join(got, "\n") != strings.Join(want, "\n") {
		t.Errorf("%s:\n got: %q\nwant: %q", what, got, want)
	}
}

// demoErrs flattens an error into the messages of its direct constituents (a plain error gives one message).
func demoErrs(err error) []string {
	if err == nil {
		return nil
	}
	if m, ok := err.(interface{ Unwrap() []error }); ok {
		var out []string
		for _, e := range m.Unwrap() {
			out = append(out, e.Error())
		}
		return out
	}
	return []string{err.Error()}
}

func demoCheckGolden(t *testing.T, dir, pkg string, files ...string) {
	t.Helper()
	for _, name := range files {
		path := filepath.Join(dir, name)
		if pkg == "expr" {
			if got := demoSum(t, path); got != demoGolden[name] {
				t.Errorf("%s: sha256 %s, want %s", name, got, demoGolden[name])
			}
		}
		fset := token.NewFileSet()
		f, err := parser.ParseFile(fset, path, nil, parser.AllErrors)
		if err != nil {
			t.Errorf("%s is not a complete Go file: %s", name, err)
			continue
		}
		if f.Name.Name != pkg {
			t.Errorf("%s: package clause %q, want %q", name, f.Name.Name, pkg)
		}
	}
}

func TestRefactorDemo_GenerateSuccess(t *testing.T) {
	for _, pkg := range []string{"expr", "custom_1", "P", "é"} {
		t.Run(pkg, func(t *testing.T) {
			out := t.TempDir()
			keep := filepath.Join(out, "keep.txt")
			if err := os.WriteFile(keep, []byte("precious"), 0600); err != nil {
				t.Fatal(err)
			}

			u := &demoUI{}
			// A non-clean path is cleaned by prepare; the result lands in the same directory.
			err := Generate(u, &Params{Path: out + string(filepath.Separator) + "." + string(filepath.Separator), Spec: demoSpec(pkg)})
			if err != nil {
				t.Fatalf("unexpected error: %s", err)
			}

			wantTop := []string{pkg, "keep.txt"}
			sort.Strings(wantTop)
			demoEqual(t, "output dir", demoNames(t, out), wantTop)
			demoEqual(t, "package dir", demoNames(t, filepath.Join(out, pkg)), demoAllFiles)
			demoCheckGolden(t, filepath.Join(out, pkg), pkg, demoAllFiles...)
			if b, _ := os.ReadFile(keep); string(b) != "precious" {
				t.Errorf("bystander file modified: %q", b)
			}

			demoEqual(t, "ui messages", u.msgs, []string{
				fmt.Sprintf("D:Checking output path %q ...", out),
				fmt.Sprintf("D:Checking package directory %q ...", pkg),
				"I:Generating core types ...",
				`D:Rendering "errors.go" ...`,
				`D:Rendering "types.go" ...`,
				`D:Rendering "stack.go" ...`,
				"I:Generating the lexer ...",
				"I:Constructing Automaton ...",
				`D:Rendering "input.go" ...`,
				`D:Rendering "lexer.go" ...`,
				"I:Generating the parser ...",
				"I:Constructing LALR(1) Parsing Table ...",
				`D:Rendering "parser.go" ...`,
			})
		})
	}
}

func TestRefactorDemo_GenerateRejectsBeforeCreating(t *testing.T) {
	t.Run("InvalidNames", func(t *testing.T) {
		for _, name := range []string{"", "_", "1abc", "func", "a-b", "a/b", "..", ".", "a b", "string", "nil", "-x", "x.go"} {
			out := t.TempDir()
			if err := os.WriteFile(filepath.Join(out, "keep.txt"), []byte("precious"), 0600); err != nil {
				t.Fatal(err)
			}
			before := demoTree(t, out)

			u := &demoUI{}
			err := Generate(u, &Params{Path: out, Spec: demoSpec(name)})
			demoEqual(t, fmt.Sprintf("errors for %q", name), demoErrs(err), []string{"invalid package name: " + name})
			demoEqual(t, fmt.Sprintf("tree for %q", name), demoTree(t, out), before)
			for _, m := range u.msgs {
				if strings.Contains(m, "Generating") || strings.Contains(m, "Rendering") {
					t.Errorf("%q: generation step started: %s", name, m)
				}
			}
		}
	})

	t.Run("PackageDirExists", func(t *testing.T) {
		out := t.TempDir()
		pkgDir := filepath.Join(out, "expr")
		if err := os.Mkdir(pkgDir, 0755); err != nil {
			t.Fatal(err)
		}
		for _, name := range []string{"types.go", "other.txt"} {
			if err := os.WriteFile(filepath.Join(pkgDir, name), []byte("old "+name), 0644); err != nil {
				t.Fatal(err)
			}
		}
		before := demoTree(t, out)

		err := Generate(&demoUI{}, &Params{Path: out, Spec: demoSpec("expr")})
		demoEqual(t, "errors", demoErrs(err), []string{
			fmt.Sprintf("error on creating package directory: mkdir %s: file exists", pkgDir),
		})
		demoEqual(t, "tree", demoTree(t, out), before)
		for _, name := range []string{"types.go", "other.txt"} {
			if b, _ := os.ReadFile(filepath.Join(pkgDir, name)); string(b) != "old "+name {
				t.Errorf("%s modified: %q", name, b)
			}
		}
	})

	t.Run("PackageNameTakenByFile", func(t *testing.T) {
		out := t.TempDir()
		taken := filepath.Join(out, "expr")
		if err := os.WriteFile(taken, []byte("i am a file"), 0644); err != nil {
			t.Fatal(err)
		}
		err := Generate(&demoUI{}, &Params{Path: out, Spec: demoSpec("expr")})
		demoEqual(t, "errors", demoErrs(err), []string{
			fmt.Sprintf("error on creating package directory: mkdir %s: file exists", taken),
		})
		demoEqual(t, "tree", demoTree(t, out), []string{"expr:11"})
	})

	t.Run("OutIsFile", func(t *testing.T) {
		out := t.TempDir()
		file := filepath.Join(out, "plain")
		if err := os.WriteFile(file, []byte("x"), 0644); err != nil {
			t.Fatal(err)
		}
		err := Generate(&demoUI{}, &Params{Path: file, Spec: demoSpec("expr")})
		demoEqual(t, "errors", demoErrs(err), []string{fmt.Sprintf("output path is not a directory: %q", file)})
		demoEqual(t, "tree", demoTree(t, out), []string{"plain:1"})
	})

	t.Run("OutMissing", func(t *testing.T) {
		out := t.TempDir()
		missing := filepath.Join(out, "a", "b")
		err := Generate(&demoUI{}, &Params{Path: missing, Spec: demoSpec("expr")})
		demoEqual(t, "errors", demoErrs(err), []string{fmt.Sprintf("output path does not exist: %q", missing)})
		demoEqual(t, "tree", demoTree(t, out), nil)
	})
}

func TestRefactorDemo_GenerateStepFailures(t *testing.T) {
	tests := []struct {
		name          string
		spec          *spec.Spec
		expectedFiles []string
		expectedErrs  []*regexp.Regexp
		expectedSteps []string
	}{
		{
			name:          "LexerFails",
			spec:          demoBadLexerSpec("expr"),
			expectedFiles: []string{"errors.go", "parser.go", "stack.go", "types.go"},
			expectedErrs:  []*regexp.Regexp{regexp.MustCompile(`BAD`)},
		},
		{
			name:          "ParserFails",
			spec:          demoBadParserSpec("expr"),
			expectedFiles: []string{"errors.go", "input.go", "lexer.go", "stack.go", "types.go"},
			expectedErrs:  []*regexp.Regexp{regexp.MustCompile(`(?i)conflict`)},
		},
		{
			name: "LexerAndParserFail",
			spec: func() *spec.Spec {
				s := demoBadLexerSpec("expr")
				s.Precedences = lr.PrecedenceLevels{}
				return s
			}(),
			expectedFiles: []string{"errors.go", "stack.go", "types.go"},
			expectedErrs:  []*regexp.Regexp{regexp.MustCompile(`BAD`), regexp.MustCompile(`(?i)conflict`)},
		},
	}

	for _, tc := range tests {
		t.Run(tc.name, func(t *testing.T) {
			out := t.TempDir()
			u := &demoUI{}
			err := Generate(u, &Params{Path: out, Spec: tc.spec})
			if err == nil {
				t.Fatal("expected an error")
			}

			// The failures of the steps arrive in step order (a step may contribute several messages).
			msg := err.Error()
			pos := 0
			for _, re := range tc.expectedErrs {
				loc := re.FindStringIndex(msg[pos:])
				if loc == nil {
					t.Fatalf("error %q does not contain %s after offset %d", msg, re, pos)
				}
				pos += loc[1]
			}

			// Every step was attempted, and the files of the healthy steps are complete.
			demoEqual(t, "package dir", demoNames(t, filepath.Join(out, "expr")), tc.expectedFiles)
			demoCheckGolden(t, filepath.Join(out, "expr"), "expr", tc.expectedFiles...)

			var steps []string
			for _, m := range u.msgs {
				if strings.HasPrefix(m, "I:Generating") {
					steps = append(steps, m)
				}
			}
			demoEqual(t, "steps", steps, []string{"I:Generating core types ...", "I:Generating the lexer ...", "I:Generating the parser ..."})
		})
	}
}

func TestRefactorDemo_StepsWithExistingFiles(t *testing.T) {
	newGen := func(t *testing.T, existing ...string) (*generator, *demoUI, string) {
		out := t.TempDir()
		pkgDir := filepath.Join(out, "expr")
		if err := os.Mkdir(pkgDir, 0755); err != nil {
			t.Fatal(err)
		}
		for _, name := range existing {
			if err := os.WriteFile(filepath.Join(pkgDir, name), []byte("old "+name), 0644); err != nil {
				t.Fatal(err)
			}
		}
		u := &demoUI{}
		return &generator{UI: u, Params: &Params{Path: out, Spec: demoSpec("expr")}}, u, pkgDir
	}

	exists := func(dir, name string) string {
		return fmt.Sprintf("open %s: file exists", filepath.Join(dir, name))
	}

	untouched := func(t *testing.T, dir string, names ...string) {
		t.Helper()
		for _, name := range names {
			if b, _ := os.ReadFile(filepath.Join(dir, name)); string(b) != "old "+name {
				t.Errorf("%s was modified: %q", name, b)
			}
		}
	}

	t.Run("Core_MiddleExists", func(t *testing.T) {
		g, u, dir := newGen(t, "types.go")
		err := g.generateCore()
		demoEqual(t, "errors", demoErrs(err), []string{exists(dir, "types.go")})
		untouched(t, dir, "types.go")
		demoEqual(t, "package dir", demoNames(t, dir), []string{"errors.go", "stack.go", "types.go"})
		demoCheckGolden(t, dir, "expr", "errors.go", "stack.go")
		demoEqual(t, "ui", u.msgs, []string{
			"I:Generating core types ...", `D:Rendering "errors.go" ...`, `D:Rendering "types.go" ...`, `D:Rendering "stack.go" ...`,
		})
	})

	t.Run("Core_AllExist", func(t *testing.T) {
		g, _, dir := newGen(t, "errors.go", "types.go", "stack.go")
		err := g.generateCore()
		demoEqual(t, "errors", demoErrs(err), []string{exists(dir, "errors.go"), exists(dir, "types.go"), exists(dir, "stack.go")})
		untouched(t, dir, "errors.go", "types.go", "stack.go")
		if want := exists(dir, "errors.go") + "\n" + exists(dir, "types.go") + "\n" + exists(dir, "stack.go") + "\n"; err.Error() != want {
			t.Errorf("error text %q, want %q", err.Error(), want)
		}
	})

	t.Run("Core_FirstAndLastExist", func(t *testing.T) {
		g, _, dir := newGen(t, "errors.go", "stack.go")
		err := g.generateCore()
		demoEqual(t, "errors", demoErrs(err), []string{exists(dir, "errors.go"), exists(dir, "stack.go")})
		untouched(t, dir, "errors.go", "stack.go")
		demoCheckGolden(t, dir, "expr", "types.go")
	})

	t.Run("Core_NoneExist", func(t *testing.T) {
		g, _, dir := newGen(t)
		if err := g.generateCore(); err != nil {
			t.Fatalf("unexpected error %s (%T)", err, err)
		}
		demoCheckGolden(t, dir, "expr", "errors.go", "types.go", "stack.go")
	})

	t.Run("Lexer_FirstExists", func(t *testing.T) {
		g, _, dir := newGen(t, "input.go")
		err := g.generateLexer()
		demoEqual(t, "errors", demoErrs(err), []string{exists(dir, "input.go")})
		untouched(t, dir, "input.go")
		demoCheckGolden(t, dir, "expr", "lexer.go")
	})

	t.Run("Lexer_BothExist", func(t *testing.T) {
		g, _, dir := newGen(t, "input.go", "lexer.go")
		err := g.generateLexer()
		demoEqual(t, "errors", demoErrs(err), []string{exists(dir, "input.go"), exists(dir, "lexer.go")})
		untouched(t, dir, "input.go", "lexer.go")
	})

	t.Run("Lexer_BadDefinitionRendersNothing", func(t *testing.T) {
		g, u, dir := newGen(t)
		g.Spec = demoBadLexerSpec("expr")
		if err := g.generateLexer(); err == nil || !strings.Contains(err.Error(), "BAD") {
			t.Errorf("unexpected error: %v", err)
		}
		demoEqual(t, "package dir", demoNames(t, dir), []string{})
		demoEqual(t, "ui", u.msgs, []string{"I:Generating the lexer ...", "I:Constructing Automaton ..."})
	})

	t.Run("Parser_Exists", func(t *testing.T) {
		g, _, dir := newGen(t, "parser.go")
		err := g.generateParser()
		demoEqual(t, "errors", demoErrs(err), []string{exists(dir, "parser.go")})
		untouched(t, dir, "parser.go")
		var pe *os.PathError
		if !stderrors.As(err, &pe) || !stderrors.Is(err, os.ErrExist) {
			t.Errorf("error chain lost: %T %v", err, err)
		}
	})

	t.Run("Parser_ConflictRendersNothing", func(t *testing.T) {
		g, u, dir := newGen(t)
		g.Spec = demoBadParserSpec("expr")
		if err := g.generateParser(); err == nil || !regexp.MustCompile(`(?i)conflict`).MatchString(err.Error()) {
			t.Errorf("unexpected error: %v", err)
		}
		demoEqual(t, "package dir", demoNames(t, dir), []string{})
		demoEqual(t, "ui", u.msgs, []string{"I:Generating the parser ...", "I:Constructing LALR(1) Parsing Table ..."})
	})

	t.Run("Parser_OK", func(t *testing.T) {
		g, _, dir := newGen(t)
		if err := g.generateParser(); err != nil {
			t.Fatalf("unexpected error %s (%T)", err, err)
		}
		demoCheckGolden(t, dir, "expr", "parser.go")
	})

	t.Run("Render_UnknownTemplateCreatesNothing", func(t *testing.T) {
		g, u, dir := newGen(t)
		err := g.renderTemplate("missing.go", &coreData{Package: "expr"})
		demoEqual(t, "errors", demoErrs(err), []string{"open templates/missing.go.tmpl: file does not exist"})
		demoEqual(t, "package dir", demoNames(t, dir), []string{})
		demoEqual(t, "ui", u.msgs, []string{`D:Rendering "missing.go" ...`})
	})

	t.Run("Render_SymlinkIsNotFollowed", func(t *testing.T) {
		g, _, dir := newGen(t)
		victim := filepath.Join(filepath.Dir(dir), "victim.txt")
		if err := os.WriteFile(victim, []byte("victim"), 0644); err != nil {
			t.Fatal(err)
		}
		if err := os.Symlink(victim, filepath.Join(dir, "types.go")); err != nil {
			t.Skip("symlinks not available")
		}
		err := g.renderTemplate("types.go", &coreData{Package: "expr"})
		demoEqual(t, "errors", demoErrs(err), []string{exists(dir, "types.go")})
		if b, _ := os.ReadFile(victim); string(b) != "victim" {
			t.Errorf("file behind the symlink modified: %q", b)
		}
	})

	t.Run("Render_ExecutionErrorIsReturned", func(t *testing.T) {
		g, _, dir := newGen(t)
		// lexer.go needs .DFA; a struct without that field makes the execution fail after the file was created.
		err := g.renderTemplate("lexer.go", &coreData{Package: "expr"})
		if err == nil || !strings.Contains(err.Error(), "can't evaluate field DFA") {
			t.Fatalf("unexpected error: %v", err)
		}
		demoEqual(t, "package dir", demoNames(t, dir), []string{"lexer.go"})
		b, _ := os.ReadFile(filepath.Join(dir, "lexer.go"))
		if !strings.HasPrefix(string(b), "package expr\n") {
			t.Errorf("unexpected partial content: %.40q", b)
		}
	})

	t.Run("Grammar", func(t *testing.T) {
		// Sanity check of the fixtures used above.
		if grammars[0].Start != grammar.NonTerminal("E") {
			t.Fatal("unexpected fixture")
		}
	})
}
