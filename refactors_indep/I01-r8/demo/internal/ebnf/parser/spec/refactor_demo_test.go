package spec

import (
	"fmt"
	"strings"
	"testing"

	"github.com/moorara/algo/grammar"
)

// Characterization test for the refactoring of strings.go and the memo table of sub-expressions.
// Every expectation below is a concrete value observed on the code before the refactoring.

type demoStr = grammar.String[grammar.Symbol]

func demoT(names ...string) demoStr {
	α := demoStr{}
	for _, n := range names {
		if n == strings.ToUpper(n) && n != strings.ToLower(n) {
			α = append(α, grammar.NonTerminal(n))
		} else {
			α = append(α, grammar.Terminal(n))
		}
	}
	return α
}

func demoShow(s Strings) string {
	parts := make([]string, len(s))
	for i, α := range s {
		parts[i] = α.String()
	}
	return "[" + strings.Join(parts, " | ") + "]"
}

func TestRefactorDemo_Contains(t *testing.T) {
	s := Strings{demoT("a", "A"), demoT(), demoT("b"), demoT("B")}

	tests := []struct {
		s        Strings
		α        demoStr
		expected bool
	}{
		{s, demoT("a", "A"), true},
		{s, demoT("A", "a"), false},
		{s, demoT("a"), false},
		{s, demoT(), true},
		{s, nil, true}, // nil is the empty string ε
		{s, demoT("b"), true},
		{s, demoT("B"), true},
		{s, demoStr{grammar.NonTerminal("b")}, false}, // same name, other kind of symbol
		{s, demoStr{grammar.Terminal("B")}, false},
		{s, demoT("a", "A", "a"), false},
		{Strings{}, demoT(), false},
		{nil, demoT(), false},
		{nil, nil, false},
		{Strings{nil}, demoT(), true},
		{Strings{demoT("a")}, demoT(), false},
	}

	for i, tc := range tests {
		if got := tc.s.Contains(tc.α); got != tc.expected {
			t.Errorf("case %d: Contains(%s, %s) = %t, expected %t", i, demoShow(tc.s), tc.α, got, tc.expected)
		}
	}
}

func TestRefactorDemo_EqStrings(t *testing.T) {
	a, b, c, ε := demoT("a", "A"), demoT("b"), demoT("C", "c"), demoT()

	tests := []struct {
		lhs, rhs Strings
		expected bool
	}{
		{Strings{a, b}, Strings{b, a}, true},
		{Strings{a, b}, Strings{a, b}, true},
		{Strings{a, b}, Strings{a}, false},
		{Strings{a}, Strings{a, b}, false},
		{Strings{a, b}, Strings{a, c}, false},
		{Strings{a, a}, Strings{a}, true}, // repetition does not count
		{Strings{a}, Strings{a, a, a}, true},
		{Strings{a, b, a}, Strings{b, a, b}, true},
		{Strings{}, Strings{}, true},
		{nil, Strings{}, true},
		{nil, nil, true},
		{nil, Strings{ε}, false},
		{Strings{ε}, nil, false},
		{Strings{ε}, Strings{nil}, true},
		{Strings{ε, a}, Strings{a, ε}, true},
		{Strings{ε, a}, Strings{a}, false},
		{Strings{demoT("a", "b")}, Strings{demoT("a"), demoT("b")}, false},
		{Strings{demoT("a"), demoT("b")}, Strings{demoT("a", "b")}, false},
		{Strings{{grammar.Terminal("x")}}, Strings{{grammar.NonTerminal("x")}}, false},
	}

	for i, tc := range tests {
		if got := eqStrings(tc.lhs, tc.rhs); got != tc.expected {
			t.Errorf("case %d: eqStrings(%s, %s) = %t, expected %t", i, demoShow(tc.lhs), demoShow(tc.rhs), got, tc.expected)
		}
		if got := eqStrings(tc.rhs, tc.lhs); got != tc.expected {
			t.Errorf("case %d (swapped): eqStrings(%s, %s) = %t, expected %t", i, demoShow(tc.rhs), demoShow(tc.lhs), got, tc.expected)
		}
	}
}

func TestRefactorDemo_HashStrings(t *testing.T) {
	mk := func() []demoStr {
		return []demoStr{demoT("a", "A"), demoT("b"), demoT("C", "c"), demoT(), demoT("a")}
	}

	tests := []struct {
		name          string
		s             Strings
		expectedHash  uint64
		expectedAfter string
	}{
		{"nil", nil, 14695981039346656037, "[]"},
		{"empty", Strings{}, 14695981039346656037, "[]"},
		{"eps", Strings{mk()[3]}, 14695981039346656037, "[ε]"},
		{"one", Strings{mk()[0]}, 5744368263549526001, "[\"a\" A]"},
		{"two", Strings{mk()[0], mk()[1]}, 8577801313312649889, "[\"a\" A | \"b\"]"},
		{"two reversed", Strings{mk()[1], mk()[0]}, 8577801313312649889, "[\"a\" A | \"b\"]"},
		{"dup", Strings{mk()[0], mk()[0]}, 2882619963077262781, "[\"a\" A | \"a\" A]"},
		{"all", Strings{mk()[0], mk()[1], mk()[2], mk()[3], mk()[4]}, 2635030561212013910, "[\"a\" A | C \"c\" | \"a\" | \"b\" | ε]"},
		{"all permuted", Strings{mk()[4], mk()[2], mk()[0], mk()[3], mk()[1]}, 2635030561212013910, "[\"a\" A | C \"c\" | \"a\" | \"b\" | ε]"},
		{"all reversed", Strings{mk()[4], mk()[3], mk()[2], mk()[1], mk()[0]}, 2635030561212013910, "[\"a\" A | C \"c\" | \"a\" | \"b\" | ε]"},
		{"joined", Strings{demoT("a", "b")}, 10340406356081222718, "[\"a\" \"b\"]"},
		{"split", Strings{demoT("a"), demoT("b")}, 10340406356081222718, "[\"a\" | \"b\"]"},
	}

	for _, tc := range tests {
		got := hashStrings(tc.s)
		again := hashStrings(tc.s)
		if got != tc.expectedHash || again != got {
			t.Errorf("%s: hashStrings = %d (again %d), expected %d", tc.name, got, again, tc.expectedHash)
		}
		// The argument itself is left in canonical order.
		if after := demoShow(tc.s); after != tc.expectedAfter {
			t.Errorf("%s: argument after hashing is %s, expected %s", tc.name, after, tc.expectedAfter)
		}
	}
}

// demoStep is one request to the memo table of sub-expressions.
type demoStep struct {
	op       string
	s        Strings
	expected grammar.NonTerminal
}

func demoGet(st *SymbolTable, op string, s Strings) grammar.NonTerminal {
	switch op {
	case "opt":
		return st.GetOpt(s)
	case "group":
		return st.GetGroup(s)
	case "star":
		return st.GetStar(s)
	case "plus":
		return st.GetPlus(s)
	}
	panic(op)
}

func TestRefactorDemo_MemoTable(t *testing.T) {
	ab := func() Strings { return Strings{demoT("b", "B"), demoT("a", "A")} }
	ba := func() Strings { return Strings{demoT("a", "A"), demoT("b", "B")} }

	steps := []demoStep{
		// single symbols get a name derived from the symbol, no counter involved
		{"opt", Strings{demoT("EXPR")}, "gen_EXPR_opt"},
		{"star", Strings{demoT("EXPR")}, "gen_EXPR_star"},
		{"plus", Strings{demoT(";")}, "gen_semi_plus"},
		{"group", Strings{demoT("{")}, "gen_rbrace_group"},
		{"opt", Strings{demoT("if")}, "gen1_opt"}, // a terminal without a known name
		// composite sub-expressions get numbered names
		{"group", ab(), "gen2_group"},
		{"group", ba(), "gen2_group"}, // same set in another order: reused
		{"group", ab(), "gen2_group"},
		{"star", ba(), "gen3_star"}, // same set, other operator: same entry, new name
		{"star", ab(), "gen3_star"},
		{"plus", ab(), "gen4_plus"},
		{"opt", ba(), "gen5_opt"},
		{"opt", ab(), "gen5_opt"},
		{"group", ba(), "gen2_group"},
		// the empty alternative, alone and combined
		{"opt", Strings{demoT()}, "gen6_opt"},
		{"opt", Strings{nil}, "gen6_opt"},
		{"group", Strings{demoT(), demoT("a", "A")}, "gen7_group"},
		{"group", Strings{demoT("a", "A"), demoT()}, "gen7_group"},
		{"group", Strings{demoT("a", "A")}, "gen8_group"},
		// repetition of a member changes the hash: a separate entry
		{"group", Strings{demoT("a", "A"), demoT("a", "A")}, "gen9_group"},
		{"star", Strings{demoT("a", "A"), demoT("a", "A")}, "gen10_star"},
		// no strings at all
		{"star", Strings{}, "gen11_star"},
		{"star", nil, "gen11_star"},
		{"plus", nil, "gen12_plus"},
		// operators applied to generated names
		{"star", Strings{demoT("GEN1_GROUP")}, "gen_GEN1_GROUP_star"},
		{"star", Strings{demoT("GEN1_GROUP")}, "gen_GEN1_GROUP_star"},
		{"opt", Strings{demoT("if")}, "gen1_opt"},
		{"plus", Strings{demoT(";")}, "gen_semi_plus"},
		{"star", Strings{demoT(";")}, "gen_semi_star"},
		{"plus", Strings{demoT("x", "y")}, "gen13_plus"},
	}

	st := NewSymbolTable()
	got := make([]string, len(steps))
	for i, step := range steps {
		name := demoGet(st, step.op, step.s)
		got[i] = string(name)
		if name != step.expected {
			t.Errorf("step %d: %s of %s = %q, expected %q", i, step.op, demoShow(step.s), name, step.expected)
		}
	}
	t.Logf("names: %q", got)

	if size := st.strings.table.Size(); size != 12 {
		t.Errorf("memo table has %d entries, expected %d", size, 12)
	}
	if st.strings.counter != 13 {
		t.Errorf("name counter is %d, expected %d", st.strings.counter, 13)
	}

	// The key passed by the caller is left in canonical order, on a miss as well as on a hit.
	miss := Strings{demoT("z"), demoT("m"), demoT("a")}
	st.GetGroup(miss)
	if after := demoShow(miss); after != `["a" | "m" | "z"]` {
		t.Errorf("key after a miss is %s", after)
	}
	hit := Strings{demoT("m"), demoT("z"), demoT("a")}
	st.GetGroup(hit)
	if after := demoShow(hit); after != `["a" | "m" | "z"]` {
		t.Errorf("key after a hit is %s", after)
	}

	// The entry of a set of strings carries all the names generated for it.
	e, ok := st.strings.table.Get(ab())
	if !ok {
		t.Fatalf("no entry for %s", demoShow(ab()))
	}
	if all := fmt.Sprintf("%s,%s,%s,%s", e.Group, e.Opt, e.Star, e.Plus); all != "gen2_group,gen5_opt,gen3_star,gen4_plus" {
		t.Errorf("entry is %s", all)
	}
	e, ok = st.strings.table.Get(Strings{demoT("EXPR")})
	if !ok {
		t.Fatalf("no entry for EXPR")
	}
	if all := fmt.Sprintf("%s,%s,%s,%s", e.Group, e.Opt, e.Star, e.Plus); all != ",gen_EXPR_opt,gen_EXPR_star," {
		t.Errorf("entry is %s", all)
	}

	// Reset forgets the entries but the counter goes on.
	st.Reset()
	if size := st.strings.table.Size(); size != 0 {
		t.Errorf("memo table has %d entries after Reset", size)
	}
	if name := st.GetGroup(ab()); name != "gen15_group" {
		t.Errorf("after Reset: %q", name)
	}
}

func TestRefactorDemo_Parse(t *testing.T) {
	const src = `grammar demo;

ID = $ID

start = {item ";"} [item] {{item ";"}} (item ";") {";" item};
item  = [ID | "x" y] {ID | "x" y} {{y "x" | ID}} ("x" y | ID | ) [ID | ];
y     = {{ID}} {ID} [ID] (ID) [[ID]] {({ID})} ["(" y ")"] {"(" y ")"};
`

	expected := []string{
		"gen10_plus → gen10_plus \"ID\"",
		"gen10_plus → \"ID\"",
		"gen11_star → gen11_star \"ID\"",
		"gen11_star → ε",
		"gen12_opt → \"ID\"",
		"gen12_opt → ε",
		"gen13_group → \"ID\"",
		"gen14_opt → \"(\" y \")\"",
		"gen14_opt → ε",
		"gen15_star → gen15_star \"(\" y \")\"",
		"gen15_star → ε",
		"gen1_star → gen1_star item \";\"",
		"gen1_star → ε",
		"gen2_plus → gen2_plus item \";\"",
		"gen2_plus → item \";\"",
		"gen3_group → item \";\"",
		"gen4_star → gen4_star \";\" item",
		"gen4_star → ε",
		"gen5_opt → \"x\" y",
		"gen5_opt → \"ID\"",
		"gen5_opt → ε",
		"gen6_star → gen6_star \"x\" y",
		"gen6_star → gen6_star \"ID\"",
		"gen6_star → ε",
		"gen7_plus → gen7_plus y \"x\"",
		"gen7_plus → gen7_plus \"ID\"",
		"gen7_plus → y \"x\"",
		"gen7_plus → \"ID\"",
		"gen8_group → \"x\" y",
		"gen8_group → \"ID\"",
		"gen8_group → ε",
		"gen9_opt → \"ID\"",
		"gen9_opt → ε",
		"gen_gen11_star_group → gen11_star",
		"gen_gen12_opt_opt → gen12_opt",
		"gen_gen12_opt_opt → ε",
		"gen_gen_gen11_star_group_star → gen_gen_gen11_star_group_star gen_gen11_star_group",
		"gen_gen_gen11_star_group_star → ε",
		"gen_item_opt → item",
		"gen_item_opt → ε",
		"item → gen5_opt gen6_star gen7_plus gen8_group gen9_opt",
		"start → gen1_star gen_item_opt gen2_plus gen3_group gen4_star",
		"y → gen10_plus gen11_star gen12_opt gen13_group gen_gen12_opt_opt gen_gen_gen11_star_group_star gen14_opt gen15_star",
	}

	s, err := Parse("demo", strings.NewReader(src))
	if err != nil {
		t.Fatalf("unexpected error: %s", err)
	}

	var got []string
	for _, p := range s.Productions() {
		got = append(got, p.String())
	}

	if strings.Join(got, "\n") != strings.Join(expected, "\n") {
		t.Errorf("productions:\n%s", strings.Join(got, "\n"))
	}
}
