package spec

import (
	"fmt"
	"hash/fnv"
	"strings"
	"testing"

	"github.com/moorara/algo/grammar"
)

// Characterization test for Strings.Contains, eqStrings, hashStrings and the strings table of the symbol table.
// It passes on the code before and after the refactoring.

type demoStr = grammar.String[grammar.Symbol]

func demoT(s string) grammar.Symbol { return grammar.Terminal(s) }
func demoN(s string) grammar.Symbol { return grammar.NonTerminal(s) }

// demoRender gives an unambiguous textual form of a list of strings, in the order given.
func demoRender(s Strings) string {
	parts := make([]string, len(s))
	for i, α := range s {
		parts[i] = "<" + α.String() + ">"
	}
	return strings.Join(parts, "")
}

// demoRefHash is an independent reference: FNV-1 (64 bits) of the symbol names concatenated in the order given.
func demoRefHash(s Strings) uint64 {
	h := fnv.New64()
	for _, α := range s {
		for _, x := range α {
			h.Write([]byte(x.String()))
		}
	}
	return h.Sum64()
}

func TestRefactorDemo_Contains(t *testing.T) {
	ab := demoStr{demoT("a"), demoN("B")}
	s := Strings{
		{demoT("a")},
		{demoN("a")},
		ab,
		{},
		{demoT("a"), demoN("B"), demoT("c")},
	}

	tests := []struct {
		name     string
		s        Strings
		α        demoStr
		expected bool
	}{
		{"NilList", nil, demoStr{demoT("a")}, false},
		{"EmptyList", Strings{}, demoStr{}, false},
		{"EmptyStringPresent", s, demoStr{}, true},
		{"NilStringMatchesEmpty", s, nil, true},
		{"EmptyStringAbsent", s[:3], demoStr{}, false},
		{"Terminal", s, demoStr{demoT("a")}, true},
		{"NonTerminalSameName", s, demoStr{demoN("a")}, true},
		{"TerminalVsNonTerminal", Strings{{demoT("a")}}, demoStr{demoN("a")}, false},
		{"NonTerminalVsTerminal", Strings{{demoN("a")}}, demoStr{demoT("a")}, false},
		{"Sequence", s, demoStr{demoT("a"), demoN("B")}, true},
		{"ProperPrefix", s, demoStr{demoT("a"), demoN("B"), demoT("c"), demoT("d")}, false},
		{"Reversed", s, demoStr{demoN("B"), demoT("a")}, false},
		{"Longer", s, demoStr{demoT("a"), demoN("B"), demoT("c")}, true},
		{"Last", s, s[4], true},
		{"OtherName", s, demoStr{demoT("b")}, false},
		{"Concatenation", Strings{{demoT("a"), demoT("b")}}, demoStr{demoT("ab")}, false},
	}

	for _, tc := range tests {
		t.Run(tc.name, func(t *testing.T) {
			if got := tc.s.Contains(tc.α); got != tc.expected {
				t.Errorf("Contains(%s in %s) = %v, expected %v", tc.α, demoRender(tc.s), got, tc.expected)
			}
		})
	}
}

func TestRefactorDemo_EqStrings(t *testing.T) {
	a, b, c := demoStr{demoT("a")}, demoStr{demoT("b"), demoN("B")}, demoStr{demoN("C")}
	ε := demoStr{}

	tests := []struct {
		name     string
		lhs, rhs Strings
		expected bool
	}{
		{"BothNil", nil, nil, true},
		{"NilAndEmpty", nil, Strings{}, true},
		{"NilAndEpsilon", nil, Strings{ε}, false},
		{"EpsilonAndNil", Strings{ε}, nil, false},
		{"EpsilonBoth", Strings{ε}, Strings{nil}, true},
		{"Same", Strings{a, b, c}, Strings{a, b, c}, true},
		{"Permuted", Strings{a, b, c}, Strings{c, a, b}, true},
		{"LeftSubset", Strings{a, b}, Strings{a, b, c}, false},
		{"RightSubset", Strings{a, b, c}, Strings{b, c}, false},
		{"Disjoint", Strings{a}, Strings{b}, false},
		{"SameLengthDifferent", Strings{a, b}, Strings{a, c}, false},
		{"RepetitionLeft", Strings{a, a, b}, Strings{b, a}, true},
		{"RepetitionRight", Strings{a}, Strings{a, a, a}, true},
		{"RepetitionNotEqual", Strings{a, a}, Strings{a, b}, false},
		{"KindMatters", Strings{{demoT("x")}}, Strings{{demoN("x")}}, false},
		{"SplitMatters", Strings{{demoT("x"), demoT("y")}}, Strings{{demoT("x")}, {demoT("y")}}, false},
		{"WithEpsilon", Strings{a, ε}, Strings{ε, a}, true},
		{"WithEpsilonOneSide", Strings{a, ε}, Strings{a}, false},
	}

	for _, tc := range tests {
		t.Run(tc.name, func(t *testing.T) {
			if got := eqStrings(tc.lhs, tc.rhs); got != tc.expected {
				t.Errorf("eqStrings(%s, %s) = %v, expected %v", demoRender(tc.lhs), demoRender(tc.rhs), got, tc.expected)
			}
			if got := eqStrings(tc.rhs, tc.lhs); got != tc.expected {
				t.Errorf("eqStrings(%s, %s) = %v, expected %v", demoRender(tc.rhs), demoRender(tc.lhs), got, tc.expected)
			}
		})
	}
}

func TestRefactorDemo_HashStrings(t *testing.T) {
	mk := func(order ...int) Strings {
		all := Strings{
			{demoT("a")},                         // 0: one terminal
			{demoN("A"), demoN("B")},             // 1: two non-terminals
			{demoN("A"), demoT("+"), demoN("A")}, // 2: two non-terminals, one terminal
			{},                                   // 3: empty string
			{demoT("b"), demoT("a")},             // 4: two terminals
			{demoN("A")},                         // 5: one non-terminal
			{demoT("b")},                         // 6: one terminal
		}
		s := make(Strings, len(order))
		for i, k := range order {
			s[i] = all[k]
		}
		return s
	}

	tests := []struct {
		name           string
		s              Strings
		expectedHash   uint64
		expectedSorted string
	}{
		{"Nil", nil, 0xcbf29ce484222325, ``},
		{"Empty", Strings{}, 0xcbf29ce484222325, ``},
		{"OnlyEpsilon", mk(3), 0xcbf29ce484222325, `<ε>`},
		{"Single", mk(0), 0xd9b2a5186c652990, `<"a">`},
		{"ExistingTestVector", Strings{{demoT("a"), demoN("A")}, {demoT("b"), demoN("B")}}, 0x27fdf99569a907d1, `<"a" A><"b" B>`},
		{"ExistingTestVectorPermuted", Strings{{demoT("b"), demoN("B")}, {demoT("a"), demoN("A")}}, 0x27fdf99569a907d1, `<"a" A><"b" B>`},
		{"All", mk(0, 1, 2, 3, 4, 5, 6), 0, `<A "+" A><A B><A><"b" "a"><"a"><"b"><ε>`},
		{"AllReversed", mk(6, 5, 4, 3, 2, 1, 0), 0, `<A "+" A><A B><A><"b" "a"><"a"><"b"><ε>`},
		{"AllShuffled", mk(3, 6, 1, 4, 0, 2, 5), 0, `<A "+" A><A B><A><"b" "a"><"a"><"b"><ε>`},
		{"Repetition", mk(0, 6, 0), 0, `<"a"><"a"><"b">`},
		{"NoRepetition", mk(6, 0), 0, `<"a"><"b">`},
	}

	seen := map[string]uint64{}
	for _, tc := range tests {
		t.Run(tc.name, func(t *testing.T) {
			got := hashStrings(tc.s)

			// hashStrings leaves its argument in canonical order.
			sorted := demoRender(tc.s)
			if sorted != tc.expectedSorted {
				t.Errorf("order after hashStrings = %s, expected %s", sorted, tc.expectedSorted)
			}

			if ref := demoRefHash(tc.s); got != ref {
				t.Errorf("hashStrings = %#x, reference FNV-1 of canonical order = %#x", got, ref)
			}

			if tc.expectedHash != 0 && got != tc.expectedHash {
				t.Errorf("hashStrings = %#x, expected %#x", got, tc.expectedHash)
			}

			// The same canonical list always hashes to the same value; calling again changes nothing.
			if prev, ok := seen[sorted]; ok && prev != got {
				t.Errorf("hashStrings of %s = %#x, previously %#x", sorted, got, prev)
			}
			seen[sorted] = got
			if again := hashStrings(tc.s); again != got || demoRender(tc.s) != sorted {
				t.Errorf("second call: %#x %s, first call: %#x %s", again, demoRender(tc.s), got, sorted)
			}
		})
	}

	// Pinned values for the longer lists.
	pinned := map[string]uint64{
		`<A "+" A><A B><A><"b" "a"><"a"><"b"><ε>`: 0x1f9ef70d5e375d84,
		`<"a"><"a"><"b">`:                         0x95410b4a397b5037,
		`<"a"><"b">`:                              0x8f8080cb8769a43e,
	}
	for k, v := range pinned {
		if seen[k] != v {
			t.Errorf("hashStrings of %s = %#x, expected %#x", k, seen[k], v)
		}
	}

	// A list and the same list with a repeated element are equal as sets but hash differently (as before).
	if !eqStrings(mk(0, 6, 0), mk(6, 0)) {
		t.Errorf("expected lists to be equal as sets")
	}
}

func TestRefactorDemo_StringsTable(t *testing.T) {
	st := NewSymbolTable()

	x := func() demoStr { return demoStr{demoN("expr"), demoT("+"), demoN("expr")} }
	y := func() demoStr { return demoStr{demoT("-"), demoN("expr")} }
	z := func() demoStr { return demoStr{} }

	var got []string
	rec := func(n grammar.NonTerminal) { got = append(got, string(n)) }

	rec(st.GetGroup(Strings{x(), y()}))       // new entry
	rec(st.GetGroup(Strings{y(), x()}))       // same set, other order: reused
	rec(st.GetOpt(Strings{y(), x()}))         // same entry, other operator: new name
	rec(st.GetStar(Strings{x(), y(), z()}))   // other set
	rec(st.GetStar(Strings{z(), y(), x()}))   // reused
	rec(st.GetPlus(Strings{z(), x(), y()}))   // same entry, other operator
	rec(st.GetPlus(Strings{x(), y()}))        // first entry, other operator
	rec(st.GetOpt(Strings{x(), y()}))         // reused
	rec(st.GetStar(Strings{{demoN("expr")}})) // named after the single symbol
	rec(st.GetStar(Strings{{demoT("+")}}))    // named after the single terminal
	rec(st.GetPlus(Strings{{demoT("+")}}))
	rec(st.GetStar(Strings{{demoN("expr")}}))
	rec(st.GetGroup(Strings{{demoT("+")}, {demoT("-")}}))
	rec(st.GetGroup(Strings{{demoT("-")}, {demoT("+")}}))
	rec(st.GetGroup(Strings{{demoT("+"), demoT("-")}})) // one string of two symbols: different set
	rec(st.GetOpt(Strings{z()}))
	rec(st.GetOpt(Strings{}))
	rec(st.GetOpt(Strings{z()}))
	rec(st.GetPlus(Strings{y(), x(), z()}))

	expected := []string{
		"gen1_group", "gen1_group", "gen2_opt",
		"gen3_star", "gen3_star", "gen4_plus",
		"gen5_plus", "gen2_opt",
		"gen_expr_star", "gen_plus_star", "gen_plus_plus", "gen_expr_star",
		"gen6_group", "gen6_group", "gen7_group",
		"gen8_opt", "gen9_opt", "gen8_opt",
		"gen4_plus",
	}

	if fmt.Sprint(got) != fmt.Sprint(expected) {
		t.Errorf("generated names:\n got      %v\n expected %v", got, expected)
	}

	// The argument of a lookup is left in canonical order.
	s := Strings{z(), y(), x()}
	st.GetGroup(s)
	if r := demoRender(s); r != `<expr "+" expr><"-" expr><ε>` {
		t.Errorf("order after lookup = %s", r)
	}
}

func TestRefactorDemo_Parse(t *testing.T) {
	src := `grammar demo;

start = {item} [("+" | "-") item] {item};
item  = ("-" | "+") atom | atom {{"," atom}} | [item ";"] | {{"x"}} {"x"} ["x"] ("x");
atom  = "a" | ("a" | "b" | ) | (("b" | "a")) | {"," atom} ;
`

	sp, err := Parse("demo", strings.NewReader(src))
	if err != nil {
		t.Fatalf("unexpected error: %s", err)
	}

	var got []string
	for _, p := range sp.Productions() {
		got = append(got, p.String())
	}

	expected := demoExpectedProductions
	if strings.Join(got, "\n") != strings.Join(expected, "\n") {
		t.Errorf("productions:\n%s\nexpected:\n%s", strings.Join(got, "\n"), strings.Join(expected, "\n"))
	}
}

var demoExpectedProductions = []string{
	`atom → gen11_star`,
	`atom → gen9_group`,
	`atom → gen_gen10_group_group`,
	`atom → "a"`,
	`gen10_group → "a"`,
	`gen10_group → "b"`,
	`gen11_star → gen11_star "," atom`,
	`gen11_star → ε`,
	`gen1_group → "+"`,
	`gen1_group → "-"`,
	`gen2_opt → gen1_group item`,
	`gen2_opt → ε`,
	`gen3_plus → gen3_plus "," atom`,
	`gen3_plus → "," atom`,
	`gen4_opt → item ";"`,
	`gen4_opt → ε`,
	`gen5_plus → gen5_plus "x"`,
	`gen5_plus → "x"`,
	`gen6_star → gen6_star "x"`,
	`gen6_star → ε`,
	`gen7_opt → "x"`,
	`gen7_opt → ε`,
	`gen8_group → "x"`,
	`gen9_group → "a"`,
	`gen9_group → "b"`,
	`gen9_group → ε`,
	`gen_gen10_group_group → gen10_group`,
	`gen_item_star → gen_item_star item`,
	`gen_item_star → ε`,
	`item → gen5_plus gen6_star gen7_opt gen8_group`,
	`item → atom gen3_plus`,
	`item → gen1_group atom`,
	`item → gen4_opt`,
	`start → gen_item_star gen2_opt gen_item_star`,
}
