package spec

import (
	"strings"
	"testing"

	"github.com/moorara/algo/grammar"
	"github.com/moorara/algo/parser/lr"
)

// This file is a characterization test for the way the directives of a specification
// (@left, @right, @none with terminal and rule handles) are turned into precedence levels,
// and for the LALR(1) table that is built from them.
// Every expectation is a concrete value that holds before and after the clean-up of parser.go.

// demoNode is a node of the parse tree that the shift-reduce driver below builds.
type demoNode struct {
	label string
	kids  []*demoNode
	leaf  bool
}

// String renders the shape of a tree: a leaf is its terminal, a node with a single child is that child,
// an empty node is ε and any other node is the bracketed list of its children.
func (n *demoNode) String() string {
	switch {
	case n.leaf:
		return n.label
	case len(n.kids) == 0:
		return "ε"
	case len(n.kids) == 1:
		return n.kids[0].String()
	}

	parts := make([]string, len(n.kids))
	for i, k := range n.kids {
		parts[i] = k.String()
	}

	return "[" + strings.Join(parts, " ") + "]"
}

// demoDrive runs the standard shift-reduce algorithm with the given table on a sentence.
// It returns the tree and true if the sentence is accepted, and false if the table reports an error.
func demoDrive(t *testing.T, T *lr.ParsingTable, sentence string) (string, bool) {
	t.Helper()

	input := []grammar.Terminal{}
	for _, f := range strings.Fields(sentence) {
		input = append(input, grammar.Terminal(f))
	}
	input = append(input, grammar.Endmarker)

	states := []lr.State{0}
	nodes := []*demoNode{}

	for steps := 0; steps < 10000; steps++ {
		s, a := states[len(states)-1], input[0]

		action, err := T.ACTION(s, a)
		if err != nil {
			return "", false
		}

		switch action.Type {
		case lr.SHIFT:
			states = append(states, action.State)
			nodes = append(nodes, &demoNode{label: string(a), leaf: true})
			input = input[1:]

		case lr.REDUCE:
			n := len(action.Production.Body)
			node := &demoNode{label: string(action.Production.Head)}
			node.kids = append(node.kids, nodes[len(nodes)-n:]...)
			nodes = append(nodes[:len(nodes)-n], node)
			states = states[:len(states)-n]

			next, err := T.GOTO(states[len(states)-1], action.Production.Head)
			if err != nil {
				t.Fatalf("GOTO failed after a reduction by %s: %s", action.Production, err)
			}
			states = append(states, next)

		case lr.ACCEPT:
			if len(nodes) != 1 {
				t.Fatalf("accepted with %d nodes on the stack", len(nodes))
			}
			return nodes[0].String(), true

		default:
			return "", false
		}
	}

	t.Fatalf("the driver did not terminate on %q", sentence)
	return "", false
}

type demoSentence struct {
	input string
	tree  string // empty means the sentence must be rejected
}

func TestRefactorDemo(t *testing.T) {
	tests := []struct {
		name                string
		src                 string
		expectedPrecedences string
		expectedParseErrors []string
		expectedTableErrors []string
		sentences           []demoSentence
	}{
		{
			// Two @left levels of terminals, the second one closed by a semicolon.
			name: "Arithmetic",
			src: `grammar arith;
@left "*" "/"
@left "+" "-";
start = expr;
expr = expr "+" expr | expr "-" expr | expr "*" expr | expr "/" expr | "(" expr ")" | "n";
`,
			expectedPrecedences: "LEFT \"*\", \"/\"\nLEFT \"+\", \"-\"",
			sentences: []demoSentence{
				{"n", "n"},
				{"n + n * n", "[n + [n * n]]"},
				{"n * n + n", "[[n * n] + n]"},
				{"n - n - n", "[[n - n] - n]"},
				{"n + n - n", "[[n + n] - n]"},
				{"n / n * n", "[[n / n] * n]"},
				{"( n + n ) * n", "[[( [n + n] )] * n]"},
				{"n - ( n - n )", "[n - [( [n - n] )]]"},
				{"", ""},
				{"n +", ""},
				{"n n", ""},
				{"( n", ""},
				{"n )", ""},
				{"+ n", ""},
			},
		},
		{
			// @right, @none and @left together; the @none level mixes a rule with an empty body and a terminal.
			name: "Power",
			src: `grammar power
@right "^"
@none <empty = > "?";
@left "*"
@left "+"
start = expr empty;
expr = expr "^" expr | expr "*" expr | expr "+" expr | "n";
empty = ;
`,
			expectedPrecedences: "RIGHT \"^\"\nNONE \"?\", empty = ε\nLEFT \"*\"\nLEFT \"+\"",
			sentences: []demoSentence{
				{"n", "[n ε]"},
				{"n ^ n ^ n", "[[n ^ [n ^ n]] ε]"},
				{"n * n ^ n", "[[n * [n ^ n]] ε]"},
				{"n ^ n * n", "[[[n ^ n] * n] ε]"},
				{"n + n ^ n ^ n * n", "[[n + [[n ^ [n ^ n]] * n]] ε]"},
				{"n * n * n", "[[[n * n] * n] ε]"},
				{"n ^", ""},
				{"^ n", ""},
				{"n ?", ""},
			},
		},
		{
			// A level that starts with a rule handle, followed by terminals in the following levels.
			name: "Concatenation",
			src: `grammar concat;
@left <expr = expr expr>
@left "a" "b" "("
@right "|"
start = expr;
expr = expr expr | expr "|" expr | "(" expr ")" | "a" | "b";
`,
			expectedPrecedences: "LEFT expr = expr expr\nLEFT \"(\", \"a\", \"b\"\nRIGHT \"|\"",
			sentences: []demoSentence{
				{"a", "a"},
				{"a b a", "[[a b] a]"},
				{"a | b a", "[a | [b a]]"},
				{"a b | a", "[[a b] | a]"},
				{"a | b | a", "[a | [b | a]]"},
				{"( a | b ) a b", "[[[( [a | b] )] a] b]"},
				{"a |", ""},
				{"| a", ""},
			},
		},
		{
			// One level: a rule handle with two alternatives, then terminals. Everything is right-associative.
			name: "RightOperators",
			src: `grammar rightops;
@right <expr = expr mulop expr | expr addop expr> "*" "/" "+" "-"
start = expr;
expr = expr mulop expr | expr addop expr | "n";
mulop = "*" | "/";
addop = "+" | "-";
`,
			expectedPrecedences: "RIGHT \"*\", \"+\", \"-\", \"/\", expr = expr addop expr, expr = expr mulop expr",
			sentences: []demoSentence{
				{"n + n * n", "[n + [n * n]]"},
				{"n * n + n", "[n * [n + n]]"},
				{"n - n - n", "[n - [n - n]]"},
				{"n / n", "[n / n]"},
				{"n / / n", ""},
			},
		},
		{
			// One level: a terminal, two rule handles in a row, then terminals. Everything is left-associative.
			name: "MixedHandles",
			src: `grammar mixed;
@left "+" <expr = expr addop expr> <expr = expr mulop expr> "-" "*" "/";
start = expr;
expr = expr mulop expr | expr addop expr | "n";
mulop = "*" | "/";
addop = "+" | "-";
`,
			expectedPrecedences: "LEFT \"*\", \"+\", \"-\", \"/\", expr = expr addop expr, expr = expr mulop expr",
			sentences: []demoSentence{
				{"n + n * n", "[[n + n] * n]"},
				{"n * n + n", "[[n * n] + n]"},
				{"n - n - n", "[[n - n] - n]"},
				{"n / n", "[n / n]"},
			},
		},
		{
			// Four levels that alternate between terminals and rules.
			// A terminal on an earlier line than the rule to reduce by is shifted.
			name: "AlternatingLevels",
			src: `grammar levels;
@left "*" "/"
@left <expr = expr mulop expr>
@left "+" "-"
@left <expr = expr addop expr>
start = expr;
expr = expr mulop expr | expr addop expr | "n";
mulop = "*" | "/";
addop = "+" | "-";
`,
			expectedPrecedences: "LEFT \"*\", \"/\"\nLEFT expr = expr mulop expr\nLEFT \"+\", \"-\"\nLEFT expr = expr addop expr",
			sentences: []demoSentence{
				{"n + n * n", "[n + [n * n]]"},
				{"n * n + n", "[[n * n] + n]"},
				{"n - n - n", "[n - [n - n]]"},
				{"n / n * n", "[n / [n * n]]"},
				{"n + n * n - n", "[n + [[n * n] - n]]"},
			},
		},
		{
			// The else belongs to the nearest if when "else" binds tighter than the rule without else.
			name: "DanglingElseTwoLevels",
			src: `grammar dangling;
@right "else"
@right "if"
start = stmt;
stmt = "if" "e" "then" stmt | "if" "e" "then" stmt "else" stmt | "s";
`,
			expectedPrecedences: "RIGHT \"else\"\nRIGHT \"if\"",
			sentences: []demoSentence{
				{"s", "s"},
				{"if e then s", "[if e then s]"},
				{"if e then if e then s else s", "[if e then [if e then s else s]]"},
				{"if e then s else if e then s else s", "[if e then s else [if e then s else s]]"},
				{"if e then", ""},
				{"s else s", ""},
			},
		},
		{
			name: "DanglingElseOneLevel",
			src: `grammar dangling;
@right "if" "else"
start = stmt;
stmt = "if" "e" "then" stmt | "if" "e" "then" stmt "else" stmt | "s";
`,
			expectedPrecedences: "RIGHT \"else\", \"if\"",
			sentences: []demoSentence{
				{"if e then if e then s else s", "[if e then [if e then s else s]]"},
				{"if e then s else s", "[if e then s else s]"},
			},
		},
		{
			// LALR(1) but not SLR(1); there are no directives and none are needed.
			name: "LALRWithoutDirectives",
			src: `grammar lalr;
start = l "=" r | r;
l = "*" r | "id";
r = l;
`,
			expectedPrecedences: "",
			sentences: []demoSentence{
				{"id", "id"},
				{"id = id", "[id = id]"},
				{"* id = * * id", "[[* id] = [* [* id]]]"},
				{"id = id = id", ""},
				{"= id", ""},
				{"*", ""},
			},
		},
		{
			// Repetition, option and grouping are LALR(1) here and need no directives.
			name: "ExtendedNotation",
			src: `grammar ebnf;
start = {item ";"} [tail];
item = "a" ["b"] | {{"c"}} "d" | ("e" | "f") item;
tail = "end";
`,
			expectedPrecedences: "",
			sentences: []demoSentence{
				{"", "[ε ε]"},
				{"a ;", "[[ε [a ε] ;] ε]"},
				{"a b ; c c d ; e f a ; end", "[[[[ε [a b] ;] [[c c] d] ;] [e [f [a ε]]] ;] end]"},
				{"end", "[ε end]"},
				{"a", ""},
				{"c ;", ""},
				{"a b b ;", ""},
				{"end end", ""},
			},
		},
		{
			name: "ConflictWithoutDirectives",
			src: `grammar noprec;
start = expr;
expr = expr "+" expr | expr "*" expr | "n";
`,
			expectedPrecedences: "",
			expectedTableErrors: []string{
				`error on building LALR(1) parsing table:`,
				`Error:      Ambiguous Grammar`,
				`1. Shift/Reduce conflict in ACTION[2, "*"]`,
				`2. Shift/Reduce conflict in ACTION[2, "+"]`,
				`3. Shift/Reduce conflict in ACTION[3, "*"]`,
				`4. Shift/Reduce conflict in ACTION[3, "+"]`,
				`• "*" vs. "*", "+"`,
				`• "+" vs. "*", "+"`,
			},
		},
		{
			// The directive covers "+" only, so the conflicts that involve "*" remain and are reported.
			name: "ConflictPartlyCovered",
			src: `grammar partial;
@left "+"
start = expr;
expr = expr "+" expr | expr "*" expr | "n";
`,
			expectedPrecedences: "LEFT \"+\"",
			expectedTableErrors: []string{
				`1. Shift/Reduce conflict in ACTION[2, "*"]`,
				`2. Shift/Reduce conflict in ACTION[2, "+"]`,
				`3. Shift/Reduce conflict in ACTION[3, "*"]`,
				`• "*" vs. "*", "+"`,
				`• "+" vs. "*"`,
			},
		},
		{
			// Terminals of one @none level do not resolve the conflicts among themselves.
			name: "ConflictNonAssociative",
			src: `grammar none;
@left "+"
@none "==" "<"
start = expr;
expr = expr "==" expr | expr "<" expr | expr "+" expr | "n";
`,
			expectedPrecedences: "LEFT \"+\"\nNONE \"<\", \"==\"",
			expectedTableErrors: []string{
				`1. Shift/Reduce conflict in ACTION[3, "<"]`,
				`2. Shift/Reduce conflict in ACTION[3, "=="]`,
				`3. Shift/Reduce conflict in ACTION[4, "<"]`,
				`4. Shift/Reduce conflict in ACTION[4, "=="]`,
				`• "<" vs. "<", "=="`,
				`• "==" vs. "<", "=="`,
			},
		},
		{
			name: "ConflictDanglingElse",
			src: `grammar dangling;
start = stmt;
stmt = "if" "e" "then" stmt | "if" "e" "then" stmt "else" stmt | "s";
`,
			expectedPrecedences: "",
			expectedTableErrors: []string{
				`Cause:      Shift/Reduce conflict in ACTION[4, "else"]`,
				`1. Shift the terminal "else", or`,
				`2. Reduce by production stmt → "if" "e" "then" stmt`,
				`• "if" vs. "else"`,
			},
		},
		{
			// LR(1) but not LALR(1): the merged state has a reduce/reduce conflict.
			name: "ConflictNotLALR",
			src: `grammar notlalr;
start = "a" x "d" | "b" y "d" | "a" y "e" | "b" x "e";
x = "c";
y = "c";
`,
			expectedPrecedences: "",
			expectedTableErrors: []string{
				`1. Reduce/Reduce conflict in ACTION[12, "d"]`,
				`2. Reduce/Reduce conflict in ACTION[12, "e"]`,
			},
		},
		{
			name: "HandleInTwoLevels",
			src: `grammar dup;
@left "+"
@right "+"
start = expr;
expr = expr "+" expr | "n";
`,
			expectedParseErrors: []string{
				`1 error occurred:`,
				`"+" appeared in more than one precedence level`,
			},
		},
		{
			name: "RuleHandleInTwoLevels",
			src: `grammar dup;
@left <expr = expr expr | "n">
@none <expr = expr expr>
start = expr;
expr = expr expr | "n";
`,
			expectedParseErrors: []string{
				`1 error occurred:`,
				`expr = expr expr appeared in more than one precedence level`,
			},
		},
	}

	for _, tc := range tests {
		t.Run(tc.name, func(t *testing.T) {
			s, err := Parse(tc.name, strings.NewReader(tc.src))

			if len(tc.expectedParseErrors) > 0 {
				if err == nil {
					t.Fatalf("the specification is accepted")
				}
				for _, e := range tc.expectedParseErrors {
					if !strings.Contains(err.Error(), e) {
						t.Errorf("the error does not contain %q:\n%s", e, err)
					}
				}
				return
			}

			if err != nil {
				t.Fatalf("the specification is rejected: %s", err)
			}

			if got := s.Precedences.String(); got != tc.expectedPrecedences {
				t.Errorf("precedence levels:\n%s\nexpected:\n%s", got, tc.expectedPrecedences)
			}

			T, err := s.LALRParsingTable()

			if len(tc.expectedTableErrors) > 0 {
				if err == nil || T != nil {
					t.Fatalf("the grammar is accepted")
				}
				for _, e := range tc.expectedTableErrors {
					if !strings.Contains(err.Error(), e) {
						t.Errorf("the error does not contain %q:\n%s", e, err)
					}
				}
				return
			}

			if err != nil {
				t.Fatalf("the grammar is rejected: %s", err)
			}

			for _, st := range tc.sentences {
				tree, ok := demoDrive(t, T, st.input)
				switch {
				case st.tree == "" && ok:
					t.Errorf("%q is accepted as %s", st.input, tree)
				case st.tree != "" && !ok:
					t.Errorf("%q is rejected", st.input)
				case tree != st.tree:
					t.Errorf("%q is parsed as %s, expected %s", st.input, tree, st.tree)
				}
			}
		})
	}
}
