package golang

import (
	"crypto/sha256"
	"fmt"
	"go/ast"
	"go/importer"
	goparser "go/parser"
	"go/token"
	"go/types"
	"math/rand"
	"os"
	"path/filepath"
	"strconv"
	"strings"
	"testing"

	"github.com/gardenbed/charm/ui"
	"github.com/moorara/algo/grammar"

	"github.com/gardenbed/emerge/internal/ebnf/parser/spec"
)

// The demo pins down the behaviour of the lexer generation (C08):
//   - the helpers that print case lists (formatInts, formatRunes) on concrete inputs,
//   - the bytes of the emitted advanceDFA/evalDFA for small specifications,
//   - for many specifications: the emitted package type-checks with the standard library only, and
//     the tables read back from the emitted source are exactly the automaton computed by Spec.DFA.

func TestRefactorDemo_FormatInts(t *testing.T) {
	tests := []struct {
		vals     []int
		expected string
	}{
		{nil, ""},
		{[]int{}, ""},
		{[]int{0}, "0"},
		{[]int{7}, "7"},
		{[]int{1, 2, 3}, "1, 2, 3"},
		{[]int{3, 1, 2, 1}, "3, 1, 2, 1"},
		{[]int{-1, 0, 10}, "-1, 0, 10"},
		{[]int{1 << 40, -(1 << 40)}, "1099511627776, -1099511627776"},
	}

	for _, tc := range tests {
		if got := formatInts(tc.vals); got != tc.expected {
			t.Errorf("formatInts(%v) = %q, expected %q", tc.vals, got, tc.expected)
		}
	}
}

func TestRefactorDemo_FormatRunes(t *testing.T) {
	tests := []struct {
		runes    []rune
		expected string
	}{
		{nil, ""},
		{[]rune{}, ""},
		{[]rune{'a'}, `'a'`},
		{[]rune{'a', 'b', 'z'}, `'a', 'b', 'z'`},
		{[]rune{'\'', '"', '\\'}, `'\'', '"', '\\'`},
		{[]rune{'\n', '\t', '\r', 0}, `'\n', '\t', '\r', '\x00'`},
		{[]rune{'\a', '\b', '\f', '\v', 0x1b, 0x7f}, `'\a', '\b', '\f', '\v', '\x1b', '\x7f'`},
		{[]rune{0x80, 0xa0, 0xad}, `'\u0080', '\u00a0', '\u00ad'`},
		{[]rune{'é', 'λ', '世', 0x1F600}, `'é', 'λ', '世', '😀'`},
		{[]rune{0x200b, 0x2028, 0xfeff, 0xe000}, `'\u200b', '\u2028', '\ufeff', '\ue000'`},
		{[]rune{0xfffd}, "'\ufffd'"},
		{[]rune{0xd7ff, 0xd800, 0xdbff, 0xdc00, 0xdfff, 0xe000}, `'\ud7ff', 0xd800, 0xdbff, 0xdc00, 0xdfff, '\ue000'`},
		{[]rune{0x10ffff, 0x110000, 0x7fffffff}, `'\U0010ffff', 0x110000, 0x7fffffff`},
		{[]rune{-1, -0x80000000}, `-0x1, -0x80000000`},
		{[]rune{'a', 0xd800, 'b'}, `'a', 0xd800, 'b'`},
		{[]rune{0xd800}, `0xd800`},
		{[]rune{',', ' ', ','}, `',', ' ', ','`},
	}

	for _, tc := range tests {
		if got := formatRunes(tc.runes); got != tc.expected {
			t.Errorf("formatRunes(%U) = %q, expected %q", tc.runes, got, tc.expected)
		}
	}
}

// emitDemoLexer runs the core and lexer generators for the definitions and returns the package directory.
func emitDemoLexer(t *testing.T, name string, defs []*spec.TerminalDef) (*generator, string) {
	t.Helper()

	root := t.TempDir()
	g := &generator{
		UI: ui.NewNop(),
		Params: &Params{
			Path: root,
			Spec: &spec.Spec{Name: name, Definitions: defs},
		},
	}

	dir := filepath.Join(root, name)
	if err := os.Mkdir(dir, 0o777); err != nil {
		t.Fatal(err)
	}

	if err := g.generateCore(); err != nil {
		t.Fatalf("generateCore: %s", err)
	}

	if err := g.generateLexer(); err != nil {
		t.Fatalf("generateLexer: %s", err)
	}

	return g, dir
}

type demoKey struct {
	state int
	sym   rune
}

// demoTables are the tables read back from an emitted lexer.go.
type demoTables struct {
	next      map[demoKey]int
	accepting map[int]string
	order     []string // the terminals of evalDFA in the order of their cases
}

func demoIntLit(t *testing.T, e ast.Expr) int {
	t.Helper()

	lit, ok := e.(*ast.BasicLit)
	if !ok {
		t.Fatalf("not a literal: %T", e)
	}

	switch lit.Kind {
	case token.INT:
		v, err := strconv.ParseInt(lit.Value, 0, 64)
		if err != nil {
			t.Fatal(err)
		}
		return int(v)
	case token.CHAR:
		s := lit.Value[1 : len(lit.Value)-1]
		r, _, tail, err := strconv.UnquoteChar(s, '\'')
		if err != nil || tail != "" {
			t.Fatalf("bad character literal %s: %v", lit.Value, err)
		}
		return int(r)
	}

	t.Fatalf("unexpected literal %s", lit.Value)
	return 0
}

func demoFuncBodySwitch(t *testing.T, file *ast.File, name string) *ast.SwitchStmt {
	t.Helper()

	for _, decl := range file.Decls {
		if fn, ok := decl.(*ast.FuncDecl); ok && fn.Name.Name == name {
			for _, stmt := range fn.Body.List {
				if sw, ok := stmt.(*ast.SwitchStmt); ok {
					return sw
				}
			}
		}
	}

	t.Fatalf("no switch in %s", name)
	return nil
}

func readDemoTables(t *testing.T, fset *token.FileSet, path string) *demoTables {
	t.Helper()

	file, err := goparser.ParseFile(fset, path, nil, 0)
	if err != nil {
		t.Fatalf("emitted lexer does not parse: %s", err)
	}

	tabs := &demoTables{next: map[demoKey]int{}, accepting: map[int]string{}}

	// advanceDFA: switch state { case S: switch r { case R, ...: return N } }
	for _, c := range demoFuncBodySwitch(t, file, "advanceDFA").Body.List {
		outer := c.(*ast.CaseClause)
		if len(outer.List) != 1 || len(outer.Body) != 1 {
			t.Fatalf("unexpected shape of a state case")
		}

		state := demoIntLit(t, outer.List[0])
		inner := outer.Body[0].(*ast.SwitchStmt)

		for _, c := range inner.Body.List {
			cc := c.(*ast.CaseClause)
			if len(cc.List) == 0 || len(cc.Body) != 1 {
				t.Fatalf("unexpected shape of a symbol case in state %d", state)
			}

			next := demoIntLit(t, cc.Body[0].(*ast.ReturnStmt).Results[0])
			for _, e := range cc.List {
				k := demoKey{state, rune(demoIntLit(t, e))}
				if _, dup := tabs.next[k]; dup {
					t.Fatalf("state %d, symbol %U appears twice", k.state, k.sym)
				}
				tabs.next[k] = next
			}
		}
	}

	// evalDFA: switch state { case S, ...: ...; return Token{Terminal: Terminal("..."), ...} }
	for _, c := range demoFuncBodySwitch(t, file, "evalDFA").Body.List {
		cc := c.(*ast.CaseClause)
		if len(cc.List) == 0 {
			t.Fatalf("accepting case without states")
		}

		ret := cc.Body[len(cc.Body)-1].(*ast.ReturnStmt)
		kv := ret.Results[0].(*ast.CompositeLit).Elts[0].(*ast.KeyValueExpr)
		arg := kv.Value.(*ast.CallExpr).Args[0].(*ast.BasicLit)
		term, err := strconv.Unquote(arg.Value)
		if err != nil {
			t.Fatal(err)
		}

		tabs.order = append(tabs.order, term)
		for _, e := range cc.List {
			s := demoIntLit(t, e)
			if _, dup := tabs.accepting[s]; dup {
				t.Fatalf("accepting state %d appears twice", s)
			}
			tabs.accepting[s] = term
		}
	}

	return tabs
}

// demoImporter reads the standard library from its sources; it is shared, so that every package is loaded once.
var demoImporter = importer.ForCompiler(token.NewFileSet(), "source", nil)

// checkDemoLexer type-checks the emitted package and compares its tables with the automaton of the spec.
func checkDemoLexer(t *testing.T, g *generator, dir string) {
	t.Helper()

	fset := token.NewFileSet()
	tabs := readDemoTables(t, fset, filepath.Join(dir, "lexer.go"))

	// The package must type-check with the standard library only.
	var files []*ast.File
	for _, name := range []string{"errors.go", "types.go", "stack.go", "input.go", "lexer.go"} {
		f, err := goparser.ParseFile(fset, filepath.Join(dir, name), nil, 0)
		if err != nil {
			t.Fatalf("%s does not parse: %s", name, err)
		}
		for _, imp := range f.Imports {
			if p, _ := strconv.Unquote(imp.Path.Value); strings.Contains(p, ".") {
				t.Errorf("%s imports %s", name, p)
			}
		}
		files = append(files, f)
	}

	conf := types.Config{Importer: demoImporter}
	if _, err := conf.Check(g.Spec.Name, fset, files, nil); err != nil {
		t.Fatalf("emitted package does not type-check: %s", err)
	}

	// The tables are the automaton: nothing missing, nothing more.
	dfa, termMap, err := g.Spec.DFA()
	if err != nil {
		t.Fatal(err)
	}

	count := 0
	for tr := range dfa.Transitions() {
		count++
		k := demoKey{int(tr.State), rune(tr.Symbol)}
		if next, ok := tabs.next[k]; !ok || next != int(tr.Next) {
			t.Errorf("state %d, symbol %U: emitted %d (%t), automaton %d", k.state, k.sym, next, ok, tr.Next)
		}
	}
	if count != len(tabs.next) {
		t.Errorf("emitted %d transitions, automaton has %d", len(tabs.next), count)
	}

	expected := map[int]string{}
	for term, states := range termMap {
		for _, s := range states {
			expected[int(s)] = string(term)
		}
	}
	if len(expected) != len(tabs.accepting) {
		t.Errorf("emitted %d accepting states, automaton has %d", len(tabs.accepting), len(expected))
	}
	for s, term := range expected {
		if tabs.accepting[s] != term {
			t.Errorf("accepting state %d: emitted %q, automaton %q", s, tabs.accepting[s], term)
		}
	}

	// The cases of evalDFA follow the order of the definitions, skipping terminals that own no state.
	var order []string
	for _, def := range g.Spec.Definitions {
		if len(termMap[def.Terminal]) > 0 {
			order = append(order, string(def.Terminal))
		}
	}
	if strings.Join(order, "\x00") != strings.Join(tabs.order, "\x00") {
		t.Errorf("order of accepting cases: emitted %q, expected %q", tabs.order, order)
	}
}

// demoFunc returns the source text of a function of the emitted lexer, from its signature to the closing brace.
func demoFunc(t *testing.T, dir, signature string) string {
	t.Helper()

	b, err := os.ReadFile(filepath.Join(dir, "lexer.go"))
	if err != nil {
		t.Fatal(err)
	}

	src := string(b)
	i := strings.Index(src, signature)
	if i < 0 {
		t.Fatalf("%q not found", signature)
	}

	j := strings.Index(src[i:], "\n}\n")
	if j < 0 {
		t.Fatalf("end of %q not found", signature)
	}

	return src[i : i+j+3]
}

func TestRefactorDemo_EmittedBytes(t *testing.T) {
	defs := []*spec.TerminalDef{
		{Terminal: "IF", Value: "if"},
		{Terminal: "IN", Value: "in"},
		{Terminal: `Q"\`, Value: `'\`},
		{Terminal: "SHADOWED", Value: "if|in", IsRegex: true},
		{Terminal: "AB", Value: "[ab]+", IsRegex: true},
		{Terminal: "λ", Value: "λ\n"},
	}

	g, dir := emitDemoLexer(t, "demo", defs)
	checkDemoLexer(t, g, dir)

	expectedAdvance := `func advanceDFA(state int, r rune) int {
	switch state {
	case 0:
		switch r {
		case '\'':
			return 1
		case 'a', 'b':
			return 2
		case 'i':
			return 3
		case 'λ':
			return 4
		}

	case 1:
		switch r {
		case '\\':
			return 5
		}

	case 2:
		switch r {
		case 'a', 'b':
			return 2
		}

	case 3:
		switch r {
		case 'f':
			return 6
		case 'n':
			return 7
		}

	case 4:
		switch r {
		case '\n':
			return 8
		}

	}

	return errorState
}
`

	expectedEval := `func (l *Lexer) evalDFA(state int) Token {
	switch state {
	case 6:
		lexeme, pos := l.in.Lexeme()
		return Token{Terminal: Terminal("IF"), Lexeme: lexeme, Pos: pos}

	case 7:
		lexeme, pos := l.in.Lexeme()
		return Token{Terminal: Terminal("IN"), Lexeme: lexeme, Pos: pos}

	case 5:
		lexeme, pos := l.in.Lexeme()
		return Token{Terminal: Terminal("Q\"\\"), Lexeme: lexeme, Pos: pos}

	case 2:
		lexeme, pos := l.in.Lexeme()
		return Token{Terminal: Terminal("AB"), Lexeme: lexeme, Pos: pos}

	case 8:
		lexeme, pos := l.in.Lexeme()
		return Token{Terminal: Terminal("λ"), Lexeme: lexeme, Pos: pos}

	}

	// ERR
	val, pos := l.in.Lexeme()
	return Token{
		Terminal: ERR,
		Lexeme:   fmt.Sprintf("lexical error at %s:%s", pos, val),
		Pos:      pos,
	}
}
`

	if got := demoFunc(t, dir, "func advanceDFA("); got != expectedAdvance {
		t.Errorf("advanceDFA:\n%s\nexpected:\n%s", got, expectedAdvance)
	}

	if got := demoFunc(t, dir, "func (l *Lexer) evalDFA("); got != expectedEval {
		t.Errorf("evalDFA:\n%s\nexpected:\n%s", got, expectedEval)
	}
}

// demoSpecs are hand-written specifications around the edges of the property.
var demoSpecs = []struct {
	name string
	defs []*spec.TerminalDef
}{
	{
		name: "fixture",
		defs: definitions,
	},
	{
		name: "single",
		defs: []*spec.TerminalDef{{Terminal: "A", Value: "a"}},
	},
	{
		name: "keywords",
		defs: []*spec.TerminalDef{
			{Terminal: "IF", Value: "if"},
			{Terminal: "INT", Value: "int"},
			{Terminal: "IN", Value: "in"},
			{Terminal: "INTERFACE", Value: "interface"},
			{Terminal: "ID", Value: "[a-z_][a-z0-9_]*", IsRegex: true},
			{Terminal: "NUM", Value: "[0-9]+(\\.[0-9]+)?", IsRegex: true},
		},
	},
	{
		name: "escapes",
		defs: []*spec.TerminalDef{
			{Terminal: "SQ", Value: "'"},
			{Terminal: "DQ", Value: `"`},
			{Terminal: "BS", Value: `\`},
			{Terminal: "BSBS", Value: `\\`},
			{Terminal: "NLTAB", Value: "\n\t"},
			{Terminal: "NUL", Value: "\x00"},
			{Terminal: "DEL", Value: "\x7f"},
			{Terminal: "CTRL", Value: `[\x01-\x1F]+`, IsRegex: true},
			{Terminal: "STR", Value: `"([^"\\]|\\.)*"`, IsRegex: true},
			{Terminal: "BQ", Value: "`%`"},
		},
	},
	{
		name: "nonascii",
		defs: []*spec.TerminalDef{
			{Terminal: "LAMBDA", Value: "λ"},
			{Terminal: "WORLD", Value: "世界"},
			{Terminal: "GRIN", Value: "😀"},
			{Terminal: "NBSP", Value: "\u00a0"},
			{Terminal: "ZWSP", Value: "\u200b"},
			{Terminal: "BOM", Value: "\ufeff"},
			{Terminal: "MAX", Value: "\U0010ffff"},
			{Terminal: "REPL", Value: "\ufffd"},
			{Terminal: "GREEK", Value: `(\x03B1|\x03B2|\x03C9)+`, IsRegex: true},
		},
	},
	{
		name: "names",
		defs: []*spec.TerminalDef{
			{Terminal: `"`, Value: "a"},
			{Terminal: `back\slash`, Value: "b"},
			{Terminal: "new\nline", Value: "c"},
			{Terminal: "ünï©ode", Value: "d"},
			{Terminal: "'", Value: "e"},
			{Terminal: "`", Value: "f"},
			{Terminal: "\x00\x7f", Value: "g"},
			{Terminal: "*/ /*", Value: "h"},
			{Terminal: "{{.}}", Value: "i"},
			{Terminal: "", Value: "j"},
		},
	},
	{
		name: "stateless",
		defs: []*spec.TerminalDef{
			{Terminal: "FIRST_RE", Value: "x", IsRegex: true},
			{Terminal: "X", Value: "x"},
			{Terminal: "LAST_RE", Value: "[x]", IsRegex: true},
			{Terminal: "Y", Value: "y"},
			{Terminal: "Y_RE", Value: "y", IsRegex: true},
		},
	},
	{
		name: "shared",
		defs: []*spec.TerminalDef{
			{Terminal: "WORD", Value: "[a-c]+", IsRegex: true},
			{Terminal: "ABC", Value: "abc"},
			{Terminal: "AB", Value: "ab"},
			{Terminal: "HEX", Value: "0x[0-9a-c]+", IsRegex: true},
			{Terminal: "DEC", Value: "[0-9]+", IsRegex: true},
			{Terminal: "OP", Value: `\+|-|\*|/|==|=|<=|<|>=|>`, IsRegex: true},
		},
	},
	{
		name: "comments",
		defs: []*spec.TerminalDef{
			{Terminal: "WS", Value: `[ \x09]+`, IsRegex: true},
			{Terminal: "EOL", Value: `\x0A|\x0D\x0A`, IsRegex: true},
			{Terminal: "COMMENT", Value: `//[^\x0A]*`, IsRegex: true},
			{Terminal: "DIV", Value: "/"},
			{Terminal: "ID", Value: `\p{Letter}+`, IsRegex: true},
		},
	},
	{
		name: "surrogates",
		defs: []*spec.TerminalDef{
			{Terminal: "HALF", Value: `\xD800`, IsRegex: true},
			{Terminal: "HALVES", Value: `(\xDBFF|\xDC00)+x`, IsRegex: true},
			{Terminal: "EDGE", Value: `\xD7FF|\xE000`, IsRegex: true},
			{Terminal: "INVALID_UTF8", Value: "a\xffb"},
		},
	},
	{
		name: "none",
		defs: []*spec.TerminalDef{},
	},
}

// demoSums are the SHA-256 digests of the lexer.go emitted for the demoSpecs.
var demoSums = map[string]string{
	"fixture":    "1c0330532d7274c7bf204cca42111232c4b304124c216ceb2325b19f5de5bb91",
	"single":     "ae9086199710c8f05acac3f7afd52c3c2b14a35dfca463a7a3c78cb6d9d0e158",
	"keywords":   "9bafc7bf29b5ba576499bcfe2ce715ad9b163f2909e0a64424551ba6832aaeca",
	"escapes":    "2077a12c11644321d61c876bcef35a8d41ef48d853861255ab675168be0f592b",
	"nonascii":   "8eb496ce8efb289f390222c08327a949ccd50f2d3d84c3b21d9858b6b9568a4d",
	"names":      "27d0b62a5c2715be7b987e4bd493d3cab5ff22736cc5f88ecac388f1687b3046",
	"stateless":  "11d8a05d545d50641ca7dc547b42b649b33ad2e60084a83f1ec70fab7e75ca9c",
	"shared":     "d6204e691499bfd0fcf0951acabf10e380583aff95cdfd1c7f78654576bac7c7",
	"comments":   "217df970e7c692631b99af1be75298238c2171e897f93080ae1f9dec67c59c22",
	"surrogates": "0ecdd7e6937d22d3bc8ab359b9603c2e9f60ae9cf57f974e1a26dd68b02d78f2",
	"none":       "58be5080f0e560bb6d310893c674f7b9c959691306ea2ffd7f3f7711febf154e",
}

func TestRefactorDemo_EmittedLexers(t *testing.T) {
	for _, tc := range demoSpecs {
		t.Run(tc.name, func(t *testing.T) {
			g, dir := emitDemoLexer(t, "demo", tc.defs)
			checkDemoLexer(t, g, dir)

			b, err := os.ReadFile(filepath.Join(dir, "lexer.go"))
			if err != nil {
				t.Fatal(err)
			}

			if sum := fmt.Sprintf("%x", sha256.Sum256(b)); sum != demoSums[tc.name] {
				t.Errorf("sha256 of lexer.go is %s, expected %s", sum, demoSums[tc.name])
			}

			// The emitted bytes do not depend on the run.
			_, again := emitDemoLexer(t, "demo", tc.defs)
			c, err := os.ReadFile(filepath.Join(again, "lexer.go"))
			if err != nil {
				t.Fatal(err)
			}
			if string(b) != string(c) {
				t.Errorf("two runs emit different lexers")
			}
		})
	}
}

// demoRandomDefs builds distinct string definitions, and a few regular expressions over the same alphabet.
func demoRandomDefs(rng *rand.Rand) []*spec.TerminalDef {
	alphabet := []rune{'a', 'b', 'c', '0', '\'', '"', '\\', '\n', '\t', 0, 0x7f, 'é', 'λ', '世', 0x1F600, 0x200b, 0xfffd, '`', '{', '%'}

	seen := map[string]bool{}
	var defs []*spec.TerminalDef

	for n := 1 + rng.Intn(12); len(defs) < n; {
		var sb strings.Builder
		for k := 1 + rng.Intn(4); k > 0; k-- {
			sb.WriteRune(alphabet[rng.Intn(len(alphabet))])
		}

		if v := sb.String(); !seen[v] {
			seen[v] = true
			defs = append(defs, &spec.TerminalDef{
				Terminal: grammar.Terminal(fmt.Sprintf("T%d_%s", len(defs), v)),
				Value:    v,
			})
		}
	}

	regexes := []string{"[ab]+x", "[0-9]+", "(a|b)*c", `\x03BB+`, `(\x00E9|\x4E16)+`, `cb?a?y`, `\xD800+`}
	rng.Shuffle(len(regexes), func(i, j int) { regexes[i], regexes[j] = regexes[j], regexes[i] })
	for _, re := range regexes[:rng.Intn(3)] {
		defs = append(defs, &spec.TerminalDef{
			Terminal: grammar.Terminal(fmt.Sprintf("R%d", len(defs))),
			Value:    re,
			IsRegex:  true,
		})
	}

	rng.Shuffle(len(defs), func(i, j int) { defs[i], defs[j] = defs[j], defs[i] })

	return defs
}

func TestRefactorDemo_RandomLexers(t *testing.T) {
	rng := rand.New(rand.NewSource(20261002))
	sums := make([]string, 0, 40)

	for i := 0; i < 40; i++ {
		defs := demoRandomDefs(rng)

		probe := &spec.Spec{Name: "demo", Definitions: defs}
		if _, _, err := probe.DFA(); err != nil {
			// Two regular expressions that capture the same string: not an accepted specification.
			sums = append(sums, "rejected")
			continue
		}

		g, dir := emitDemoLexer(t, "demo", defs)
		checkDemoLexer(t, g, dir)

		b, err := os.ReadFile(filepath.Join(dir, "lexer.go"))
		if err != nil {
			t.Fatal(err)
		}
		sums = append(sums, fmt.Sprintf("%x", sha256.Sum256(b))[:12])
	}

	got := fmt.Sprintf("%x", sha256.Sum256([]byte(strings.Join(sums, ","))))
	if expected := demoRandomSum; got != expected {
		t.Errorf("digest over the %d random lexers is %s, expected %s\n%s", len(sums), got, expected, strings.Join(sums, ","))
	}
}

const demoRandomSum = "51a9817ac3b9c1835c7a001ef8d3763fdbe3bfed16daabdee2174aac549804ff"
