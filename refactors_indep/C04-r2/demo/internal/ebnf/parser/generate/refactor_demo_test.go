package main

import (
	"crypto/sha256"
	"encoding/hex"
	"os"
	"strings"
	"testing"

	"github.com/moorara/algo/grammar"
	"github.com/moorara/algo/parser/lr"
	"github.com/moorara/algo/parser/lr/lookahead"
)

// The checked-in parsing table file, as seen from the generate package directory.
const checkedInTable = "../parsing_table.go"

// SHA-256 of the checked-in internal/ebnf/parser/parsing_table.go.
const checkedInTableSHA256 = "075da0c5b82be400f901b4acf7b80e41d06f27769e25de2ef085a71d091fc59c"

func sha(b []byte) string {
	sum := sha256.Sum256(b)
	return hex.EncodeToString(sum[:])
}

// Regenerating the tables reproduces the checked-in file byte for byte.
func TestDemo_RegenerationIsByteIdentical(t *testing.T) {
	want, err := os.ReadFile(checkedInTable)
	if err != nil {
		t.Fatal(err)
	}

	if got := sha(want); got != checkedInTableSHA256 {
		t.Fatalf("checked-in table changed: sha256 = %s", got)
	}

	// The generator must be deterministic, so run it a few times.
	for i := 0; i < 2; i++ {
		code, err := GenerateParsingTable(G, precedences)
		if err != nil {
			t.Fatalf("run %d: unexpected error: %s", i, err)
		}

		if string(code) != string(want) {
			t.Fatalf("run %d: generated code differs from %s (sha256 = %s)", i, checkedInTable, sha(code))
		}
	}
}

// The generated code consists of the fixed preamble, the ACTION function, an empty line, and the GOTO function.
func TestDemo_Composition(t *testing.T) {
	T, err := lookahead.BuildParsingTable(G, precedences)
	if err != nil {
		t.Fatal(err)
	}

	code, err := GenerateParsingTable(G, precedences)
	if err != nil {
		t.Fatal(err)
	}

	action, gotos := string(generateACTION(T)), string(generateGOTO(T))

	if !strings.HasSuffix(string(code), action+"\n"+gotos) {
		t.Fatal("generated code does not end with ACTION + newline + GOTO")
	}

	if !strings.HasPrefix(string(code), "//go:generate go run ./generate\n\npackage parser\n") {
		t.Fatal("unexpected preamble")
	}

	counts := []struct {
		text   string
		needle string
		want   int
	}{
		{action, "\t\t\treturn lr.SHIFT, ", 130},
		{action, "\t\t\treturn lr.REDUCE, ", 314},
		{action, "\t\t\treturn lr.REDUCE, , nil", 0},
		{action, "\t\t\treturn lr.ACCEPT, 0, nil // ACCEPT\n", 1},
		{action, "\t\tcase grammar.Endmarker:\n", 25},
		{action, "\t\tswitch a {\n", 57},
		{action, "\t\t}\n\n", 57},
		{gotos, "\t\tswitch A {\n", 26},
		{gotos, "\t\t}\n\n", 26},
		{gotos, "\t\t\treturn ", 69},
	}

	for _, c := range counts {
		if got := strings.Count(c.text, c.needle); got != c.want {
			t.Errorf("count of %q = %d, want %d", c.needle, got, c.want)
		}
	}

	if got, want := sha(generateACTION(T)), "0802ae539f7974617206faa4188d4bedf27019bdae3b422b8cd5ad6cec7942cb"; got != want {
		t.Errorf("sha256 of ACTION = %s, want %s", got, want)
	}

	if got, want := sha(generateGOTO(T)), "21c055b806bbefe6aabceb191962c052c6e0cb7353b045f3c27e93010bf30875"; got != want {
		t.Errorf("sha256 of GOTO = %s, want %s", got, want)
	}
}

// An ambiguous grammar without the precedence levels cannot be turned into a table.
func TestDemo_ErrorIsPropagated(t *testing.T) {
	code, err := GenerateParsingTable(G, nil)
	if err == nil {
		t.Fatal("expected an error for the ambiguous grammar without precedences")
	}

	if code != nil {
		t.Fatalf("expected no code, got %d bytes", len(code))
	}

	if !strings.Contains(err.Error(), "conflict") {
		t.Errorf("unexpected error: %s", err)
	}
}

func TestDemo_ProductionIndex(t *testing.T) {
	if len(productions) != 35 {
		t.Fatalf("expected 35 productions, got %d", len(productions))
	}

	// Every production is found at its own index, both by identity and by a structural copy.
	for i, p := range productions {
		if got := productionIndex(productions, p); got != i {
			t.Errorf("productionIndex(productions[%d]) = %d", i, got)
		}

		clone := &grammar.Production{Head: p.Head, Body: append(grammar.String[grammar.Symbol]{}, p.Body...)}
		if got := productionIndex(productions, clone); got != i {
			t.Errorf("productionIndex(clone of productions[%d]) = %d", i, got)
		}
	}

	tests := []struct {
		name  string
		prods []*grammar.Production
		p     *grammar.Production
		want  int
	}{
		{"Nil list", nil, productions[0], -1},
		{"Empty list", []*grammar.Production{}, productions[0], -1},
		{"Unknown head", productions, &grammar.Production{Head: "foo", Body: grammar.String[grammar.Symbol]{grammar.Terminal("IDENT")}}, -1},
		{"Unknown body", productions, &grammar.Production{Head: "rhs", Body: grammar.String[grammar.Symbol]{grammar.NonTerminal("rhs"), grammar.NonTerminal("rhs"), grammar.NonTerminal("rhs")}}, -1},
		{"Terminal vs non-terminal", productions, &grammar.Production{Head: "nonterm", Body: grammar.String[grammar.Symbol]{grammar.NonTerminal("IDENT")}}, -1},
		{"lhs → nonterm", productions, &grammar.Production{Head: "lhs", Body: grammar.String[grammar.Symbol]{grammar.NonTerminal("nonterm")}}, 22},
		{"rhs → nonterm", productions, &grammar.Production{Head: "rhs", Body: grammar.String[grammar.Symbol]{grammar.NonTerminal("nonterm")}}, 30},
		{"decls → ε", productions, &grammar.Production{Head: "decls", Body: grammar.E}, 3},
		{"semi_opt → ε (nil body)", productions, &grammar.Production{Head: "semi_opt"}, 8},
		{"unknown → ε", productions, &grammar.Production{Head: "rule", Body: grammar.E}, -1},
		{"First of duplicates", []*grammar.Production{productions[5], productions[7], productions[7], productions[5]}, productions[7], 1},
		{"Last element", productions[30:], productions[34], 4},
		{"Out of window", productions[:30], productions[34], -1},
	}

	for _, tc := range tests {
		t.Run(tc.name, func(t *testing.T) {
			if got := productionIndex(tc.prods, tc.p); got != tc.want {
				t.Errorf("got %d, want %d", got, tc.want)
			}
		})
	}
}

// handMadeTable builds a small table exercising every branch of the code generation.
func handMadeTable() *lr.ParsingTable {
	T := lr.NewParsingTable([]lr.State{0, 1, 2, 3, 7}, terminals, nonTerminals, nil)

	// State 0: one of each regular kinds of actions, added in an order different from the terminals order.
	T.AddACTION(0, grammar.Endmarker, &lr.Action{Type: lr.ACCEPT})
	T.AddACTION(0, "IDENT", &lr.Action{Type: lr.REDUCE, Production: &grammar.Production{
		Head: "nonterm", Body: grammar.String[grammar.Symbol]{grammar.Terminal("IDENT")},
	}})
	T.AddACTION(0, "grammar", &lr.Action{Type: lr.SHIFT, State: 2})
	T.AddACTION(0, "=", &lr.Action{Type: lr.REDUCE, Production: &grammar.Production{
		Head: "foo", Body: grammar.String[grammar.Symbol]{grammar.Terminal("bar"), grammar.NonTerminal("baz")},
	}})
	T.SetGOTO(0, "term", 7)
	T.SetGOTO(0, "name", 3)
	T.SetGOTO(0, "rhs", lr.ErrState)

	// State 1: nothing at all.

	// State 2: an ERROR action, a conflict, and a terminal unknown to the grammar; no GOTO.
	T.AddACTION(2, ";", &lr.Action{Type: lr.ERROR})
	T.AddACTION(2, "|", &lr.Action{Type: lr.SHIFT, State: 1})
	T.AddACTION(2, "|", &lr.Action{Type: lr.REDUCE, Production: productions[29]})
	T.AddACTION(2, "NOT_A_TERMINAL", &lr.Action{Type: lr.SHIFT, State: 3})
	T.AddACTION(2, "{{", &lr.Action{Type: lr.SHIFT, State: 7})

	// State 3: only a conflict in ACTION; a GOTO for a known and for an unknown non-terminal.
	T.AddACTION(3, "PREDEF", &lr.Action{Type: lr.REDUCE, Production: productions[33]})
	T.AddACTION(3, "PREDEF", &lr.Action{Type: lr.REDUCE, Production: productions[34]})
	T.SetGOTO(3, "unknown_nt", 1)
	T.SetGOTO(3, "grammar", 0)

	// State 7: reductions by empty productions on the endmarker and on a terminal with a quote-worthy name.
	T.AddACTION(7, grammar.Endmarker, &lr.Action{Type: lr.REDUCE, Production: productions[3]})
	T.AddACTION(7, "@none", &lr.Action{Type: lr.REDUCE, Production: &grammar.Production{Head: "semi_opt"}})
	T.AddACTION(7, ">", &lr.Action{Type: lr.ActionType(42)})

	// A state that is not listed in T.States is never visited.
	T.AddACTION(9, "=", &lr.Action{Type: lr.SHIFT, State: 0})
	T.SetGOTO(9, "rule", 0)

	return T
}

const wantHandMadeACTION = `// ACTION looks up and returns the action for state s and terminal a.
func ACTION(s int, a grammar.Terminal) (lr.ActionType, int, error) {
	switch s {
	case 0:
		switch a {
		case "=":
			return lr.REDUCE, , nil // REDUCE foo → "bar" baz
		case "grammar":
			return lr.SHIFT, 2, nil // SHIFT 2
		case "IDENT":
			return lr.REDUCE, 32, nil // REDUCE nonterm → "IDENT"
		case grammar.Endmarker:
			return lr.ACCEPT, 0, nil // ACCEPT
		}

	case 2:
		switch a {
		case ";":
		case "{{":
			return lr.SHIFT, 7, nil // SHIFT 7
		}

	case 7:
		switch a {
		case ">":
		case "@none":
			return lr.REDUCE, 8, nil // REDUCE semi_opt → ε
		case grammar.Endmarker:
			return lr.REDUCE, 3, nil // REDUCE decls → ε
		}

	}

	return lr.ERROR, -1, fmt.Errorf("no action exists in the parsing table for ACTION[%d, %s]", s, a)
}
`

const wantHandMadeGOTO = `// GOTO looks up and returns the next state for state s and non-terminal A.
func GOTO(s int, A grammar.NonTerminal) int {
	switch s {
	case 0:
		switch A {
		case "name":
			return 3
		case "term":
			return 7
		}

	case 3:
		switch A {
		case "grammar":
			return 0
		}

	}

	return -1
}
`

func TestDemo_HandMadeTable(t *testing.T) {
	T := handMadeTable()

	if got := string(generateACTION(T)); got != wantHandMadeACTION {
		t.Errorf("unexpected ACTION code:\n%s", got)
	}

	if got := string(generateGOTO(T)); got != wantHandMadeGOTO {
		t.Errorf("unexpected GOTO code:\n%s", got)
	}

	// The package-level list of terminals must not be affected by appending the endmarker.
	if len(terminals) != 22 || terminals[21] != "PREDEF" {
		t.Errorf("terminals modified: %v", terminals)
	}
}

// An empty table yields just the skeleton of the functions.
func TestDemo_EmptyTable(t *testing.T) {
	T := lr.NewParsingTable(nil, terminals, nonTerminals, nil)

	wantACTION := "// ACTION looks up and returns the action for state s and terminal a.\n" +
		"func ACTION(s int, a grammar.Terminal) (lr.ActionType, int, error) {\n" +
		"\tswitch s {\n" +
		"\t}\n" +
		"\n" +
		"\treturn lr.ERROR, -1, fmt.Errorf(\"no action exists in the parsing table for ACTION[%d, %s]\", s, a)\n" +
		"}\n"

	wantGOTO := "// GOTO looks up and returns the next state for state s and non-terminal A.\n" +
		"func GOTO(s int, A grammar.NonTerminal) int {\n" +
		"\tswitch s {\n" +
		"\t}\n" +
		"\n" +
		"\treturn -1\n" +
		"}\n"

	if got := string(generateACTION(T)); got != wantACTION {
		t.Errorf("unexpected ACTION code:\n%s", got)
	}

	if got := string(generateGOTO(T)); got != wantGOTO {
		t.Errorf("unexpected GOTO code:\n%s", got)
	}
}
