package golang

import (
	"os"
	"path/filepath"
	"sort"
	"strings"
	"testing"

	"github.com/gardenbed/charm/ui"
	"github.com/moorara/algo/errors"
	"github.com/moorara/algo/parser/lr"
	"github.com/moorara/algo/parser/lr/canonical"
	"github.com/moorara/algo/parser/lr/lookahead"
	"github.com/moorara/algo/parser/lr/simple"

	"github.com/gardenbed/emerge/internal/ebnf/parser/spec"
)

const (
	demoTail = "            Terminals/Productions listed earlier will have higher precedence.\n" +
		"            Terminals/Productions in the same line will have the same precedence.\n"

	demoPanicTail = "ambiguous grammar: a conflict that involves accepting the input cannot be resolved " +
		"(runtime error: invalid memory address or nil pointer dereference)"

	demoExprConflicts = "Error:      Ambiguous Grammar\n" +
		"Cause:      Multiple conflicts in the parsing table:\n" +
		"              1. Shift/Reduce conflict in ACTION[2, \"*\"]\n" +
		"              2. Shift/Reduce conflict in ACTION[2, \"+\"]\n" +
		"              3. Shift/Reduce conflict in ACTION[3, \"*\"]\n" +
		"              4. Shift/Reduce conflict in ACTION[3, \"+\"]\n" +
		"Resolution: Specify associativity and precedence for these Terminals/Productions:\n" +
		"              • \"*\" vs. \"*\", \"+\"\n" +
		"              • \"+\" vs. \"*\", \"+\"\n" + demoTail

	demoPartialConflicts = "Error:      Ambiguous Grammar\n" +
		"Cause:      Multiple conflicts in the parsing table:\n" +
		"              1. Shift/Reduce conflict in ACTION[2, \"*\"]\n" +
		"              2. Shift/Reduce conflict in ACTION[2, \"+\"]\n" +
		"              3. Shift/Reduce conflict in ACTION[3, \"*\"]\n" +
		"Resolution: Specify associativity and precedence for these Terminals/Productions:\n" +
		"              • \"*\" vs. \"*\", \"+\"\n" +
		"              • \"+\" vs. \"*\"\n" + demoTail

	demoReduceReduce = "Error:      Ambiguous Grammar\n" +
		"Cause:      Multiple conflicts in the parsing table:\n" +
		"              1. Reduce/Reduce conflict in ACTION[12, \"d\"]\n" +
		"              2. Reduce/Reduce conflict in ACTION[12, \"e\"]\n" +
		"Resolution: Specify associativity and precedence for these Terminals/Productions:\n" +
		"              • \"c\"\n" + demoTail

	demoDanglingElse = "Error:      Ambiguous Grammar\n" +
		"Cause:      Shift/Reduce conflict in ACTION[%STATE%, \"else\"]\n" +
		"Context:    The parser cannot decide whether to\n" +
		"              1. Shift the terminal \"else\", or\n" +
		"              2. Reduce by production start → \"if\" start\n" +
		"Resolution: Specify associativity and precedence for these Terminals/Productions:\n" +
		"              • \"if\" vs. \"else\"\n" + demoTail

	demoSLROnly = "Error:      Ambiguous Grammar\n" +
		"Cause:      Shift/Reduce conflict in ACTION[7, \"=\"]\n" +
		"Context:    The parser cannot decide whether to\n" +
		"              1. Shift the terminal \"=\", or\n" +
		"              2. Reduce by production r → l\n" +
		"Resolution: Specify associativity and precedence for these Terminals/Productions:\n" +
		"              • r = l vs. \"=\"\n" + demoTail
)

var demoAllFiles = []string{"errors.go", "input.go", "lexer.go", "parser.go", "stack.go", "types.go"}
var demoNoParser = []string{"errors.go", "input.go", "lexer.go", "stack.go", "types.go"}

// "" means that the table is built; otherwise it is the text that follows the "error on building X parsing table:\n" header.
type demoCase struct {
	name           string
	src            string
	slr, lalr, glr string
}

var demoCases = []demoCase{
	{name: "a", src: "grammar a;\nstart = \"x\" start | \"y\";\n"},
	{name: "j", src: "grammar j;\nstart = ;\n"},
	{name: "k", src: "grammar k;\nNUM = /[0-9]+/\nstart = {item};\nitem = NUM [\",\"];\n"},
	{
		name: "b", src: "grammar b;\nstart = start \"+\" start | start \"*\" start | \"n\";\n",
		slr: demoExprConflicts, lalr: demoExprConflicts, glr: demoExprConflicts,
	},
	{name: "c", src: "grammar c;\n@left \"*\"\n@left \"+\"\nstart = start \"+\" start | start \"*\" start | \"n\";\n"},
	{name: "c2", src: "grammar c2;\n@right \"+\" \"*\"\nstart = start \"+\" start | start \"*\" start | \"n\";\n"},
	{
		name: "g", src: "grammar g;\n@left \"+\"\nstart = start \"+\" start | start \"*\" start | \"n\";\n",
		slr: demoPartialConflicts, lalr: demoPartialConflicts, glr: demoPartialConflicts,
	},
	{
		name: "e", src: "grammar e;\nstart = l \"=\" r | r;\nl = \"*\" r | \"i\";\nr = l;\n",
		slr: demoSLROnly,
	},
	{
		name: "f", src: "grammar f;\nstart = \"a\" x \"d\" | \"b\" y \"d\" | \"a\" y \"e\" | \"b\" x \"e\";\nx = \"c\";\ny = \"c\";\n",
		slr: demoReduceReduce, lalr: demoReduceReduce,
	},
	{
		name: "h", src: "grammar h;\nstart = \"if\" start | \"if\" start \"else\" start | \"x\";\n",
		slr:  strings.Replace(demoDanglingElse, "%STATE%", "4", 1),
		lalr: strings.Replace(demoDanglingElse, "%STATE%", "4", 1),
		glr:  strings.Replace(demoDanglingElse, "%STATE%", "6", 1),
	},
	{name: "h2", src: "grammar h2;\n@right \"else\"\n@right \"if\"\nstart = \"if\" start | \"if\" start \"else\" start | \"x\";\n"},
}

func demoParse(t *testing.T, src string) *spec.Spec {
	t.Helper()
	s, err := spec.Parse("demo", strings.NewReader(src))
	if err != nil {
		t.Fatalf("unexpected error on parsing %q: %s", src, err)
	}
	return s
}

func demoDir(t *testing.T, dir string) []string {
	t.Helper()
	entries, err := os.ReadDir(dir)
	if err != nil {
		t.Fatalf("cannot read %s: %s", dir, err)
	}
	names := []string{}
	for _, e := range entries {
		names = append(names, e.Name())
	}
	sort.Strings(names)
	return names
}

func demoCheckTable(t *testing.T, kind string, want string, T *lr.ParsingTable, err error, ref func() (*lr.ParsingTable, error)) {
	t.Helper()
	if want == "" {
		if err != nil || T == nil {
			t.Fatalf("%s: expected a table, got %v, %v", kind, T, err)
		}
		R, refErr := ref()
		if refErr != nil || !T.Equal(R) {
			t.Fatalf("%s: table differs from the one of the builder (%v)", kind, refErr)
		}
		return
	}
	if T != nil {
		t.Fatalf("%s: expected a nil table with an error", kind)
	}
	if err == nil {
		t.Fatalf("%s: expected an error", kind)
	}
	if exp := "error on building " + kind + " parsing table:\n" + want; err.Error() != exp {
		t.Fatalf("%s: error text\n got: %q\nwant: %q", kind, err.Error(), exp)
	}
}

func TestRefactorDemo_Tables(t *testing.T) {
	for _, tc := range demoCases {
		t.Run(tc.name, func(t *testing.T) {
			s := demoParse(t, tc.src)

			T, err := s.SLRParsingTable()
			demoCheckTable(t, "SLR(1)", tc.slr, T, err, func() (*lr.ParsingTable, error) {
				return simple.BuildParsingTable(s.Grammar, s.Precedences)
			})

			// Twice, to show that the call leaves nothing behind.
			for i := 0; i < 2; i++ {
				T, err = s.LALRParsingTable()
				demoCheckTable(t, "LALR(1)", tc.lalr, T, err, func() (*lr.ParsingTable, error) {
					return lookahead.BuildParsingTable(s.Grammar, s.Precedences)
				})
			}

			T, err = s.GLRParsingTable()
			demoCheckTable(t, "GLR(1)", tc.glr, T, err, func() (*lr.ParsingTable, error) {
				return canonical.BuildParsingTable(s.Grammar, s.Precedences)
			})
		})
	}
}

func TestRefactorDemo_Generate(t *testing.T) {
	for _, tc := range demoCases {
		t.Run(tc.name, func(t *testing.T) {
			s := demoParse(t, tc.src)
			dir := t.TempDir()

			err := Generate(ui.NewNop(), &Params{Path: dir, Spec: s})
			files := demoDir(t, filepath.Join(dir, s.Name))

			if tc.lalr == "" {
				if err != nil {
					t.Fatalf("unexpected error: %s", err)
				}
				if strings.Join(files, " ") != strings.Join(demoAllFiles, " ") {
					t.Fatalf("files: %v", files)
				}
				return
			}

			// The conflict report is the only error, and the parser file is not written.
			me, ok := err.(*errors.MultiError)
			if !ok {
				t.Fatalf("expected a *errors.MultiError, got %T", err)
			}
			exp := "error on building LALR(1) parsing table:\n" + tc.lalr
			if all := me.Unwrap(); len(all) != 1 || all[0].Error() != exp {
				t.Fatalf("wrapped errors: %q", all)
			}
			if me.Error() != exp+"\n" {
				t.Fatalf("error text: %q", me.Error())
			}
			if strings.Join(files, " ") != strings.Join(demoNoParser, " ") {
				t.Fatalf("files: %v", files)
			}
		})
	}
}

// A panic of a table builder ends as an error, with a nil table, for each kind of table.
func TestRefactorDemo_BuilderPanic(t *testing.T) {
	s := &spec.Spec{Name: "n"} // the builders dereference the nil grammar

	for kind, build := range map[string]func() (*lr.ParsingTable, error){
		"SLR(1)": s.SLRParsingTable, "LALR(1)": s.LALRParsingTable, "GLR(1)": s.GLRParsingTable,
	} {
		for i := 0; i < 3; i++ {
			T, err := build()
			demoCheckTable(t, kind, demoPanicTail, T, err, nil)
		}
	}

	dir := t.TempDir()
	err := Generate(ui.NewNop(), &Params{Path: dir, Spec: s})
	me, ok := err.(*errors.MultiError)
	if !ok {
		t.Fatalf("expected a *errors.MultiError, got %T", err)
	}
	if exp := "error on building LALR(1) parsing table:\n" + demoPanicTail + "\n"; me.Error() != exp || len(me.Unwrap()) != 1 {
		t.Fatalf("error text: %q", me.Error())
	}
	if files := demoDir(t, filepath.Join(dir, "n")); strings.Join(files, " ") != strings.Join(demoNoParser, " ") {
		t.Fatalf("files: %v", files)
	}
}

// A start symbol that derives itself is always rejected for LALR(1), whichever way the dependency fails.
func TestRefactorDemo_SelfDerivingStart(t *testing.T) {
	for _, src := range []string{
		"grammar d;\nstart = start | \"a\";\n",
		"grammar i;\nstart = a;\na = start | \"a\";\n",
	} {
		for i := 0; i < 5; i++ {
			s := demoParse(t, src)
			for j := 0; j < 2; j++ {
				T, err := s.LALRParsingTable()
				if T != nil || err == nil {
					t.Fatalf("expected a nil table with an error, got %v, %v", T, err)
				}
				msg := err.Error()
				if !strings.HasPrefix(msg, "error on building LALR(1) parsing table:\n") {
					t.Fatalf("error text: %q", msg)
				}
				rest := strings.TrimPrefix(msg, "error on building LALR(1) parsing table:\n")
				if !strings.HasPrefix(rest, "Error:      Ambiguous Grammar\n") && rest != demoPanicTail {
					t.Fatalf("error text: %q", msg)
				}
			}

			dir := t.TempDir()
			err := Generate(ui.NewNop(), &Params{Path: dir, Spec: s})
			if me, ok := err.(*errors.MultiError); !ok || len(me.Unwrap()) != 1 {
				t.Fatalf("expected a *errors.MultiError with one error, got %T %v", err, err)
			}
			if files := demoDir(t, filepath.Join(dir, s.Name)); strings.Join(files, " ") != strings.Join(demoNoParser, " ") {
				t.Fatalf("files: %v", files)
			}
		}
	}
}

// The stages of Generate and the single file of generateParser keep their error shapes.
func TestRefactorDemo_GenerateErrorShapes(t *testing.T) {
	s := demoParse(t, "grammar a;\nstart = \"x\" start | \"y\";\n")

	// prepare fails: a plain error, nothing is generated.
	dir := t.TempDir()
	err := Generate(ui.NewNop(), &Params{Path: filepath.Join(dir, "missing"), Spec: s})
	if _, ok := err.(*errors.MultiError); ok || err == nil || !strings.HasPrefix(err.Error(), "output path does not exist: ") {
		t.Fatalf("unexpected error: %T %v", err, err)
	}
	if err := os.Mkdir(filepath.Join(dir, "a"), os.ModePerm); err != nil {
		t.Fatal(err)
	}
	err = Generate(ui.NewNop(), &Params{Path: dir, Spec: s})
	if _, ok := err.(*errors.MultiError); ok || err == nil || !strings.HasPrefix(err.Error(), "error on creating package directory: ") {
		t.Fatalf("unexpected error: %T %v", err, err)
	}
	if files := demoDir(t, filepath.Join(dir, "a")); len(files) != 0 {
		t.Fatalf("files: %v", files)
	}

	// Every file is there already: generateParser reports one error, the three stages report six, in order.
	dir = t.TempDir()
	if err := Generate(ui.NewNop(), &Params{Path: dir, Spec: s}); err != nil {
		t.Fatal(err)
	}
	g := &generator{UI: ui.NewNop(), Params: &Params{Path: dir, Spec: s}}

	err = g.generateParser()
	me, ok := err.(*errors.MultiError)
	if !ok || len(me.Unwrap()) != 1 || !strings.Contains(me.Unwrap()[0].Error(), "parser.go: file exists") {
		t.Fatalf("unexpected error: %T %v", err, err)
	}

	var errs error
	for _, stage := range []func() error{g.generateCore, g.generateLexer, g.generateParser} {
		errs = errors.Append(errs, stage())
	}
	all := errs.(*errors.MultiError).Unwrap()
	if len(all) != 6 {
		t.Fatalf("unexpected errors: %q", all)
	}
	for i, name := range []string{"errors.go", "types.go", "stack.go", "input.go", "lexer.go", "parser.go"} {
		if !strings.HasSuffix(all[i].Error(), name+": file exists") {
			t.Fatalf("error %d: %s", i, all[i])
		}
	}

	// A rejected grammar: generateParser hands the conflict report over as it is, before it touches any file.
	bad := demoParse(t, "grammar a;\nstart = start \"+\" start | start \"*\" start | \"n\";\n")
	g = &generator{UI: ui.NewNop(), Params: &Params{Path: dir, Spec: bad}}
	err = g.generateParser()
	if _, ok := err.(*errors.MultiError); ok || err == nil || err.Error() != "error on building LALR(1) parsing table:\n"+demoExprConflicts {
		t.Fatalf("unexpected error: %T %v", err, err)
	}
}
