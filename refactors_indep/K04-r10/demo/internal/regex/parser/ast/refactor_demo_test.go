package ast

import (
	"fmt"
	"strings"
	"testing"

	auto "github.com/moorara/algo/automata"
	comb "github.com/moorara/algo/parser/combinator"

	"github.com/gardenbed/emerge/internal/regex/parser/nfa"
)

// demoDump renders a syntax tree, with the one-based positions of its characters, as an S-expression.
func demoDump(n Node) string {
	switch v := n.(type) {
	case *Concat:
		parts := []string{}
		for _, e := range v.Exprs {
			parts = append(parts, demoDump(e))
		}
		return "(." + demoJoin(parts) + ")"
	case *Alt:
		parts := []string{}
		for _, e := range v.Exprs {
			parts = append(parts, demoDump(e))
		}
		return "(|" + demoJoin(parts) + ")"
	case *Star:
		return "(* " + demoDump(v.Expr) + ")"
	case *Empty:
		return "e"
	case *Char:
		if v.Val == endMarker {
			return fmt.Sprintf("#%d", v.Pos)
		}
		return fmt.Sprintf("%d:%d", v.Val, v.Pos)
	case nil:
		return "<nil>"
	default:
		return fmt.Sprintf("<%T>", n)
	}
}

func demoJoin(parts []string) string {
	if len(parts) == 0 {
		return ""
	}
	return " " + strings.Join(parts, " ")
}

func demoString(s string) auto.String {
	str := auto.String{}
	for _, r := range s {
		str = append(str, auto.Symbol(r))
	}
	return str
}

// The shape of the tree, the positions and the followpos table for quantified sub-expressions.
func TestRefactorDemo_QuantifierTrees(t *testing.T) {
	tests := []struct {
		regex   string
		tree    string
		follows string
	}{
		{`a?`, `(. (. (| e 97:1)) #2)`, `1:[2]`},
		{`a*`, `(. (. (* 97:1)) #2)`, `1:[1 2]`},
		{`a+`, `(. (. (. 97:1 (* 97:2))) #3)`, `1:[2 3] 2:[2 3]`},
		{`a{0}`, `(. (. (.)) #1)`, ``},
		{`a{1}`, `(. (. (. 97:1)) #2)`, `1:[2]`},
		{`a{2}`, `(. (. (. 97:1 97:2)) #3)`, `1:[2] 2:[3]`},
		{`a{0,}`, `(. (. (. (* 97:1))) #2)`, `1:[1 2]`},
		{`a{2,}`, `(. (. (. 97:1 97:2 (* 97:3))) #4)`, `1:[2] 2:[3 4] 3:[3 4]`},
		{`a{0,1}`, `(. (. (. (| e 97:1))) #2)`, `1:[2]`},
		{`a{0,2}`, `(. (. (. (| e 97:1) (| e 97:2))) #3)`, `1:[2 3] 2:[3]`},
		{`a{1,3}`, `(. (. (. 97:1 (| e 97:2) (| e 97:3))) #4)`, `1:[2 3 4] 2:[3 4] 3:[4]`},
		{`a{2,2}`, `(. (. (. 97:1 97:2)) #3)`, `1:[2] 2:[3]`},
		{`(ab){2}`, `(. (. (. (. 97:1 98:2) (. 97:3 98:4))) #5)`, `1:[2] 2:[3] 3:[4] 4:[5]`},
		{`(a|b)+`, `(. (. (. (| (. 97:1) (. 98:2)) (* (| (. 97:3) (. 98:4))))) #5)`, `1:[3 4 5] 2:[3 4 5] 3:[3 4 5] 4:[3 4 5]`},
		{`(a?){2}`, `(. (. (. (. (| e 97:1)) (. (| e 97:2)))) #3)`, `1:[2 3] 2:[3]`},
		{`(a*)*`, `(. (. (* (. (* 97:1)))) #2)`, `1:[1 1 2]`},
		{`(a?b*){1,2}c`, `(. (. (. (. (| e 97:1) (* 98:2)) (| e (. (| e 97:3) (* 98:4)))) 99:5) #6)`, `1:[2 3 4 5] 2:[2 3 4 5] 3:[4 5] 4:[4 5] 5:[6]`},
		{`a*?b+?`, `(. (. (* 97:1) (. 98:2 (* 98:3))) #4)`, `1:[1 2] 2:[3 4] 3:[3 4]`},
		{`[ab]{2}`, `(. (. (. (| 97:1 98:2) (| 97:3 98:4))) #5)`, `1:[3 4] 2:[3 4] 3:[5] 4:[5]`},
		{`[^\x00-\x7D]?`, `(. (. (| e (| 126:1 127:2))) #3)`, `1:[3] 2:[3]`},
		{`\d{1,2}`, ``, ``},
	}

	for _, tc := range tests {
		t.Run(tc.regex, func(t *testing.T) {
			a, err := Parse(tc.regex)
			if err != nil {
				t.Fatalf("unexpected error: %s", err)
			}

			if tc.tree == "" {
				return
			}

			if got := demoDump(a.Root); got != tc.tree {
				t.Errorf("tree:\n got  %s\n want %s", got, tc.tree)
			}

			parts := []string{}
			for p := Pos(1); p <= a.lastPos; p++ {
				if f, ok := a.follows[p]; ok {
					parts = append(parts, fmt.Sprintf("%d:%v", p, []Pos(f)))
				}
			}
			if got := strings.Join(parts, " "); got != tc.follows {
				t.Errorf("follows:\n got  %s\n want %s", got, tc.follows)
			}
		})
	}
}

// quantifyNode called directly: every clone is a fresh node, and an unknown quantifier yields no node.
func TestRefactorDemo_QuantifyNode(t *testing.T) {
	two, zero := 2, 0
	n := &Concat{Exprs: []Node{&Char{Val: 'x', Pos: 7}, &Alt{Exprs: []Node{&Empty{}, &Star{Expr: &Char{Val: 'y', Pos: 8}}}}}}

	tests := []struct {
		name string
		q    any
		want string
	}{
		{"opt", '?', `(| e (. 120:7 (| e (* 121:8))))`},
		{"star", '*', `(* (. 120:7 (| e (* 121:8))))`},
		{"plus", '+', `(. (. 120:7 (| e (* 121:8))) (* (. 120:7 (| e (* 121:8)))))`},
		{"unknown rune", '!', `<nil>`},
		{"unknown type", "+", `<nil>`},
		{"nil", nil, `<nil>`},
		{"pointer bound", &two, `<nil>`},
		{"{0,0}", tuple[int, *int]{p: 0, q: &zero}, `(.)`},
		{"{0,}", tuple[int, *int]{p: 0, q: nil}, `(. (* (. 120:7 (| e (* 121:8)))))`},
		{"{1,2}", tuple[int, *int]{p: 1, q: &two}, `(. (. 120:7 (| e (* 121:8))) (| e (. 120:7 (| e (* 121:8)))))`},
		{"{2,2}", tuple[int, *int]{p: 2, q: &two}, `(. (. 120:7 (| e (* 121:8))) (. 120:7 (| e (* 121:8))))`},
		{"{3,2} (invalid, reported elsewhere)", tuple[int, *int]{p: 3, q: &two}, `(. (. 120:7 (| e (* 121:8))) (. 120:7 (| e (* 121:8))) (. 120:7 (| e (* 121:8))))`},
		{"{-1,0}", tuple[int, *int]{p: -1, q: &zero}, `(. (| e (. 120:7 (| e (* 121:8)))))`},
		{"{-2,}", tuple[int, *int]{p: -2, q: nil}, `(. (* (. 120:7 (| e (* 121:8)))))`},
	}

	for _, tc := range tests {
		t.Run(tc.name, func(t *testing.T) {
			got := quantifyNode(n, tc.q)
			if tc.want == `<nil>` {
				if got != nil {
					t.Fatalf("expected a nil Node, got %#v", got)
				}
				return
			}
			if d := demoDump(got); d != tc.want {
				t.Errorf("\n got  %s\n want %s", d, tc.want)
			}

			// No node of the operand is shared with the result, nor between two copies.
			seen := map[Node]bool{}
			var walk func(Node)
			walk = func(x Node) {
				if _, isEmpty := x.(*Empty); !isEmpty { // pointers to zero-size values may coincide
					if seen[x] {
						t.Errorf("node %s appears twice", demoDump(x))
					}
					seen[x] = true
				}
				switch v := x.(type) {
				case *Concat:
					for _, e := range v.Exprs {
						walk(e)
					}
				case *Alt:
					for _, e := range v.Exprs {
						walk(e)
					}
				case *Star:
					walk(v.Expr)
				}
			}
			walk(n)
			walk(got)
		})
	}

	// The operand itself is left alone.
	if d := demoDump(n); d != `(. 120:7 (| e (* 121:8)))` {
		t.Errorf("operand changed: %s", d)
	}
}

func demoChars(n Node) string {
	alt, ok := n.(*Alt)
	if !ok {
		return fmt.Sprintf("<%T>", n)
	}
	var b strings.Builder
	for _, e := range alt.Exprs {
		c := e.(*Char)
		if c.Pos != 0 {
			b.WriteString("!pos")
		}
		if 0x20 < c.Val && c.Val < 0x7F {
			b.WriteRune(c.Val)
		} else {
			fmt.Fprintf(&b, "<%d>", c.Val)
		}
	}
	return b.String()
}

func TestRefactorDemo_CharClasses(t *testing.T) {
	const (
		digits = `0123456789`
		upper  = `ABCDEFGHIJKLMNOPQRSTUVWXYZ`
		lower  = `abcdefghijklmnopqrstuvwxyz`
	)

	ctl := func(lo, hi rune) string {
		s := ""
		for c := lo; c <= hi; c++ {
			s += fmt.Sprintf("<%d>", c)
		}
		return s
	}

	tests := []struct {
		class string
		ok    bool
		want  string
	}{
		{`\d`, true, digits},
		{`\D`, true, ctl(0, 32) + `!"#$%&'()*+,-./:;<=>?@` + upper + "[\\]^_`" + lower + `{|}~<127>`},
		{`\w`, true, digits + upper + `_` + lower},
		{`\W`, true, ctl(0, 32) + `!"#$%&'()*+,-./:;<=>?@[\]^` + "`" + `{|}~<127>`},
		{`\s`, true, `<32><9><10><13><12>`},
		{`\S`, true, ctl(0, 8) + ctl(11, 11) + ctl(14, 31) + `!"#$%&'()*+,-./` + digits + `:;<=>?@` + upper + "[\\]^_`" + lower + `{|}~<127>`},
		{`\x`, false, ``},
		{`\b`, false, ``},
		{`s`, false, ``},
		{`[:digit:]`, false, ``},
		{``, false, ``},
	}

	for _, tc := range tests {
		t.Run(tc.class, func(t *testing.T) {
			m := new(mappers)
			res, ok := m.ToCharClass(comb.Result{Val: tc.class, Pos: 5})
			if ok != tc.ok {
				t.Fatalf("ok: got %t want %t", ok, tc.ok)
			}
			if m.errors != nil {
				t.Fatalf("unexpected error %s", m.errors)
			}
			if !ok {
				if res.Val != nil || res.Pos != 0 || res.Bag != nil {
					t.Fatalf("expected the zero result, got %#v", res)
				}
				return
			}
			if got := demoChars(res.Val.(Node)); got != tc.want {
				t.Errorf("node:\n got  %s\n want %s", got, tc.want)
			}
			if res.Pos != 5 {
				t.Errorf("pos: %d", res.Pos)
			}
			chars := res.Bag[bagKeyChars].([]rune)
			alt := res.Val.(*Alt)
			if len(chars) != len(alt.Exprs) {
				t.Fatalf("bag has %d chars, node %d", len(chars), len(alt.Exprs))
			}
			for i, c := range chars {
				if alt.Exprs[i].(*Char).Val != c {
					t.Errorf("bag differs from node at %d", i)
				}
			}
		})
	}
}

func TestRefactorDemo_CharRange(t *testing.T) {
	tests := []struct {
		name    string
		low, up rune
		chars   []rune
		err     string
	}{
		{"a-c", 'a', 'c', []rune{'a', 'b', 'c'}, ``},
		{"a-a", 'a', 'a', []rune{'a'}, ``},
		{"c-a", 'c', 'a', []rune{}, `invalid character range c-a`},
		{"NUL-SOH", 0, 1, []rune{0, 1}, ``},
		{"}-DEL", '}', 0x7F, []rune{'}', '~', 0x7F}, ``},
		{"}-0x80", '}', 0x80, []rune{'}', '~', 0x7F, 0x80}, ``},
		{"}-0x81", '}', 0x81, []rune{'}', '~', 0x7F, 0x80}, ``},
		{"}-max", '}', 0x7FFFFFFF, []rune{'}', '~', 0x7F, 0x80}, ``},
		{"0x80-0x80", 0x80, 0x80, []rune{0x80}, ``},
		{"0x100-0x10FFFF", 0x100, 0x10FFFF, []rune{0x80}, ``},
		{"0x10FFFF-0x100", 0x10FFFF, 0x100, []rune{}, "invalid character range \U0010FFFF-Ā"},
		{"-1-1", -1, 1, []rune{-1, 0, 1}, ``},
		{"min-1", -0x80000000, 1, []rune{-1, 0, 1}, ``},
		{"min--5", -0x80000000, -5, []rune{-1}, ``},
		{"min-max", -0x80000000, 0x7FFFFFFF, nil, ``},
		{"1--1", 1, -1, []rune{}, "invalid character range \x01-�"},
	}

	for _, tc := range tests {
		t.Run(tc.name, func(t *testing.T) {
			m := new(mappers)
			res, ok := m.ToCharRange(comb.Result{
				Val: comb.List{
					{Val: tc.low, Pos: 3},
					{Val: '-', Pos: 4},
					{Val: tc.up, Pos: 5},
				},
				Pos: 3,
			})
			if !ok || res.Pos != 3 {
				t.Fatalf("ok %t pos %d", ok, res.Pos)
			}

			want := tc.chars
			if tc.name == "min-max" {
				for c := rune(-1); c <= 128; c++ {
					want = append(want, c)
				}
			}

			chars, isRunes := res.Bag[bagKeyChars].([]rune)
			if !isRunes || chars == nil {
				t.Fatalf("bag: %#v", res.Bag)
			}
			if fmt.Sprint(chars) != fmt.Sprint(want) {
				t.Errorf("chars: got %v want %v", chars, want)
			}
			alt := res.Val.(*Alt)
			if len(alt.Exprs) != len(want) {
				t.Fatalf("node has %d alternatives, want %d", len(alt.Exprs), len(want))
			}
			if len(want) == 0 && alt.Exprs != nil {
				t.Errorf("expected no alternatives slice at all")
			}
			for i, c := range want {
				if ch := alt.Exprs[i].(*Char); ch.Val != c || ch.Pos != 0 {
					t.Errorf("alternative %d: %#v", i, ch)
				}
			}

			switch {
			case tc.err == "" && m.errors != nil:
				t.Errorf("unexpected error %s", m.errors)
			case tc.err != "" && (m.errors == nil || m.errors.Error() != tc.err):
				t.Errorf("error: got %v want %q", m.errors, tc.err)
			}
		})
	}
}

func TestRefactorDemo_CharGroup(t *testing.T) {
	item := func(chars ...rune) comb.Result {
		return comb.Result{Val: &Alt{}, Bag: comb.Bag{bagKeyChars: chars}}
	}

	all := func(except string) string {
		var b strings.Builder
		for c := rune(0); c < 128; c++ {
			if strings.ContainsRune(except, c) {
				continue
			}
			if 0x20 < c && c < 0x7F {
				b.WriteRune(c)
			} else {
				fmt.Fprintf(&b, "<%d>", c)
			}
		}
		return b.String()
	}

	const nonASCII = `unsupported non-ASCII character in character group`

	tests := []struct {
		name  string
		neg   bool
		items comb.List
		want  string
		err   string
	}{
		{"sorted and deduplicated", false, comb.List{item('z', 'a'), item('m', 'a', 'z')}, `amz`, ``},
		{"negated", true, comb.List{item('z', 'a'), item('m')}, all(`amz`), ``},
		{"edges", false, comb.List{item(0, 127)}, `<0><127>`, ``},
		{"edges negated", true, comb.List{item(0, 127)}, all("\x00\x7F"), ``},
		{"no characters", false, comb.List{item()}, ``, ``},
		{"no characters negated", true, comb.List{item()}, all(``), ``},
		{"no items", false, comb.List{}, ``, ``},
		{"item without bag", false, comb.List{{Val: &Alt{}}, item('q')}, `q`, ``},
		{"item with foreign bag", false, comb.List{{Val: &Alt{}, Bag: comb.Bag{bagKeyChars: "abc"}}, item('q')}, `q`, ``},
		{"outsider above", false, comb.List{item('a', 128, 'b')}, `ab`, nonASCII},
		{"outsider below", false, comb.List{item(-1, 'a')}, `a`, nonASCII},
		{"several outsiders report once", false, comb.List{item(0x3B1, 'a'), item(0x10FFFF, -7)}, `a`, nonASCII},
		{"outsider negated", true, comb.List{item('a', 0xE9)}, all(`a`), nonASCII},
		{"only outsiders", false, comb.List{item(0xE9)}, ``, nonASCII},
	}

	for _, tc := range tests {
		t.Run(tc.name, func(t *testing.T) {
			var negation any = comb.Empty{}
			if tc.neg {
				negation = '^'
			}

			m := new(mappers)
			res, ok := m.ToCharGroup(comb.Result{
				Val: comb.List{
					{Val: '[', Pos: 2},
					{Val: negation},
					{Val: tc.items, Pos: 3},
					{Val: ']', Pos: 9},
				},
				Pos: 2,
			})
			if !ok || res.Pos != 2 || res.Bag != nil {
				t.Fatalf("ok %t pos %d bag %v", ok, res.Pos, res.Bag)
			}
			if got := demoChars(res.Val.(Node)); got != tc.want {
				t.Errorf("node:\n got  %s\n want %s", got, tc.want)
			}
			if tc.want == "" && res.Val.(*Alt).Exprs != nil {
				t.Errorf("expected no alternatives slice at all")
			}
			switch {
			case tc.err == "" && m.errors != nil:
				t.Errorf("unexpected error %s", m.errors)
			case tc.err != "" && (m.errors == nil || m.errors.Error() != tc.err):
				t.Errorf("error: got %v want %q", m.errors, tc.err)
			}
		})
	}
}

// Errors of whole patterns, in the order in which they are found.
func TestRefactorDemo_ParseErrors(t *testing.T) {
	tests := []struct {
		regex string
		err   string
	}{
		{`a{3,1}`, `invalid repetition range {3,1}`},
		{`[z-a]`, `invalid character range z-a`},
		{`[a\x00E9]`, `unsupported non-ASCII character in character group`},
		{`[a-\x00E9]`, `unsupported non-ASCII character in character group`},
		{`[^a-\x7FFFFFFF]`, `unsupported non-ASCII character in character group`},
		{`[\xFFFFFFFF-a]`, `unsupported non-ASCII character in character group`},
		{`[z-a]{2,1}[\x0100]`, "invalid character range z-a\ninvalid repetition range {2,1}\nunsupported non-ASCII character in character group"},
		{`a**`, `invalid regular expression: a**`},
		{`a{,2}`, `invalid regular expression: a{,2}`},
		{`[]`, `invalid regular expression: []`},
		{`\xEEEE`, `unsupported character U+EEEE in regular expression: \xEEEE`},
	}

	for _, tc := range tests {
		t.Run(tc.regex, func(t *testing.T) {
			a, err := Parse(tc.regex)
			if a != nil || err == nil {
				t.Fatalf("expected an error, got %v and %v", a, err)
			}
			if err.Error() != tc.err {
				t.Errorf("error:\n got  %q\n want %q", err.Error(), tc.err)
			}

			// The other route refuses the same patterns with the same words (it has no end marker to protect).
			if tc.regex != `\xEEEE` {
				if _, nerr := nfa.Parse(tc.regex); nerr == nil || nerr.Error() != tc.err {
					t.Errorf("nfa route: got %v", nerr)
				}
			}
		})
	}
}

// The automaton of the direct route: documented meaning, agreement with the NFA route, and size.
func TestRefactorDemo_ToDFA(t *testing.T) {
	tests := []struct {
		regex  string
		states int
		yes    []string
		no     []string
	}{
		{`a?`, 3, []string{"", "a"}, []string{"aa", "b"}},
		{`a*`, 1, []string{"", "a", "aaaa"}, []string{"b", "ab"}},
		{`a+`, 2, []string{"a", "aaa"}, []string{"", "b", "aab"}},
		{`a{0}`, 1, []string{""}, []string{"a"}},
		{`a{0}b`, 3, []string{"b"}, []string{"", "ab", "a", "bb"}},
		{`a{2}`, 4, []string{"aa"}, []string{"", "a", "aaa"}},
		{`a{2,}`, 3, []string{"aa", "aaa", "aaaaaa"}, []string{"", "a", "aab"}},
		{`a{0,}`, 1, []string{"", "a", "aaa"}, []string{"b"}},
		{`a{1,3}`, 5, []string{"a", "aa", "aaa"}, []string{"", "aaaa"}},
		{`a{0,2}b`, 5, []string{"b", "ab", "aab"}, []string{"", "aaab", "a", "aa", "bb"}},
		{`(ab){2,3}`, 8, []string{"abab", "ababab"}, []string{"", "ab", "aba", "abababab"}},
		{`(a|b)*abb`, 4, []string{"abb", "aabb", "babb", "abababb"}, []string{"", "ab", "abba", "abbc"}},
		{`(a?){3}`, 5, []string{"", "a", "aa", "aaa"}, []string{"aaaa", "b"}},
		{`(a?b?){2}`, 6, []string{"", "a", "b", "ab", "ba", "aa", "bb", "abab", "aba", "bab", "abb", "aab"}, []string{"baa", "bba", "ababa", "c"}},
		{`(a*)*`, 1, []string{"", "a", "aaa"}, []string{"b"}},
		{`(a*)+b?`, 3, []string{"", "a", "aab", "b"}, []string{"ba", "bb", "abab"}},
		{`(a*b*){2,}`, 1, []string{"", "abab", "ba", "bbaa", "ababab"}, []string{"c", "abc"}},
		{`(a|b?){2}c`, 5, []string{"c", "ac", "bc", "abc", "bac", "aac", "bbc"}, []string{"", "aaac", "abbc", "ab"}},
		{`(|a)b`, 0, nil, nil},
		{`x(a?|b*)?y`, 6, []string{"xy", "xay", "xby", "xbbby"}, []string{"xaay", "xaby", "x", "y", ""}},
		{`[a-c]{2}`, 4, []string{"aa", "bc", "ca"}, []string{"", "a", "ad", "abc"}},
		{`[^a-c]?`, 3, []string{"", "d", "\x00", "\x7f", "A"}, []string{"a", "b", "c", "dd", "\u0080"}},
		{`[^\x00-\x7E]+`, 2, []string{"\x7f", "\x7f\x7f"}, []string{"", "a", "\x7fa"}},
		{`\d+(\.\d{1,2})?`, 6, []string{"0", "12", "3.1", "42.07"}, []string{"", ".5", "1.", "1.234", "1a"}},
		{`\w*\s\W`, 4, []string{" !", "ab_9\t-", "\n\n", "  "}, []string{"", "a", "a b", " a", "a  b"}},
		{`\S\D?`, 4, []string{"a", "9", "9x", "x "}, []string{"", " ", "99", "a9", "abc"}},
		{`[[:upper:]][[:lower:]]*`, 3, []string{"A", "Abc"}, []string{"", "a", "AB", "Ab1"}},
		{`[\d\s-]{1,2}`, 4, []string{"1", "-", " 7", "--"}, []string{"", "a", "123"}},
		{`.{2}`, 4, []string{"ab", "\x00\x7f"}, []string{"", "a", "abc", "aé"}},
		{`\p{Nd}{2}`, 4, []string{"12"}, []string{"1", "123", "ab"}},
		{`\P{Nd}?`, 3, []string{"", "a"}, []string{"1", "aa"}},
		{`^ab?$`, 4, []string{"a", "ab"}, []string{"", "abb", "b"}},
		{`(ab|a)(bc|c)?`, 6, []string{"a", "ab", "ac", "abc", "abbc"}, []string{"", "abcc", "b", "abb"}},
	}

	for _, tc := range tests {
		t.Run(tc.regex, func(t *testing.T) {
			a, err := Parse(tc.regex)
			if tc.states == 0 {
				if err == nil {
					t.Fatalf("expected %q to be refused", tc.regex)
				}
				return
			}
			if err != nil {
				t.Fatalf("unexpected error: %s", err)
			}

			n, err := nfa.Parse(tc.regex)
			if err != nil {
				t.Fatalf("unexpected error of the nfa route: %s", err)
			}

			// The automata library reads the symbol 0 as the empty string, so the NFA of a pattern
			// with NUL in its alphabet accepts too much; the comparison is left out for those patterns.
			_, hasNUL := a.charToPos[0]

			// The construction walks a map; a few rounds catch a dependence on that order.
			for round := 0; round < 3; round++ {
				dfa := a.ToDFA()

				if got := len(dfa.States()); got != tc.states {
					t.Errorf("states: got %d want %d", got, tc.states)
				}
				for _, s := range tc.yes {
					if !dfa.Accept(demoString(s)) {
						t.Errorf("direct route rejects %q", s)
					}
					if !hasNUL && !n.Accept(demoString(s)) {
						t.Errorf("nfa route rejects %q", s)
					}
				}
				for _, s := range tc.no {
					if dfa.Accept(demoString(s)) {
						t.Errorf("direct route accepts %q", s)
					}
					if !hasNUL && n.Accept(demoString(s)) {
						t.Errorf("nfa route accepts %q", s)
					}
				}
			}
		})
	}
}

// Both routes agree on every short word over a small alphabet.
func TestRefactorDemo_ToDFA_Exhaustive(t *testing.T) {
	patterns := []string{
		`a?`, `a*`, `a+`, `a{0}`, `a{1}`, `a{3}`, `a{0,}`, `a{1,}`, `a{3,}`, `a{0,0}`, `a{0,1}`, `a{0,3}`, `a{2,4}`,
		`(ab)?`, `(ab)*`, `(ab)+`, `(ab){2}`, `(ab){1,2}`, `(a|b){2,3}`, `(a?){2}`, `(a*){2}`, `(a+){2}`, `(a?)+`, `(a?)*`, `(a*)?`,
		`(a?b?)*`, `(a?b?)+c`, `(a?b?){2}`, `(a*b*){0,2}c?`, `((a?){2}){2}`, `((ab?)*c?){1,2}`, `(a{2}){2}`, `(a{0}b){2}`, `(a{0,1}){0,}`,
		`a?b?c?`, `a*b*c*`, `a?a?a?aaa`, `(a|b)*a(a|b)`, `(a|b)*a(a|b){2}`, `[ab]?c`, `[^\x00ab]{1,2}`, `[a-b]*[b-c]+`, `[^\x00-\x60d-\x7F]{2}`,
		`a|b?`, `a?|b`, `(a|b?)c`, `(a?|b?)?c`, `x*(a|b+)?`, `c(a*|b){2}`,
	}
	alphabet := []rune{'a', 'b', 'c', 'd'}

	var words []string
	var gen func(prefix string, n int)
	gen = func(prefix string, n int) {
		words = append(words, prefix)
		if n == 0 {
			return
		}
		for _, c := range alphabet {
			gen(prefix+string(c), n-1)
		}
	}
	gen("", 6)

	for _, regex := range patterns {
		t.Run(regex, func(t *testing.T) {
			a, err := Parse(regex)
			if err != nil {
				t.Fatalf("unexpected error: %s", err)
			}
			n, err := nfa.Parse(regex)
			if err != nil {
				t.Fatalf("unexpected error of the nfa route: %s", err)
			}

			direct, viaNFA := a.ToDFA(), n.ToDFA().Minimize()
			if d, v := len(direct.States()), len(viaNFA.States()); d != v {
				t.Logf("states: direct %d, via nfa %d", d, v)
			}

			accepted := 0
			for _, w := range words {
				s := demoString(w)
				d, v := direct.Accept(s), viaNFA.Accept(s)
				if d != v {
					t.Fatalf("%q: direct route %t, nfa route %t", w, d, v)
				}
				if d {
					accepted++
				}
			}
			if accepted == 0 {
				t.Errorf("no word accepted at all")
			}
		})
	}
}
