package spec

import (
	"fmt"
	"sort"
	"strings"
	"sync"
	"testing"

	"github.com/moorara/algo/grammar"
)

// This file characterizes how the symbol table names the non-terminals it generates for
// the EBNF operators ( ), [ ], { } and {{ }}, and that the names depend on nothing but the
// text of the specification being processed (property C17).

func demoStr(syms ...grammar.Symbol) grammar.String[grammar.Symbol] {
	return grammar.String[grammar.Symbol](syms)
}

type demoCall struct {
	op   string // opt, group, star, plus
	s    Strings
	want grammar.NonTerminal
}

func demoApply(t *SymbolTable, op string, s Strings) grammar.NonTerminal {
	switch op {
	case "opt":
		return t.GetOpt(s)
	case "group":
		return t.GetGroup(s)
	case "star":
		return t.GetStar(s)
	case "plus":
		return t.GetPlus(s)
	}
	panic("unknown operator " + op)
}

// demoCalls is one fixed script of calls; the expected names are what a fresh table answers.
func demoCalls() []demoCall {
	T := func(s string) grammar.Symbol { return grammar.Terminal(s) }
	N := func(s string) grammar.Symbol { return grammar.NonTerminal(s) }

	ab := func() Strings { return Strings{demoStr(N("a"), N("b"))} }
	alt := func() Strings { return Strings{demoStr(T("x")), demoStr(T("y"))} }
	altRev := func() Strings { return Strings{demoStr(T("y")), demoStr(T("x"))} }

	return []demoCall{
		// A single non-terminal lends its name, for every operator, and no number is used up.
		{"opt", Strings{demoStr(N("decl"))}, "gen_decl_opt"},
		{"group", Strings{demoStr(N("decl"))}, "gen_decl_group"},
		{"star", Strings{demoStr(N("decl"))}, "gen_decl_star"},
		{"plus", Strings{demoStr(N("decl"))}, "gen_decl_plus"},
		{"star", Strings{demoStr(N("decl"))}, "gen_decl_star"},

		// A single terminal with a readable name.
		{"opt", Strings{demoStr(T(";"))}, "gen_semi_opt"},
		{"plus", Strings{demoStr(T(";"))}, "gen_semi_plus"},
		{"star", Strings{demoStr(T("{"))}, "gen_rbrace_star"},
		{"group", Strings{demoStr(T("\\"))}, "gen_backslash_group"},
		{"opt", Strings{demoStr(T("\t"))}, "gen_tab_opt"},

		// A single terminal without a readable name is numbered: first number of this table.
		{"opt", Strings{demoStr(T("BOOLEAN"))}, "gen1_opt"},
		{"opt", Strings{demoStr(T("BOOLEAN"))}, "gen1_opt"},
		// Same strings, another operator: the entry exists, the name does not; a new number.
		{"star", Strings{demoStr(T("BOOLEAN"))}, "gen2_star"},
		{"opt", Strings{demoStr(T("BOOLEAN"))}, "gen1_opt"},
		{"star", Strings{demoStr(T("BOOLEAN"))}, "gen2_star"},

		// A string of two symbols.
		{"star", ab(), "gen3_star"},
		{"opt", ab(), "gen4_opt"},
		{"star", ab(), "gen3_star"},
		{"plus", ab(), "gen5_plus"},
		{"group", ab(), "gen6_group"},
		{"group", ab(), "gen6_group"},

		// Two alternatives; their order does not matter.
		{"group", alt(), "gen7_group"},
		{"group", altRev(), "gen7_group"},
		{"plus", altRev(), "gen8_plus"},
		{"plus", alt(), "gen8_plus"},

		// The empty string as the only alternative, and no alternative at all.
		{"opt", Strings{grammar.E}, "gen9_opt"},
		{"opt", Strings{grammar.E}, "gen9_opt"},
		{"group", Strings{}, "gen10_group"},
		{"group", Strings{}, "gen10_group"},
		{"star", nil, "gen11_star"},

		// A non-terminal with an empty name has no readable name.
		{"plus", Strings{demoStr(N(""))}, "gen12_plus"},
		{"plus", Strings{demoStr(N(""))}, "gen12_plus"},

		// Readable names still do not consume numbers.
		{"opt", Strings{demoStr(N("stmt"))}, "gen_stmt_opt"},
		{"opt", Strings{demoStr(T("x"), T("y"))}, "gen13_opt"},
	}
}

func TestRefactorDemo_GeneratedNames(t *testing.T) {
	// The same script on three fresh tables, one after the other: each starts counting at one.
	for round := 0; round < 3; round++ {
		st := NewSymbolTable()
		for i, c := range demoCalls() {
			if got := demoApply(st, c.op, c.s); got != c.want {
				t.Errorf("round %d, call %d (%s): got %q, want %q", round, i, c.op, got, c.want)
			}
		}

		if st.strings.counter != 13 {
			t.Errorf("round %d: counter is %d, want 13", round, st.strings.counter)
		}
	}
}

func TestRefactorDemo_EntriesAreShared(t *testing.T) {
	st := NewSymbolTable()
	s := Strings{demoStr(grammar.NonTerminal("a"), grammar.NonTerminal("b"))}

	if got := st.GetPlus(s); got != "gen1_plus" {
		t.Fatalf("got %q", got)
	}

	e, ok := st.strings.table.Get(s)
	if !ok {
		t.Fatal("no entry after GetPlus")
	}
	if *e != (stringsEntry{Plus: "gen1_plus"}) {
		t.Errorf("entry after GetPlus: %+v", *e)
	}

	if got := st.GetGroup(s); got != "gen2_group" {
		t.Fatalf("got %q", got)
	}
	if got := st.GetOpt(s); got != "gen3_opt" {
		t.Fatalf("got %q", got)
	}
	if got := st.GetStar(s); got != "gen4_star" {
		t.Fatalf("got %q", got)
	}

	e2, _ := st.strings.table.Get(s)
	if e2 != e {
		t.Error("the entry was replaced instead of being completed")
	}
	want := stringsEntry{Group: "gen2_group", Opt: "gen3_opt", Star: "gen4_star", Plus: "gen1_plus"}
	if *e != want {
		t.Errorf("entry: got %+v, want %+v", *e, want)
	}
	if n := st.strings.table.Size(); n != 1 {
		t.Errorf("size of the strings table: %d, want 1", n)
	}

	// Readable names are kept in the entry as well.
	r := Strings{demoStr(grammar.Terminal("+"))}
	if got := st.GetStar(r); got != "gen_plus_star" {
		t.Fatalf("got %q", got)
	}
	er, _ := st.strings.table.Get(r)
	if *er != (stringsEntry{Star: "gen_plus_star"}) {
		t.Errorf("entry: %+v", *er)
	}
	if st.strings.counter != 4 {
		t.Errorf("counter: %d, want 4", st.strings.counter)
	}
}

func TestRefactorDemo_TablesDoNotInterfere(t *testing.T) {
	// Two tables used in turn: the numbers of one are not consumed by the other.
	a, b := NewSymbolTable(), NewSymbolTable()
	s1 := Strings{demoStr(grammar.Terminal("p"), grammar.Terminal("q"))}
	s2 := Strings{demoStr(grammar.Terminal("q"), grammar.Terminal("p"))}

	steps := []struct {
		st   *SymbolTable
		op   string
		s    Strings
		want grammar.NonTerminal
	}{
		{a, "opt", s1, "gen1_opt"},
		{b, "star", s2, "gen1_star"},
		{b, "star", s1, "gen2_star"},
		{a, "star", s1, "gen2_star"},
		{a, "plus", s2, "gen3_plus"},
		{b, "opt", s1, "gen3_opt"},
		{a, "opt", s1, "gen1_opt"},
		{b, "star", s2, "gen1_star"},
	}

	for i, c := range steps {
		if got := demoApply(c.st, c.op, c.s); got != c.want {
			t.Errorf("step %d: got %q, want %q", i, got, c.want)
		}
	}
}

func TestRefactorDemo_ConcurrentTables(t *testing.T) {
	// Many goroutines, each with a table of its own, and one table shared by all of them.
	shared := NewSymbolTable()
	sharedKey := func() Strings {
		return Strings{demoStr(grammar.NonTerminal("u"), grammar.NonTerminal("v"))}
	}

	const workers = 16
	errs := make(chan string, workers*64)
	names := make(chan grammar.NonTerminal, workers)

	var wg sync.WaitGroup
	for w := 0; w < workers; w++ {
		wg.Add(1)
		go func() {
			defer wg.Done()

			st := NewSymbolTable()
			for i, c := range demoCalls() {
				if got := demoApply(st, c.op, c.s); got != c.want {
					errs <- fmt.Sprintf("call %d: got %q, want %q", i, got, c.want)
				}
			}

			names <- shared.GetStar(sharedKey())
		}()
	}
	wg.Wait()
	close(errs)
	close(names)

	for e := range errs {
		t.Error(e)
	}
	for n := range names {
		if n != "gen1_star" {
			t.Errorf("shared table: got %q, want gen1_star", n)
		}
	}
	if shared.strings.counter != 1 {
		t.Errorf("shared table: counter %d, want 1", shared.strings.counter)
	}
}

//==================================================< WHOLE SPECIFICATIONS >==================================================

// demoRender is a canonical text for everything Parse returns.
func demoRender(s *Spec, err error) string {
	if err != nil {
		return "ERROR: " + err.Error()
	}

	var b strings.Builder
	fmt.Fprintf(&b, "name %s\n", s.Name)

	for _, d := range s.Definitions {
		fmt.Fprintf(&b, "def %q %q %t\n", string(d.Terminal), d.Value, d.IsRegex)
	}

	var lines []string
	for A := range s.Grammar.NonTerminals.All() {
		lines = append(lines, "nonterm "+string(A))
	}
	for a := range s.Grammar.Terminals.All() {
		lines = append(lines, fmt.Sprintf("term %q", string(a)))
	}
	for p := range s.Grammar.Productions.All() {
		lines = append(lines, "prod "+p.String())
	}
	sort.Strings(lines)
	b.WriteString(strings.Join(lines, "\n"))

	fmt.Fprintf(&b, "\nprec %s\n", s.Precedences)

	return b.String()
}

func demoGenerated(s *Spec) []string {
	var gen []string
	for A := range s.Grammar.NonTerminals.All() {
		if strings.HasPrefix(string(A), "gen") {
			gen = append(gen, string(A))
		}
	}
	sort.Strings(gen)
	return gen
}

var demoSpecs = []struct {
	name    string
	src     string
	wantGen []string // nil if the specification is rejected
	wantErr string
}{
	{
		name: "numbered",
		src: `grammar one;
start = {a b} [a b] ("x" | "y") {{ ";" }} {a b} {{a b}} ("y" | "x");
a = "a";
b = "b";
`,
		wantGen: []string{"gen1_star", "gen2_opt", "gen3_group", "gen4_plus", "gen_semi_plus"},
	},
	{
		name: "readable",
		src: `grammar two;
start = {decl} {{stmt}} [","] ("+") {decl};
decl = "d";
stmt = "s";
`,
		wantGen: []string{"gen_comma_opt", "gen_decl_star", "gen_plus_group", "gen_stmt_plus"},
	},
	{
		name: "nested",
		src: `grammar three;
ID = $ID
start = { ID [ "=" ID ] ";" } ( ID | ( "(" start ")" ) );
`,
		wantGen: []string{"gen1_opt", "gen2_star", "gen3_group", "gen4_group"},
	},
	{
		name: "plain",
		src: `grammar four;
start = "a" start | ;
`,
		wantGen: []string{},
	},
	{
		name: "rejected",
		src: `grammar five;
start = { ID "," } [ other other ];
`,
		wantErr: `no definition for terminal "ID"`,
	},
	{
		name:    "unparsable",
		src:     "grammar six;\nstart = { \"a\" ;\n",
		wantErr: "unexpected string",
	},
}

func TestRefactorDemo_ParseIsAFunctionOfTheText(t *testing.T) {
	// Every specification on its own.
	isolated := make([]string, len(demoSpecs))
	for i, c := range demoSpecs {
		s, err := Parse(c.name, strings.NewReader(c.src))
		isolated[i] = demoRender(s, err)

		switch {
		case c.wantErr != "":
			if err == nil || !strings.Contains(err.Error(), c.wantErr) {
				t.Errorf("%s: got error %v, want one containing %q", c.name, err, c.wantErr)
			}
		case err != nil:
			t.Errorf("%s: unexpected error: %s", c.name, err)
		default:
			got := demoGenerated(s)
			if fmt.Sprint(got) != fmt.Sprint(c.wantGen) {
				t.Errorf("%s: generated non-terminals %v, want %v", c.name, got, c.wantGen)
			}
		}
	}

	// A few productions spelled out for the first specification.
	for _, want := range []string{
		"prod gen1_star → gen1_star a b",
		"prod gen1_star → ε",
		"prod gen2_opt → a b",
		"prod gen2_opt → ε",
		`prod gen3_group → "x"`,
		`prod gen3_group → "y"`,
		`prod gen_semi_plus → gen_semi_plus ";"`,
		`prod gen_semi_plus → ";"`,
		"prod gen4_plus → gen4_plus a b",
		"prod gen4_plus → a b",
		`prod start → gen1_star gen2_opt gen3_group gen_semi_plus gen1_star gen4_plus gen3_group`,
	} {
		if !strings.Contains(isolated[0]+"\n", want+"\n") {
			t.Errorf("numbered: missing %q in\n%s", want, isolated[0])
		}
	}

	// All of them again in every rotation of the order, and in reverse: nothing is carried over.
	n := len(demoSpecs)
	for shift := 0; shift < n; shift++ {
		for k := 0; k < n; k++ {
			i := (shift + k) % n
			s, err := Parse(demoSpecs[i].name, strings.NewReader(demoSpecs[i].src))
			if got := demoRender(s, err); got != isolated[i] {
				t.Errorf("shift %d: %s differs from the isolated run:\n%s\n---\n%s", shift, demoSpecs[i].name, got, isolated[i])
			}
		}
	}
	for i := n - 1; i >= 0; i-- {
		s, err := Parse(demoSpecs[i].name, strings.NewReader(demoSpecs[i].src))
		if got := demoRender(s, err); got != isolated[i] {
			t.Errorf("reverse: %s differs from the isolated run", demoSpecs[i].name)
		}
	}

	// Whole specifications are deliberately not processed on several goroutines here: the terminal,
	// non-terminal and production tables hash their keys with grammar.HashTerminal, grammar.HashNonTerminal
	// and grammar.HashProduction of the library, which is outside the code this test characterizes.
	// The generated names only go through the strings table; see TestRefactorDemo_ConcurrentTables.
}
