package lexer

import (
	"errors"
	"fmt"
	"io"
	"strings"
	"testing"
	"unicode/utf8"

	"github.com/moorara/algo/lexer"
	"github.com/moorara/algo/lexer/input"
)

// This file characterizes the reader of the input of the EBNF lexer (textInput) through its methods only,
// and the lexer on top of it, so that it passes on both sides of a refactoring of the reader.

// demoModel is a deliberately naive model of the reader. It keeps the runes that have been read for the pending lexeme.
type demoModel struct {
	filename string
	text     []byte
	at       int    // Index of the first byte after the pending lexeme.
	pending  []rune // The pending lexeme.
	pos      lexer.Position
}

func (m *demoModel) endPos() lexer.Position {
	pos := m.pos
	for _, r := range m.pending {
		pos.Offset++
		if r == '\n' {
			pos.Line, pos.Column = pos.Line+1, 1
		} else {
			pos.Column++
		}
	}
	return pos
}

func (m *demoModel) next() (rune, string) {
	if m.at == len(m.text) {
		return 0, "EOF"
	}
	r, size := utf8.DecodeRune(m.text[m.at:])
	if !utf8.Valid(m.text[m.at : m.at+size]) {
		return 0, fmt.Sprintf("%s: invalid utf-8 character", m.endPos())
	}
	m.at += size
	m.pending = append(m.pending, r)
	return r, ""
}

func (m *demoModel) retract() {
	if n := len(m.pending); n > 0 {
		m.at -= utf8.RuneLen(m.pending[n-1])
		m.pending = m.pending[:n-1]
	}
}

func (m *demoModel) skip() (string, lexer.Position) {
	lexeme, pos := string(m.pending), m.pos
	m.pos = m.endPos()
	m.pending = nil
	return lexeme, pos
}

func demoErrString(err error) string {
	switch {
	case err == nil:
		return ""
	case err == io.EOF:
		return "EOF"
	default:
		return err.Error()
	}
}

var demoTexts = []string{
	"",
	"a",
	"\n",
	"\n\n\n",
	"abc",
	"ab\ncd\n",
	"grammar demo;\nexpr = expr \"+\" expr | NUM;\nNUM = /[0-9]+/;\n",
	"\r\n\t x\r\n",
	"é",
	"aé\n€b\n😀c",
	"日本語\nテキスト",
	"\uFFFD",       // A valid encoding of the replacement character is not an error.
	"a\uFFFD\nb",   //
	"\x00",         // NUL is a valid rune.
	"a\x00b\x7f",   //
	"\x80",         // A lone continuation byte.
	"ab\xff",       // An invalid byte at the end.
	"ab\n\xffcd",   // An invalid byte after a newline.
	"x\xc3",        // A truncated two-byte sequence.
	"x\xe2\x82",    // A truncated three-byte sequence.
	"\xe2\x82\xac", // A complete three-byte sequence.
	"\xf0\x9f\x98", // A truncated four-byte sequence.
	"€\xc0\xaf",    // An overlong encoding.
	"\xed\xa0\x80", // A surrogate half.
	"\xf4\x90\x80\x80",
	"é\n\n€\xfe",
	strings.Repeat("ab\n", 50),
	strings.Repeat("\n", 200) + "é",
	strings.Repeat("é€😀", 40) + "\n" + strings.Repeat("x", 30),
}

// TestRefactorDemo_Model runs deterministic sequences of operations on the reader and on the model and compares every result.
func TestRefactorDemo_Model(t *testing.T) {
	steps := 0

	for n, text := range demoTexts {
		for seed := uint32(1); seed <= 12; seed++ {
			in := newTextInput("demo.grammar", []byte(text))
			m := &demoModel{
				filename: "demo.grammar",
				text:     []byte(text),
				pos:      lexer.Position{Filename: "demo.grammar", Offset: 0, Line: 1, Column: 1},
			}

			x := seed * 2654435761
			for step := 0; step < 4*len(text)+40; step++ {
				x = x*1664525 + 1013904223
				where := fmt.Sprintf("text %d, seed %d, step %d", n, seed, step)

				switch op := (x >> 24) % 16; {
				case op < 9:
					r, err := in.Next()
					expectedRune, expectedError := m.next()
					if r != expectedRune || demoErrString(err) != expectedError {
						t.Fatalf("%s: Next() = %q, %q, expected %q, %q", where, r, demoErrString(err), expectedRune, expectedError)
					}
					if err != nil && err != io.EOF {
						var inputErr *input.InputError
						if !errors.As(err, &inputErr) || inputErr.Description != "invalid utf-8 character" || inputErr.Pos != m.endPos() {
							t.Fatalf("%s: Next() error = %#v", where, err)
						}
					}
				case op < 12:
					in.Retract()
					m.retract()
				case op < 14:
					lexeme, pos := in.Lexeme()
					expectedLexeme, expectedPos := m.skip()
					if lexeme != expectedLexeme || pos != expectedPos {
						t.Fatalf("%s: Lexeme() = %q, %v, expected %q, %v", where, lexeme, pos, expectedLexeme, expectedPos)
					}
				default:
					pos := in.Skip()
					_, expectedPos := m.skip()
					if pos != expectedPos {
						t.Fatalf("%s: Skip() = %v, expected %v", where, pos, expectedPos)
					}
				}

				steps++
			}

			// Whatever has happened, the rest of the text is read completely and the end is reported forever.
			for {
				r, err := in.Next()
				expectedRune, expectedError := m.next()
				if r != expectedRune || demoErrString(err) != expectedError {
					t.Fatalf("text %d, seed %d: Next() = %q, %q, expected %q, %q", n, seed, r, demoErrString(err), expectedRune, expectedError)
				}
				if err != nil {
					break
				}
			}

			lexeme, pos := in.Lexeme()
			expectedLexeme, expectedPos := m.skip()
			if lexeme != expectedLexeme || pos != expectedPos {
				t.Fatalf("text %d, seed %d: Lexeme() = %q, %v, expected %q, %v", n, seed, lexeme, pos, expectedLexeme, expectedPos)
			}
		}
	}

	if steps < 10000 {
		t.Fatalf("only %d steps", steps)
	}
}

// TestRefactorDemo_Script pins the results of a fixed script of operations.
func TestRefactorDemo_Script(t *testing.T) {
	tests := []struct {
		name     string
		text     string
		script   string // n: Next, r: Retract, l: Lexeme, s: Skip
		expected []string
	}{
		{
			name:   "Empty",
			text:   "",
			script: "nrlsn",
			expected: []string{
				"n 0 EOF", "r", `l "" f:1:1+0`, "s f:1:1+0", "n 0 EOF",
			},
		},
		{
			name:   "RetractAtLexemeBegin",
			text:   "ab",
			script: "rnlrrnrnnln",
			expected: []string{
				"r", "n 97", `l "a" f:1:1+0`, "r", "r", "n 98", "r", "n 98", "n 0 EOF", `l "b" f:1:2+1`, "n 0 EOF",
			},
		},
		{
			name:   "Lines",
			text:   "a\n\nbc\nd",
			script: "nnlnsnnnrlnnsn",
			expected: []string{
				"n 97", "n 10", `l "a\n" f:1:1+0`, "n 10", "s f:2:1+2", "n 98", "n 99", "n 10", "r", `l "bc" f:3:1+3`,
				"n 10", "n 100", "s f:3:3+5", "n 0 EOF",
			},
		},
		{
			name:   "MultiByte",
			text:   "é\n€😀x",
			script: "nnnrrnlnnrnnln",
			expected: []string{
				"n 233", "n 10", "n 8364", "r", "r", "n 10", `l "é\n" f:1:1+0`, "n 8364", "n 128512", "r", "n 128512", "n 120",
				`l "€😀x" f:2:1+2`, "n 0 EOF",
			},
		},
		{
			name:   "InvalidByte",
			text:   "ab\n\xffc",
			script: "nnnnnrnls",
			expected: []string{
				"n 97", "n 98", "n 10", "n 0 f:2:1+3: invalid utf-8 character", "n 0 f:2:1+3: invalid utf-8 character", "r",
				"n 10", `l "ab\n" f:1:1+0`, "s f:2:1+3",
			},
		},
		{
			name:   "InvalidAfterSkip",
			text:   "é€\xe2\x82",
			script: "nsnnnln",
			expected: []string{
				"n 233", "s f:1:1+0", "n 8364", "n 0 f:1:3+2: invalid utf-8 character", "n 0 f:1:3+2: invalid utf-8 character",
				`l "€" f:1:2+1`, "n 0 f:1:3+2: invalid utf-8 character",
			},
		},
		{
			name:   "ReplacementCharacter",
			text:   "\uFFFD\x00",
			script: "nnrrnln",
			expected: []string{
				"n 65533", "n 0", "r", "r", "n 65533", "l \"\uFFFD\" f:1:1+0", "n 0",
			},
		},
	}

	show := func(pos lexer.Position) string {
		return fmt.Sprintf("%s:%d:%d+%d", pos.Filename, pos.Line, pos.Column, pos.Offset)
	}

	for _, tc := range tests {
		t.Run(tc.name, func(t *testing.T) {
			in := newTextInput("f", []byte(tc.text))
			results := []string{}

			for _, op := range tc.script {
				switch op {
				case 'n':
					r, err := in.Next()
					if err != nil {
						var inputErr *input.InputError
						if errors.As(err, &inputErr) {
							results = append(results, fmt.Sprintf("n %d %s: %s", r, show(inputErr.Pos), inputErr.Description))
						} else {
							results = append(results, fmt.Sprintf("n %d %s", r, demoErrString(err)))
						}
					} else {
						results = append(results, fmt.Sprintf("n %d", r))
					}
				case 'r':
					in.Retract()
					results = append(results, "r")
				case 'l':
					lexeme, pos := in.Lexeme()
					results = append(results, fmt.Sprintf("l %q %s", lexeme, show(pos)))
				case 's':
					results = append(results, "s "+show(in.Skip()))
				}
			}

			if len(results) != len(tc.expected) {
				t.Fatalf("results = %q", results)
			}
			for i := range results {
				if results[i] != tc.expected[i] {
					t.Errorf("result %d = %s, expected %s", i, results[i], tc.expected[i])
				}
			}
		})
	}
}

// TestRefactorDemo_Lexer pins the tokens and the errors of the lexer for specifications that are good, bad, and broken.
func TestRefactorDemo_Lexer(t *testing.T) {
	tests := []struct {
		name     string
		src      string
		expected string
	}{
		{"Empty", "", "EOF"},
		{"OnlyBlank", " \t\r\n\n  ", "EOF"},
		{"OnlyComments", "// one\n/* two\n\n */ // three", "EOF"},
		{"Header", "grammar demo;", `grammar"grammar"@1:1+0 IDENT"demo"@1:9+8 ;";"@1:13+12 EOF`},
		{"Rule", "a = BB\n  | \"x\" ;", `IDENT"a"@1:1+0 ="="@1:3+2 TOKEN"BB"@1:5+4 |"|"@2:3+9 STRING"x"@2:5+11 ;";"@2:9+15 EOF`},
		{"Regex", "NUM = /[0-9]+/\n;", `TOKEN"NUM"@1:1+0 ="="@1:5+4 REGEX"[0-9]+"@1:7+6 ;";"@2:1+15 EOF`},
		{"AfterComment", "/* ab\ncd */ x", `IDENT"x"@2:7+12 EOF`},
		{"NonASCIIInComment", "y\n /* é€\n😀 */ x", `IDENT"y"@1:1+0 ERROR lexical error at f:2:2:/* `},
		{"NonASCIIInString", "y = \"é\";", `IDENT"y"@1:1+0 ="="@1:3+2 ERROR lexical error at f:1:5:"`},
		{"Braces", "{{a}}", `{{"{{"@1:1+0 IDENT"a"@1:3+2 }}"}}"@1:4+3 EOF`},
		{"InvalidByteFirst", "\xff", "ERROR f:1:1: invalid utf-8 character"},
		{"InvalidByteLater", "a = b;\n  \xc3", `IDENT"a"@1:1+0 ="="@1:3+2 IDENT"b"@1:5+4 ;";"@1:6+5 ERROR f:2:3: invalid utf-8 character`},
		{"InvalidByteInComment", "x /* \n\n \x80 */", `IDENT"x"@1:1+0 ERROR f:3:2: invalid utf-8 character`},
		{"InvalidByteInIdent", "ab\xfe", "ERROR f:1:3: invalid utf-8 character"},
	}

	for _, tc := range tests {
		t.Run(tc.name, func(t *testing.T) {
			if got := demoScan(t, tc.src); got != tc.expected {
				t.Errorf("scan = %s\nexpected %s", got, tc.expected)
			}
		})
	}
}

// TestRefactorDemo_LexerTerminates checks that the lexer ends with the end of the input or with an error for broken inputs.
func TestRefactorDemo_LexerTerminates(t *testing.T) {
	srcs := []string{
		"\x00", "é", "a é", "\"", "\"abc", "/", "/abc", "/*", "/* never closed\n\n", "@", "@lef", "$", "$a", "{{{", "}}}}}",
		"a\x00b", "\"\\", "= = = =", "grammar", "grammar ;;;; \"a\" 'b'", "#", "a /* x */ \xf0\x9f\x98",
		strings.Repeat("// c\n", 3000), strings.Repeat("\n", 5000) + "?", strings.Repeat("a ", 2000) + "\xff",
	}

	for n, src := range srcs {
		got := demoScan(t, src)
		if !strings.HasSuffix(got, "EOF") && !strings.Contains(got, "ERROR ") {
			t.Errorf("source %d: scan = %s", n, got)
		}
	}

	// The position of an error after many lines and many tokens.
	if got := demoScan(t, strings.Repeat("\n", 5000)+"?"); !strings.HasPrefix(got, "ERROR ") {
		t.Errorf("scan = %s", got)
	}
	got := demoScan(t, strings.Repeat("a ", 2000)+"\xff")
	if !strings.HasSuffix(got, ` IDENT"a"@1:3999+3998 ERROR f:1:4001: invalid utf-8 character`) {
		t.Errorf("scan = ...%s", got[len(got)-80:])
	}
}

// demoScan returns the tokens of a source and how the scanning has ended.
func demoScan(t *testing.T, src string) string {
	t.Helper()

	lex, err := New("f", strings.NewReader(src))
	if err != nil || lex == nil {
		t.Fatalf("New() = %v, %v", lex, err)
	}

	var b strings.Builder
	for n := 0; n <= len(src); n++ {
		token, err := lex.NextToken()
		if err == io.EOF {
			// The end is reported again.
			if _, err := lex.NextToken(); err != io.EOF {
				t.Fatalf("NextToken() after the end = %v", err)
			}
			return b.String() + "EOF"
		}
		if err != nil {
			return b.String() + "ERROR " + err.Error()
		}
		fmt.Fprintf(&b, "%s%q@%d:%d+%d ", string(token.Terminal), token.Lexeme, token.Pos.Line, token.Pos.Column, token.Pos.Offset)
	}

	t.Fatalf("more tokens than bytes: %s", b.String())
	return ""
}
