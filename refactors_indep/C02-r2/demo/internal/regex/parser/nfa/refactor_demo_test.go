package nfa

import (
	"crypto/sha256"
	"fmt"
	"testing"

	auto "github.com/moorara/algo/automata"
	comb "github.com/moorara/algo/parser/combinator"
)

// This file is a characterization test for the quantifier handling of the regex-to-NFA mappers
// (ToMatch, ToGroup, quantifyNFA and their helpers) and for the membership test of ToCharGroup.
// Every expectation is a concrete value; the test passes on the code before and after the refactoring.

func demoString(s string) auto.String {
	out := auto.String{}
	for _, r := range s {
		out = append(out, auto.Symbol(r))
	}
	return out
}

// demoFingerprint pins the exact structure (state numbering and transitions) of an automaton.
func demoFingerprint(s fmt.Stringer) string {
	h := sha256.Sum256([]byte(s.String()))
	return fmt.Sprintf("%x", h[:6])
}

func TestRefactorDemo_QuantifiedPatterns(t *testing.T) {
	tests := []struct {
		regex   string
		accepts []string
		rejects []string
		states  int    // number of states of the NFA
		nfa     string // fingerprint of the NFA
		dfa     string // fingerprint of the determinised, minimised, pruned and reindexed DFA
	}{
		// Simple repetitions of a single character
		{`a?`, []string{"", "a"}, []string{"aa", "b", "ab"}, 6, "f7019cc42cf5", "54acb579f2dd"},
		{`a*`, []string{"", "a", "aa", "aaaaaaa"}, []string{"b", "ab", "aab"}, 4, "58f2e5d3612f", "75807f8c48df"},
		{`a+`, []string{"a", "aa", "aaaaaaa"}, []string{"", "b", "ab", "ba"}, 5, "d492026fe814", "70a1c226cf18"},

		// Range repetitions of a single character
		{`a{0}`, []string{""}, []string{"a", "aa"}, 2, "897cacd56ea3", "fa91914e154f"},
		{`a{1}`, []string{"a"}, []string{"", "aa"}, 2, "79bc7df13b13", "0a90b5f212a5"},
		{`a{3}`, []string{"aaa"}, []string{"", "a", "aa", "aaaa"}, 4, "cc5ee75d70cd", "fab236c99210"},
		{`a{12}`, []string{"aaaaaaaaaaaa"}, []string{"", "aaaaaaaaaaa", "aaaaaaaaaaaaa"}, 13, "2adc04fa5721", "43c2a6b02b01"},
		{`a{0,}`, []string{"", "a", "aaaa"}, []string{"b", "ab"}, 4, "58f2e5d3612f", "75807f8c48df"},
		{`a{2,}`, []string{"aa", "aaa", "aaaaaaa"}, []string{"", "a", "aab"}, 6, "ac8d1b6c065a", "5ab7ae907c94"},
		{`a{0,0}`, []string{""}, []string{"a", "aa"}, 2, "897cacd56ea3", "fa91914e154f"},
		{`a{0,2}`, []string{"", "a", "aa"}, []string{"aaa", "b"}, 11, "b00825f9fce0", "7124f721c1fb"},
		{`a{2,4}`, []string{"aa", "aaa", "aaaa"}, []string{"", "a", "aaaaa"}, 13, "66f377b95f24", "b2be6b64ee34"},
		{`a{3,3}`, []string{"aaa"}, []string{"", "aa", "aaaa"}, 4, "cc5ee75d70cd", "fab236c99210"},

		// Lazy quantifiers accept the same language as the greedy ones
		{`a??`, []string{"", "a"}, []string{"aa", "b"}, 6, "f7019cc42cf5", "54acb579f2dd"},
		{`a*?`, []string{"", "a", "aaa"}, []string{"b", "ab"}, 4, "58f2e5d3612f", "75807f8c48df"},
		{`a+?`, []string{"a", "aaa"}, []string{"", "b"}, 5, "d492026fe814", "70a1c226cf18"},
		{`a{2}?`, []string{"aa"}, []string{"", "a", "aaa"}, 3, "571f46c638bb", "72382283eb77"},
		{`a{2,}?`, []string{"aa", "aaaaa"}, []string{"", "a"}, 6, "ac8d1b6c065a", "5ab7ae907c94"},
		{`a{1,3}?`, []string{"a", "aa", "aaa"}, []string{"", "aaaa"}, 12, "0f6c4770f311", "5e4646c6ee91"},

		// Quantified groups
		{`(ab)?`, []string{"", "ab"}, []string{"a", "b", "abab", "aba"}, 7, "f77e3f2185cb", "6c61c5cb244d"},
		{`(ab)*`, []string{"", "ab", "abab", "ababab"}, []string{"a", "aba", "ba"}, 5, "17279ed154c7", "4a7846c2398b"},
		{`(ab)+`, []string{"ab", "abab"}, []string{"", "a", "aba"}, 7, "4440848fe7b7", "37c41020dbdf"},
		{`(ab){2}`, []string{"abab"}, []string{"", "ab", "ababab"}, 5, "aa27f8eab9b6", "bbd460270adb"},
		{`(ab){1,}`, []string{"ab", "ababab"}, []string{"", "b"}, 7, "4440848fe7b7", "37c41020dbdf"},
		{`(ab){1,2}`, []string{"ab", "abab"}, []string{"", "ababab", "aba"}, 9, "b8521ea27503", "196d9bc90996"},
		{`(a|b){2,3}c`, []string{"aac", "abc", "bbac", "abbc"}, []string{"c", "ac", "aabbc", "aab"}, 21, "b2765e6eeea5", "830521b66165"},
		{`(ab)+?c`, []string{"abc", "ababc"}, []string{"c", "ab", "abac"}, 8, "85e2408cc052", "e3c204591057"},
		{`(a|bc)*?d`, []string{"d", "ad", "bcd", "abcad"}, []string{"", "bd", "a"}, 10, "10385dae3327", "59518ac89e24"},
		{`(a+)+`, []string{"a", "aaaa"}, []string{"", "b"}, 11, "02a392a3071d", "70a1c226cf18"},
		{`x(y(z)?)*`, []string{"x", "xy", "xyz", "xyyzy"}, []string{"", "xz", "xyzz"}, 10, "166b82b35090", "0a505d1aaec1"},

		// Quantified classes and groups of characters
		{`[a-c]{2}`, []string{"aa", "bc", "ca"}, []string{"", "a", "ad", "abc"}, 3, "921c25d9ffda", "0347123d389c"},
		{`[^a-c]`, []string{"d", "x", "9", "Z", "-"}, []string{"a", "b", "c", "dd"}, 2, "d27dc385090a", "2017b1f66c73"},
		{`[^a-c]?x`, []string{"x", "dx", "xx", "9x"}, []string{"", "ax", "cx", "ddx"}, 7, "276e509d6a48", "40fefd9ef819"},
		{`[a\d]+`, []string{"a", "7", "a1a2"}, []string{"", "b", "a-1"}, 5, "c85d69bf6c33", "e04017e4d8f7"},
		{`\d+`, []string{"0", "2024"}, []string{"", "a", "1a"}, 5, "baab8bdb0844", "25d406a44a84"},
		{`\D`, []string{"a", "Z", " "}, []string{"0", "9", "aa"}, 2, "7a8b61bee17e", "ec2602b08301"},
		{`\w{1,2}`, []string{"a", "_9", "Zz"}, []string{"", "-", "abc"}, 7, "5f5196bd87ec", "86aa83a42f22"},
		{`[[:alpha:]]+`, []string{"a", "Zebra"}, []string{"", "a1", "_"}, 5, "3805821020d2", "8a2c28dfd154"},
		{`\p{Lu}{2}`, []string{"AB", "ZZ"}, []string{"", "A", "Ab", "ABC"}, 3, "0795eed52071", "ef5c2f5dbef2"},
		{`\P{L}?`, []string{"", "9", "-"}, []string{"a", "Z", "99"}, 6, "2a02d3c2e07a", "beb0b20b79e8"},
		{`.?a`, []string{"a", "aa", "xa", "9a"}, []string{"", "x", "xxa"}, 7, "cb8c9fb433f4", "e070233ad435"},

		// Mixed
		{`a{2}b{0,1}c{1,}`, []string{"aac", "aabc", "aabccc"}, []string{"", "aab", "abc", "aabbc"}, 12, "f236effcd65c", "c8c595591d8d"},
		{`a|b+`, []string{"a", "b", "bbb"}, []string{"", "ab", "aa"}, 9, "6b607900f611", "afd2986703cc"},
		{`^ab?$`, []string{"a", "ab"}, []string{"", "abb", "b"}, 7, "861b452a13cd", "11e0b53289e0"},
	}

	for _, tc := range tests {
		t.Run(tc.regex, func(t *testing.T) {
			n, err := Parse(tc.regex)
			if err != nil {
				t.Fatalf("unexpected error: %s", err)
			}

			d := n.ToDFA().Minimize().EliminateDeadStates().ReindexStates()

			for _, s := range tc.accepts {
				if !n.Accept(demoString(s)) {
					t.Errorf("NFA should accept %q", s)
				}
				if !d.Accept(demoString(s)) {
					t.Errorf("DFA should accept %q", s)
				}
			}

			for _, s := range tc.rejects {
				if n.Accept(demoString(s)) {
					t.Errorf("NFA should reject %q", s)
				}
				if d.Accept(demoString(s)) {
					t.Errorf("DFA should reject %q", s)
				}
			}

			if got := len(n.States()); got != tc.states {
				t.Errorf("NFA states: expected %d, got %d", tc.states, got)
			}
			if got := demoFingerprint(n); got != tc.nfa {
				t.Errorf("NFA fingerprint: expected %s, got %s", tc.nfa, got)
			}
			if got := demoFingerprint(d); got != tc.dfa {
				t.Errorf("DFA fingerprint: expected %s, got %s", tc.dfa, got)
			}
		})
	}
}

func TestRefactorDemo_Errors(t *testing.T) {
	tests := []struct {
		regex string
		err   string
	}{
		{`a{3,1}`, "invalid repetition range {3,1}"},
		{`(ab){2,0}?`, "invalid repetition range {2,0}"},
		{`a{2`, "invalid regular expression: a{2"},
		{`(a`, "invalid regular expression: (a"},
		{`[z-a]`, "invalid character range z-a"},
	}

	for _, tc := range tests {
		n, err := Parse(tc.regex)
		if n != nil || err == nil || err.Error() != tc.err {
			t.Errorf("%s: expected error %q, got %v (nfa: %v)", tc.regex, tc.err, err, n)
		}
	}
}

func TestRefactorDemo_MatchAndGroupMappers(t *testing.T) {
	two, four := 2, 4
	x := func() *auto.NFA { return runeToNFA('x') }
	opt := func() *auto.NFA { return empty().Union(x()) }
	lazyBag := comb.Bag{bagKeyLazyQuantifier: true}

	tests := []struct {
		name       string
		quantifier comb.Result
		expected   *auto.NFA // nil means the operand is passed through untouched
		expectNil  bool      // the quantified NFA is a nil *auto.NFA
		bag        comb.Bag
	}{
		{"Absent", comb.Result{Val: comb.Empty{}}, nil, false, nil},
		{"AbsentNilVal", comb.Result{}, nil, false, nil},
		{"ZeroOrOne", comb.Result{Val: tuple[any, bool]{p: '?', q: false}}, opt(), false, nil},
		{"ZeroOrOneLazy", comb.Result{Val: tuple[any, bool]{p: '?', q: true}}, opt(), false, lazyBag},
		{"ZeroOrMore", comb.Result{Val: tuple[any, bool]{p: '*', q: false}}, x().Star(), false, nil},
		{"OneOrMoreLazy", comb.Result{Val: tuple[any, bool]{p: '+', q: true}}, x().Concat(x().Star()), false, lazyBag},
		{"UnknownOperator", comb.Result{Val: tuple[any, bool]{p: '!', q: false}}, nil, true, nil},
		{"UnknownOperatorLazy", comb.Result{Val: tuple[any, bool]{p: '!', q: true}}, nil, true, lazyBag},
		{"UnknownQuantifierType", comb.Result{Val: tuple[any, bool]{p: "*", q: false}}, nil, true, nil},
		{"NilQuantifier", comb.Result{Val: tuple[any, bool]{p: nil, q: true}}, nil, true, lazyBag},
		{"Exactly2", comb.Result{Val: tuple[any, bool]{p: tuple[int, *int]{p: 2, q: &two}}}, x().Concat(x()), false, nil},
		{"Exactly0", comb.Result{Val: tuple[any, bool]{p: tuple[int, *int]{p: 0, q: new(int)}}}, empty(), false, nil},
		{"AtLeast0", comb.Result{Val: tuple[any, bool]{p: tuple[int, *int]{p: 0, q: nil}}}, x().Star().Concat(), false, nil},
		{"AtLeast2Lazy", comb.Result{Val: tuple[any, bool]{p: tuple[int, *int]{p: 2, q: nil}, q: true}}, x().Concat(x(), x().Star()), false, lazyBag},
		{"From2To4", comb.Result{Val: tuple[any, bool]{p: tuple[int, *int]{p: 2, q: &four}}}, x().Concat(x(), opt(), opt()), false, nil},
		{"From0To2Lazy", comb.Result{Val: tuple[any, bool]{p: tuple[int, *int]{p: 0, q: &two}, q: true}}, opt().Concat(opt()), false, lazyBag},
		{"UpperBelowLower", comb.Result{Val: tuple[any, bool]{p: tuple[int, *int]{p: 4, q: &two}}}, x().Concat(x(), x(), x()), false, nil},
		{"NegativeLower", comb.Result{Val: tuple[any, bool]{p: tuple[int, *int]{p: -1, q: &two}}}, opt().Concat(opt(), opt()), false, nil},
	}

	check := func(t *testing.T, operand *auto.NFA, res comb.Result, ok bool, pos int, tc int) {
		t.Helper()
		c := tests[tc]

		if !ok {
			t.Fatalf("mapper failed")
		}
		if res.Pos != pos {
			t.Errorf("expected position %d, got %d", pos, res.Pos)
		}

		got, isNFA := res.Val.(*auto.NFA)
		switch {
		case !isNFA:
			t.Errorf("expected an NFA value, got %T", res.Val)
		case c.expectNil:
			if got != nil {
				t.Errorf("expected a nil NFA, got %s", got)
			}
		case c.expected == nil:
			if got != operand {
				t.Errorf("expected the operand NFA to be passed through")
			}
		case !got.Equal(c.expected):
			t.Errorf("expected NFA %s, got %s", c.expected, got)
		}

		if c.bag == nil {
			if res.Bag != nil {
				t.Errorf("expected a nil bag, got %v", res.Bag)
			}
		} else if len(res.Bag) != 1 || res.Bag[bagKeyLazyQuantifier] != true {
			t.Errorf("expected the lazy quantifier bag, got %v", res.Bag)
		}
	}

	for i, tc := range tests {
		t.Run("ToMatch/"+tc.name, func(t *testing.T) {
			operand := x()
			res, ok := new(mappers).ToMatch(comb.Result{
				Val: comb.List{
					{Val: operand, Pos: 3},
					tc.quantifier,
				},
				Pos: 3,
			})
			check(t, operand, res, ok, 3, i)
		})

		t.Run("ToGroup/"+tc.name, func(t *testing.T) {
			operand := x()
			res, ok := new(mappers).ToGroup(comb.Result{
				Val: comb.List{
					{Val: '(', Pos: 5},
					{Val: operand, Pos: 6},
					{Val: ')', Pos: 7},
					tc.quantifier,
				},
				Pos: 5,
			})
			check(t, operand, res, ok, 5, i)
		})
	}
}

func TestRefactorDemo_CharGroupMembership(t *testing.T) {
	items := comb.List{
		{Val: runeToNFA('b'), Bag: comb.Bag{bagKeyChars: []rune{'b'}}},
		{Val: runeToNFA('x'), Bag: comb.Bag{bagKeyChars: []rune{'x', 'y', 'z'}}},
		{Val: runeToNFA('q')}, // no characters in the bag
	}

	for _, neg := range []bool{false, true} {
		negation := comb.Result{Val: comb.Empty{}}
		if neg {
			negation = comb.Result{Val: '^', Pos: 1}
		}

		m := new(mappers)
		res, ok := m.ToCharGroup(comb.Result{
			Val: comb.List{
				{Val: '[', Pos: 0},
				negation,
				{Val: items, Pos: 2},
				{Val: ']', Pos: 9},
			},
		})

		if !ok || m.errors != nil || res.Pos != 0 || res.Bag != nil {
			t.Fatalf("neg=%t: unexpected result %v, %t, %v", neg, res, ok, m.errors)
		}

		n := res.Val.(*auto.NFA)
		members := 0
		for c := rune(1); c < 0x80; c++ {
			listed := c == 'b' || c == 'x' || c == 'y' || c == 'z'
			accepted := n.Accept(auto.String{auto.Symbol(c)})
			if accepted != (listed != neg) {
				t.Errorf("neg=%t: unexpected membership %t for %q", neg, accepted, c)
			}
			if accepted {
				members++
			}
		}

		if expected := map[bool]int{false: 4, true: 123}[neg]; members != expected {
			t.Errorf("neg=%t: expected %d members, got %d", neg, expected, members)
		}
		if n.Accept(demoString("bx")) || len(n.States()) != 2 {
			t.Errorf("neg=%t: a character group must match exactly one character", neg)
		}
	}
}
