package lexer

import (
	"errors"
	"fmt"
	"io"
	"strings"
	"testing"

	"github.com/moorara/algo/grammar"
	"github.com/moorara/algo/lexer"
	"github.com/moorara/algo/lexer/input"
)

// demoTok is a token without its position.
type demoTok struct {
	term   grammar.Terminal
	lexeme string
}

// demoScan scans the whole text and returns the tokens, and the error that ended the scan (io.EOF for a clean end).
func demoScan(t *testing.T, filename, text string) ([]lexer.Token, error) {
	t.Helper()

	l, err := New(filename, strings.NewReader(text))
	if err != nil {
		t.Fatalf("New: %v", err)
	}

	var tokens []lexer.Token
	for n := 0; n <= len(text)+1; n++ {
		tok, err := l.NextToken()
		if err != nil {
			return tokens, err
		}
		tokens = append(tokens, tok)
	}

	t.Fatalf("scan of %q does not end", text)
	return nil, nil
}

// demoPosAt is the reference model: the position of the byte index idx in text, counting runes and '\n' only.
func demoPosAt(filename, text string, idx int) lexer.Position {
	pos := lexer.Position{Filename: filename, Offset: 0, Line: 1, Column: 1}
	for _, r := range text[:idx] {
		pos.Offset++
		if r == '\n' {
			pos.Line++
			pos.Column = 1
		} else {
			pos.Column++
		}
	}
	return pos
}

func demoP(filename string, offset, line, column int) lexer.Position {
	return lexer.Position{Filename: filename, Offset: offset, Line: line, Column: column}
}

// TestRefactorDemo_ConcreteTokens pins tokens and positions for hand-written inputs.
func TestRefactorDemo_ConcreteTokens(t *testing.T) {
	const f = "demo.grammar"

	tests := []struct {
		name     string
		text     string
		expected []lexer.Token
		endError string
	}{
		{
			name:     "Empty",
			text:     "",
			expected: nil,
			endError: "EOF",
		},
		{
			name:     "OnlyLayout",
			text:     " \t\r\n\n// c\n/* m\n\n */ \n",
			expected: nil,
			endError: "EOF",
		},
		{
			name: "NoFinalNewline",
			text: "grammar demo",
			expected: []lexer.Token{
				{Terminal: GRAMMER, Lexeme: "grammar", Pos: demoP(f, 0, 1, 1)},
				{Terminal: IDENT, Lexeme: "demo", Pos: demoP(f, 8, 1, 9)},
			},
			endError: "EOF",
		},
		{
			name: "FinalNewline",
			text: "grammar demo\n",
			expected: []lexer.Token{
				{Terminal: GRAMMER, Lexeme: "grammar", Pos: demoP(f, 0, 1, 1)},
				{Terminal: IDENT, Lexeme: "demo", Pos: demoP(f, 8, 1, 9)},
			},
			endError: "EOF",
		},
		{
			name: "RuleOverLines",
			text: "grammar g;\n\nexpr = expr \"+\" NUM\n     | {{ x }} ;\nNUM = /[0-9]+/\n@left \"+\"",
			expected: []lexer.Token{
				{Terminal: GRAMMER, Lexeme: "grammar", Pos: demoP(f, 0, 1, 1)},
				{Terminal: IDENT, Lexeme: "g", Pos: demoP(f, 8, 1, 9)},
				{Terminal: SEMI, Lexeme: ";", Pos: demoP(f, 9, 1, 10)},
				{Terminal: IDENT, Lexeme: "expr", Pos: demoP(f, 12, 3, 1)},
				{Terminal: DEF, Lexeme: "=", Pos: demoP(f, 17, 3, 6)},
				{Terminal: IDENT, Lexeme: "expr", Pos: demoP(f, 19, 3, 8)},
				{Terminal: STRING, Lexeme: "+", Pos: demoP(f, 24, 3, 13)},
				{Terminal: TOKEN, Lexeme: "NUM", Pos: demoP(f, 28, 3, 17)},
				{Terminal: ALT, Lexeme: "|", Pos: demoP(f, 37, 4, 6)},
				{Terminal: LLBRACE, Lexeme: "{{", Pos: demoP(f, 39, 4, 8)},
				{Terminal: IDENT, Lexeme: "x", Pos: demoP(f, 42, 4, 11)},
				{Terminal: RRBRACE, Lexeme: "}}", Pos: demoP(f, 44, 4, 13)},
				{Terminal: SEMI, Lexeme: ";", Pos: demoP(f, 47, 4, 16)},
				{Terminal: TOKEN, Lexeme: "NUM", Pos: demoP(f, 49, 5, 1)},
				{Terminal: DEF, Lexeme: "=", Pos: demoP(f, 53, 5, 5)},
				{Terminal: REGEX, Lexeme: "[0-9]+", Pos: demoP(f, 55, 5, 7)},
				{Terminal: LASSOC, Lexeme: "@left", Pos: demoP(f, 64, 6, 1)},
				{Terminal: STRING, Lexeme: "+", Pos: demoP(f, 70, 6, 7)},
			},
			endError: "EOF",
		},
		{
			name: "CarriageReturnsDoNotCountAsLines",
			text: "a\r\nb\r\rc",
			expected: []lexer.Token{
				{Terminal: IDENT, Lexeme: "a", Pos: demoP(f, 0, 1, 1)},
				{Terminal: IDENT, Lexeme: "b", Pos: demoP(f, 3, 2, 1)},
				{Terminal: IDENT, Lexeme: "c", Pos: demoP(f, 6, 2, 4)},
			},
			endError: "EOF",
		},
		{
			name: "MultiLineCommentMovesLineAndColumn",
			text: "a /* x\n\n  y */ b /* z */ c",
			expected: []lexer.Token{
				{Terminal: IDENT, Lexeme: "a", Pos: demoP(f, 0, 1, 1)},
				{Terminal: IDENT, Lexeme: "b", Pos: demoP(f, 15, 3, 8)},
				{Terminal: IDENT, Lexeme: "c", Pos: demoP(f, 25, 3, 18)},
			},
			endError: "EOF",
		},
		{
			name: "KeywordPrefixesAndRetraction",
			text: "gram grammars grammar{x}{{}}<$A>",
			expected: []lexer.Token{
				{Terminal: IDENT, Lexeme: "gram", Pos: demoP(f, 0, 1, 1)},
				{Terminal: IDENT, Lexeme: "grammars", Pos: demoP(f, 5, 1, 6)},
				{Terminal: GRAMMER, Lexeme: "grammar", Pos: demoP(f, 14, 1, 15)},
				{Terminal: LBRACE, Lexeme: "{", Pos: demoP(f, 21, 1, 22)},
				{Terminal: IDENT, Lexeme: "x", Pos: demoP(f, 22, 1, 23)},
				{Terminal: RBRACE, Lexeme: "}", Pos: demoP(f, 23, 1, 24)},
				{Terminal: LLBRACE, Lexeme: "{{", Pos: demoP(f, 24, 1, 25)},
				{Terminal: RRBRACE, Lexeme: "}}", Pos: demoP(f, 26, 1, 27)},
				{Terminal: LANGLE, Lexeme: "<", Pos: demoP(f, 28, 1, 29)},
				{Terminal: PREDEF, Lexeme: "$A", Pos: demoP(f, 29, 1, 30)},
				{Terminal: RANGLE, Lexeme: ">", Pos: demoP(f, 31, 1, 32)},
			},
			endError: "EOF",
		},
		{
			name: "UnknownCharacterAfterLayout",
			text: "a\n  # b",
			expected: []lexer.Token{
				{Terminal: IDENT, Lexeme: "a", Pos: demoP(f, 0, 1, 1)},
			},
			endError: "lexical error at demo.grammar:2:3:",
		},
		{
			name: "UnfinishedAssociativity",
			text: "x\n\t@lef t",
			expected: []lexer.Token{
				{Terminal: IDENT, Lexeme: "x", Pos: demoP(f, 0, 1, 1)},
			},
			endError: "lexical error at demo.grammar:2:2:@lef",
		},
		{
			name:     "UnfinishedStringAtEnd",
			text:     "\n\n \"ab",
			expected: nil,
			endError: "lexical error at demo.grammar:3:2:\"ab",
		},
		{
			name:     "UnfinishedCommentOverLines",
			text:     " /* é\nx",
			expected: nil,
			endError: "lexical error at demo.grammar:1:2:/* ",
		},
		{
			name: "NonASCIIRuneEndsSingleLineComment",
			text: "a // é\nb",
			expected: []lexer.Token{
				{Terminal: IDENT, Lexeme: "a", Pos: demoP(f, 0, 1, 1)},
			},
			endError: "lexical error at demo.grammar:1:6:",
		},
		{
			name: "ReplacementCharacterIsAValidRune",
			text: "a �",
			expected: []lexer.Token{
				{Terminal: IDENT, Lexeme: "a", Pos: demoP(f, 0, 1, 1)},
			},
			endError: "lexical error at demo.grammar:1:3:",
		},
	}

	for _, tc := range tests {
		t.Run(tc.name, func(t *testing.T) {
			tokens, err := demoScan(t, f, tc.text)

			if len(tokens) != len(tc.expected) {
				t.Fatalf("tokens: got %v, want %v", tokens, tc.expected)
			}
			for i := range tokens {
				if tokens[i] != tc.expected[i] {
					t.Errorf("token %d: got %#v, want %#v", i, tokens[i], tc.expected[i])
				}
			}
			if err == nil || err.Error() != tc.endError {
				t.Errorf("end: got %v, want %s", err, tc.endError)
			}
		})
	}
}

// TestRefactorDemo_InvalidUTF8 pins the error for bytes that are not UTF-8: its position is that of the offending byte.
func TestRefactorDemo_InvalidUTF8(t *testing.T) {
	tests := []struct {
		text        string
		tokens      int
		expectedPos lexer.Position
	}{
		{"\xff", 0, demoP("u", 0, 1, 1)},
		{"ab\n c\xffd", 1, demoP("u", 5, 2, 3)},  // the lexeme "c" is pending and is not returned
		{"\n\n\"ab\xc3", 0, demoP("u", 5, 3, 4)}, // truncated encoding at the end, the lexeme "ab is pending
		{"x \xe2\x82", 1, demoP("u", 2, 1, 3)},
		{"\t\t\n\xf0\x9f\x98 a", 0, demoP("u", 3, 2, 1)},
	}

	for i, tc := range tests {
		t.Run(fmt.Sprint(i), func(t *testing.T) {
			tokens, err := demoScan(t, "u", tc.text)
			if len(tokens) != tc.tokens {
				t.Errorf("tokens: got %v, want %d tokens", tokens, tc.tokens)
			}

			var inErr *input.InputError
			if !errors.As(err, &inErr) {
				t.Fatalf("got %v, want an InputError", err)
			}
			if inErr.Description != "invalid utf-8 character" || inErr.Pos != tc.expectedPos {
				t.Errorf("got %q at %#v, want %#v", inErr.Description, inErr.Pos, tc.expectedPos)
			}
		})
	}
}

// TestRefactorDemo_LayoutIndependence scans a sequence of tokens under many layouts:
// the tokens are always the same and every position is that of the reference model.
func TestRefactorDemo_LayoutIndependence(t *testing.T) {
	const f = "layout"

	// The pieces of the text; a separator is put before each of them, and after the last one.
	pieces := []string{
		"grammar", "demo", ";", "expr", "=", "expr", `"+"`, "term", "|", "[", "term", "]", "{", "X_1", "}", "(", "$STRING", ")",
		"{{", `"\""`, "}}", "<", "expr", ">", "@left", `"*"`, "@right", `"^"`, "@none", "ID", "=", `/[a-z]\/+/`, ";", "gram", "grammar_",
	}
	expected := []demoTok{
		{GRAMMER, "grammar"}, {IDENT, "demo"}, {SEMI, ";"}, {IDENT, "expr"}, {DEF, "="}, {IDENT, "expr"}, {STRING, "+"}, {IDENT, "term"},
		{ALT, "|"}, {LBRACK, "["}, {IDENT, "term"}, {RBRACK, "]"}, {LBRACE, "{"}, {TOKEN, "X_1"}, {RBRACE, "}"}, {LPAREN, "("},
		{PREDEF, "$STRING"}, {RPAREN, ")"}, {LLBRACE, "{{"}, {STRING, `\"`}, {RRBRACE, "}}"}, {LANGLE, "<"}, {IDENT, "expr"}, {RANGLE, ">"},
		{LASSOC, "@left"}, {STRING, "*"}, {RASSOC, "@right"}, {STRING, "^"}, {NOASSOC, "@none"}, {TOKEN, "ID"}, {DEF, "="},
		{REGEX, `[a-z]\/+`}, {SEMI, ";"}, {IDENT, "gram"}, {IDENT, "grammar_"},
	}

	separators := []string{
		" ", "\n", "\t", "\r\n", "  \t ", "\n\n\n", " // note = | ;\n", "/**/", " /* a\n * b\n */ ", "/* ** / */", "\n//\n//\n\t",
		" " + strings.Repeat(" ", 4100) + "\n", strings.Repeat("/* pad */\n", 500), strings.Repeat("\n", 9000),
	}

	check := func(t *testing.T, text string, begins []int) {
		t.Helper()

		tokens, err := demoScan(t, f, text)
		if !errors.Is(err, io.EOF) {
			t.Fatalf("end: got %v, want EOF", err)
		}
		if len(tokens) != len(expected) {
			t.Fatalf("got %d tokens, want %d", len(tokens), len(expected))
		}

		for i, tok := range tokens {
			if tok.Terminal != expected[i].term || tok.Lexeme != expected[i].lexeme {
				t.Errorf("token %d: got %s %q, want %s %q", i, tok.Terminal, tok.Lexeme, expected[i].term, expected[i].lexeme)
			}
			if want := demoPosAt(f, text, begins[i]); tok.Pos != want {
				t.Errorf("token %d: got position %#v, want %#v", i, tok.Pos, want)
			}
		}
	}

	build := func(sep func(i int) string) (string, []int) {
		var b strings.Builder
		begins := make([]int, len(pieces))
		for i, p := range pieces {
			b.WriteString(sep(i))
			begins[i] = b.Len()
			b.WriteString(p)
		}
		b.WriteString(sep(len(pieces)))
		return b.String(), begins
	}

	// The same separator everywhere.
	for i, s := range separators {
		t.Run(fmt.Sprintf("Uniform%d", i), func(t *testing.T) {
			text, begins := build(func(int) string { return s })
			check(t, text, begins)
		})
	}

	// Rotating separators; nothing after the last token in every second case, so that the text ends in a lexeme.
	for shift := 0; shift < len(separators); shift++ {
		t.Run(fmt.Sprintf("Mixed%d", shift), func(t *testing.T) {
			text, begins := build(func(i int) string {
				if i == len(pieces) && shift%2 == 1 {
					return ""
				}
				return separators[(i*7+shift)%len(separators)]
			})
			check(t, text, begins)
		})
	}

	// No separator where the pieces can touch.
	t.Run("Dense", func(t *testing.T) {
		text, begins := build(func(i int) string {
			if i == 0 || i == len(pieces) {
				return ""
			}
			prev, next := pieces[i-1], pieces[i]
			word := func(s string) bool {
				c := s[0]
				return c == '_' || c >= '0' && c <= '9' || c >= 'a' && c <= 'z' || c >= 'A' && c <= 'Z'
			}
			last := prev[len(prev)-1:]
			if word(last) && word(next) || last == "{" && next[0] == '{' || last == "}" && next[0] == '}' {
				return " "
			}
			return ""
		})
		check(t, text, begins)
	})

	// Padding of every length around the sizes of the buffers of a reader: positions move by exactly the padding.
	base, begins := build(func(int) string { return " " })
	for _, n := range []int{0, 1, 2, 1023, 1024, 1025, 2047, 2048, 2049, 4095, 4096, 4097, 8191, 8192, 8193, 65536, 100003} {
		for _, unit := range []string{" ", "\n", "\t\n", "//x\n"} {
			t.Run(fmt.Sprintf("Padding%d_%q", n, unit), func(t *testing.T) {
				pad := strings.Repeat(unit, n/len(unit)+1)[:n/len(unit)*len(unit)]
				moved := make([]int, len(begins))
				for i, b := range begins {
					moved[i] = b + len(pad)
				}
				check(t, pad+base, moved)
			})
		}
	}
}

// TestRefactorDemo_InputBuffer drives the reader of the input directly, through the methods that the lexer uses.
func TestRefactorDemo_InputBuffer(t *testing.T) {
	var in inputBuffer = newTextInput("buf", []byte("ab\ncé\n\n\U0001F600z"))

	next := func(want rune) {
		t.Helper()
		if r, err := in.Next(); err != nil || r != want {
			t.Fatalf("Next: got %q, %v, want %q", r, err, want)
		}
	}

	// A retraction with no pending lexeme is harmless.
	in.Retract()
	if pos := in.Skip(); pos != demoP("buf", 0, 1, 1) {
		t.Fatalf("Skip: got %#v", pos)
	}

	next('a')
	next('b')
	next('\n')
	in.Retract()
	if val, pos := in.Lexeme(); val != "ab" || pos != demoP("buf", 0, 1, 1) {
		t.Fatalf("Lexeme: got %q %#v", val, pos)
	}

	// An empty lexeme: the position does not move.
	if val, pos := in.Lexeme(); val != "" || pos != demoP("buf", 2, 1, 3) {
		t.Fatalf("Lexeme: got %q %#v", val, pos)
	}

	next('\n')
	next('c')
	next('é')
	in.Retract() // Two bytes
	next('é')
	next('\n')
	if pos := in.Skip(); pos != demoP("buf", 2, 1, 3) {
		t.Fatalf("Skip: got %#v", pos)
	}

	// The skipped lexeme "\ncé\n" is 4 runes (5 bytes) with two newlines.
	next('\n')
	next('\U0001F600')
	in.Retract() // Four bytes
	in.Retract()
	in.Retract() // Nothing is pending any more.
	next('\n')
	next('\U0001F600')
	if val, pos := in.Lexeme(); val != "\n\U0001F600" || pos != demoP("buf", 6, 3, 1) {
		t.Fatalf("Lexeme: got %q %#v", val, pos)
	}

	next('z')
	for n := 0; n < 3; n++ {
		if r, err := in.Next(); err != io.EOF || r != 0 {
			t.Fatalf("Next: got %q, %v, want EOF", r, err)
		}
	}
	if val, pos := in.Lexeme(); val != "z" || pos != demoP("buf", 8, 4, 2) {
		t.Fatalf("Lexeme: got %q %#v", val, pos)
	}
	if pos := in.Skip(); pos != demoP("buf", 9, 4, 3) {
		t.Fatalf("Skip: got %#v", pos)
	}
	if _, err := in.Next(); err != io.EOF {
		t.Fatalf("Next: got %v, want EOF", err)
	}

	// The empty filename, and an invalid byte after a pending lexeme with a newline.
	in = newTextInput("", []byte("x\ny\xc0z"))
	next('x')
	next('\n')
	next('y')
	for n := 0; n < 2; n++ {
		_, err := in.Next()
		var inErr *input.InputError
		if !errors.As(err, &inErr) || inErr.Pos != demoP("", 3, 2, 2) || inErr.Description != "invalid utf-8 character" {
			t.Fatalf("Next: got %#v", err)
		}
	}
	if val, pos := in.Lexeme(); val != "x\ny" || pos != demoP("", 0, 1, 1) {
		t.Fatalf("Lexeme: got %q %#v", val, pos)
	}
	if pos := in.Skip(); pos != demoP("", 3, 2, 2) {
		t.Fatalf("Skip: got %#v", pos)
	}
}
