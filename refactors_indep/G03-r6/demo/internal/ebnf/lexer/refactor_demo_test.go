package lexer

import (
	"errors"
	"fmt"
	"io"
	"strings"
	"testing"

	"github.com/moorara/algo/lexer"
	"github.com/moorara/algo/lexer/input"
)

// The tests in this file use only the methods of textInput and the exported API of the lexer,
// never the fields of textInput, so they compile against any representation of the two cursors.

func demoPos(offset, line, column int) lexer.Position {
	return lexer.Position{Filename: "demo", Offset: offset, Line: line, Column: column}
}

// TestRefactorDemo_TextInputScript runs hand-written sequences of operations and compares with literal results.
func TestRefactorDemo_TextInputScript(t *testing.T) {
	t.Run("EmptyText", func(t *testing.T) {
		in := newTextInput("demo", nil)
		in.Retract() // nothing to retract

		if r, err := in.Next(); r != 0 || err != io.EOF {
			t.Fatalf("Next: %q %v", r, err)
		}
		if pos := in.Skip(); pos != demoPos(0, 1, 1) {
			t.Fatalf("Skip: %v", pos)
		}
		if val, pos := in.Lexeme(); val != "" || pos != demoPos(0, 1, 1) {
			t.Fatalf("Lexeme: %q %v", val, pos)
		}
		if r, err := in.Next(); r != 0 || err != io.EOF {
			t.Fatalf("Next: %q %v", r, err)
		}
	})

	t.Run("MultiByteAndNewlines", func(t *testing.T) {
		// runes: a é \n 世 界 \n \n z   (bytes: 1 2 1 3 3 1 1 1)
		in := newTextInput("demo", []byte("aé\n世界\n\nz"))

		next := func(want rune) {
			t.Helper()
			if r, err := in.Next(); r != want || err != nil {
				t.Fatalf("Next: got %q %v, want %q", r, err, want)
			}
		}
		lexeme := func(wantVal string, wantPos lexer.Position) {
			t.Helper()
			if val, pos := in.Lexeme(); val != wantVal || pos != wantPos {
				t.Fatalf("Lexeme: got %q %v, want %q %v", val, pos, wantVal, wantPos)
			}
		}
		skip := func(wantPos lexer.Position) {
			t.Helper()
			if pos := in.Skip(); pos != wantPos {
				t.Fatalf("Skip: got %v, want %v", pos, wantPos)
			}
		}

		in.Retract() // no pending lexeme: nothing happens
		next('a')
		next('é')
		in.Retract() // over the two bytes of é
		lexeme("a", demoPos(0, 1, 1))
		in.Retract() // lexeme is empty again: nothing happens
		lexeme("", demoPos(1, 1, 2))
		next('é')
		next('\n')
		next('世')
		in.Retract() // over the three bytes of 世
		in.Retract() // over the newline
		lexeme("é", demoPos(1, 1, 2))
		next('\n')
		skip(demoPos(2, 1, 3))
		skip(demoPos(3, 2, 1)) // empty skip at the start of line 2
		next('世')
		next('界')
		next('\n')
		next('\n')
		next('z')
		in.Retract()
		lexeme("世界\n\n", demoPos(3, 2, 1))
		next('z')
		if r, err := in.Next(); r != 0 || err != io.EOF {
			t.Fatalf("Next: %q %v", r, err)
		}
		in.Retract() // the end of the input is not latched: z is retracted
		lexeme("", demoPos(7, 4, 1))
		next('z')
		if r, err := in.Next(); r != 0 || err != io.EOF {
			t.Fatalf("Next: %q %v", r, err)
		}
		lexeme("z", demoPos(7, 4, 1))
		skip(demoPos(8, 4, 2))
		in.Retract()
		if r, err := in.Next(); r != 0 || err != io.EOF {
			t.Fatalf("Next: %q %v", r, err)
		}
		lexeme("", demoPos(8, 4, 2))
	})

	t.Run("InvalidUTF8", func(t *testing.T) {
		tests := []struct {
			text    string
			reads   int            // successful reads before the failing one
			skipAt  int            // the pending lexeme is skipped after this many reads (-1: never)
			wantPos lexer.Position // position in the error
			wantVal string         // pending lexeme after the error
			wantLex lexer.Position
		}{
			{"\xff", 0, -1, demoPos(0, 1, 1), "", demoPos(0, 1, 1)},
			{"ab\xffc", 2, -1, demoPos(2, 1, 3), "ab", demoPos(0, 1, 1)},
			{"ab\xffc", 2, 1, demoPos(2, 1, 3), "b", demoPos(1, 1, 2)},
			{"é\n\n世\x80", 4, -1, demoPos(4, 3, 2), "é\n\n世", demoPos(0, 1, 1)},
			{"é\n\n世\x80", 4, 2, demoPos(4, 3, 2), "\n世", demoPos(2, 2, 1)},
			{"x\n\xe4\xb8", 2, 2, demoPos(2, 2, 1), "", demoPos(2, 2, 1)},           // truncated 世
			{"\ufffd\xc0\x80", 1, -1, demoPos(1, 1, 2), "\ufffd", demoPos(0, 1, 1)}, // encoded U+FFFD is fine
		}

		for n, tc := range tests {
			in := newTextInput("demo", []byte(tc.text))
			for k := 0; k < tc.reads; k++ {
				if _, err := in.Next(); err != nil {
					t.Fatalf("#%d: read %d: %v", n, k, err)
				}
				if k+1 == tc.skipAt {
					in.Skip()
				}
			}

			for again := 0; again < 2; again++ { // the error is reported again, the cursors have not moved
				_, err := in.Next()
				var inErr *input.InputError
				if !errors.As(err, &inErr) {
					t.Fatalf("#%d: error %T %v", n, err, err)
				}
				if inErr.Description != "invalid utf-8 character" || inErr.Pos != tc.wantPos {
					t.Fatalf("#%d: got %q at %v, want %v", n, inErr.Description, inErr.Pos, tc.wantPos)
				}
			}

			if val, pos := in.Lexeme(); val != tc.wantVal || pos != tc.wantLex {
				t.Fatalf("#%d: Lexeme: got %q %v, want %q %v", n, val, pos, tc.wantVal, tc.wantLex)
			}
			if pos := in.Skip(); pos != tc.wantPos {
				t.Fatalf("#%d: Skip after Lexeme: got %v, want %v", n, pos, tc.wantPos)
			}
		}
	})
}

// demoModel is an independent model of the reader over a text of valid runes: two rune indices.
type demoModel struct {
	runes      []rune
	begin, fwd int
}

func (m *demoModel) posOf(k int) lexer.Position {
	before := string(m.runes[:k])
	line := 1 + strings.Count(before, "\n")
	column := 1 + len([]rune(before[strings.LastIndex(before, "\n")+1:]))
	return demoPos(k, line, column)
}

// TestRefactorDemo_TextInputModel drives the reader and the model with the same pseudo-random operations.
func TestRefactorDemo_TextInputModel(t *testing.T) {
	texts := []string{
		"",
		"\n",
		"\n\n\n",
		"abc",
		"a\nb\nc\n",
		"grammar demo;\n\nexpr = expr \"+\" term | term; // sum\n",
		"αβγ\nδ€𝄞\n\n\t世界 \r\n/* ü */x",
		"\u2028\u0085\v\f\r\r\n\n\r",
		strings.Repeat("é\n", 40) + strings.Repeat("𝄞", 40),
	}

	for tn, text := range texts {
		for seed := uint32(1); seed <= 25; seed++ {
			in := newTextInput("demo", []byte(text))
			m := &demoModel{runes: []rune(text)}
			state := seed*2654435761 + uint32(tn)

			for step := 0; step < 400; step++ {
				state = state*1664525 + 1013904223
				op := (state >> 24) % 16
				where := fmt.Sprintf("text %d seed %d step %d op %d", tn, seed, step, op)

				switch {
				case op < 9: // Next
					r, err := in.Next()
					if m.fwd == len(m.runes) {
						if r != 0 || err != io.EOF {
							t.Fatalf("%s: Next at end: %q %v", where, r, err)
						}
					} else {
						if r != m.runes[m.fwd] || err != nil {
							t.Fatalf("%s: Next: got %q %v, want %q", where, r, err, m.runes[m.fwd])
						}
						m.fwd++
					}
				case op < 12: // Retract
					in.Retract()
					if m.fwd > m.begin {
						m.fwd--
					}
				case op < 14: // Lexeme
					val, pos := in.Lexeme()
					wantVal, wantPos := string(m.runes[m.begin:m.fwd]), m.posOf(m.begin)
					if val != wantVal || pos != wantPos {
						t.Fatalf("%s: Lexeme: got %q %v, want %q %v", where, val, pos, wantVal, wantPos)
					}
					m.begin = m.fwd
				default: // Skip
					pos := in.Skip()
					if wantPos := m.posOf(m.begin); pos != wantPos {
						t.Fatalf("%s: Skip: got %v, want %v", where, pos, wantPos)
					}
					m.begin = m.fwd
				}
			}
		}
	}
}

type demoToken struct {
	terminal string
	lexeme   string
	offset   int
	line     int
	column   int
}

func demoScan(t *testing.T, src string) ([]demoToken, error) {
	t.Helper()

	lex, err := New("demo", strings.NewReader(src))
	if err != nil {
		t.Fatalf("New: %v", err)
	}

	var tokens []demoToken
	for {
		token, err := lex.NextToken()
		if err != nil {
			return tokens, err
		}
		if token.Pos.Filename != "demo" {
			t.Fatalf("filename: %q", token.Pos.Filename)
		}
		tokens = append(tokens, demoToken{
			string(token.Terminal), token.Lexeme, token.Pos.Offset, token.Pos.Line, token.Pos.Column,
		})
	}
}

// TestRefactorDemo_LexerTokens scans specifications through the exported API and compares with literal tokens.
func TestRefactorDemo_LexerTokens(t *testing.T) {
	tests := []struct {
		name    string
		src     string
		want    []demoToken
		wantErr string // "" stands for io.EOF
	}{
		{
			name: "Empty",
			src:  "",
		},
		{
			name: "OnlySkipped",
			src:  " \t\n// a comment\n/* multi\n * **/ /**/\n",
		},
		{
			name: "Header",
			src:  "grammar demo;\n",
			want: []demoToken{
				{"grammar", "grammar", 0, 1, 1},
				{"IDENT", "demo", 8, 1, 9},
				{";", ";", 12, 1, 13},
			},
		},
		{
			name: "KeywordsAndIdentifiers",
			src:  "grammar grammars gramma @left @right @none $STR X_1 x_1",
			want: []demoToken{
				{"grammar", "grammar", 0, 1, 1},
				{"IDENT", "grammars", 8, 1, 9},
				{"IDENT", "gramma", 17, 1, 18},
				{"@left", "@left", 24, 1, 25},
				{"@right", "@right", 30, 1, 31},
				{"@none", "@none", 37, 1, 38},
				{"PREDEF", "$STR", 43, 1, 44},
				{"TOKEN", "X_1", 48, 1, 49},
				{"IDENT", "x_1", 52, 1, 53},
			},
		},
		{
			name: "StringsPatternsAndComments",
			src: "// p ~ 3\n" +
				"NUM = /[0-9]+/ /* first */ /* second */;\r\n" +
				"\texpr = expr \"+\" term\n" +
				"\t     | \"\\\"\" {term} [ID] (x)<y>; /* multi\n" +
				"line u */ AA=/\\//\n" +
				"BB = //",
			want: []demoToken{
				{"TOKEN", "NUM", 9, 2, 1},
				{"=", "=", 13, 2, 5},
				{"REGEX", "[0-9]+", 15, 2, 7},
				{";", ";", 48, 2, 40},
				{"IDENT", "expr", 52, 3, 2},
				{"=", "=", 57, 3, 7},
				{"IDENT", "expr", 59, 3, 9},
				{"STRING", "+", 64, 3, 14},
				{"IDENT", "term", 68, 3, 18},
				{"|", "|", 79, 4, 7},
				{"STRING", "\\\"", 81, 4, 9},
				{"{", "{", 86, 4, 14},
				{"IDENT", "term", 87, 4, 15},
				{"}", "}", 91, 4, 19},
				{"[", "[", 93, 4, 21},
				{"TOKEN", "ID", 94, 4, 22},
				{"]", "]", 96, 4, 24},
				{"(", "(", 98, 4, 26},
				{"IDENT", "x", 99, 4, 27},
				{")", ")", 100, 4, 28},
				{"<", "<", 101, 4, 29},
				{"IDENT", "y", 102, 4, 30},
				{">", ">", 103, 4, 31},
				{";", ";", 104, 4, 32},
				{"TOKEN", "AA", 125, 5, 11},
				{"=", "=", 127, 5, 13},
				{"REGEX", "\\/", 128, 5, 14},
				{"TOKEN", "BB", 133, 6, 1},
				{"=", "=", 136, 6, 4},
			},
		},
		{
			name: "PendingLexemeAtEnd",
			src:  "a\n\n  bc",
			want: []demoToken{
				{"IDENT", "a", 0, 1, 1},
				{"IDENT", "bc", 5, 3, 3},
			},
		},
		{
			name: "ErrorAfterMultiLineComment",
			src:  "/* one\ntwo */\n  x = #;",
			want: []demoToken{
				{"IDENT", "x", 16, 3, 3},
				{"=", "=", 18, 3, 5},
			},
			wantErr: "lexical error at demo:3:7:",
		},
		{
			name:    "ErrorInsideMultiLineComment",
			src:     "x /* 世界 */\n",
			want:    []demoToken{{"IDENT", "x", 0, 1, 1}},
			wantErr: "lexical error at demo:1:3:/* ",
		},
		{
			name:    "ErrorInsideSingleLineComment",
			src:     " \t\n// é comment\n",
			wantErr: "lexical error at demo:2:4:",
		},
		{
			name:    "ErrorNonASCII",
			src:     "ab\né",
			want:    []demoToken{{"IDENT", "ab", 0, 1, 1}},
			wantErr: "lexical error at demo:2:1:",
		},
		{
			name:    "UnterminatedString",
			src:     "x = \"abc\n",
			want:    []demoToken{{"IDENT", "x", 0, 1, 1}, {"=", "=", 2, 1, 3}},
			wantErr: "lexical error at demo:1:5:\"abc",
		},
		{
			name:    "InvalidUTF8",
			src:     "a = b\n  \xff",
			want:    []demoToken{{"IDENT", "a", 0, 1, 1}, {"=", "=", 2, 1, 3}, {"IDENT", "b", 4, 1, 5}},
			wantErr: "demo:2:3: invalid utf-8 character",
		},
	}

	for _, tc := range tests {
		t.Run(tc.name, func(t *testing.T) {
			tokens, err := demoScan(t, tc.src)

			if tc.wantErr == "" {
				if err != io.EOF {
					t.Errorf("error: got %v, want io.EOF", err)
				}
			} else if err == nil || err.Error() != tc.wantErr {
				t.Errorf("error: got %v, want %q", err, tc.wantErr)
			}

			if len(tokens) != len(tc.want) {
				t.Fatalf("got %d tokens, want %d:\n%v", len(tokens), len(tc.want), tokens)
			}
			for k := range tokens {
				if tokens[k] != tc.want[k] {
					t.Errorf("token %d: got %v, want %v", k, tokens[k], tc.want[k])
				}
			}
		})
	}
}
