package spec

import (
	"fmt"
	"sort"
	"strings"
	"testing"

	"github.com/moorara/algo/grammar"
	"github.com/moorara/algo/parser/lr"
	"github.com/stretchr/testify/assert"
)

// demoLevels renders the precedence levels of a spec, one per line, as
// "<ASSOC>: handle; handle; ..." with the handles in the order in which they were collected from the directive.
func demoLevels(levels lr.PrecedenceLevels) []string {
	out := make([]string, 0, len(levels))
	for _, l := range levels {
		// The traversal order of a set is random, so the handles are sorted.
		hs := []string{}
		for h := range l.Handles.All() {
			kind := "T"
			if h.IsProduction() {
				kind = "P"
			}
			hs = append(hs, kind+" "+h.String())
		}
		sort.Strings(hs)
		out = append(out, fmt.Sprintf("%s: %s", l.Associativity, strings.Join(hs, "; ")))
	}

	return out
}

// demoParse runs the textbook shift-reduce algorithm driven by the parsing table over a space-separated sentence
// of terminals and renders the resulting parse as a bracketed tree.
// Unit productions are collapsed and empty productions are rendered as the head in angle brackets.
func demoParse(T *lr.ParsingTable, sentence string) (string, error) {
	input := []grammar.Terminal{}
	for _, w := range strings.Fields(sentence) {
		input = append(input, grammar.Terminal(w))
	}
	input = append(input, grammar.Endmarker)

	states := []lr.State{0}
	nodes := []string{}

	for pos := 0; ; {
		s, a := states[len(states)-1], input[pos]

		action, err := T.ACTION(s, a)
		if err != nil {
			return "", fmt.Errorf("syntax error at token %d (%s)", pos, a)
		}

		switch action.Type {
		case lr.SHIFT:
			states = append(states, action.State)
			nodes = append(nodes, string(a))
			pos++

		case lr.REDUCE:
			A, β := action.Production.Head, action.Production.Body
			n := len(β)
			children := nodes[len(nodes)-n:]

			var node string
			switch n {
			case 0:
				node = "<" + string(A) + ">"
			case 1:
				node = children[0]
			default:
				node = "[" + strings.Join(children, " ") + "]"
			}

			nodes = append(nodes[:len(nodes)-n:len(nodes)-n], node)
			states = states[:len(states)-n]

			next, err := T.GOTO(states[len(states)-1], A)
			if err != nil {
				return "", err
			}
			states = append(states, next)

		case lr.ACCEPT:
			return strings.Join(nodes, " "), nil

		default:
			return "", fmt.Errorf("unexpected action %s", action)
		}
	}
}

type demoCase struct {
	name      string
	src       string
	sentences []string
	want      string
}

// demoTranscript parses the grammar source, builds the LALR(1) parsing table, and parses all sentences of a case.
// Everything observed on the way is recorded, one line per observation.
func demoTranscript(tc demoCase) string {
	var b strings.Builder

	s, err := Parse(tc.name+".grammar", strings.NewReader(tc.src))
	if err != nil {
		fmt.Fprintf(&b, "parse error: %s\n", strings.TrimSpace(err.Error()))
		return b.String()
	}

	for _, l := range demoLevels(s.Precedences) {
		fmt.Fprintf(&b, "level %s\n", l)
	}

	T, err := s.LALRParsingTable()
	if err != nil {
		fmt.Fprintf(&b, "table error: %s\n", strings.TrimSpace(err.Error()))
		return b.String()
	}

	for _, in := range tc.sentences {
		if tree, err := demoParse(T, in); err != nil {
			fmt.Fprintf(&b, "%q => %s\n", in, err)
		} else {
			fmt.Fprintf(&b, "%q => %s\n", in, tree)
		}
	}

	return b.String()
}

func TestRefactorDemo_DirectivesAndLALRTable(t *testing.T) {
	for _, tc := range demoCases {
		t.Run(tc.name, func(t *testing.T) {
			got := demoTranscript(tc)
			assert.Equal(t, strings.TrimLeft(tc.want, "\n"), got)
		})
	}
}

var demoCases = []demoCase{
	{
		name: "mul_before_add",
		src: `grammar g
@left "*" "/"
@left "+" "-"
start = expr;
expr = expr "+" expr | expr "-" expr | expr "*" expr | expr "/" expr | "(" expr ")" | "n";
`,
		sentences: []string{
			"n",
			"n + n * n",
			"n * n + n",
			"n - n - n",
			"n / n * n",
			"n - n + n",
			"( n + n ) * n",
			"n + n * n - n / n",
			"",
			"n +",
			"n n",
			"( n",
			"+ n",
		},
		want: `
level LEFT: T "*"; T "/"
level LEFT: T "+"; T "-"
"n" => n
"n + n * n" => [n + [n * n]]
"n * n + n" => [[n * n] + n]
"n - n - n" => [[n - n] - n]
"n / n * n" => [[n / n] * n]
"n - n + n" => [[n - n] + n]
"( n + n ) * n" => [[( [n + n] )] * n]
"n + n * n - n / n" => [[n + [n * n]] - [n / n]]
"" => syntax error at token 0 ($)
"n +" => syntax error at token 2 ($)
"n n" => syntax error at token 1 ("n")
"( n" => syntax error at token 2 ($)
"+ n" => syntax error at token 0 ("+")
`,
	},
	{
		name: "add_before_mul",
		src: `grammar g
@left "+" "-"
@left "*" "/"
start = expr;
expr = expr "+" expr | expr "-" expr | expr "*" expr | expr "/" expr | "(" expr ")" | "n";
`,
		sentences: []string{
			"n + n * n",
			"n * n + n",
			"n * n - n * n",
			"n - n - n",
			"n * n * n",
		},
		want: `
level LEFT: T "+"; T "-"
level LEFT: T "*"; T "/"
"n + n * n" => [[n + n] * n]
"n * n + n" => [n * [n + n]]
"n * n - n * n" => [[n * [n - n]] * n]
"n - n - n" => [[n - n] - n]
"n * n * n" => [[n * n] * n]
`,
	},
	{
		name: "right_then_left",
		src: `grammar g;
@right "^";
@left "*";
@left "+";
start = expr;
expr = expr "+" expr | expr "*" expr | expr "^" expr | "n";
`,
		sentences: []string{
			"n ^ n ^ n",
			"n ^ n * n",
			"n * n ^ n",
			"n + n ^ n ^ n * n",
			"n + n + n",
			"n ^",
		},
		want: `
level RIGHT: T "^"
level LEFT: T "*"
level LEFT: T "+"
"n ^ n ^ n" => [n ^ [n ^ n]]
"n ^ n * n" => [[n ^ n] * n]
"n * n ^ n" => [n * [n ^ n]]
"n + n ^ n ^ n * n" => [n + [[n ^ [n ^ n]] * n]]
"n + n + n" => [[n + n] + n]
"n ^" => syntax error at token 2 ($)
`,
	},
	{
		name: "all_right_same_level",
		src: `grammar g
@right "+" "*"
start = expr;
expr = expr "+" expr | expr "*" expr | "n";
`,
		sentences: []string{
			"n + n * n",
			"n * n + n",
			"n + n + n + n",
		},
		want: `
level RIGHT: T "*"; T "+"
"n + n * n" => [n + [n * n]]
"n * n + n" => [n * [n + n]]
"n + n + n + n" => [n + [n + [n + n]]]
`,
	},
	{
		name: "rule_handles_juxtaposition",
		src: `grammar g
ID = /[a-z]+/
@left <rhs = rhs rhs>
@left "(" ID
@right "|"
start = rhs;
rhs = rhs rhs | "(" rhs ")" | rhs "|" rhs | ID;
`,
		sentences: []string{
			"ID ID ID",
			"ID ID | ID",
			"ID | ID ID",
			"ID | ID | ID",
			"( ID | ID ) ID",
			"ID ( ID ID ) | ID",
			"| ID",
			"ID |",
		},
		want: `
level LEFT: P rhs = rhs rhs
level LEFT: T "("; T "ID"
level RIGHT: T "|"
"ID ID ID" => [[ID ID] ID]
"ID ID | ID" => [[ID ID] | ID]
"ID | ID ID" => [ID | [ID ID]]
"ID | ID | ID" => [ID | [ID | ID]]
"( ID | ID ) ID" => [[( [ID | ID] )] ID]
"ID ( ID ID ) | ID" => [[ID [( [ID ID] )]] | ID]
"| ID" => syntax error at token 0 ("|")
"ID |" => syntax error at token 2 ($)
`,
	},
	{
		name: "mixed_handles_one_line",
		src: `grammar g
@left <expr = expr mulop expr> "~" <expr = expr addop expr | expr cmpop expr> "!" "~"
@right "<" <expr = "~" expr | "!" expr> <expr = "~" expr>
@none <mulop = "*" | "/"> ">" <addop = "+"> <addop = "-">;
@left "*" "/" "+" "-"
start = expr;
expr = expr mulop expr | expr addop expr | expr cmpop expr | "~" expr | "!" expr | "n";
mulop = "*" | "/";
addop = "+" | "-";
cmpop = "<" | ">";
`,
		sentences: []string{
			"n",
			"n + n * n",
			"~ n < ! n",
		},
		want: `
level LEFT: P expr = expr addop expr; P expr = expr cmpop expr; P expr = expr mulop expr; T "!"; T "~"
level RIGHT: P expr = "!" expr; P expr = "~" expr; T "<"
level NONE: P addop = "+"; P addop = "-"; P mulop = "*"; P mulop = "/"; T ">"
level LEFT: T "*"; T "+"; T "-"; T "/"
"n" => n
"n + n * n" => [[n + n] * n]
"~ n < ! n" => [[~ n] < [! n]]
`,
	},
	{
		name: "nonterminal_operators",
		src: `grammar g
@left <expr = expr mulop expr>
@right <expr = expr addop expr>
@left "*" "/" "+" "-"
start = expr;
expr = expr mulop expr | expr addop expr | "n";
mulop = "*" | "/";
addop = "+" | "-";
`,
		sentences: []string{
			"n + n * n",
			"n * n + n",
			"n + n - n",
			"n * n / n",
			"n * n + n * n",
			"n + * n",
		},
		want: `
level LEFT: P expr = expr mulop expr
level RIGHT: P expr = expr addop expr
level LEFT: T "*"; T "+"; T "-"; T "/"
"n + n * n" => [[n + n] * n]
"n * n + n" => [[n * n] + n]
"n + n - n" => [[n + n] - n]
"n * n / n" => [[n * n] / n]
"n * n + n * n" => [[[n * n] + n] * n]
"n + * n" => syntax error at token 2 ("*")
`,
	},
	{
		name: "none_assoc",
		src: `grammar g
@left "+"
@none "=="
start = expr;
expr = expr "+" expr | expr "==" expr | "n";
`,
		sentences: []string{
			"n == n",
			"n + n == n + n",
			"n == n == n",
		},
		want: `
level LEFT: T "+"
level NONE: T "=="
table error: error on building LALR(1) parsing table:
Error:      Ambiguous Grammar
Cause:      Shift/Reduce conflict in ACTION[3, "=="]
Context:    The parser cannot decide whether to
              1. Shift the terminal "==", or
              2. Reduce by production expr → expr "==" expr
Resolution: Specify associativity for "==".
`,
	},
	{
		name: "dangling_else_unresolved",
		src: `grammar g
start = stmt;
stmt = "if" "c" "then" stmt | "if" "c" "then" stmt "else" stmt | "x";
`,
		want: `
table error: error on building LALR(1) parsing table:
Error:      Ambiguous Grammar
Cause:      Shift/Reduce conflict in ACTION[4, "else"]
Context:    The parser cannot decide whether to
              1. Shift the terminal "else", or
              2. Reduce by production stmt → "if" "c" "then" stmt
Resolution: Specify associativity and precedence for these Terminals/Productions:
              • "if" vs. "else"
            Terminals/Productions listed earlier will have higher precedence.
            Terminals/Productions in the same line will have the same precedence.
`,
	},
	{
		name: "dangling_else_resolved",
		src: `grammar g
@right "if" "else"
start = stmt;
stmt = "if" "c" "then" stmt | "if" "c" "then" stmt "else" stmt | "x";
`,
		sentences: []string{
			"x",
			"if c then x",
			"if c then x else x",
			"if c then if c then x else x",
			"if c then if c then x else x else x",
			"if c then x else x else x",
			"if c x",
		},
		want: `
level RIGHT: T "else"; T "if"
"x" => x
"if c then x" => [if c then x]
"if c then x else x" => [if c then x else x]
"if c then if c then x else x" => [if c then [if c then x else x]]
"if c then if c then x else x else x" => [if c then [if c then x else x] else x]
"if c then x else x else x" => syntax error at token 6 ("else")
"if c x" => syntax error at token 2 ("x")
`,
	},
	{
		name: "ambiguous_no_directives",
		src: `grammar g
start = expr;
expr = expr "+" expr | expr "*" expr | "n";
`,
		want: `
table error: error on building LALR(1) parsing table:
Error:      Ambiguous Grammar
Cause:      Multiple conflicts in the parsing table:
              1. Shift/Reduce conflict in ACTION[2, "*"]
              2. Shift/Reduce conflict in ACTION[2, "+"]
              3. Shift/Reduce conflict in ACTION[3, "*"]
              4. Shift/Reduce conflict in ACTION[3, "+"]
Resolution: Specify associativity and precedence for these Terminals/Productions:
              • "*" vs. "*", "+"
              • "+" vs. "*", "+"
            Terminals/Productions listed earlier will have higher precedence.
            Terminals/Productions in the same line will have the same precedence.
`,
	},
	{
		name: "ambiguous_partial_directives",
		src: `grammar g
@left "+"
start = expr;
expr = expr "+" expr | expr "*" expr | "n";
`,
		want: `
level LEFT: T "+"
table error: error on building LALR(1) parsing table:
Error:      Ambiguous Grammar
Cause:      Multiple conflicts in the parsing table:
              1. Shift/Reduce conflict in ACTION[2, "*"]
              2. Shift/Reduce conflict in ACTION[2, "+"]
              3. Shift/Reduce conflict in ACTION[3, "*"]
Resolution: Specify associativity and precedence for these Terminals/Productions:
              • "*" vs. "*", "+"
              • "+" vs. "*"
            Terminals/Productions listed earlier will have higher precedence.
            Terminals/Productions in the same line will have the same precedence.
`,
	},
	{
		name: "lalr_not_slr_no_directives",
		src: `grammar g
start = s;
s = l "=" r | r;
l = "*" r | "id";
r = l;
`,
		sentences: []string{
			"id",
			"id = id",
			"* id = * * id",
			"* * id",
			"id = = id",
			"= id",
			"id = id = id",
		},
		want: `
"id" => id
"id = id" => [id = id]
"* id = * * id" => [[* id] = [* [* id]]]
"* * id" => [* [* id]]
"id = = id" => syntax error at token 2 ("=")
"= id" => syntax error at token 0 ("=")
"id = id = id" => syntax error at token 3 ("=")
`,
	},
	{
		name: "lr1_not_lalr",
		src: `grammar g
start = "a" e "c" | "a" f "d" | "b" f "c" | "b" e "d";
e = "x";
f = "x";
`,
		want: `
table error: error on building LALR(1) parsing table:
Error:      Ambiguous Grammar
Cause:      Multiple conflicts in the parsing table:
              1. Reduce/Reduce conflict in ACTION[10, "c"]
              2. Reduce/Reduce conflict in ACTION[10, "d"]
Resolution: Specify associativity and precedence for these Terminals/Productions:
              • "x"
            Terminals/Productions listed earlier will have higher precedence.
            Terminals/Productions in the same line will have the same precedence.
`,
	},
	{
		name: "unambiguous_with_ebnf_operators",
		src: `grammar g
start = item {"," item} [";"];
item = "n" | "(" {{item}} ")";
`,
		sentences: []string{
			"n",
			"n , n ;",
			"( n n ) , n",
			"( ( n ) n ) ;",
			"( )",
			"n ,",
			"; n",
		},
		want: `
"n" => [n <gen1_star> <gen_semi_opt>]
"n , n ;" => [n [<gen1_star> , n] ;]
"( n n ) , n" => [[( [n n] )] [<gen1_star> , n] <gen_semi_opt>]
"( ( n ) n ) ;" => [[( [[( n )] n] )] <gen1_star> ;]
"( )" => syntax error at token 1 (")")
"n ," => syntax error at token 2 ($)
"; n" => syntax error at token 0 (";")
`,
	},
	{
		name: "unused_directives_on_lalr_grammar",
		src: `grammar g
@left "+" <term = term "*" factor>
@none "(" ")"
start = expr;
expr = expr "+" term | term;
term = term "*" factor | factor;
factor = "(" expr ")" | "n";
`,
		sentences: []string{
			"n + n * n",
			"n * n + n",
			"n + n + n",
			"( n + n ) * n",
			"n + + n",
		},
		want: `
level LEFT: P term = term "*" factor; T "+"
level NONE: T "("; T ")"
"n + n * n" => [n + [n * n]]
"n * n + n" => [[n * n] + n]
"n + n + n" => [[n + n] + n]
"( n + n ) * n" => [[( [n + n] )] * n]
"n + + n" => syntax error at token 2 ("+")
`,
	},
	{
		name: "duplicate_terminal_handle",
		src: `grammar g
@left "+" "*"
@right "*"
start = expr;
expr = expr "+" expr | expr "*" expr | "n";
`,
		want: `
parse error: 1 error occurred:

  • "*" appeared in more than one precedence level
`,
	},
	{
		name: "duplicate_rule_handle",
		src: `grammar g
@left <expr = expr expr>
@none "n" <expr = expr expr>
start = expr;
expr = expr expr | "n";
`,
		want: `
parse error: 1 error occurred:

  • expr = expr expr appeared in more than one precedence level
`,
	},
}
