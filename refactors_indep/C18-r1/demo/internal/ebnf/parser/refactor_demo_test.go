package parser

import (
	"errors"
	"fmt"
	"strings"
	"testing"

	"github.com/moorara/algo/lexer"
	"github.com/moorara/algo/parser"
	"github.com/moorara/algo/parser/lr"
)

// This file characterizes the observable behaviour of Parser.Parse and Parser.ParseAndEvaluate
// (property C18): order of the callbacks, values passed to the evaluation callback,
// value and position of the head, and how callback errors abort the parse.
// All expectations are concrete and hold before and after the refactoring of parser.go.

var errDemo = errors.New("demo callback failure")

// demoInputs are EBNF specifications (valid and invalid) used by the tests below.
var demoInputs = []struct {
	name string
	src  string
}{
	{"Minimal", "grammar g;"},
	{"MinimalNoSemi", "grammar g"},
	{"Tokens", "grammar t\nID = $ID;\nNUM = /[0-9]+/\nSEMI = \";\";"},
	{"Directives", "grammar d; @left \"+\" \"-\" @right <e = e \"^\" e>; @none ID <x = >"},
	{"EmptyRules", "grammar e; a = ; b = x | ; c = a | b | ;"},
	{"RhsForms", "grammar r; s = (a b) [c] {d} {{e}} | \"k\" TK f;"},
	{"Concat", "grammar c; s = a b c d;"},
	{"CommentsAndSpace", "  // leading comment\n grammar /* inline */ w ;\n\n // trailing\n x = y ; "},
	{"Empty", ""},
	{"OnlyComment", "// nothing here"},
	{"HashComment", "grammar g; # no such comment"},
	{"OnlyKeyword", "grammar"},
	{"BadAfterName", "grammar g = x;"},
	{"UnclosedParen", "grammar g; s = ( a ;"},
	{"MissingSemi", "grammar g; s = a t = b;"},
	{"StrayClose", "grammar g; s = a ) ;"},
	{"LexError", "grammar g; s = a ~ b;"},
	{"LexErrorFirst", "~"},
}

// demoTrace parses src with both callbacks recording into one event list.
// failAt is the index of the event whose callback returns errDemo (-1 for none).
func demoTrace(t *testing.T, src string, failAt int) ([]string, []lexer.Position, error) {
	t.Helper()

	p, err := New("demo", strings.NewReader(src))
	if err != nil {
		t.Fatalf("New: %s", err)
	}

	var events []string
	var poss []lexer.Position

	record := func(ev string, pos lexer.Position) error {
		events = append(events, ev)
		poss = append(poss, pos)
		if len(events)-1 == failAt {
			return errDemo
		}
		return nil
	}

	err = p.Parse(
		func(tok *lexer.Token) error {
			return record(fmt.Sprintf("%s:%q@%d", tok.Terminal, tok.Lexeme, tok.Pos.Offset), tok.Pos)
		},
		func(i int) error {
			return record(fmt.Sprintf("P%d", i), lexer.Position{})
		},
	)

	return events, poss, err
}

func errString(err error) string {
	if err == nil {
		return "<nil>"
	}
	return err.Error()
}

// demoWant holds, per input, the expected callback trace and error of Parse and
// the expected value and error of ParseAndEvaluate (recorded on the code before the refactoring).
var demoWant = map[string]struct{ trace, parseErr, value, evalErr string }{
	"Minimal": {
		trace:    "\"grammar\":\"grammar\"@0 \"IDENT\":\"g\"@8 \";\":\";\"@9 P7 P1 P3 P0",
		parseErr: "<nil>",
		value:    "(0 (1 grammar@0 g@8 (7 ;@9)@9)@0 (3)@-)@0",
		evalErr:  "<nil>",
	},
	"MinimalNoSemi": {
		trace:    "\"grammar\":\"grammar\"@0 \"IDENT\":\"g\"@8 P8 P1 P3 P0",
		parseErr: "<nil>",
		value:    "(0 (1 grammar@0 g@8 (8)@-)@0 (3)@-)@0",
		evalErr:  "<nil>",
	},
	"Tokens": {
		trace:    "\"grammar\":\"grammar\"@0 \"IDENT\":\"t\"@8 P8 P1 P3 \"TOKEN\":\"ID\"@10 \"=\":\"=\"@13 \"PREDEF\":\"$ID\"@15 P11 \";\":\";\"@18 P7 P4 P2 \"TOKEN\":\"NUM\"@20 \"=\":\"=\"@24 \"REGEX\":\"[0-9]+\"@26 P10 P8 P4 P2 \"TOKEN\":\"SEMI\"@35 \"=\":\"=\"@40 \"STRING\":\";\"@42 P9 \";\":\";\"@45 P7 P4 P2 P0",
		parseErr: "<nil>",
		value:    "(0 (1 grammar@0 t@8 (8)@-)@0 (2 (2 (2 (3)@- (4 (11 ID@10 =@13 $ID@15)@10 (7 ;@18)@18)@10)@- (4 (10 NUM@20 =@24 [0-9]+@26)@20 (8)@-)@20)@- (4 (9 SEMI@35 =@40 ;@42)@35 (7 ;@45)@45)@35)@-)@0",
		evalErr:  "<nil>",
	},
	"Directives": {
		trace:    "\"grammar\":\"grammar\"@0 \"IDENT\":\"d\"@8 \";\":\";\"@9 P7 P1 P3 \"@left\":\"@left\"@11 \"STRING\":\"+\"@17 P34 P17 \"STRING\":\"-\"@21 P34 P15 P12 P8 P5 P2 \"@right\":\"@right\"@25 \"<\":\"<\"@32 \"IDENT\":\"e\"@33 P32 P22 \"=\":\"=\"@35 \"IDENT\":\"e\"@37 P32 P30 \"STRING\":\"^\"@39 P34 P31 P23 \"IDENT\":\"e\"@43 P32 P30 P23 P20 \">\":\">\"@44 P19 P18 P13 \";\":\";\"@45 P7 P5 P2 \"@none\":\"@none\"@47 \"TOKEN\":\"ID\"@53 P33 P17 \"<\":\"<\"@56 \"IDENT\":\"x\"@57 P32 P22 \"=\":\"=\"@59 P21 \">\":\">\"@61 P19 P16 P14 P8 P5 P2 P0",
		parseErr: "<nil>",
		value:    "(0 (1 grammar@0 d@8 (7 ;@9)@9)@0 (2 (2 (2 (3)@- (5 (12 @left@11 (15 (17 (34 +@17)@17)@17 (34 -@21)@21)@17)@11 (8)@-)@11)@- (5 (13 @right@25 (18 (19 <@32 (20 (22 (32 e@33)@33)@33 =@35 (23 (23 (30 (32 e@37)@37)@37 (31 (34 ^@39)@39)@39)@37 (30 (32 e@43)@43)@43)@37)@33 >@44)@32)@32)@25 (7 ;@45)@45)@25)@- (5 (14 @none@47 (16 (17 (33 ID@53)@53)@53 (19 <@56 (21 (22 (32 x@57)@57)@57 =@59)@57 >@61)@56)@53)@47 (8)@-)@47)@-)@0",
		evalErr:  "<nil>",
	},
	"EmptyRules": {
		trace:    "\"grammar\":\"grammar\"@0 \"IDENT\":\"e\"@8 \";\":\";\"@9 P7 P1 P3 \"IDENT\":\"a\"@11 P32 P22 \"=\":\"=\"@13 P21 \";\":\";\"@15 P6 P2 \"IDENT\":\"b\"@17 P32 P22 \"=\":\"=\"@19 \"IDENT\":\"x\"@21 P32 P30 \"|\":\"|\"@23 P29 P20 \";\":\";\"@25 P6 P2 \"IDENT\":\"c\"@27 P32 P22 \"=\":\"=\"@29 \"IDENT\":\"a\"@31 P32 P30 \"|\":\"|\"@33 \"IDENT\":\"b\"@35 P32 P30 \"|\":\"|\"@37 P29 P28 P20 \";\":\";\"@39 P6 P2 P0",
		parseErr: "<nil>",
		value:    "(0 (1 grammar@0 e@8 (7 ;@9)@9)@0 (2 (2 (2 (3)@- (6 (21 (22 (32 a@11)@11)@11 =@13)@11 ;@15)@11)@- (6 (20 (22 (32 b@17)@17)@17 =@19 (29 (30 (32 x@21)@21)@21 |@23)@21)@17 ;@25)@17)@- (6 (20 (22 (32 c@27)@27)@27 =@29 (28 (30 (32 a@31)@31)@31 |@33 (29 (30 (32 b@35)@35)@35 |@37)@35)@31)@27 ;@39)@27)@-)@0",
		evalErr:  "<nil>",
	},
	"RhsForms": {
		trace:    "\"grammar\":\"grammar\"@0 \"IDENT\":\"r\"@8 \";\":\";\"@9 P7 P1 P3 \"IDENT\":\"s\"@11 P32 P22 \"=\":\"=\"@13 \"(\":\"(\"@15 \"IDENT\":\"a\"@16 P32 P30 \"IDENT\":\"b\"@18 P32 P30 P23 \")\":\")\"@19 P24 \"[\":\"[\"@21 \"IDENT\":\"c\"@22 P32 P30 \"]\":\"]\"@23 P25 P23 \"{\":\"{\"@25 \"IDENT\":\"d\"@26 P32 P30 \"}\":\"}\"@27 P26 P23 \"{{\":\"{{\"@29 \"IDENT\":\"e\"@31 P32 P30 \"}}\":\"}}\"@32 P27 P23 \"|\":\"|\"@35 \"STRING\":\"k\"@37 P34 P31 \"TOKEN\":\"TK\"@41 P33 P31 P23 \"IDENT\":\"f\"@44 P32 P30 P23 P28 P20 \";\":\";\"@45 P6 P2 P0",
		parseErr: "<nil>",
		value:    "(0 (1 grammar@0 r@8 (7 ;@9)@9)@0 (2 (3)@- (6 (20 (22 (32 s@11)@11)@11 =@13 (28 (23 (23 (23 (24 (@15 (23 (30 (32 a@16)@16)@16 (30 (32 b@18)@18)@18)@16 )@19)@15 (25 [@21 (30 (32 c@22)@22)@22 ]@23)@21)@15 (26 {@25 (30 (32 d@26)@26)@26 }@27)@25)@15 (27 {{@29 (30 (32 e@31)@31)@31 }}@32)@29)@15 |@35 (23 (23 (31 (34 k@37)@37)@37 (31 (33 TK@41)@41)@41)@37 (30 (32 f@44)@44)@44)@37)@15)@11 ;@45)@11)@-)@0",
		evalErr:  "<nil>",
	},
	"Concat": {
		trace:    "\"grammar\":\"grammar\"@0 \"IDENT\":\"c\"@8 \";\":\";\"@9 P7 P1 P3 \"IDENT\":\"s\"@11 P32 P22 \"=\":\"=\"@13 \"IDENT\":\"a\"@15 P32 P30 \"IDENT\":\"b\"@17 P32 P30 P23 \"IDENT\":\"c\"@19 P32 P30 P23 \"IDENT\":\"d\"@21 P32 P30 P23 P20 \";\":\";\"@22 P6 P2 P0",
		parseErr: "<nil>",
		value:    "(0 (1 grammar@0 c@8 (7 ;@9)@9)@0 (2 (3)@- (6 (20 (22 (32 s@11)@11)@11 =@13 (23 (23 (23 (30 (32 a@15)@15)@15 (30 (32 b@17)@17)@17)@15 (30 (32 c@19)@19)@19)@15 (30 (32 d@21)@21)@21)@15)@11 ;@22)@11)@-)@0",
		evalErr:  "<nil>",
	},
	"CommentsAndSpace": {
		trace:    "\"grammar\":\"grammar\"@22 \"IDENT\":\"w\"@43 \";\":\";\"@45 P7 P1 P3 \"IDENT\":\"x\"@62 P32 P22 \"=\":\"=\"@64 \"IDENT\":\"y\"@66 P32 P30 P20 \";\":\";\"@68 P6 P2 P0",
		parseErr: "<nil>",
		value:    "(0 (1 grammar@22 w@43 (7 ;@45)@45)@22 (2 (3)@- (6 (20 (22 (32 x@62)@62)@62 =@64 (30 (32 y@66)@66)@66)@62 ;@68)@62)@-)@22",
		evalErr:  "<nil>",
	},
	"Empty": {
		trace:    "",
		parseErr: "unexpected string \"\": no action exists in the parsing table for ACTION[0, $]",
		value:    "<nil>",
		evalErr:  "unexpected string \"\": no action exists in the parsing table for ACTION[0, $]",
	},
	"OnlyComment": {
		trace:    "",
		parseErr: "unexpected string \"\": no action exists in the parsing table for ACTION[0, $]",
		value:    "<nil>",
		evalErr:  "unexpected string \"\": no action exists in the parsing table for ACTION[0, $]",
	},
	"HashComment": {
		trace:    "\"grammar\":\"grammar\"@0 \"IDENT\":\"g\"@8 \";\":\";\"@9",
		parseErr: "lexical error at demo:1:12:",
		value:    "<nil>",
		evalErr:  "lexical error at demo:1:12:",
	},
	"OnlyKeyword": {
		trace:    "\"grammar\":\"grammar\"@0",
		parseErr: "unexpected string \"\": no action exists in the parsing table for ACTION[43, $]",
		value:    "<nil>",
		evalErr:  "unexpected string \"\": no action exists in the parsing table for ACTION[43, $]",
	},
	"BadAfterName": {
		trace:    "\"grammar\":\"grammar\"@0 \"IDENT\":\"g\"@8",
		parseErr: "demo:1:11: unexpected string \"=\": no action exists in the parsing table for ACTION[23, \"=\"]",
		value:    "<nil>",
		evalErr:  "demo:1:11: unexpected string \"=\": no action exists in the parsing table for ACTION[23, \"=\"]",
	},
	"UnclosedParen": {
		trace:    "\"grammar\":\"grammar\"@0 \"IDENT\":\"g\"@8 \";\":\";\"@9 P7 P1 P3 \"IDENT\":\"s\"@11 P32 P22 \"=\":\"=\"@13 \"(\":\"(\"@15 \"IDENT\":\"a\"@17 P32 P30",
		parseErr: "demo:1:20: unexpected string \";\": no action exists in the parsing table for ACTION[26, \";\"]",
		value:    "<nil>",
		evalErr:  "demo:1:20: unexpected string \";\": no action exists in the parsing table for ACTION[26, \";\"]",
	},
	"MissingSemi": {
		trace:    "\"grammar\":\"grammar\"@0 \"IDENT\":\"g\"@8 \";\":\";\"@9 P7 P1 P3 \"IDENT\":\"s\"@11 P32 P22 \"=\":\"=\"@13 \"IDENT\":\"a\"@15 P32 P30 \"IDENT\":\"t\"@17 P32",
		parseErr: "demo:1:20: unexpected string \"=\": no action exists in the parsing table for ACTION[49, \"=\"]",
		value:    "<nil>",
		evalErr:  "demo:1:20: unexpected string \"=\": no action exists in the parsing table for ACTION[49, \"=\"]",
	},
	"StrayClose": {
		trace:    "\"grammar\":\"grammar\"@0 \"IDENT\":\"g\"@8 \";\":\";\"@9 P7 P1 P3 \"IDENT\":\"s\"@11 P32 P22 \"=\":\"=\"@13 \"IDENT\":\"a\"@15 P32 P30",
		parseErr: "demo:1:18: unexpected string \")\": no action exists in the parsing table for ACTION[8, \")\"]",
		value:    "<nil>",
		evalErr:  "demo:1:18: unexpected string \")\": no action exists in the parsing table for ACTION[8, \")\"]",
	},
	"LexError": {
		trace:    "\"grammar\":\"grammar\"@0 \"IDENT\":\"g\"@8 \";\":\";\"@9 P7 P1 P3 \"IDENT\":\"s\"@11 P32 P22 \"=\":\"=\"@13 \"IDENT\":\"a\"@15",
		parseErr: "lexical error at demo:1:18:",
		value:    "<nil>",
		evalErr:  "lexical error at demo:1:18:",
	},
	"LexErrorFirst": {
		trace:    "",
		parseErr: "lexical error at demo:1:1:",
		value:    "<nil>",
		evalErr:  "lexical error at demo:1:1:",
	},
}

// demoRender renders a value together with the offset of its position.
func demoRender(v *lr.Value) string {
	if v == nil {
		return "<nil>"
	}
	if v.Pos == nil {
		return fmt.Sprintf("%v@-", v.Val)
	}
	return fmt.Sprintf("%v@%d", v.Val, v.Pos.Offset)
}

// demoEval builds an S-expression out of the values of the body symbols, left to right.
func demoEval(calls *[]int, failAt int) EvaluateFunc {
	n := 0
	return func(i int, rhs []*lr.Value) (any, error) {
		if calls != nil {
			*calls = append(*calls, i)
		}
		n++
		if n-1 == failAt {
			return "discarded", errDemo
		}
		if len(rhs) != len(productions[i].Body) {
			return nil, fmt.Errorf("production %d: got %d values, want %d", i, len(rhs), len(productions[i].Body))
		}
		parts := []string{fmt.Sprintf("%d", i)}
		for _, v := range rhs {
			parts = append(parts, demoRender(v))
		}
		return "(" + strings.Join(parts, " ") + ")", nil
	}
}

// TestRefactorDemo_CallbackOrder pins the exact interleaving of token and production callbacks
// (source order for tokens, reverse rightmost derivation for productions) and the returned error.
func TestRefactorDemo_CallbackOrder(t *testing.T) {
	for _, in := range demoInputs {
		t.Run(in.name, func(t *testing.T) {
			want, ok := demoWant[in.name]
			if !ok {
				t.Fatalf("no expectation for %s", in.name)
			}

			events, _, err := demoTrace(t, in.src, -1)
			if got := strings.Join(events, " "); got != want.trace {
				t.Errorf("trace:\n got %s\nwant %s", got, want.trace)
			}
			if got := errString(err); got != want.parseErr {
				t.Errorf("error:\n got %s\nwant %s", got, want.parseErr)
			}
			if err != nil {
				var pe *parser.ParseError
				if !errors.As(err, &pe) {
					t.Errorf("error is %T, want *parser.ParseError", err)
				}
			}
		})
	}
}

// TestRefactorDemo_NilCallbacks checks that either callback may be nil and
// that the other callback still sees exactly its own sub-sequence of events.
func TestRefactorDemo_NilCallbacks(t *testing.T) {
	for _, in := range demoInputs {
		t.Run(in.name, func(t *testing.T) {
			want := demoWant[in.name]

			var wantToks, wantProds []string
			for _, ev := range strings.Fields(want.trace) {
				if strings.HasPrefix(ev, "P") {
					wantProds = append(wantProds, ev)
				} else {
					wantToks = append(wantToks, ev)
				}
			}

			var toks, prods []string
			tokenF := func(tok *lexer.Token) error {
				toks = append(toks, fmt.Sprintf("%s:%q@%d", tok.Terminal, tok.Lexeme, tok.Pos.Offset))
				return nil
			}
			prodF := func(i int) error {
				prods = append(prods, fmt.Sprintf("P%d", i))
				return nil
			}

			for _, c := range []struct {
				name   string
				tokenF parser.TokenFunc
				prodF  ProductionFunc
			}{
				{"Neither", nil, nil},
				{"TokenOnly", tokenF, nil},
				{"ProdOnly", nil, prodF},
			} {
				toks, prods = nil, nil

				p, err := New("demo", strings.NewReader(in.src))
				if err != nil {
					t.Fatalf("New: %s", err)
				}

				err = p.Parse(c.tokenF, c.prodF)
				if got := errString(err); got != want.parseErr {
					t.Errorf("%s: error:\n got %s\nwant %s", c.name, got, want.parseErr)
				}
				if c.tokenF != nil && strings.Join(toks, " ") != strings.Join(wantToks, " ") {
					t.Errorf("%s: tokens:\n got %v\nwant %v", c.name, toks, wantToks)
				}
				if c.prodF != nil && strings.Join(prods, " ") != strings.Join(wantProds, " ") {
					t.Errorf("%s: productions:\n got %v\nwant %v", c.name, prods, wantProds)
				}
			}
		})
	}
}

// TestRefactorDemo_CallbackErrorAborts fails every single callback invocation in turn and checks that
// the parse stops right there, no further callback fires, and the error is wrapped as before:
// a ParseError with the cause, no description, and the token position only for the token callback.
func TestRefactorDemo_CallbackErrorAborts(t *testing.T) {
	for _, in := range demoInputs {
		t.Run(in.name, func(t *testing.T) {
			full := strings.Fields(demoWant[in.name].trace)

			for k := range full {
				events, poss, err := demoTrace(t, in.src, k)

				if got, want := strings.Join(events, " "), strings.Join(full[:k+1], " "); got != want {
					t.Fatalf("fail at %d: trace:\n got %s\nwant %s", k, got, want)
				}

				var pe *parser.ParseError
				if !errors.As(err, &pe) {
					t.Fatalf("fail at %d: error is %T (%v), want *parser.ParseError", k, err, err)
				}
				if pe.Cause != errDemo || pe.Description != "" {
					t.Errorf("fail at %d: cause %v, description %q", k, pe.Cause, pe.Description)
				}
				if pe.Pos != poss[k] {
					t.Errorf("fail at %d: pos %v, want %v", k, pe.Pos, poss[k])
				}

				wantMsg := "demo callback failure"
				if !poss[k].IsZero() {
					wantMsg = poss[k].String() + ": " + wantMsg
				}
				if err.Error() != wantMsg {
					t.Errorf("fail at %d: message %q, want %q", k, err.Error(), wantMsg)
				}
			}
		})
	}

	// Two fully spelled-out instances.
	_, _, err := demoTrace(t, "grammar g;", 1)
	if got, want := errString(err), "demo:1:9: demo callback failure"; got != want {
		t.Errorf("token callback error: got %q, want %q", got, want)
	}
	_, _, err = demoTrace(t, "grammar g;", 3)
	if got, want := errString(err), "demo callback failure"; got != want {
		t.Errorf("production callback error: got %q, want %q", got, want)
	}
}

// TestRefactorDemo_Evaluate pins the values handed to the evaluation callback (body order),
// the value and position of every head, and the sequence of evaluated productions.
func TestRefactorDemo_Evaluate(t *testing.T) {
	for _, in := range demoInputs {
		t.Run(in.name, func(t *testing.T) {
			want := demoWant[in.name]

			p, err := New("demo", strings.NewReader(in.src))
			if err != nil {
				t.Fatalf("New: %s", err)
			}

			var calls []int
			v, err := p.ParseAndEvaluate(demoEval(&calls, -1))

			if got := demoRender(v); got != want.value {
				t.Errorf("value:\n got %s\nwant %s", got, want.value)
			}
			if got := errString(err); got != want.evalErr {
				t.Errorf("error:\n got %s\nwant %s", got, want.evalErr)
			}

			var wantCalls []string
			for _, ev := range strings.Fields(want.trace) {
				if strings.HasPrefix(ev, "P") {
					wantCalls = append(wantCalls, ev[1:])
				}
			}
			if got := strings.Trim(fmt.Sprint(calls), "[]"); got != strings.Join(wantCalls, " ") {
				t.Errorf("evaluated productions:\n got %s\nwant %s", got, strings.Join(wantCalls, " "))
			}
		})
	}
}

// TestRefactorDemo_EvaluateValues looks at the raw arguments of the evaluation callback:
// fresh slices of exactly the body length, terminals carrying lexeme and a private copy of the position,
// non-terminals carrying the very result of the earlier call, and the head taking over the first pointer.
func TestRefactorDemo_EvaluateValues(t *testing.T) {
	p, err := New("demo", strings.NewReader("grammar g;\ns = a ;"))
	if err != nil {
		t.Fatalf("New: %s", err)
	}

	type call struct {
		i   int
		rhs []*lr.Value
		res *int
	}

	var calls []call
	root, err := p.ParseAndEvaluate(func(i int, rhs []*lr.Value) (any, error) {
		res := new(int)
		*res = len(calls)
		calls = append(calls, call{i, rhs, res})
		return res, nil
	})
	if err != nil {
		t.Fatalf("ParseAndEvaluate: %s", err)
	}

	wantProds := []int{7, 1, 3, 32, 22, 32, 30, 20, 6, 2, 0}
	if len(calls) != len(wantProds) {
		t.Fatalf("got %d calls, want %d", len(calls), len(wantProds))
	}
	for k, c := range calls {
		if c.i != wantProds[k] {
			t.Errorf("call %d: production %d, want %d", k, c.i, wantProds[k])
		}
		if c.rhs == nil || len(c.rhs) != len(productions[c.i].Body) || cap(c.rhs) != len(c.rhs) {
			t.Errorf("call %d: rhs nil=%t len=%d cap=%d, want non-nil with len=cap=%d", k, c.rhs == nil, len(c.rhs), cap(c.rhs), len(productions[c.i].Body))
		}
	}

	// name → "grammar" IDENT semi_opt
	name := calls[1].rhs
	if name[0].Val != "grammar" || *name[0].Pos != (lexer.Position{Filename: "demo", Offset: 0, Line: 1, Column: 1}) {
		t.Errorf("name[0] = %v@%v", name[0].Val, name[0].Pos)
	}
	if name[1].Val != "g" || *name[1].Pos != (lexer.Position{Filename: "demo", Offset: 8, Line: 1, Column: 9}) {
		t.Errorf("name[1] = %v@%v", name[1].Val, name[1].Pos)
	}
	if name[2].Val != any(calls[0].res) || name[2].Pos != calls[0].rhs[0].Pos {
		t.Errorf("name[2] is not the result of semi_opt with the position of its first symbol")
	}
	if name[0].Pos == name[1].Pos {
		t.Errorf("token positions share one pointer")
	}

	// decls → ε has no values and no position.
	if len(calls[2].rhs) != 0 {
		t.Errorf("decls → ε got %d values", len(calls[2].rhs))
	}

	// rule → lhs "=" rhs
	rule := calls[7].rhs
	if rule[0].Val != any(calls[4].res) || rule[0].Pos != calls[3].rhs[0].Pos {
		t.Errorf("rule[0] is not lhs")
	}
	if rule[1].Val != "=" || rule[1].Pos.Offset != 13 || rule[1].Pos.Line != 2 || rule[1].Pos.Column != 3 {
		t.Errorf("rule[1] = %v@%v", rule[1].Val, rule[1].Pos)
	}
	if rule[2].Val != any(calls[6].res) || rule[2].Pos != calls[5].rhs[0].Pos {
		t.Errorf("rule[2] is not rhs")
	}

	// decls → decls decl: the first symbol derives ε, hence the head has no position.
	decls := calls[9].rhs
	if decls[0].Val != any(calls[2].res) || decls[0].Pos != nil {
		t.Errorf("decls[0] = %v@%v, want the ε result without position", decls[0].Val, decls[0].Pos)
	}
	if decls[1].Val != any(calls[8].res) || decls[1].Pos != rule[0].Pos {
		t.Errorf("decls[1] is not decl")
	}

	// grammar → name decls
	top := calls[10].rhs
	if top[0].Val != any(calls[1].res) || top[0].Pos != name[0].Pos {
		t.Errorf("grammar[0] is not name")
	}
	if top[1].Val != any(calls[9].res) || top[1].Pos != nil {
		t.Errorf("grammar[1] = %v@%v", top[1].Val, top[1].Pos)
	}
	if root == nil || root.Val != any(calls[10].res) || root.Pos != name[0].Pos {
		t.Errorf("root is not the result of the last call with the position of the first token")
	}
}

// TestRefactorDemo_EvaluateErrorAborts fails every single evaluation in turn: the parse stops,
// no value is returned, no later evaluation happens, and the error is a position-less ParseError.
func TestRefactorDemo_EvaluateErrorAborts(t *testing.T) {
	for _, in := range demoInputs {
		t.Run(in.name, func(t *testing.T) {
			var full []string
			for _, ev := range strings.Fields(demoWant[in.name].trace) {
				if strings.HasPrefix(ev, "P") {
					full = append(full, ev[1:])
				}
			}

			for k := range full {
				p, err := New("demo", strings.NewReader(in.src))
				if err != nil {
					t.Fatalf("New: %s", err)
				}

				var calls []int
				v, err := p.ParseAndEvaluate(demoEval(&calls, k))

				if v != nil {
					t.Errorf("fail at %d: value %s, want nil", k, demoRender(v))
				}
				if got, want := strings.Trim(fmt.Sprint(calls), "[]"), strings.Join(full[:k+1], " "); got != want {
					t.Errorf("fail at %d: evaluated %s, want %s", k, got, want)
				}

				var pe *parser.ParseError
				if !errors.As(err, &pe) {
					t.Fatalf("fail at %d: error is %T (%v), want *parser.ParseError", k, err, err)
				}
				if pe.Cause != errDemo || pe.Description != "" || !pe.Pos.IsZero() {
					t.Errorf("fail at %d: cause %v, description %q, pos %v", k, pe.Cause, pe.Description, pe.Pos)
				}
				if err.Error() != "demo callback failure" {
					t.Errorf("fail at %d: message %q", k, err.Error())
				}
			}
		})
	}
}
