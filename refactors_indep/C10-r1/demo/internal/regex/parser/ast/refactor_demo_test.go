package ast

import (
	"fmt"
	"regexp"
	"sort"
	"strings"
	"testing"

	auto "github.com/moorara/algo/automata"

	"github.com/gardenbed/emerge/internal/regex/parser/nfa"
)

// This file characterizes the direct (followpos) regex-to-DFA construction.
// It pins down the intermediate functions (nullable, firstpos, lastpos, followpos) computed by Parse
// and the language of the automaton built by ToDFA, and cross-checks the latter against
// the NFA-based construction and against the standard library regexp package.

// demoDump renders the position bookkeeping of a parsed regular expression.
// It only relies on identifiers that are pinned down by the existing tests.
func demoDump(a *AST) string {
	expr := a.Root.(*Concat).Exprs[0] // the regular expression without the end-marker

	keys := make([]int, 0, len(a.follows))
	for p := range a.follows {
		keys = append(keys, int(p))
	}
	sort.Ints(keys)

	var b strings.Builder
	fmt.Fprintf(&b, "null=%v first=%v last=%v n=%d follows:", expr.nullable(), a.Root.firstPos(), expr.lastPos(), a.lastPos)
	for _, k := range keys {
		fmt.Fprintf(&b, " %d%v", k, a.follows[Pos(k)])
	}

	return b.String()
}

func demoString(s string) auto.String {
	res := make(auto.String, 0, len(s))
	for _, r := range s {
		res = append(res, auto.Symbol(r))
	}
	return res
}

// demoAlphabet returns the letters used in a pattern plus one letter that is foreign to it.
func demoAlphabet(pattern string) []rune {
	seen := map[rune]bool{}
	alphabet := []rune{}
	for _, r := range pattern {
		if 'a' <= r && r <= 'z' && !seen[r] {
			seen[r] = true
			alphabet = append(alphabet, r)
		}
	}
	return append(alphabet, 'z')
}

// demoWords enumerates all strings over an alphabet up to the largest length that keeps the total below a budget.
func demoWords(alphabet []rune) []string {
	const budget = 60000

	words, level := []string{""}, []string{""}
	for len(level)*len(alphabet) <= budget {
		next := make([]string, 0, len(level)*len(alphabet))
		for _, w := range level {
			for _, r := range alphabet {
				next = append(next, w+string(r))
			}
		}
		words = append(words, next...)
		level = next
	}

	return words
}

var demoCases = []struct {
	pattern string
	dump    string
	states  int // number of states of the minimal complete DFA
	accept  []string
	reject  []string
}{
	{"a", "null=false first=[1] last=[1] n=2 follows: 1[2]", 3, []string{"a"}, []string{"", "aa", "b"}},
	{"ab", "null=false first=[1] last=[2] n=3 follows: 1[2] 2[3]", 4, []string{"ab"}, []string{"", "a", "b", "ba", "abb"}},
	{"a|b", "null=false first=[1 2] last=[1 2] n=3 follows: 1[3] 2[3]", 3, []string{"a", "b"}, []string{"", "ab", "c"}},
	{"a*", "null=true first=[1 2] last=[1] n=2 follows: 1[1 2]", 1, []string{"", "a", "aaaa"}, []string{"b", "ab"}},
	{"a?", "null=true first=[1 2] last=[1] n=2 follows: 1[2]", 3, []string{"", "a"}, []string{"aa", "b"}},
	{"a+", "null=false first=[1] last=[1 2] n=3 follows: 1[2 3] 2[2 3]", 2, []string{"a", "aaa"}, []string{"", "b"}},
	{"(a|b)*abb", "null=false first=[1 2 3] last=[5] n=6 follows: 1[1 2 3] 2[1 2 3] 3[4] 4[5] 5[6]", 4, []string{"abb", "aabb", "babb", "abbabb"}, []string{"", "ab", "abba", "abbc"}},
	{"a?b?c?", "null=true first=[1 2 3 4] last=[1 2 3] n=4 follows: 1[2 3 4] 2[3 4] 3[4]", 5, []string{"", "a", "b", "c", "ab", "ac", "bc", "abc"}, []string{"ba", "ca", "cb", "aa", "abcc"}},
	{"(a?b?)*c", "null=false first=[1 2 3] last=[3] n=4 follows: 1[1 2 2 3] 2[1 2 3] 3[4]", 3, []string{"c", "ac", "bc", "abc", "bac", "aabbc"}, []string{"", "a", "cc", "ca"}},
	{"a{0}", "null=true first=[1] last=[] n=1 follows:", 1, []string{""}, []string{"a", "aa"}},
	{"a{0}b", "null=false first=[1] last=[1] n=2 follows: 1[2]", 3, []string{"b"}, []string{"", "ab", "a", "bb"}},
	{"ba{0}c", "null=false first=[1] last=[2] n=3 follows: 1[2] 2[3]", 4, []string{"bc"}, []string{"", "bac", "b", "c"}},
	{"ba{0}", "null=false first=[1] last=[1] n=2 follows: 1[2]", 3, []string{"b"}, []string{"", "ba", "bb"}},
	{"a{2,4}", "null=false first=[1] last=[2 3 4] n=5 follows: 1[2] 2[3 4 5] 3[4 5] 4[5]", 6, []string{"aa", "aaa", "aaaa"}, []string{"", "a", "aaaaa"}},
	{"(ab){2}", "null=false first=[1] last=[4] n=5 follows: 1[2] 2[3] 3[4] 4[5]", 6, []string{"abab"}, []string{"", "ab", "ababab", "abba"}},
	{"(a|b){1,2}c", "null=false first=[1 2] last=[5] n=6 follows: 1[3 4 5] 2[3 4 5] 3[5] 4[5] 5[6]", 5, []string{"ac", "bc", "abc", "bbc", "aac"}, []string{"", "c", "abac", "ab"}},
	{"(a*)*", "null=true first=[1 2] last=[1] n=2 follows: 1[1 1 2]", 1, []string{"", "a", "aaa"}, []string{"b"}},
	{"(a?)+", "null=true first=[1 2 3] last=[1 2] n=3 follows: 1[2 3] 2[2 3]", 1, []string{"", "a", "aaaa"}, []string{"b"}},
	{"(a*b*)+", "null=true first=[1 2 3 4 5] last=[1 2 3 4] n=5 follows: 1[1 2 3 4 5] 2[2 3 4 5] 3[3 3 4 4 5] 4[3 4 4 5]", 1, []string{"", "a", "b", "ba", "abab"}, []string{"c", "abc"}},
	{"a{2,}", "null=false first=[1] last=[2 3] n=4 follows: 1[2] 2[3 4] 3[3 4]", 3, []string{"aa", "aaa", "aaaaaa"}, []string{"", "a", "aab"}},
	{"(ab?){0,2}", "null=true first=[1 3 5] last=[1 2 3 4] n=5 follows: 1[2 3 5] 2[3 5] 3[4 5] 4[5]", 6, []string{"", "a", "ab", "aa", "aba", "aab", "abab"}, []string{"b", "aaa", "abb", "ababa"}},
	{"((a|b)?c*){2}", "null=true first=[1 2 3 4 5 6 7] last=[1 2 3 4 5 6] n=7 follows: 1[3 4 5 6 7] 2[3 4 5 6 7] 3[3 4 5 6 7] 4[6 7] 5[6 7] 6[6 7]", 4, []string{"", "a", "c", "ab", "acb", "accbcc", "cc", "cac"}, []string{"aba", "acbca", "abca"}},
	{"a?a?aa", "null=false first=[1 2 3] last=[4] n=5 follows: 1[2 3] 2[3] 3[4] 4[5]", 6, []string{"aa", "aaa", "aaaa"}, []string{"", "a", "aaaaa"}},
	{"(a?){3}b", "null=false first=[1 2 3 4] last=[4] n=5 follows: 1[2 3 4] 2[3 4] 3[4] 4[5]", 6, []string{"b", "ab", "aab", "aaab"}, []string{"", "aaaab", "a", "ba"}},
	{"(a|b?)(c?|d)e?", "null=true first=[1 2 3 4 5 6] last=[1 2 3 4 5] n=6 follows: 1[3 4 5 6] 2[3 4 5 6] 3[5 6] 4[5 6] 5[6]", 5, []string{"", "a", "b", "c", "d", "e", "ace", "bd", "de", "ae"}, []string{"ab", "cd", "ee", "ea", "acde"}},
	{"[ab]c?[ab]", "null=false first=[1 2] last=[4 5] n=6 follows: 1[3 4 5] 2[3 4 5] 3[4 5] 4[6] 5[6]", 5, []string{"aa", "ab", "bca", "acb"}, []string{"", "a", "ac", "acca", "aab"}},
	{"(a*|b)+c{0,1}", "null=true first=[1 2 3 4 5 6] last=[1 2 3 4 5] n=6 follows: 1[1 3 4 5 6] 2[3 4 5 6] 3[3 3 4 5 6] 4[3 4 5 6] 5[6]", 3, []string{"", "c", "a", "b", "abba", "bac"}, []string{"cc", "ca", "acb"}},
	{"x(a?b?){2,3}y", "null=false first=[1] last=[8] n=9 follows: 1[2 3 4 5 6 7 8] 2[3 4 5 6 7 8] 3[4 5 6 7 8] 4[5 6 7 8] 5[6 7 8] 6[7 8] 7[8] 8[9]", 10, []string{"xy", "xay", "xby", "xbay", "xabababy", "xbbby", "xaaay"}, []string{"", "x", "y", "xaaaay", "xbbbby", "xabababay", "xyy"}},
}

func TestRefactorDemo_Positions(t *testing.T) {
	for _, tc := range demoCases {
		t.Run(tc.pattern, func(t *testing.T) {
			a, err := Parse(tc.pattern)
			if err != nil {
				t.Fatalf("unexpected error: %s", err)
			}

			if got := demoDump(a); got != tc.dump {
				t.Errorf("position functions mismatch\n got: %s\nwant: %s", got, tc.dump)
			}

			// followPos is a plain lookup into the precomputed table.
			for p := Pos(0); p <= a.lastPos+1; p++ {
				if got, want := fmt.Sprint(a.followPos(p)), fmt.Sprint(a.follows[p]); got != want {
					t.Errorf("followPos(%d) = %s, want %s", p, got, want)
				}
			}

			// The end-marker has the last position and nothing follows it.
			if c := a.posToChar[a.lastPos]; c != endMarker {
				t.Errorf("last position holds %U, want the end-marker", c)
			}
			if _, ok := a.follows[a.lastPos]; ok {
				t.Errorf("the end-marker position must not have a follows entry")
			}
		})
	}
}

func TestRefactorDemo_Language(t *testing.T) {
	for _, tc := range demoCases {
		t.Run(tc.pattern, func(t *testing.T) {
			a, err := Parse(tc.pattern)
			if err != nil {
				t.Fatalf("unexpected error: %s", err)
			}

			n, err := nfa.Parse(tc.pattern)
			if err != nil {
				t.Fatalf("unexpected error: %s", err)
			}

			direct := a.ToDFA()
			viaNFA := n.ToDFA()
			oracle := regexp.MustCompile(`^(?:` + tc.pattern + `)$`)

			if got := len(direct.States()); got != tc.states {
				t.Errorf("direct DFA has %d states, want %d", got, tc.states)
			}

			// The construction must be repeatable on the same tree.
			if again := a.ToDFA(); !again.Isomorphic(direct) {
				t.Errorf("second ToDFA call produced a different automaton")
			}

			// The end-marker must never leak into the alphabet of the automaton.
			for _, s := range direct.Symbols() {
				if rune(s) == endMarker {
					t.Errorf("end-marker is part of the DFA alphabet")
				}
			}

			for _, w := range tc.accept {
				if !direct.Accept(demoString(w)) {
					t.Errorf("direct DFA rejects %q", w)
				}
			}

			for _, w := range tc.reject {
				if direct.Accept(demoString(w)) {
					t.Errorf("direct DFA accepts %q", w)
				}
			}

			for _, w := range demoWords(demoAlphabet(tc.pattern)) {
				s := demoString(w)
				want := oracle.MatchString(w)

				if got := direct.Accept(s); got != want {
					t.Fatalf("direct DFA: Accept(%q) = %t, want %t", w, got, want)
				}

				if got := viaNFA.Accept(s); got != want {
					t.Fatalf("NFA-based DFA: Accept(%q) = %t, want %t", w, got, want)
				}
			}
		})
	}
}

// Node functions on hand-built trees, including shapes the parser does not produce.
func TestRefactorDemo_Nodes(t *testing.T) {
	ch := func(p Pos) *Char { return &Char{Val: 'a' + rune(p), Pos: p} }
	opt := func(n Node) Node { return &Alt{Exprs: []Node{&Empty{}, n}} }

	tests := []struct {
		name     string
		n        Node
		nullable bool
		first    string
		last     string
	}{
		{"EmptyConcat", &Concat{}, true, "[]", "[]"},
		{"ConcatOfEmpty", &Concat{Exprs: []Node{&Empty{}}}, true, "[]", "[]"},
		{"ConcatOfEmpties", &Concat{Exprs: []Node{&Empty{}, &Empty{}}}, true, "[]", "[]"},
		{"SingleChar", &Concat{Exprs: []Node{ch(1)}}, false, "[1]", "[1]"},
		{"TwoChars", &Concat{Exprs: []Node{ch(1), ch(2)}}, false, "[1]", "[2]"},
		{"NullableHead", &Concat{Exprs: []Node{opt(ch(1)), &Star{Expr: ch(2)}, ch(3), ch(4)}}, false, "[1 2 3]", "[4]"},
		{"NullableTail", &Concat{Exprs: []Node{ch(1), ch(2), opt(ch(3)), &Star{Expr: ch(4)}}}, false, "[1]", "[2 3 4]"},
		{"NullableMiddle", &Concat{Exprs: []Node{ch(1), opt(ch(2)), ch(3)}}, false, "[1]", "[3]"},
		{"AllNullable", &Concat{Exprs: []Node{opt(ch(1)), &Empty{}, &Star{Expr: ch(2)}, opt(ch(3))}}, true, "[1 2 3]", "[1 2 3]"},
		{"NonNullableAround", &Concat{Exprs: []Node{opt(ch(1)), ch(2), opt(ch(3)), ch(4), opt(ch(5))}}, false, "[1 2]", "[4 5]"},
		{"EmptyInside", &Concat{Exprs: []Node{&Empty{}, ch(1), &Empty{}}}, false, "[1]", "[1]"},
		{
			"Nested",
			&Concat{Exprs: []Node{
				&Star{Expr: &Concat{Exprs: []Node{ch(1), opt(ch(2))}}},
				&Concat{Exprs: []Node{opt(ch(3)), &Alt{Exprs: []Node{ch(4), &Concat{}}}}},
			}},
			true, "[1 3 4]", "[1 2 3 4]",
		},
		{"AltOfConcats", &Alt{Exprs: []Node{&Concat{Exprs: []Node{ch(1), opt(ch(2))}}, &Concat{Exprs: []Node{opt(ch(3)), ch(4)}}}}, false, "[1 3 4]", "[1 2 4]"},
	}

	for _, tc := range tests {
		t.Run(tc.name, func(t *testing.T) {
			// Query twice and in different orders: the memoized answers must be stable.
			for i := 0; i < 2; i++ {
				if got := fmt.Sprint(tc.n.lastPos()); got != tc.last {
					t.Errorf("lastPos = %s, want %s", got, tc.last)
				}
				if got := tc.n.nullable(); got != tc.nullable {
					t.Errorf("nullable = %t, want %t", got, tc.nullable)
				}
				if got := fmt.Sprint(tc.n.firstPos()); got != tc.first {
					t.Errorf("firstPos = %s, want %s", got, tc.first)
				}
			}

			// Position sets are never nil, even when empty.
			if tc.n.firstPos() == nil || tc.n.lastPos() == nil {
				t.Errorf("position sets must not be nil")
			}
		})
	}
}
