package spec

import (
	"sort"
	"strings"
	"testing"

	auto "github.com/moorara/algo/automata"
	"github.com/moorara/algo/grammar"
	"github.com/moorara/algo/lexer"
)

// demoReferenceUnescape is an independent, deliberately naive statement of the documented rule:
// a backslash stands for the character (byte) following it; a backslash with nothing after it stands for itself.
func demoReferenceUnescape(s string) string {
	out := make([]byte, 0, len(s))
	escaped := false
	for _, c := range []byte(s) {
		switch {
		case escaped:
			out = append(out, c)
			escaped = false
		case c == '\\':
			escaped = true
		default:
			out = append(out, c)
		}
	}
	if escaped {
		out = append(out, '\\')
	}
	return string(out)
}

func TestRefactorDemo_UnescapeTable(t *testing.T) {
	tests := []struct{ in, want string }{
		{``, ``},
		{`a`, `a`},
		{`if`, `if`},
		{`==`, `==`},
		{`\"`, `"`},
		{`\\`, `\`},
		{`\\\\`, `\\`},
		{`\\\"`, `\"`},
		{`\a`, `a`},
		{`\n`, `n`},
		{`\t\r`, `tr`},
		{`a\"b`, `a"b`},
		{`\"a\"`, `"a"`},
		{`a\\b`, `a\b`},
		{`a\\\\b\\c`, `a\\b\c`},
		{`\`, `\`},
		{`a\`, `a\`},
		{`\\\`, `\\`},
		{`a\\\`, `a\\`},
		{`\x41`, `x41`},
		{`\/\*`, `/*`},
		{`<\=`, `<=`},
		{"\\\u00e9x", "\u00e9x"},
		{"\u00e9\\\\\u4e16", "\u00e9\\\u4e16"},
		{"\\\xff\\", "\xff\\"},
		{strings.Repeat(`\\`, 50), strings.Repeat(`\`, 50)},
		{strings.Repeat(`ab\"`, 20), strings.Repeat(`ab"`, 20)},
	}

	for _, tc := range tests {
		if got := unescape(tc.in); got != tc.want {
			t.Errorf("unescape(%q) = %q, want %q", tc.in, got, tc.want)
		}
		if ref := demoReferenceUnescape(tc.in); ref != tc.want {
			t.Errorf("reference(%q) = %q, want %q (bad table entry)", tc.in, ref, tc.want)
		}
	}
}

// All strings of length 0..7 over a small alphabet that contains the backslash, the quotation mark,
// a plain letter and the two bytes of a non-ASCII character, compared against the reference.
func TestRefactorDemo_UnescapeExhaustive(t *testing.T) {
	alphabet := []byte{'\\', '"', 'a', 0xC3, 0xA9}
	count := 0

	var gen func(prefix []byte, n int)
	gen = func(prefix []byte, n int) {
		in := string(prefix)
		if got, want := unescape(in), demoReferenceUnescape(in); got != want {
			t.Fatalf("unescape(%q) = %q, want %q", in, got, want)
		}
		count++
		if n == 0 {
			return
		}
		for _, c := range alphabet {
			gen(append(prefix, c), n-1)
		}
	}
	gen(nil, 7)

	if want := (5*5*5*5*5*5*5*5 - 1) / 4; count != want {
		t.Fatalf("checked %d strings, want %d", count, want)
	}

	// A string without any backslash is returned unchanged.
	for _, s := range []string{"", "abc", "\"", "\u00e9"} {
		if got := unescape(s); got != s {
			t.Errorf("unescape(%q) = %q, want it unchanged", s, got)
		}
	}
}

const demoGrammar = `grammar demo;

QUOTE  = "\""
BSLASH = "\\"
ARROW  = "\-\>"
KW     = "if"
ID     = /[a-z]+/
ESC    = /\\[a-z]/

start = item start | item;
item  = ID | KW | QUOTE | BSLASH | ARROW | ESC | "a\"b" | "\\\\" | "x\\y" | "else" | "\(" ;
`

// scan runs the DFA over the text and returns the state reached, or -1.
func demoScan(d *auto.DFA, text string) auto.State {
	curr := d.Start
	for _, r := range text {
		if curr = d.Next(curr, auto.Symbol(r)); curr < 0 {
			return -1
		}
	}
	return curr
}

func demoWinner(d *auto.DFA, termMap map[grammar.Terminal][]auto.State, text string) string {
	s := demoScan(d, text)
	if s < 0 || !d.Final.Contains(s) {
		return "<none>"
	}
	var winners []string
	for a, states := range termMap {
		for _, f := range states {
			if f == s {
				winners = append(winners, string(a))
			}
		}
	}
	sort.Strings(winners)
	return strings.Join(winners, ",")
}

func TestRefactorDemo_ParseResolvesLiterals(t *testing.T) {
	s, err := Parse("demo.grammar", strings.NewReader(demoGrammar))
	if err != nil {
		t.Fatalf("unexpected error: %s", err)
	}

	type def struct {
		term, value string
		isRegex     bool
		hasPos      bool
	}

	// Definitions come sorted: literals before patterns, shorter terminal names first, then by name.
	want := []def{
		{`(`, `(`, false, false},
		{`KW`, `if`, false, true},
		{`\\`, `\\`, false, false},
		{`a"b`, `a"b`, false, false},
		{`x\y`, `x\y`, false, false},
		{`else`, `else`, false, false},
		{`ARROW`, `->`, false, true},
		{`QUOTE`, `"`, false, true},
		{`BSLASH`, `\`, false, true},
		{`ID`, `[a-z]+`, true, true},
		{`ESC`, `\\[a-z]`, true, true},
	}

	var got []def
	for _, d := range s.Definitions {
		got = append(got, def{string(d.Terminal), d.Value, d.IsRegex, d.Pos != nil})
	}

	if len(got) != len(want) {
		t.Fatalf("definitions = %v, want %v", got, want)
	}
	for i := range want {
		if got[i] != want[i] {
			t.Errorf("definition %d = %+v, want %+v", i, got[i], want[i])
		}
	}

	// The grammar's terminals are the resolved literals and the token names.
	for _, a := range []string{`(`, `\\`, `a"b`, `x\y`, `else`, `KW`, `ARROW`, `QUOTE`, `BSLASH`, `ID`, `ESC`} {
		if !s.Grammar.Terminals.Contains(grammar.Terminal(a)) {
			t.Errorf("terminal %q is missing from the grammar", a)
		}
	}
	for _, a := range []string{`\"`, `\(`, `\\\\`, `a\"b`, `x\\y`, `\-\>`} {
		if s.Grammar.Terminals.Contains(grammar.Terminal(a)) {
			t.Errorf("terminal %q still carries its escapes", a)
		}
	}

	if _, _, err := s.DFA(); err != nil {
		t.Fatalf("unexpected error: %s", err)
	}
}

// A named literal and an inline literal that denote the same characters once their escapes are resolved
// are two definitions with the same value.
func TestRefactorDemo_SameTextAfterResolution(t *testing.T) {
	src := `grammar demo;
QUOTE = "\""
MINUS = "\-"
start = QUOTE | MINUS | "\"" | "-";
`
	_, err := Parse("demo.grammar", strings.NewReader(src))
	if err == nil {
		t.Fatal("expected an error")
	}
	msg := err.Error()
	for _, want := range []string{
		`multiple definitions with the same value: "\""`,
		`demo.grammar:2:1: "QUOTE"`,
		`multiple definitions with the same value: "-"`,
		`demo.grammar:3:1: "MINUS"`,
	} {
		if !strings.Contains(msg, want) {
			t.Errorf("error does not contain %q:\n%s", want, msg)
		}
	}
}

const demoGrammarNoConflict = `grammar demo;

BSLASH = "\\"
ARROW  = "\-\>"
KW     = "if"
ID     = /[a-z]+/
ESC    = /\\[a-z]/

start = item start | item;
item  = ID | KW | BSLASH | ARROW | ESC | "a\"b" | "\\\\" | "x\\y" | "else" | "\(" | "\"" | "\\n";
`

func TestRefactorDemo_ScannerWinners(t *testing.T) {
	s, err := Parse("demo.grammar", strings.NewReader(demoGrammarNoConflict))
	if err != nil {
		t.Fatalf("unexpected error: %s", err)
	}

	d, termMap, err := s.DFA()
	if err != nil {
		t.Fatalf("unexpected error: %s", err)
	}

	tests := []struct{ text, want string }{
		{`"`, `"`},
		{`\"`, `<none>`},
		{`(`, `(`},
		{`\(`, `<none>`},
		{`\`, `BSLASH`},
		{`\\`, `\\`},
		{`\\\`, `<none>`},
		{`\\\\`, `<none>`},
		{`->`, `ARROW`},
		{`\-\>`, `<none>`},
		{`a"b`, `a"b`},
		{`a\"b`, `<none>`},
		{`x\y`, `x\y`},
		{`x\\y`, `<none>`},
		{`if`, `KW`},
		{`else`, `else`},
		{`els`, `ID`},
		{`iff`, `ID`},
		{`\n`, `\n`}, // the literal "\\n" (backslash, n) beats the pattern ESC
		{`\m`, `ESC`},
		{`n`, `ID`},
		{``, `<none>`},
	}

	for _, tc := range tests {
		if got := demoWinner(d, termMap, tc.text); got != tc.want {
			t.Errorf("winner for %q = %s, want %s", tc.text, got, tc.want)
		}
	}
}

func TestRefactorDemo_PatternConflictStillReported(t *testing.T) {
	src := `grammar demo;
AA = /\\[a-z]/
BB = /\\n+/
start = AA | BB | "\\x";
`
	s, err := Parse("demo.grammar", strings.NewReader(src))
	if err != nil {
		t.Fatalf("unexpected error: %s", err)
	}

	_, _, err = s.DFA()
	if err == nil {
		t.Fatal("expected a conflict between AA and BB")
	}
	msg := err.Error()
	if !strings.Contains(msg, "conflicting definitions capture the same string") ||
		!strings.Contains(msg, `demo.grammar:2:1: "AA"`) || !strings.Contains(msg, `demo.grammar:3:1: "BB"`) {
		t.Errorf("unexpected error: %s", msg)
	}
	if strings.Count(msg, "conflicting definitions") != 1 {
		t.Errorf("expected exactly one conflict (the literal \\x breaks its own tie): %s", msg)
	}
}

// The symbol table keeps every definition given for a token, in the order given,
// and numbers tokens in the order of their first appearance.
func TestRefactorDemo_SymbolTableTokenDefs(t *testing.T) {
	pos := func(line int) *lexer.Position {
		return &lexer.Position{Filename: "demo", Offset: line * 10, Line: line, Column: 1}
	}

	st := NewSymbolTable()
	st.AddTokenTerminal("T", pos(1))            // referenced before it is defined
	st.AddStringTokenDef("S", `a\b`, pos(2))    // the value is stored as given (already resolved by the caller)
	st.AddRegexTokenDef("R", `\\[a-z]`, pos(3)) // patterns are never unescaped
	st.AddStringTokenDef("T", `"`, pos(4))
	st.AddRegexTokenDef("D", `x`, pos(5))
	st.AddStringTokenDef("D", `x`, pos(6))
	st.AddRegexTokenDef("D", `y`, pos(7))
	st.AddStringTerminal(`\`, pos(8))

	type entry struct {
		index, occurrences int
		defs               string
	}

	want := map[grammar.Terminal]entry{
		"T": {1, 1, `T="@demo:4:1`},
		"S": {2, 0, `S=a\b@demo:2:1`},
		"R": {3, 0, `R=/\\[a-z]/@demo:3:1`},
		"D": {4, 0, `D=/x/@demo:5:1 D=x@demo:6:1 D=/y/@demo:7:1`},
		`\`: {5, 1, `\=\@<nil>`},
	}

	if n := st.terminals.table.Size(); n != len(want) {
		t.Fatalf("%d terminals, want %d", n, len(want))
	}
	if st.terminals.counter != 5 {
		t.Errorf("counter = %d, want 5", st.terminals.counter)
	}

	for a, w := range want {
		e, ok := st.terminals.table.Get(a)
		if !ok {
			t.Errorf("terminal %q is missing", a)
			continue
		}

		var defs []string
		for _, d := range e.definitions {
			v := d.Value
			if d.IsRegex {
				v = "/" + v + "/"
			}
			p := "<nil>"
			if d.Pos != nil {
				p = d.Pos.String()
			}
			defs = append(defs, string(d.Terminal)+"="+v+"@"+p)
		}

		got := entry{e.index, len(e.occurrences), strings.Join(defs, " ")}
		if got != w {
			t.Errorf("entry for %q = %+v, want %+v", a, got, w)
		}
		if e.definitions == nil || e.occurrences == nil {
			t.Errorf("entry for %q has a nil slice", a)
		}
	}

	// Only singly-defined terminals are definitions; D is reported by Verify.
	var names []string
	for _, d := range st.Definitions() {
		names = append(names, string(d.Terminal))
	}
	if got := strings.Join(names, " "); got != `S T \ R` {
		t.Errorf("definitions = %s, want %s", got, `S T \ R`)
	}

	err := st.Verify()
	if err == nil {
		t.Fatal("expected a verification error")
	}
	lines := strings.Fields(err.Error())
	if got := strings.Join(lines, " "); !strings.Contains(got, `multiple definitions for terminal "D": demo:5:1 demo:6:1 demo:7:1`) {
		t.Errorf("unexpected verification result: %v", err)
	}
}
