package golang

import (
	"crypto/sha256"
	"encoding/hex"
	"os"
	"path/filepath"
	"regexp"
	"sort"
	"strings"
	"testing"
	"unicode"
	"unicode/utf8"

	"github.com/gardenbed/charm/ui"

	"github.com/gardenbed/emerge/internal/ebnf/parser/spec"
)

// This file characterizes the behaviour of the package-name check, the preparation step, and
// the template rendering of the Go generator. It passes on the code before and after the refactoring.

// demoIDRegex is the reference definition of an identifier.
var demoIDRegex = regexp.MustCompile(`^[\p{L}_][\p{L}\p{Nd}_]*$`)

var demoBuiltin = []string{
	"break", "default", "func", "interface", "select", "case", "defer", "go", "map", "struct",
	"chan", "else", "goto", "package", "switch", "const", "fallthrough", "if", "range", "type",
	"continue", "for", "import", "return", "var",
	"any", "bool", "byte", "comparable", "complex64", "complex128", "error", "float32", "float64",
	"int", "int8", "int16", "int32", "int64", "rune", "string",
	"uint", "uint8", "uint16", "uint32", "uint64", "uintptr",
	"true", "false", "iota", "nil",
	"append", "cap", "clear", "close", "complex", "copy", "delete", "imag", "len",
	"make", "max", "min", "new", "panic", "print", "println", "real", "recover",
}

func demoRefIDValid(name string) bool {
	if name == "_" || !demoIDRegex.MatchString(name) {
		return false
	}
	for _, b := range demoBuiltin {
		if b == name {
			return false
		}
	}
	return true
}

func TestRefactorDemo_isIDValid_Table(t *testing.T) {
	tests := []struct {
		name     string
		expected bool
	}{
		{"", false},
		{"_", false},
		{"__", true},
		{"_1", true},
		{"_a", true},
		{"a", true},
		{"A", true},
		{"a1", true},
		{"a_1_b", true},
		{"1", false},
		{"1a", false},
		{"expr", true},
		{"Expr", true},
		{"main", true},
		{"init", true},
		{"Int", true},
		{"INT", true},
		{"int_", true},
		{"_int", true},
		{"types", true},
		{"é", true},
		{"日本語", true},
		{"π2", true},
		{"a\u0663", true},  // ARABIC-INDIC DIGIT THREE (Nd)
		{"\u0663a", false}, // a digit cannot start an identifier
		{"a\u00b2", false}, // SUPERSCRIPT TWO (No)
		{"a\u2167", false}, // ROMAN NUMERAL EIGHT (Nl)
		{"a\u0301", false}, // COMBINING ACUTE ACCENT (Mn)
		{"a\u203f", false}, // UNDERTIE (Pc)
		{"a-b", false},
		{"a b", false},
		{" a", false},
		{"a ", false},
		{"a\n", false},
		{"\na", false},
		{"a\nb", false},
		{"a.b", false},
		{"a/b", false},
		{"../a", false},
		{"..", false},
		{".", false},
		{"/", false},
		{"a\\b", false},
		{"a$", false},
		{"^a", false},
		{"\x00", false},
		{"a\x00", false},
		{"\xff", false},
		{"a\xff", false},
		{"\xffa", false},
		{"a\xc3", false}, // truncated UTF-8 sequence
		{"\ufffd", false},
		{"a\ufffd", false},
		{"\U0001f600", false},
		{"a\U0001f600", false},
		{"\U00020000", true}, // CJK ideograph outside the BMP
		{strings.Repeat("a", 5000), true},
		{strings.Repeat("a", 5000) + "-", false},
	}

	for _, tc := range tests {
		if got := isIDValid(tc.name); got != tc.expected {
			t.Errorf("isIDValid(%q) = %t, expected %t", tc.name, got, tc.expected)
		}
		if ref := demoRefIDValid(tc.name); ref != tc.expected {
			t.Errorf("reference(%q) = %t, expected %t", tc.name, ref, tc.expected)
		}
	}

	for _, name := range demoBuiltin {
		if isIDValid(name) {
			t.Errorf("isIDValid(%q) = true, expected false", name)
		}
		for _, variant := range []string{name + "_", "_" + name, strings.ToUpper(name), name + "0"} {
			if got, ref := isIDValid(variant), demoRefIDValid(variant); got != ref {
				t.Errorf("isIDValid(%q) = %t, reference = %t", variant, got, ref)
			}
		}
	}
}

// Every code point (and every single byte) is checked at the first and at a later position.
func TestRefactorDemo_isIDValid_Exhaustive(t *testing.T) {
	var letters, digits int

	for r := rune(0); r <= unicode.MaxRune; r++ {
		s := string(r)

		first, later := isIDValid(s), isIDValid("x"+s)
		if ref := demoRefIDValid(s); first != ref {
			t.Fatalf("isIDValid(%q) = %t, reference = %t", s, first, ref)
		}
		if ref := demoRefIDValid("x" + s); later != ref {
			t.Fatalf("isIDValid(%q) = %t, reference = %t", "x"+s, later, ref)
		}
		if got, ref := isIDValid(s+"x"), demoRefIDValid(s+"x"); got != ref {
			t.Fatalf("isIDValid(%q) = %t, reference = %t", s+"x", got, ref)
		}

		if first {
			letters++
		}
		if later && !first {
			digits++
		}
	}

	// "_" alone is rejected, so it counts as one of the later-only code points.
	if letters == 0 || digits == 0 {
		t.Fatalf("unexpected counts: %d %d", letters, digits)
	}
	t.Logf("first-position code points: %d, later-only code points: %d", letters, digits)

	for b := 0; b < 256; b++ {
		for _, s := range []string{string([]byte{byte(b)}), "x" + string([]byte{byte(b)}), string([]byte{byte(b)}) + "x", "x" + string([]byte{byte(b)}) + "y"} {
			if got, ref := isIDValid(s), demoRefIDValid(s); got != ref {
				t.Fatalf("isIDValid(%q) = %t, reference = %t", s, got, ref)
			}
			if b >= utf8.RuneSelf && isIDValid(s) {
				t.Fatalf("isIDValid(%q) = true for invalid UTF-8", s)
			}
		}
	}
}

// demoSnapshot returns a sorted listing of everything below root: directories, and files with a digest of their content.
func demoSnapshot(t *testing.T, root string) []string {
	t.Helper()

	var list []string
	err := filepath.Walk(root, func(path string, info os.FileInfo, err error) error {
		if err != nil {
			return err
		}
		rel, _ := filepath.Rel(root, path)
		if info.IsDir() {
			list = append(list, rel+"/")
			return nil
		}
		b, err := os.ReadFile(path)
		if err != nil {
			return err
		}
		sum := sha256.Sum256(b)
		list = append(list, rel+" "+hex.EncodeToString(sum[:8]))
		return nil
	})
	if err != nil {
		t.Fatal(err)
	}

	sort.Strings(list)
	return list
}

func demoEqual(t *testing.T, what string, got, expected []string) {
	t.Helper()
	if strings.Join(got, "\n") != strings.Join(expected, "\n") {
		t.Errorf("%s:\n got: %q\nwant: %q", what, got, expected)
	}
}

func demoErr(t *testing.T, what string, err error, expected string) {
	t.Helper()
	switch {
	case expected == "" && err != nil:
		t.Errorf("%s: unexpected error %q", what, err)
	case expected != "" && err == nil:
		t.Errorf("%s: expected error %q, got nil", what, expected)
	case expected != "" && err.Error() != expected:
		t.Errorf("%s:\n got error %q\nwant error %q", what, err, expected)
	}
}

func TestRefactorDemo_prepare(t *testing.T) {
	root := t.TempDir()

	mustWrite := func(path, content string) {
		if err := os.MkdirAll(filepath.Dir(path), 0o755); err != nil {
			t.Fatal(err)
		}
		if err := os.WriteFile(path, []byte(content), 0o644); err != nil {
			t.Fatal(err)
		}
	}

	mustWrite(filepath.Join(root, "file"), "plain file")
	mustWrite(filepath.Join(root, "out", "taken", "parser.go"), "precious")
	mustWrite(filepath.Join(root, "out", "occupied"), "a file with the package name")
	if err := os.Mkdir(filepath.Join(root, "locked"), 0o755); err != nil {
		t.Fatal(err)
	}

	before := demoSnapshot(t, root)
	out := filepath.Join(root, "out")

	failures := []struct {
		what     string
		path     string
		name     string
		nilSpec  bool
		expected string
		cleaned  string
	}{
		{
			what: "missing path", path: filepath.Join(root, "missing"), nilSpec: true,
			expected: `output path does not exist: "` + filepath.Join(root, "missing") + `"`,
			cleaned:  filepath.Join(root, "missing"),
		},
		{
			what: "missing path is cleaned", path: root + "//out/../missing/./", nilSpec: true,
			expected: `output path does not exist: "` + filepath.Join(root, "missing") + `"`,
			cleaned:  filepath.Join(root, "missing"),
		},
		{
			what: "path is a file", path: filepath.Join(root, "file"), nilSpec: true,
			expected: `output path is not a directory: "` + filepath.Join(root, "file") + `"`,
			cleaned:  filepath.Join(root, "file"),
		},
		{
			what: "path below a file", path: filepath.Join(root, "file", "sub"), nilSpec: true,
			expected: `error on checking output path: stat ` + filepath.Join(root, "file", "sub") + `: not a directory`,
			cleaned:  filepath.Join(root, "file", "sub"),
		},
		{
			what: "path with NUL", path: root + "/a\x00b", nilSpec: true,
			expected: `error on checking output path: stat ` + root + "/a\x00b" + `: invalid argument`,
			cleaned:  root + "/a\x00b",
		},
		{what: "empty name", path: out, name: "", expected: `invalid package name: `, cleaned: out},
		{what: "blank name", path: out, name: "_", expected: `invalid package name: _`, cleaned: out},
		{what: "keyword", path: out, name: "func", expected: `invalid package name: func`, cleaned: out},
		{what: "predeclared", path: out, name: "string", expected: `invalid package name: string`, cleaned: out},
		{what: "digit first", path: out, name: "4ever", expected: `invalid package name: 4ever`, cleaned: out},
		{what: "dash", path: out, name: "my-pkg", expected: `invalid package name: my-pkg`, cleaned: out},
		{what: "traversal", path: out, name: "../escape", expected: `invalid package name: ../escape`, cleaned: out},
		{what: "nested", path: out, name: "a/b", expected: `invalid package name: a/b`, cleaned: out},
		{what: "dot", path: out, name: ".", expected: `invalid package name: .`, cleaned: out},
		{what: "trailing newline", path: out, name: "pkg\n", expected: "invalid package name: pkg\n", cleaned: out},
		{what: "invalid utf8", path: out, name: "pkg\xff", expected: "invalid package name: pkg\xff", cleaned: out},
		{
			what: "existing package directory", path: out, name: "taken",
			expected: `error on creating package directory: mkdir ` + filepath.Join(out, "taken") + `: file exists`, cleaned: out,
		},
		{
			what: "existing file with the package name", path: out + "/.", name: "occupied",
			expected: `error on creating package directory: mkdir ` + filepath.Join(out, "occupied") + `: file exists`, cleaned: out,
		},
	}

	for _, tc := range failures {
		g := &generator{UI: ui.NewNop(), Params: &Params{Path: tc.path}}
		if !tc.nilSpec {
			g.Spec = &spec.Spec{Name: tc.name}
		}

		err := g.prepare()
		demoErr(t, tc.what, err, tc.expected)
		if g.Path != tc.cleaned {
			t.Errorf("%s: Path = %q, expected %q", tc.what, g.Path, tc.cleaned)
		}
		demoEqual(t, tc.what+": file system", demoSnapshot(t, root), before)
	}

	// Successful runs create exactly one empty directory each.
	successes := []struct {
		path, name string
	}{
		{out, "expr"},
		{out + "/../out/", "Ünïcode_9"},
		{filepath.Join(root, "locked"), "_x"},
	}

	expected := append([]string{}, before...)
	for _, tc := range successes {
		g := &generator{UI: ui.NewNop(), Params: &Params{Path: tc.path, Spec: &spec.Spec{Name: tc.name}}}
		demoErr(t, "prepare "+tc.name, g.prepare(), "")

		if g.Path != filepath.Clean(tc.path) {
			t.Errorf("Path = %q, expected %q", g.Path, filepath.Clean(tc.path))
		}

		rel, _ := filepath.Rel(root, filepath.Join(filepath.Clean(tc.path), tc.name))
		expected = append(expected, rel+"/")
		sort.Strings(expected)
		demoEqual(t, "prepare "+tc.name+": file system", demoSnapshot(t, root), expected)

		// A second run for the same package is refused.
		g = &generator{UI: ui.NewNop(), Params: &Params{Path: tc.path, Spec: &spec.Spec{Name: tc.name}}}
		demoErr(t, "second prepare "+tc.name, g.prepare(),
			`error on creating package directory: mkdir `+filepath.Join(filepath.Clean(tc.path), tc.name)+`: file exists`)
		demoEqual(t, "second prepare "+tc.name+": file system", demoSnapshot(t, root), expected)
	}
}

// demoExprDigests are the digests of the files rendered for a package named "expr" with the fixture spec.
var demoExprDigests = map[string]string{
	"errors.go": "512111d1107a96eb",
	"input.go":  "f1a1e2b98a5ae2c1",
	"lexer.go":  "f46958c2cad7b562",
	"parser.go": "058298c155f50355",
	"stack.go":  "b6d6040d95d82bec",
	"types.go":  "a64ece996bc55a90",
}

func demoExprListing(dir string, files ...string) []string {
	var list []string
	for _, f := range files {
		list = append(list, filepath.Join(dir, f)+" "+demoExprDigests[f])
	}
	return list
}

func demoMerge(lists ...[]string) []string {
	var all []string
	for _, l := range lists {
		all = append(all, l...)
	}
	sort.Strings(all)
	return all
}

func TestRefactorDemo_renderTemplate(t *testing.T) {
	root := t.TempDir()
	pkgDir := filepath.Join(root, "expr")
	if err := os.Mkdir(pkgDir, 0o755); err != nil {
		t.Fatal(err)
	}
	if err := os.WriteFile(filepath.Join(pkgDir, "types.go"), []byte("precious"), 0o600); err != nil {
		t.Fatal(err)
	}

	newGen := func() *generator {
		return &generator{UI: ui.NewNop(), Params: &Params{Path: root, Spec: &spec.Spec{Name: "expr"}}}
	}

	before := demoSnapshot(t, root)
	data := &coreData{Package: "expr"}

	// The template is looked up before the generator params are used and before any file is created.
	demoErr(t, "missing template, no params", (&generator{UI: ui.NewNop()}).renderTemplate("missing.go", nil),
		`open templates/missing.go.tmpl: file does not exist`)
	demoErr(t, "missing template", newGen().renderTemplate("missing.go", data),
		`open templates/missing.go.tmpl: file does not exist`)
	demoErr(t, "empty name", newGen().renderTemplate("", data), `open templates/.tmpl: file does not exist`)
	demoErr(t, "template name is a directory", newGen().renderTemplate("..", data), `open templates/...tmpl: file does not exist`)
	demoEqual(t, "missing templates: file system", demoSnapshot(t, root), before)

	// Both the template name and the target file name are cleaned lexically.
	demoErr(t, "unclean name", newGen().renderTemplate("../templates/types.go", data),
		`open `+filepath.Join(root, "templates", "types.go")+`: no such file or directory`)
	demoEqual(t, "unclean name: file system", demoSnapshot(t, root), before)

	// An existing file is never overwritten.
	demoErr(t, "existing file", newGen().renderTemplate("types.go", data),
		`open `+filepath.Join(pkgDir, "types.go")+`: file exists`)
	demoEqual(t, "existing file: file system", demoSnapshot(t, root), before)

	// The package directory is missing.
	g := newGen()
	g.Spec.Name = "absent"
	demoErr(t, "missing package directory", g.renderTemplate("stack.go", data),
		`open `+filepath.Join(root, "absent", "stack.go")+`: no such file or directory`)
	demoEqual(t, "missing package directory: file system", demoSnapshot(t, root), before)

	// A template is written completely, and only once.
	demoErr(t, "stack.go", newGen().renderTemplate("stack.go", data), "")
	after := demoMerge(before, demoExprListing("expr", "stack.go"))
	demoEqual(t, "stack.go: file system", demoSnapshot(t, root), after)
	demoErr(t, "stack.go again", newGen().renderTemplate("stack.go", data),
		`open `+filepath.Join(pkgDir, "stack.go")+`: file exists`)
	demoEqual(t, "stack.go again: file system", demoSnapshot(t, root), after)

	// Rendering the core types continues after a failure: the existing files are reported and kept, the rest is written.
	demoErr(t, "generateCore", newGen().generateCore(),
		"open "+filepath.Join(pkgDir, "types.go")+": file exists\n"+
			"open "+filepath.Join(pkgDir, "stack.go")+": file exists\n")
	after = demoMerge(after, demoExprListing("expr", "errors.go"))
	demoEqual(t, "generateCore: file system", demoSnapshot(t, root), after)

	// A failing template execution leaves the error to the caller.
	demoErr(t, "bad data", newGen().renderTemplate("parser.go", struct{ Other int }{}),
		`template: parser.go:1:10: executing "parser.go" at <.Package>: can't evaluate field Package in type struct { Other int }`)
}

func TestRefactorDemo_generate(t *testing.T) {
	root := t.TempDir()
	if err := os.WriteFile(filepath.Join(root, "sibling.txt"), []byte("untouched"), 0o644); err != nil {
		t.Fatal(err)
	}
	if err := os.MkdirAll(filepath.Join(root, "taken"), 0o755); err != nil {
		t.Fatal(err)
	}
	if err := os.WriteFile(filepath.Join(root, "taken", "lexer.go"), []byte("precious"), 0o644); err != nil {
		t.Fatal(err)
	}

	newSpec := func(name string) *spec.Spec {
		return &spec.Spec{
			Name:        name,
			Definitions: definitions,
			Grammar:     grammars[0],
			Precedences: precedences[0],
		}
	}

	all := []string{"errors.go", "types.go", "stack.go", "input.go", "lexer.go", "parser.go"}
	before := demoSnapshot(t, root)

	// Nothing is created for a rejected name, a missing output path, or an existing package directory.
	demoErr(t, "invalid name", Generate(ui.NewNop(), &Params{Path: root, Spec: newSpec("go")}), `invalid package name: go`)
	demoErr(t, "invalid name", Generate(ui.NewNop(), &Params{Path: root, Spec: newSpec("ex pr")}), `invalid package name: ex pr`)
	demoErr(t, "missing path", Generate(ui.NewNop(), &Params{Path: filepath.Join(root, "nope"), Spec: newSpec("expr")}),
		`output path does not exist: "`+filepath.Join(root, "nope")+`"`)
	demoErr(t, "file path", Generate(ui.NewNop(), &Params{Path: filepath.Join(root, "sibling.txt"), Spec: newSpec("expr")}),
		`output path is not a directory: "`+filepath.Join(root, "sibling.txt")+`"`)
	demoErr(t, "taken", Generate(ui.NewNop(), &Params{Path: root, Spec: newSpec("taken")}),
		`error on creating package directory: mkdir `+filepath.Join(root, "taken")+`: file exists`)
	demoEqual(t, "failures: file system", demoSnapshot(t, root), before)

	// A successful run writes the six files of the package.
	params := &Params{Path: root + "/./", Spec: newSpec("expr")}
	demoErr(t, "Generate", Generate(ui.NewNop(), params), "")
	if params.Path != root {
		t.Errorf("Path = %q, expected %q", params.Path, root)
	}
	after := demoMerge(before, []string{"expr/"}, demoExprListing("expr", all...))
	demoEqual(t, "Generate: file system", demoSnapshot(t, root), after)

	for _, f := range all {
		b, err := os.ReadFile(filepath.Join(root, "expr", f))
		if err != nil {
			t.Fatal(err)
		}
		if !strings.HasPrefix(string(b), "package expr\n") {
			t.Errorf("%s does not start with the package clause", f)
		}
	}

	// A second run does not touch the package written by the first one.
	demoErr(t, "Generate again", Generate(ui.NewNop(), &Params{Path: root, Spec: newSpec("expr")}),
		`error on creating package directory: mkdir `+filepath.Join(root, "expr")+`: file exists`)
	demoEqual(t, "Generate again: file system", demoSnapshot(t, root), after)

	// Failures of the lexer and of the parser are reported together, and the core types are still written.
	bad := newSpec("partial")
	bad.Definitions = []*spec.TerminalDef{{Terminal: "ID", Value: "[A-Z", IsRegex: true}}
	bad.Precedences = nil
	err := Generate(ui.NewNop(), &Params{Path: root, Spec: bad})
	if err == nil {
		t.Fatal("expected an error")
	}
	if s := err.Error(); !strings.HasPrefix(s, "\"ID\": invalid regular expression: [A-Z\n") ||
		!strings.Contains(s, "error on building LALR(1) parsing table:") {
		t.Errorf("unexpected error %q", s)
	}
	partial := demoExprListing("partial", "errors.go", "types.go", "stack.go")
	got := demoSnapshot(t, root)
	var gotPartial []string
	for _, l := range got {
		if strings.HasPrefix(l, "partial/") && l != "partial/" {
			gotPartial = append(gotPartial, l[:strings.LastIndex(l, " ")])
		}
	}
	for i := range partial {
		partial[i] = partial[i][:strings.LastIndex(partial[i], " ")]
	}
	sort.Strings(partial)
	demoEqual(t, "partial: files", gotPartial, partial)
}
