package ast

import (
	"fmt"
	"reflect"
	"regexp"
	"strings"
	"testing"

	auto "github.com/moorara/algo/automata"

	"github.com/gardenbed/emerge/internal/regex/parser/nfa"
)

// Characterization of quantifyNode and cloneNode (property C10).
// Every expectation below is written out as a literal tree or as a concrete rendering,
// so the test is meaningful both before and after the refactoring.

func demoChar(r rune, p Pos) *Char { return &Char{Val: r, Pos: p} }
func demoIntPtr(i int) *int        { return &i }
func demoOpt(n Node) *Alt          { return &Alt{Exprs: []Node{&Empty{}, n}} }
func demoRange(l int, u *int) any  { return tuple[int, *int]{p: l, q: u} }

// demoRender prints a tree in a compact form that also distinguishes nil from empty lists and shows the memo field.
func demoRender(n Node) string {
	list := func(exprs []Node) string {
		if exprs == nil {
			return "<nil>"
		}
		ss := make([]string, len(exprs))
		for i, e := range exprs {
			ss[i] = demoRender(e)
		}
		return strings.Join(ss, ",")
	}

	switch v := n.(type) {
	case nil:
		return "NIL"
	case *Concat:
		return fmt.Sprintf("C(%s)%s", list(v.Exprs), demoMemo(v.comp))
	case *Alt:
		return fmt.Sprintf("A(%s)%s", list(v.Exprs), demoMemo(v.comp))
	case *Star:
		return fmt.Sprintf("S(%s)", demoRender(v.Expr))
	case *Empty:
		return "e"
	case *Char:
		return fmt.Sprintf("%c@%d", v.Val, v.Pos)
	default:
		return fmt.Sprintf("?%T", n)
	}
}

func demoMemo(c *computed) string {
	if c == nil {
		return ""
	}
	return "!memo"
}

// demoPointers collects the addresses of all nodes that have a size (Empty is a zero-size type and is skipped).
func demoPointers(n Node, into map[any]int) {
	switch v := n.(type) {
	case *Concat:
		into[v]++
		for _, e := range v.Exprs {
			demoPointers(e, into)
		}
	case *Alt:
		into[v]++
		for _, e := range v.Exprs {
			demoPointers(e, into)
		}
	case *Star:
		into[v]++
		demoPointers(v.Expr, into)
	case *Char:
		into[v]++
	}
}

func TestRefactorDemo_QuantifyNode_Trees(t *testing.T) {
	a := func() Node { return demoChar('a', 7) }

	tests := []struct {
		name     string
		n        Node
		q        any
		expected Node
		rendered string
	}{
		{"ZeroOrOne", a(), '?', &Alt{Exprs: []Node{&Empty{}, a()}}, "A(e,a@7)"},
		{"ZeroOrMore", a(), '*', &Star{Expr: a()}, "S(a@7)"},
		{"OneOrMore", a(), '+', &Concat{Exprs: []Node{a(), &Star{Expr: a()}}}, "C(a@7,S(a@7))"},
		{"UnknownOperator", a(), '!', nil, "NIL"},
		{"UnknownOperatorBrace", a(), '{', nil, "NIL"},
		{"UnknownQuantifierType", a(), "*", nil, "NIL"},
		{"UnknownQuantifierInt", a(), 2, nil, "NIL"},
		{"NilQuantifier", a(), nil, nil, "NIL"},
		{"PointerToRange", a(), &tuple[int, *int]{p: 1}, nil, "NIL"},
		{"Range_0_0", a(), demoRange(0, demoIntPtr(0)), &Concat{}, "C(<nil>)"},
		{"Range_0_Unbounded", a(), demoRange(0, nil), &Concat{Exprs: []Node{&Star{Expr: a()}}}, "C(S(a@7))"},
		{"Range_2_Unbounded", a(), demoRange(2, nil), &Concat{Exprs: []Node{a(), a(), &Star{Expr: a()}}}, "C(a@7,a@7,S(a@7))"},
		{"Range_2_2", a(), demoRange(2, demoIntPtr(2)), &Concat{Exprs: []Node{a(), a()}}, "C(a@7,a@7)"},
		{"Range_1_3", a(), demoRange(1, demoIntPtr(3)), &Concat{Exprs: []Node{a(), demoOpt(a()), demoOpt(a())}}, "C(a@7,A(e,a@7),A(e,a@7))"},
		{"Range_0_2", a(), demoRange(0, demoIntPtr(2)), &Concat{Exprs: []Node{demoOpt(a()), demoOpt(a())}}, "C(A(e,a@7),A(e,a@7))"},
		{"Range_3_1_UpperBelowLower", a(), demoRange(3, demoIntPtr(1)), &Concat{Exprs: []Node{a(), a(), a()}}, "C(a@7,a@7,a@7)"},
		{"Range_Negative_Lower", a(), demoRange(-2, demoIntPtr(0)), &Concat{Exprs: []Node{demoOpt(a()), demoOpt(a())}}, "C(A(e,a@7),A(e,a@7))"},
		{"Range_Negative_Both", a(), demoRange(-1, demoIntPtr(-3)), &Concat{}, "C(<nil>)"},
		{"Range_Negative_Lower_Unbounded", a(), demoRange(-1, nil), &Concat{Exprs: []Node{&Star{Expr: a()}}}, "C(S(a@7))"},
		{"NilOperand_Star", nil, '*', &Star{}, "S(NIL)"},
		{"NilOperand_Optional", nil, '?', &Alt{Exprs: []Node{&Empty{}, nil}}, "A(e,NIL)"},
		{"NilOperand_Range", nil, demoRange(1, demoIntPtr(2)), &Concat{Exprs: []Node{nil, &Alt{Exprs: []Node{&Empty{}, nil}}}}, "C(NIL,A(e,NIL))"},
		{"EmptyOperand_Plus", &Empty{}, '+', &Concat{Exprs: []Node{&Empty{}, &Star{Expr: &Empty{}}}}, "C(e,S(e))"},
		{"EmptyConcatOperand", &Concat{Exprs: []Node{}}, '?', &Alt{Exprs: []Node{&Empty{}, &Concat{}}}, "A(e,C(<nil>))"},
		{"EmptyAltOperand", &Alt{Exprs: []Node{}}, '*', &Star{Expr: &Alt{}}, "S(A(<nil>))"},
		{
			"NestedOperand_Range_1_2",
			&Concat{Exprs: []Node{
				&Star{Expr: demoChar('a', 1)},
				&Alt{Exprs: []Node{&Empty{}, demoChar('b', 2)}},
			}},
			demoRange(1, demoIntPtr(2)),
			&Concat{Exprs: []Node{
				&Concat{Exprs: []Node{
					&Star{Expr: demoChar('a', 1)},
					&Alt{Exprs: []Node{&Empty{}, demoChar('b', 2)}},
				}},
				&Alt{Exprs: []Node{
					&Empty{},
					&Concat{Exprs: []Node{
						&Star{Expr: demoChar('a', 1)},
						&Alt{Exprs: []Node{&Empty{}, demoChar('b', 2)}},
					}},
				}},
			}},
			"C(C(S(a@1),A(e,b@2)),A(e,C(S(a@1),A(e,b@2))))",
		},
	}

	for _, tc := range tests {
		t.Run(tc.name, func(t *testing.T) {
			before := demoRender(tc.n)
			got := quantifyNode(tc.n, tc.q)

			if tc.expected == nil {
				if got != nil {
					t.Fatalf("expected an untyped nil node, got %#v", got)
				}
			} else if !reflect.DeepEqual(tc.expected, got) {
				t.Fatalf("unexpected tree:\n  expected %s\n  got      %s", demoRender(tc.expected), demoRender(got))
			}

			if s := demoRender(got); s != tc.rendered {
				t.Fatalf("unexpected rendering: expected %q, got %q", tc.rendered, s)
			}

			// The operand is left untouched.
			if after := demoRender(tc.n); after != before {
				t.Fatalf("the operand was modified: %q became %q", before, after)
			}

			// Every node of the result is a fresh node: nothing is shared with the operand or inside the result.
			ptrs := map[any]int{}
			demoPointers(got, ptrs)
			for p, count := range ptrs {
				if count != 1 {
					t.Fatalf("node %p appears %d times in the result", p, count)
				}
			}
			orig := map[any]int{}
			demoPointers(tc.n, orig)
			for p := range orig {
				if _, shared := ptrs[p]; shared {
					t.Fatalf("node %p of the operand is shared with the result", p)
				}
			}
		})
	}
}

func TestRefactorDemo_QuantifyNode_ResultTypes(t *testing.T) {
	n := demoChar('x', 0)

	tests := []struct {
		q        any
		expected string
	}{
		{'?', "*ast.Alt"},
		{'*', "*ast.Star"},
		{'+', "*ast.Concat"},
		{demoRange(0, nil), "*ast.Concat"},
		{demoRange(0, demoIntPtr(0)), "*ast.Concat"},
		{demoRange(4, demoIntPtr(9)), "*ast.Concat"},
		{'x', "<nil>"},
		{3.5, "<nil>"},
	}

	for _, tc := range tests {
		if got := fmt.Sprintf("%T", quantifyNode(n, tc.q)); got != tc.expected {
			t.Errorf("quantifyNode(x, %v): expected type %s, got %s", tc.q, tc.expected, got)
		}
	}

	// Sizes of range expansions: low copies plus either one star or up-low optional copies.
	for low := 0; low <= 5; low++ {
		c := quantifyNode(n, demoRange(low, nil)).(*Concat)
		if len(c.Exprs) != low+1 {
			t.Errorf("{%d,}: expected %d operands, got %d", low, low+1, len(c.Exprs))
		}
		if _, ok := c.Exprs[low].(*Star); !ok {
			t.Errorf("{%d,}: expected the last operand to be a star, got %T", low, c.Exprs[low])
		}

		for up := 0; up <= 7; up++ {
			c := quantifyNode(n, demoRange(low, demoIntPtr(up))).(*Concat)
			expected := max(low, up)
			if len(c.Exprs) != expected {
				t.Errorf("{%d,%d}: expected %d operands, got %d", low, up, expected, len(c.Exprs))
			}
			for i, e := range c.Exprs {
				_, isChar := e.(*Char)
				_, isAlt := e.(*Alt)
				if (i < low && !isChar) || (i >= low && !isAlt) {
					t.Errorf("{%d,%d}: unexpected operand %d: %T", low, up, i, e)
				}
			}
			if expected == 0 && c.Exprs != nil {
				t.Errorf("{%d,%d}: expected a nil list of operands", low, up)
			}
		}
	}
}

type demoForeignNode struct{}

func (demoForeignNode) nullable() bool  { return false }
func (demoForeignNode) firstPos() Poses { return nil }
func (demoForeignNode) lastPos() Poses  { return nil }

func TestRefactorDemo_CloneNode(t *testing.T) {
	// A tree on which the memoized functions have already been computed.
	memoized := &Concat{Exprs: []Node{
		&Alt{Exprs: []Node{demoChar('a', 1), &Empty{}}},
		&Star{Expr: &Concat{Exprs: []Node{demoChar('b', 2), demoChar('c', 3)}}},
	}}
	memoized.nullable()
	memoized.firstPos()
	memoized.lastPos()
	if got := demoRender(memoized); got != "C(A(a@1,e)!memo,S(C(b@2,c@3)!memo))!memo" {
		t.Fatalf("unexpected rendering of the memoized tree: %s", got)
	}

	tests := []struct {
		name     string
		n        Node
		expected Node
		rendered string
	}{
		{"Nil", nil, nil, "NIL"},
		{"Foreign", demoForeignNode{}, nil, "NIL"},
		{"Char", demoChar('a', 3), demoChar('a', 3), "a@3"},
		{"CharZero", &Char{}, &Char{}, "\x00@0"},
		{"EndMarker", &Char{Val: endMarker, Pos: 9}, &Char{Val: endMarker, Pos: 9}, "\uEEEE@9"},
		{"Empty", &Empty{}, &Empty{}, "e"},
		{"NilEmpty", (*Empty)(nil), &Empty{}, "e"},
		{"StarOfNil", &Star{}, &Star{}, "S(NIL)"},
		{"StarOfStar", &Star{Expr: &Star{Expr: demoChar('a', 1)}}, &Star{Expr: &Star{Expr: demoChar('a', 1)}}, "S(S(a@1))"},
		{"ConcatNilList", &Concat{}, &Concat{}, "C(<nil>)"},
		{"ConcatEmptyList", &Concat{Exprs: []Node{}}, &Concat{}, "C(<nil>)"},
		{"AltNilList", &Alt{}, &Alt{}, "A(<nil>)"},
		{"AltEmptyList", &Alt{Exprs: make([]Node, 0, 4)}, &Alt{}, "A(<nil>)"},
		{"ConcatWithNilAndForeign", &Concat{Exprs: []Node{nil, demoForeignNode{}, demoChar('z', 1)}}, &Concat{Exprs: []Node{nil, nil, demoChar('z', 1)}}, "C(NIL,NIL,z@1)"},
		{"AltWithNil", &Alt{Exprs: []Node{nil}}, &Alt{Exprs: []Node{nil}}, "A(NIL)"},
		{
			"MemoizedTree_MemoNotCopied",
			memoized,
			&Concat{Exprs: []Node{
				&Alt{Exprs: []Node{demoChar('a', 1), &Empty{}}},
				&Star{Expr: &Concat{Exprs: []Node{demoChar('b', 2), demoChar('c', 3)}}},
			}},
			"C(A(a@1,e),S(C(b@2,c@3)))",
		},
	}

	for _, tc := range tests {
		t.Run(tc.name, func(t *testing.T) {
			before := demoRender(tc.n)
			got := cloneNode(tc.n)

			if tc.expected == nil {
				if got != nil {
					t.Fatalf("expected an untyped nil node, got %#v", got)
				}
			} else if !reflect.DeepEqual(tc.expected, got) {
				t.Fatalf("unexpected clone:\n  expected %s\n  got      %s", demoRender(tc.expected), demoRender(got))
			}

			if s := demoRender(got); s != tc.rendered {
				t.Fatalf("unexpected rendering: expected %q, got %q", tc.rendered, s)
			}
			if after := demoRender(tc.n); after != before {
				t.Fatalf("the original was modified: %q became %q", before, after)
			}

			orig, ptrs := map[any]int{}, map[any]int{}
			demoPointers(tc.n, orig)
			demoPointers(got, ptrs)
			if len(orig) != len(ptrs) {
				t.Fatalf("expected %d sized nodes in the clone, got %d", len(orig), len(ptrs))
			}
			for p := range orig {
				if _, shared := ptrs[p]; shared {
					t.Fatalf("node %p is shared between the original and the clone", p)
				}
			}
		})
	}

	// Changing a clone does not change the original, and vice versa.
	orig := &Concat{Exprs: []Node{demoChar('a', 1), &Star{Expr: demoChar('b', 2)}}}
	clone := cloneNode(orig).(*Concat)
	clone.Exprs[0].(*Char).Pos = 10
	clone.Exprs[1].(*Star).Expr.(*Char).Val = 'q'
	clone.Exprs = append(clone.Exprs, &Empty{})
	orig.Exprs[0].(*Char).Val = 'A'
	if got := demoRender(orig); got != "C(A@1,S(b@2))" {
		t.Errorf("unexpected original after the changes: %s", got)
	}
	if got := demoRender(clone); got != "C(a@10,S(q@2),e)" {
		t.Errorf("unexpected clone after the changes: %s", got)
	}
}

// The trees that come out of the parser for quantified sub-expressions, after the positions are assigned.
func TestRefactorDemo_Parse_Trees(t *testing.T) {
	tests := []struct {
		regex    string
		expected string
	}{
		{`a?`, "C(C(A(e,a@1)),\uEEEE@2)"},
		{`a*`, "C(C(S(a@1)),\uEEEE@2)"},
		{`a+`, "C(C(C(a@1,S(a@2))),\uEEEE@3)"},
		{`a{2}`, "C(C(C(a@1,a@2)),\uEEEE@3)"},
		{`a{2,}`, "C(C(C(a@1,a@2,S(a@3))),\uEEEE@4)"},
		{`a{1,3}`, "C(C(C(a@1,A(e,a@2),A(e,a@3))),\uEEEE@4)"},
		{`a{0,2}b`, "C(C(C(A(e,a@1),A(e,a@2)),b@3),\uEEEE@4)"},
		{`(ab)+`, "C(C(C(C(a@1,b@2),S(C(a@3,b@4)))),\uEEEE@5)"},
		{`(a|b){2}`, "C(C(C(A(C(a@1),C(b@2)),A(C(a@3),C(b@4)))),\uEEEE@5)"},
		{`(a?){1,2}`, "C(C(C(C(A(e,a@1)),A(e,C(A(e,a@2))))),\uEEEE@3)"},
		{`(a*b)?`, "C(C(A(e,C(S(a@1),b@2))),\uEEEE@3)"},
	}

	for _, tc := range tests {
		a, err := Parse(tc.regex)
		if err != nil {
			t.Errorf("%s: unexpected error: %s", tc.regex, err)
			continue
		}

		// Strip the memo marks: which nodes are memoized is not the subject here.
		if got := strings.ReplaceAll(demoRender(a.Root), "!memo", ""); got != tc.expected {
			t.Errorf("%s:\n  expected %s\n  got      %s", tc.regex, tc.expected, got)
		}
	}
}

func demoStrings(alphabet []rune, maxLen int) []string {
	all, last := []string{""}, []string{""}
	for l := 1; l <= maxLen; l++ {
		var next []string
		for _, s := range last {
			for _, r := range alphabet {
				next = append(next, s+string(r))
			}
		}
		all, last = append(all, next...), next
	}
	return all
}

func demoToString(s string) auto.String {
	var res auto.String
	for _, r := range s {
		res = append(res, auto.Symbol(r))
	}
	return res
}

// Both constructions accept exactly the documented language of the pattern (here: as decided by Go's regexp package),
// for patterns whose quantified sub-expressions are nullable, which are nullable themselves, and which use ranges.
func TestRefactorDemo_Languages(t *testing.T) {
	tests := []struct {
		regex    string
		accepted []string // a few concrete members
		rejected []string // a few concrete non-members
	}{
		{`a?`, []string{"", "a"}, []string{"aa", "b"}},
		{`a*`, []string{"", "a", "aaaa"}, []string{"b", "ab"}},
		{`a+`, []string{"a", "aaa"}, []string{"", "ba"}},
		{`a{0}`, []string{""}, []string{"a"}},
		{`a{0}b`, []string{"b"}, []string{"", "ab"}},
		{`a{2}`, []string{"aa"}, []string{"", "a", "aaa"}},
		{`a{2,}`, []string{"aa", "aaaaa"}, []string{"", "a"}},
		{`a{0,}`, []string{"", "aaa"}, []string{"b"}},
		{`a{1,3}`, []string{"a", "aa", "aaa"}, []string{"", "aaaa"}},
		{`a{0,2}`, []string{"", "a", "aa"}, []string{"aaa"}},
		{`a{0,2}b`, []string{"b", "ab", "aab"}, []string{"", "aaab"}},
		{`(a?){2,3}`, []string{"", "a", "aaa"}, []string{"aaaa"}},
		{`(a?){2,3}b`, []string{"b", "aaab"}, []string{"aaaab", ""}},
		{`(a*b?){0,2}`, []string{"", "aba", "abab", "bb"}, []string{"bbb", "ababa"}},
		{`(a*b?){2}c`, []string{"c", "abc", "aabaabc"}, []string{"bbbc", ""}},
		{`(ab|b*){2}`, []string{"", "abab", "abbbb", "bbab", "bbbbbb"}, []string{"a", "ababab", "aba"}},
		{`(a|b?)+`, []string{"", "abba"}, []string{"c", "abc"}},
		{`(a|b?){1,2}`, []string{"", "a", "ab", "bb"}, []string{"aba"}},
		{`(a*)*`, []string{"", "aaa"}, []string{"b"}},
		{`(a*)+b`, []string{"b", "aab"}, []string{"", "a"}},
		{`((a?)*b){1,2}`, []string{"b", "aab", "abab", "bb"}, []string{"", "bbb", "aba"}},
		{`(a?b?){2,}`, []string{"", "ba", "bababa"}, []string{"c"}},
		{`(a?b?c?){2}`, []string{"", "abcabc", "cc", "ca", "cb"}, []string{"ccc", "cba", "abcabca"}},
		{`[ab]{2,3}c?`, []string{"ab", "bab", "aac", "abbc"}, []string{"a", "abab", "cab"}},
		{`(a|b)*abb`, []string{"abb", "aabb", "babb"}, []string{"", "ab", "abba"}},
		{`(a+b*){1,2}`, []string{"a", "ab", "aba", "abbab"}, []string{"", "b", "ababa"}},
		{`(a{2}){1,2}`, []string{"aa", "aaaa"}, []string{"", "a", "aaa", "aaaaa", "aaaaaa"}},
		{`(a{1,2}){2}`, []string{"aa", "aaa", "aaaa"}, []string{"", "a", "aaaaa"}},
		{`(a{0,1}b{0,1}){0,2}`, []string{"", "abab", "ba", "bb"}, []string{"bab" + "b", "aaa"}},
		{`a?a?a?aaa`, []string{"aaa", "aaaaaa"}, []string{"aa", "aaaaaaa"}},
	}

	inputs := demoStrings([]rune{'a', 'b', 'c'}, 7)

	for _, tc := range tests {
		t.Run(tc.regex, func(t *testing.T) {
			a, err := Parse(tc.regex)
			if err != nil {
				t.Fatalf("ast.Parse: unexpected error: %s", err)
			}
			direct := a.ToDFA()

			n, err := nfa.Parse(tc.regex)
			if err != nil {
				t.Fatalf("nfa.Parse: unexpected error: %s", err)
			}
			viaNFA := n.ToDFA()

			ref := regexp.MustCompile(`^(?:` + tc.regex + `)$`)

			for _, s := range tc.accepted {
				if !direct.Accept(demoToString(s)) {
					t.Errorf("direct DFA: expected %q to be accepted", s)
				}
			}
			for _, s := range tc.rejected {
				if direct.Accept(demoToString(s)) {
					t.Errorf("direct DFA: expected %q to be rejected", s)
				}
			}

			members := 0
			for _, s := range inputs {
				in := demoToString(s)
				expected := ref.MatchString(s)
				if expected {
					members++
				}
				if got := direct.Accept(in); got != expected {
					t.Fatalf("direct DFA on %q: expected %t, got %t", s, expected, got)
				}
				if got := n.Accept(in); got != expected {
					t.Fatalf("NFA on %q: expected %t, got %t", s, expected, got)
				}
				if got := viaNFA.Accept(in); got != expected {
					t.Fatalf("DFA via NFA on %q: expected %t, got %t", s, expected, got)
				}
			}

			if members < len(tc.accepted) {
				t.Fatalf("expected at least %d members among the inputs, found %d", len(tc.accepted), members)
			}
		})
	}
}
