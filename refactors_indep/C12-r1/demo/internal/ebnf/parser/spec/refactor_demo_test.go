package spec

import (
	"fmt"
	"sort"
	"strings"
	"testing"

	"github.com/moorara/algo/grammar"
	"github.com/moorara/algo/parser/lr"
)

// demoHead and demoBody are shared by the characterization inputs.
// Every input is demoHead + directives + demoBody.
const demoHead = `grammar demo;

ID  = $ID
NUM = /[0-9]+/

`

const demoBody = `

start = expr;
expr  = expr "+" expr | expr "-" expr | expr "*" expr | expr "/" expr
      | expr "^" expr | "-" expr | expr "==" expr | call | NUM | ID;
call  = ID "(" [args] ")";
args  = expr {"," expr};
list  = {{expr}};
pair  = (ID | NUM) ":" expr;
maybe = ID | ;
empty = ;
`

// renderLevel renders one precedence level as the associativity followed by its handles.
// Handles are rendered one by one and sorted, so the rendering does not depend on the set's iteration order.
func renderLevel(l *lr.PrecedenceLevel) string {
	var hs []string
	for h := range l.Handles.All() {
		switch {
		case h.Terminal != nil && h.Production == nil:
			hs = append(hs, fmt.Sprintf("T(%s)", string(*h.Terminal)))
		case h.Terminal == nil && h.Production != nil:
			hs = append(hs, fmt.Sprintf("P(%s)", h.Production))
		default:
			hs = append(hs, "INVALID")
		}
	}

	sort.Strings(hs)

	return fmt.Sprintf("%s [%s]", l.Associativity, strings.Join(hs, "; "))
}

func TestRefactorDemo_PrecedenceLevels(t *testing.T) {
	tests := []struct {
		name        string
		directives  string
		expected    []string
		expectedErr []string
	}{
		{
			name:       "NoDirectives",
			directives: ``,
			expected:   []string{},
		},
		{
			name:       "SingleLeftTerminal",
			directives: `@left "+"`,
			expected:   []string{`LEFT [T(+)]`},
		},
		{
			name:       "SingleRightTerminal",
			directives: `@right "^"`,
			expected:   []string{`RIGHT [T(^)]`},
		},
		{
			name:       "SingleNoneTerminal",
			directives: `@none "=="`,
			expected:   []string{`NONE [T(==)]`},
		},
		{
			name: "OrderLeftRightNone",
			directives: `@left "*" "/"
@right "^"
@none "=="`,
			expected: []string{`LEFT [T(*); T(/)]`, `RIGHT [T(^)]`, `NONE [T(==)]`},
		},
		{
			name: "OrderNoneRightLeft",
			directives: `@none "=="
@right "^"
@left "*" "/"`,
			expected: []string{`NONE [T(==)]`, `RIGHT [T(^)]`, `LEFT [T(*); T(/)]`},
		},
		{
			name: "RepeatedAssociativityKeepsOrder",
			directives: `@left "*" "/";
@left "+" "-";
@left "==";`,
			expected: []string{`LEFT [T(*); T(/)]`, `LEFT [T(+); T(-)]`, `LEFT [T(==)]`},
		},
		{
			name: "SemicolonsOptional",
			directives: `@right "^";
@none "=="
@left "+";`,
			expected: []string{`RIGHT [T(^)]`, `NONE [T(==)]`, `LEFT [T(+)]`},
		},
		{
			name:       "RuleHandleFirst",
			directives: `@right <expr = "-" expr>`,
			expected:   []string{`RIGHT [P(expr → "-" expr)]`},
		},
		{
			name:       "RuleHandleThenTerminal",
			directives: `@left <expr = expr "+" expr> "-"`,
			expected:   []string{`LEFT [P(expr → expr "+" expr); T(-)]`},
		},
		{
			name:       "TerminalThenRuleHandle",
			directives: `@left "-" <expr = expr "+" expr>`,
			expected:   []string{`LEFT [P(expr → expr "+" expr); T(-)]`},
		},
		{
			name:       "InterleavedHandles",
			directives: `@none "*" <expr = expr "+" expr> "/" <expr = expr "-" expr> <expr = "-" expr> "^"`,
			expected: []string{
				`NONE [P(expr → "-" expr); P(expr → expr "+" expr); P(expr → expr "-" expr); T(*); T(/); T(^)]`,
			},
		},
		{
			name:       "RuleHandleWithAlternation",
			directives: `@left <expr = expr "+" expr | expr "-" expr>`,
			expected:   []string{`LEFT [P(expr → expr "+" expr); P(expr → expr "-" expr)]`},
		},
		{
			name: "RuleHandleWithAlternationAfterHandles",
			directives: `@left "*" <expr = expr "+" expr | expr "-" expr | NUM>
@right <expr = expr "^" expr | ID> "/"`,
			expected: []string{
				`LEFT [P(expr → "NUM"); P(expr → expr "+" expr); P(expr → expr "-" expr); T(*)]`,
				`RIGHT [P(expr → "ID"); P(expr → expr "^" expr); T(/)]`,
			},
		},
		{
			name:       "RuleHandleWithEmptyAlternative",
			directives: `@none <maybe = ID | >`,
			expected:   []string{`NONE [P(maybe → "ID"); P(maybe → ε)]`},
		},
		{
			name:       "RuleHandleWithEmptyBody",
			directives: `@left <empty = >`,
			expected:   []string{`LEFT [P(empty → ε)]`},
		},
		{
			name:       "RuleHandleWithOpt",
			directives: `@left <call = ID "(" [args] ")">`,
			expected:   []string{`LEFT [P(call → "ID" "(" gen_args_opt ")")]`},
		},
		{
			name:       "RuleHandleWithStar",
			directives: `@right <args = expr {"," expr}>`,
			expected:   []string{`RIGHT [P(args → expr gen1_star)]`},
		},
		{
			name:       "RuleHandleWithPlus",
			directives: `@none <list = {{expr}}>`,
			expected:   []string{`NONE [P(list → gen_expr_plus)]`},
		},
		{
			name:       "RuleHandleWithGroup",
			directives: `@left <pair = (ID | NUM) ":" expr>`,
			expected:   []string{`LEFT [P(pair → gen1_group ":" expr)]`},
		},
		{
			name:       "RuleHandleWithGroupAndAlternation",
			directives: `@left ":" <pair = (ID | NUM) ":" expr | ID> ","`,
			expected:   []string{`LEFT [P(pair → "ID"); P(pair → gen1_group ":" expr); T(,); T(:)]`},
		},
		{
			name:       "TokenTerminals",
			directives: `@left ID NUM "+"`,
			expected:   []string{`LEFT [T(+); T(ID); T(NUM)]`},
		},
		{
			name:       "DuplicateTerminalInOneDirective",
			directives: `@left "+" "-" "+"`,
			expected:   []string{`LEFT [T(+); T(-)]`},
		},
		{
			name:       "DuplicateRuleHandleInOneDirective",
			directives: `@left <expr = "-" expr> "-" <expr = "-" expr>`,
			expected:   []string{`LEFT [P(expr → "-" expr); T(-)]`},
		},
		{
			name: "FullMix",
			directives: `@left "*" "/"
@left "+" "-"
@right <expr = expr "^" expr> <expr = "-" expr>
@none "==" <call = ID "(" [args] ")">`,
			expected: []string{
				`LEFT [T(*); T(/)]`,
				`LEFT [T(+); T(-)]`,
				`RIGHT [P(expr → "-" expr); P(expr → expr "^" expr)]`,
				`NONE [P(call → "ID" "(" gen_args_opt ")"); T(==)]`,
			},
		},
		{
			name: "TerminalInTwoLevels",
			directives: `@left "+" "-"
@right "+"`,
			expectedErr: []string{`"+" appeared in more than one precedence level`},
		},
		{
			name: "RuleHandleInTwoLevels",
			directives: `@left <expr = expr "+" expr | expr "-" expr>
@none "*" <expr = expr "-" expr>`,
			expectedErr: []string{`expr = expr "-" expr appeared in more than one precedence level`},
		},
	}

	for _, tc := range tests {
		t.Run(tc.name, func(t *testing.T) {
			src := demoHead + tc.directives + demoBody
			s, err := Parse("demo.grammar", strings.NewReader(src))

			if len(tc.expectedErr) > 0 {
				if err == nil {
					t.Fatalf("expected an error, got spec with precedences %s", s.Precedences)
				}
				for _, e := range tc.expectedErr {
					if !strings.Contains(err.Error(), e) {
						t.Errorf("error %q does not contain %q", err.Error(), e)
					}
				}
				return
			}

			if err != nil {
				t.Fatalf("unexpected error: %s", err)
			}

			if s.Precedences == nil {
				t.Errorf("precedence levels must not be nil")
			}

			got := []string{}
			for _, l := range s.Precedences {
				got = append(got, renderLevel(l))
			}

			if len(got) != len(tc.expected) {
				t.Fatalf("expected %d levels, got %d:\n%s", len(tc.expected), len(got), strings.Join(got, "\n"))
			}

			for i := range got {
				if got[i] != tc.expected[i] {
					t.Errorf("level %d:\nexpected %s\ngot      %s", i, tc.expected[i], got[i])
				}
			}

			// Every production handle is one of the grammar's own productions.
			for i, l := range s.Precedences {
				for h := range l.Handles.All() {
					if h.Production == nil {
						continue
					}

					own := s.Grammar.Productions.AnyMatch(func(p *grammar.Production) bool {
						return p.Equal(h.Production)
					})

					if !own {
						t.Errorf("level %d: %s is not a production of the grammar", i, h.Production)
					}
				}
			}
		})
	}
}

// TestRefactorDemo_DirectivesAreDeterministic checks that parsing the same directives repeatedly
// records the same levels in the same order.
func TestRefactorDemo_DirectivesAreDeterministic(t *testing.T) {
	src := demoHead + `@left "*" <expr = expr "+" expr | expr "-" expr> "/"
@none <empty = > "=="
@right "^" <expr = "-" expr>` + demoBody

	var first string
	for i := 0; i < 5; i++ {
		s, err := Parse("demo.grammar", strings.NewReader(src))
		if err != nil {
			t.Fatalf("unexpected error: %s", err)
		}

		var got []string
		for _, l := range s.Precedences {
			got = append(got, renderLevel(l))
		}

		all := strings.Join(got, "\n")
		expected := `LEFT [P(expr → expr "+" expr); P(expr → expr "-" expr); T(*); T(/)]
NONE [P(empty → ε); T(==)]
RIGHT [P(expr → "-" expr); T(^)]`

		if all != expected {
			t.Fatalf("run %d:\nexpected\n%s\ngot\n%s", i, expected, all)
		}

		if i == 0 {
			first = s.Precedences.String()
		} else if s.Precedences.String() != first {
			t.Fatalf("run %d: rendering differs:\n%s\nvs\n%s", i, first, s.Precedences.String())
		}
	}
}
