package spec

import (
	"fmt"
	"sort"
	"strings"
	"testing"

	"github.com/moorara/algo/automata"
	"github.com/moorara/algo/grammar"
	"github.com/moorara/algo/lexer"
)

// demoWinner runs the combined automaton over the text and returns the terminal the reached state is attributed to.
// It returns the empty string when the text is rejected, and fails when an accepting state has no single owner.
func demoWinner(t *testing.T, dfa *automata.DFA, termMap map[grammar.Terminal][]automata.State, text string) string {
	t.Helper()

	curr := dfa.Start
	for _, r := range text {
		if curr = dfa.Next(curr, automata.Symbol(r)); curr == automata.State(-1) {
			return ""
		}
	}

	owners := []string{}
	for a, states := range termMap {
		for _, s := range states {
			if s == curr {
				owners = append(owners, string(a))
			}
		}
	}

	if !dfa.Final.Contains(curr) {
		if len(owners) != 0 {
			t.Errorf("%q: the non-final state %d is attributed to %v", text, curr, owners)
		}
		return ""
	}

	if len(owners) != 1 {
		t.Errorf("%q: the final state %d is attributed to %v", text, curr, owners)
		return ""
	}

	return owners[0]
}

func demoPos(line int) *lexer.Position {
	return &lexer.Position{Filename: "demo", Offset: 10 * line, Line: line, Column: 1}
}

func TestRefactorDemo_Winners(t *testing.T) {
	tests := []struct {
		name    string
		defs    []*TerminalDef
		winners map[string]string
	}{
		{
			name: "KeywordsBeatIdentifier",
			defs: []*TerminalDef{
				{Terminal: "if", Value: "if"},
				{Terminal: "in", Value: "in"},
				{Terminal: "int", Value: "int"},
				{Terminal: "ID", Value: "[a-z_][0-9a-z_]*", IsRegex: true},
				{Terminal: "NUM", Value: "[0-9]+", IsRegex: true},
			},
			winners: map[string]string{
				"": "", "i": "ID", "if": "if", "in": "in", "int": "int", "ifx": "ID", "inta": "ID", "_": "ID", "x9": "ID",
				"0": "NUM", "2026": "NUM", "9x": "", "I": "", "if ": "", " if": "", "-": "",
			},
		},
		{
			name: "LiteralsOnly",
			defs: []*TerminalDef{
				{Terminal: "=", Value: "="},
				{Terminal: "==", Value: "=="},
				{Terminal: "=>", Value: "=>"},
				{Terminal: "===", Value: "==="},
			},
			winners: map[string]string{
				"": "", "=": "=", "==": "==", "=>": "=>", "===": "===", "====": "", ">": "", "=>=": "", "=>>": "",
			},
		},
		{
			name: "LiteralWithRegexMetaCharacters",
			defs: []*TerminalDef{
				{Terminal: "STAR", Value: "a*"},
				{Terminal: "CLASS", Value: "[0-9]+"},
				{Terminal: "DOT", Value: "."},
				{Terminal: "ALT", Value: "x|y"},
				{Terminal: "GROUP", Value: "(b)?"},
				{Terminal: "BS", Value: `\n`},
			},
			winners: map[string]string{
				"a*": "STAR", "a": "", "aa": "", "": "", "*": "",
				"[0-9]+": "CLASS", "7": "", "77": "", "[0-9]": "",
				".": "DOT", "z": "",
				"x|y": "ALT", "x": "", "y": "",
				"(b)?": "GROUP", "b": "", "(b)": "",
				`\n`: "BS", "\n": "", `\`: "", "n": "",
			},
		},
		{
			name: "ResolvedEscapesAndControlCharacters",
			defs: []*TerminalDef{
				{Terminal: "NL", Value: "\n"},
				{Terminal: "CRLF", Value: "\r\n"},
				{Terminal: "TAB", Value: "\t"},
				{Terminal: "QUOTE", Value: `"`},
				{Terminal: "BACK", Value: `\`},
				{Terminal: "WS", Value: `[ \x09\x0D\x0A]+`, IsRegex: true},
			},
			winners: map[string]string{
				"\n": "NL", "\r\n": "CRLF", "\t": "TAB", `"`: "QUOTE", `\`: "BACK",
				" ": "WS", "\r": "WS", "\n\n": "WS", "\t ": "WS", "\r\n ": "WS", `\\`: "", `""`: "", "": "",
			},
		},
		{
			name: "MultiByteRunes",
			defs: []*TerminalDef{
				{Terminal: "ARROW", Value: "→"},
				{Terminal: "LAMBDA", Value: "λx"},
				{Terminal: "WORD", Value: "héllo"},
				{Terminal: "FACE", Value: "😀😀"},
				{Terminal: "ID", Value: "[a-z]+", IsRegex: true},
			},
			winners: map[string]string{
				"→": "ARROW", "→→": "", "λx": "LAMBDA", "λ": "", "x": "ID", "héllo": "WORD", "hello": "ID", "h": "ID",
				"hé": "", "😀😀": "FACE", "😀": "", "😀😀😀": "", "\xe2": "", "\xce": "",
			},
		},
		{
			name: "InvalidUTF8InLiteral",
			defs: []*TerminalDef{
				{Terminal: "BAD", Value: "a\xffb"},
				{Terminal: "BAD2", Value: "\xc3\x28"},
			},
			winners: map[string]string{
				"a\xffb": "BAD", "a�b": "BAD", "a\xfeb": "BAD", "ab": "", "a\xff": "",
				"\xc3\x28": "BAD2", "�(": "BAD2", "(": "", "�": "",
			},
		},
		{
			name: "EmptyLiteral",
			defs: []*TerminalDef{
				{Terminal: "EMPTY", Value: ""},
				{Terminal: "A", Value: "a"},
			},
			winners: map[string]string{"": "EMPTY", "a": "A", "aa": "", "b": ""},
		},
		{
			name: "EmptyLiteralBeatsNullablePattern",
			defs: []*TerminalDef{
				{Terminal: "EMPTY", Value: ""},
				{Terminal: "AS", Value: "a*", IsRegex: true},
			},
			winners: map[string]string{"": "EMPTY", "a": "AS", "aaa": "AS", "b": ""},
		},
		{
			name: "LiteralOnEveryOverlap",
			defs: []*TerminalDef{
				{Terminal: "A", Value: "ab|cd", IsRegex: true},
				{Terminal: "B", Value: "cd|ef", IsRegex: true},
				{Terminal: "cd", Value: "cd"},
			},
			winners: map[string]string{"ab": "A", "cd": "cd", "ef": "B", "abcd": "", "c": "", "": ""},
		},
		{
			name: "LongLiteral",
			defs: []*TerminalDef{
				{Terminal: "LONG", Value: strings.Repeat("ab", 12)},
				{Terminal: "ABS", Value: "(ab)+", IsRegex: true},
			},
			winners: map[string]string{
				strings.Repeat("ab", 12): "LONG", strings.Repeat("ab", 11): "ABS", strings.Repeat("ab", 13): "ABS",
				"ab": "ABS", strings.Repeat("ab", 11) + "a": "", "": "",
			},
		},
		{
			name: "SameTerminalDefinedTwice",
			defs: []*TerminalDef{
				{Terminal: "OP", Value: "+"},
				{Terminal: "OP", Value: "-"},
				{Terminal: "NUM", Value: "[0-9]+", IsRegex: true},
			},
			winners: map[string]string{"+": "OP", "-": "OP", "1": "NUM", "+-": "", "+1": ""},
		},
	}

	for _, tc := range tests {
		t.Run(tc.name, func(t *testing.T) {
			s := &Spec{Definitions: tc.defs}
			dfa, termMap, err := s.DFA()
			if err != nil {
				t.Fatalf("unexpected error: %s", err)
			}

			for text, expected := range tc.winners {
				if got := demoWinner(t, dfa, termMap, text); got != expected {
					t.Errorf("%q: expected the terminal %q, got %q", text, expected, got)
				}
			}

			// Every final state is attributed to exactly one terminal, and nothing else is.
			count := 0
			for _, states := range termMap {
				count += len(states)
				for _, f := range states {
					if !dfa.Final.Contains(f) {
						t.Errorf("the state %d is attributed to a terminal but is not final", f)
					}
				}
			}
			if count != dfa.Final.Size() {
				t.Errorf("%d states are attributed, the automaton has %d final states", count, dfa.Final.Size())
			}
		})
	}
}

func TestRefactorDemo_ExactAutomaton(t *testing.T) {
	tests := []struct {
		name            string
		defs            []*TerminalDef
		expectedDFA     func() *automata.DFA
		expectedTermMap string
	}{
		{
			name: "OneLiteral",
			defs: []*TerminalDef{{Terminal: "abc", Value: "abc"}},
			expectedDFA: func() *automata.DFA {
				d := automata.NewDFA(0, []automata.State{3})
				d.Add(0, 'a', 1)
				d.Add(1, 'b', 2)
				d.Add(2, 'c', 3)
				return d
			},
			expectedTermMap: `"abc":[3]`,
		},
		{
			name: "EmptyLiteralAlone",
			defs: []*TerminalDef{{Terminal: "E", Value: ""}},
			expectedDFA: func() *automata.DFA {
				return automata.NewDFA(0, []automata.State{0})
			},
			expectedTermMap: `"E":[0]`,
		},
		{
			name: "LiteralsSharingAPrefix",
			defs: []*TerminalDef{
				{Terminal: "if", Value: "if"},
				{Terminal: "in", Value: "in"},
				{Terminal: "i", Value: "i"},
			},
			expectedDFA: func() *automata.DFA {
				d := automata.NewDFA(0, []automata.State{1, 2, 3})
				d.Add(0, 'i', 1)
				d.Add(1, 'f', 2)
				d.Add(1, 'n', 3)
				return d
			},
			expectedTermMap: `"i":[1] "if":[2] "in":[3]`,
		},
		{
			name: "KeywordAndIdentifier",
			defs: []*TerminalDef{
				{Terminal: "ab", Value: "ab"},
				{Terminal: "ID", Value: "[ab]+", IsRegex: true},
			},
			expectedDFA: func() *automata.DFA {
				d := automata.NewDFA(0, []automata.State{1, 2, 3})
				d.Add(0, 'a', 1)
				d.Add(0, 'b', 2)
				d.Add(1, 'a', 2)
				d.Add(1, 'b', 3)
				d.Add(2, 'a', 2)
				d.Add(2, 'b', 2)
				d.Add(3, 'a', 2)
				d.Add(3, 'b', 2)
				return d
			},
			expectedTermMap: `"ID":[1 2] "ab":[3]`,
		},
		{
			name: "MultiByteLiteral",
			defs: []*TerminalDef{{Terminal: "L", Value: "λ→"}},
			expectedDFA: func() *automata.DFA {
				d := automata.NewDFA(0, []automata.State{2})
				d.Add(0, 'λ', 1)
				d.Add(1, '→', 2)
				return d
			},
			expectedTermMap: `"L":[2]`,
		},
	}

	for _, tc := range tests {
		t.Run(tc.name, func(t *testing.T) {
			s := &Spec{Definitions: tc.defs}
			dfa, termMap, err := s.DFA()
			if err != nil {
				t.Fatalf("unexpected error: %s", err)
			}

			if expected := tc.expectedDFA(); !dfa.Equal(expected) {
				t.Errorf("expected the automaton:\n%s\ngot:\n%s", expected, dfa)
			}

			parts := []string{}
			for a, states := range termMap {
				parts = append(parts, fmt.Sprintf("%s:%v", a, states))
			}
			sort.Strings(parts)

			if got := strings.Join(parts, " "); got != tc.expectedTermMap {
				t.Errorf("expected the terminal mapping %s, got %s", tc.expectedTermMap, got)
			}
		})
	}
}

func TestRefactorDemo_Errors(t *testing.T) {
	tests := []struct {
		name          string
		defs          []*TerminalDef
		expectedError string
	}{
		{
			name: "TwoPatternsNoLiteral",
			defs: []*TerminalDef{
				{Terminal: "ID", Value: "[a-z]+", IsRegex: true, Pos: demoPos(1)},
				{Terminal: "HEX", Value: "[0-9a-f]+", IsRegex: true, Pos: demoPos(2)},
				{Terminal: "if", Value: "if", Pos: demoPos(3)},
			},
			expectedError: "1 error occurred:\n\n" +
				"  • conflicting definitions capture the same string:\n" +
				"      demo:1:1: \"ID\"\n" +
				"      demo:2:1: \"HEX\"\n",
		},
		{
			name: "TwoLiteralsWithTheSameText",
			defs: []*TerminalDef{
				{Terminal: "PLUS", Value: "+", Pos: demoPos(1)},
				{Terminal: "ADD", Value: "+", Pos: demoPos(2)},
			},
			expectedError: "1 error occurred:\n\n" +
				"  • conflicting definitions capture the same string:\n" +
				"      demo:1:1: \"PLUS\"\n" +
				"      demo:2:1: \"ADD\"\n",
		},
		{
			name: "TwoLiteralsAndAPattern",
			defs: []*TerminalDef{
				{Terminal: "K1", Value: "let", Pos: demoPos(1)},
				{Terminal: "ID", Value: "[a-z]+", IsRegex: true, Pos: demoPos(2)},
				{Terminal: "K2", Value: "let", Pos: demoPos(3)},
			},
			expectedError: "1 error occurred:\n\n" +
				"  • conflicting definitions capture the same string:\n" +
				"      demo:1:1: \"K1\"\n" +
				"      demo:2:1: \"ID\"\n" +
				"      demo:3:1: \"K2\"\n",
		},
		{
			name: "LiteralDoesNotCoverTheWholeOverlap",
			defs: []*TerminalDef{
				{Terminal: "A", Value: "x|y", IsRegex: true, Pos: demoPos(1)},
				{Terminal: "B", Value: "y|x", IsRegex: true, Pos: demoPos(2)},
				{Terminal: "x", Value: "x", Pos: demoPos(3)},
			},
			expectedError: "1 error occurred:\n\n" +
				"  • conflicting definitions capture the same string:\n" +
				"      demo:1:1: \"A\"\n" +
				"      demo:2:1: \"B\"\n",
		},
		{
			name: "PatternTextIsNotALiteral",
			defs: []*TerminalDef{
				{Terminal: "P", Value: "a|b", IsRegex: true, Pos: demoPos(1)},
				{Terminal: "Q", Value: "b", IsRegex: true, Pos: demoPos(2)},
			},
			expectedError: "1 error occurred:\n\n" +
				"  • conflicting definitions capture the same string:\n" +
				"      demo:1:1: \"P\"\n" +
				"      demo:2:1: \"Q\"\n",
		},
		{
			name: "InvalidPatternsAreAllReported",
			defs: []*TerminalDef{
				{Terminal: "OK", Value: "[a-z]+", IsRegex: true},
				{Terminal: "BAD1", Value: "[A-Z", IsRegex: true},
				{Terminal: "[A-Z", Value: "[A-Z"},
				{Terminal: "BAD2", Value: "(ab", IsRegex: true},
			},
			expectedError: "2 errors occurred:\n\n" +
				"  • \"BAD1\": invalid regular expression: [A-Z\n" +
				"  • \"BAD2\": invalid regular expression: (ab\n",
		},
		{
			name: "InvalidPatternHidesConflicts",
			defs: []*TerminalDef{
				{Terminal: "N1", Value: "[0-9]+", IsRegex: true, Pos: demoPos(1)},
				{Terminal: "N2", Value: "[0-9]+", IsRegex: true, Pos: demoPos(2)},
				{Terminal: "BAD", Value: "[0-9", IsRegex: true, Pos: demoPos(3)},
			},
			expectedError: "1 error occurred:\n\n" +
				"  • \"BAD\": invalid regular expression: [0-9\n",
		},
	}

	for _, tc := range tests {
		t.Run(tc.name, func(t *testing.T) {
			s := &Spec{Definitions: tc.defs}
			dfa, termMap, err := s.DFA()

			if dfa != nil || termMap != nil {
				t.Errorf("expected no automaton and no terminal mapping along with an error")
			}

			if err == nil {
				t.Fatalf("expected an error")
			}

			if got := err.Error(); got != tc.expectedError {
				t.Errorf("expected the error:\n%s\ngot:\n%s", tc.expectedError, got)
			}
		})
	}
}

func TestRefactorDemo_NoDefinitions(t *testing.T) {
	s := &Spec{}
	dfa, termMap, err := s.DFA()
	if err != nil {
		t.Fatalf("unexpected error: %s", err)
	}

	if len(termMap) != 0 {
		t.Errorf("expected an empty terminal mapping, got %v", termMap)
	}

	if dfa == nil || dfa.Final.Size() != 0 || len(dfa.States()) > 1 {
		t.Errorf("expected an automaton accepting nothing, got:\n%s", dfa)
	}
}
