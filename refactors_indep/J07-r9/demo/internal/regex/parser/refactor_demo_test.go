package parser_test

import (
	"fmt"
	"os"
	"strings"
	"testing"

	auto "github.com/moorara/algo/automata"
	comb "github.com/moorara/algo/parser/combinator"

	"github.com/gardenbed/emerge/internal/regex/parser"
	"github.com/gardenbed/emerge/internal/regex/parser/ast"
	"github.com/gardenbed/emerge/internal/regex/parser/nfa"
)

// tracer implements parser.Mappers. Every mapper turns its argument into an S-expression
// and records the call, so that both the parse tree and the order of the mapper calls
// (including the calls made on alternatives that are abandoned later) are observable.
type tracer struct {
	calls []string
	// flat makes the mappers return their names only and record nothing (for very deep inputs).
	flat bool
}

func render(r comb.Result) string {
	switch v := r.Val.(type) {
	case comb.Empty:
		return "_"
	case comb.List:
		parts := make([]string, len(v))
		for i, e := range v {
			parts[i] = render(e)
		}
		return "[" + strings.Join(parts, " ") + "]"
	case rune:
		return fmt.Sprintf("%q", v)
	case int:
		return fmt.Sprintf("%d", v)
	case string:
		return v
	default:
		return fmt.Sprintf("?%T", v)
	}
}

func (t *tracer) on(name string, r comb.Result) (comb.Result, bool) {
	if t.flat {
		return comb.Result{Val: name, Pos: r.Pos}, true
	}
	t.calls = append(t.calls, fmt.Sprintf("%s@%d", name, r.Pos))
	return comb.Result{Val: "(" + name + " " + render(r) + ")", Pos: r.Pos}, true
}

func (t *tracer) ToAnyChar(r comb.Result) (comb.Result, bool)          { return t.on("any", r) }
func (t *tracer) ToSingleChar(r comb.Result) (comb.Result, bool)       { return t.on("chr", r) }
func (t *tracer) ToCharClass(r comb.Result) (comb.Result, bool)        { return t.on("cls", r) }
func (t *tracer) ToASCIICharClass(r comb.Result) (comb.Result, bool)   { return t.on("acls", r) }
func (t *tracer) ToUnicodeCategory(r comb.Result) (comb.Result, bool)  { return t.on("ucat", r) }
func (t *tracer) ToUnicodeCharClass(r comb.Result) (comb.Result, bool) { return t.on("ucls", r) }
func (t *tracer) ToRepOp(r comb.Result) (comb.Result, bool)            { return t.on("op", r) }
func (t *tracer) ToUpperBound(r comb.Result) (comb.Result, bool)       { return t.on("ub", r) }
func (t *tracer) ToRange(r comb.Result) (comb.Result, bool)            { return t.on("rng", r) }
func (t *tracer) ToRepetition(r comb.Result) (comb.Result, bool)       { return t.on("rep", r) }
func (t *tracer) ToQuantifier(r comb.Result) (comb.Result, bool)       { return t.on("q", r) }
func (t *tracer) ToCharInRange(r comb.Result) (comb.Result, bool)      { return t.on("cir", r) }
func (t *tracer) ToCharRange(r comb.Result) (comb.Result, bool)        { return t.on("cr", r) }
func (t *tracer) ToCharGroupItem(r comb.Result) (comb.Result, bool)    { return t.on("cgi", r) }
func (t *tracer) ToCharGroup(r comb.Result) (comb.Result, bool)        { return t.on("cg", r) }
func (t *tracer) ToMatchItem(r comb.Result) (comb.Result, bool)        { return t.on("mi", r) }
func (t *tracer) ToMatch(r comb.Result) (comb.Result, bool)            { return t.on("m", r) }
func (t *tracer) ToGroup(r comb.Result) (comb.Result, bool)            { return t.on("g", r) }
func (t *tracer) ToAnchor(r comb.Result) (comb.Result, bool)           { return t.on("anc", r) }
func (t *tracer) ToSubexprItem(r comb.Result) (comb.Result, bool)      { return t.on("si", r) }
func (t *tracer) ToSubexpr(r comb.Result) (comb.Result, bool)          { return t.on("se", r) }
func (t *tracer) ToExpr(r comb.Result) (comb.Result, bool)             { return t.on("e", r) }
func (t *tracer) ToRegex(r comb.Result) (comb.Result, bool)            { return t.on("re", r) }

const rejected = "REJECTED"

func traceParse(regex string) (tree string, calls string) {
	t := new(tracer)
	out, ok := parser.New(t).Parse(regex)
	if !ok {
		if out.Remaining != nil || out.Result.Val != nil {
			return "NON-ZERO OUTPUT ON FAILURE", ""
		}
		return rejected, strings.Join(t.calls, " ")
	}
	if out.Remaining != nil {
		return "ACCEPTED WITH REMAINING INPUT", ""
	}
	return out.Result.Val.(string), strings.Join(t.calls, " ")
}

var gen = os.Getenv("REFACTOR_DEMO_GEN") != ""

func TestRefactorDemo_Trees(t *testing.T) {
	for _, tc := range treeCases {
		tree, _ := traceParse(tc.regex)
		if gen {
			fmt.Printf("\t{%s, %s},\n", bq(tc.regex), bq(tree))
			continue
		}
		if tree != tc.tree {
			t.Errorf("Parse(%q)\n got: %s\nwant: %s", tc.regex, tree, tc.tree)
		}
	}
}

func TestRefactorDemo_CallOrder(t *testing.T) {
	for _, tc := range callCases {
		_, calls := traceParse(tc.regex)
		if gen {
			fmt.Printf("\t{%s, %s},\n", bq(tc.regex), bq(calls))
			continue
		}
		if calls != tc.tree {
			t.Errorf("mapper calls of Parse(%q)\n got: %s\nwant: %s", tc.regex, calls, tc.tree)
		}
	}
}

func bq(s string) string {
	if strings.ContainsAny(s, "`\t\n") {
		return fmt.Sprintf("%q", s)
	}
	return "`" + s + "`"
}

// Every documented name is accepted, in both polarities, and yields the name itself;
// a name followed by junk, a prefix of a name and an unknown name are rejected.
func TestRefactorDemo_Names(t *testing.T) {
	categories := []string{
		"Letter", "Math", "Emoji", "Latin", "Greek", "Cyrillic", "Han", "Persian",
		"Lu", "Ll", "Lt", "Lm", "Lo", "L", "Mark", "Mn", "Mc", "Me", "M",
		"Number", "Nd", "Nl", "No", "N", "Punctuation", "Pc", "Pd", "Ps", "Pe", "Pi", "Pf", "Po", "P",
		"Separator", "Zs", "Zl", "Zp", "Z", "Symbol", "Sm", "Sc", "Sk", "So", "S",
	}
	for _, c := range categories {
		for _, esc := range []string{`\p`, `\P`} {
			want := fmt.Sprintf("(re [_ (e [(se [(si (m [(mi (ucls [%s '{' (ucat %s) '}'])) _]))]) _])])", esc, c)
			if got, _ := traceParse(esc + "{" + c + "}"); got != want {
				t.Errorf("%s{%s}\n got: %s\nwant: %s", esc, c, got, want)
			}
			want = fmt.Sprintf("(re [_ (e [(se [(si (m [(mi (cg ['[' '^' [(cgi (ucls [%s '{' (ucat %s) '}']))] ']'])) _]))]) _])])", esc, c)
			if got, _ := traceParse("[^" + esc + "{" + c + "}]"); got != want {
				t.Errorf("[^%s{%s}]\n got: %s\nwant: %s", esc, c, got, want)
			}
		}
		for _, bad := range []string{`\p{` + c + `x}`, `\p{` + c + ` }`, `\p{` + c, `\p{` + strings.ToLower(c) + `}`, `\p` + c, `\p{` + c[:len(c)-1] + `}`} {
			// Dropping the last letter of a two-letter general category gives the one-letter one, which is a name.
			if len(c) == 2 && bad == `\p{`+c[:1]+`}` {
				continue
			}
			if got, _ := traceParse(bad); got != rejected {
				t.Errorf("%s: got %s, want %s", bad, got, rejected)
			}
		}
		if _, err := nfa.Parse(`\p{` + c + `}+`); err != nil {
			t.Errorf("nfa.Parse(\\p{%s}+): %v", c, err)
		}
	}

	for _, c := range []string{"blank", "space", "digit", "xdigit", "upper", "lower", "alpha", "alnum", "word", "ascii"} {
		name := "[:" + c + ":]"
		want := fmt.Sprintf("(re [_ (e [(se [(si (m [(mi (acls %s)) _]))]) _])])", name)
		if got, _ := traceParse(name); got != want {
			t.Errorf("%s\n got: %s\nwant: %s", name, got, want)
		}
		want = fmt.Sprintf("(re [_ (e [(se [(si (m [(mi (cg ['[' _ [(cgi (acls %s))] ']'])) _]))]) _])])", name)
		if got, _ := traceParse("[" + name + "]"); got != want {
			t.Errorf("[%s]\n got: %s\nwant: %s", name, got, want)
		}
		// Without the closing bracket this is not a class; the text does not happen to be a character group either.
		if got, _ := traceParse("[:" + c + ":"); got != rejected {
			t.Errorf("[:%s: : got %s, want %s", c, got, rejected)
		}
		if _, err := ast.Parse(name + "*"); err != nil {
			t.Errorf("ast.Parse(%s*): %v", name, err)
		}
	}

	for _, c := range []string{"s", "S", "d", "D", "w", "W"} {
		want := fmt.Sprintf("(re [_ (e [(se [(si (m [(mi (cls \\%s)) _]))]) _])])", c)
		if got, _ := traceParse(`\` + c); got != want {
			t.Errorf("\\%s\n got: %s\nwant: %s", c, got, want)
		}
	}
	for _, c := range []string{"a", "b", "t", "n", "r", "f", "v", "A", "B", "z", "Z", "b", "0", "1", "u", "U", "-", "^", "/", " "} {
		if got, _ := traceParse(`\` + c); got != rejected {
			t.Errorf("\\%s: got %s, want %s", c, got, rejected)
		}
	}
}

// The nesting limit: 10000 calls of expr may be open at once, one more is a rejection,
// and a parser that rejected for that reason is as good as new afterwards.
func TestRefactorDemo_Depth(t *testing.T) {
	nest := func(n int) string { return strings.Repeat("(", n) + "a" + strings.Repeat(")", n) }
	alts := func(n int) string { return strings.Repeat("a|", n) + "a" }

	for _, tc := range []struct {
		name  string
		regex string
		ok    bool
	}{
		{"groups 9999", nest(9999), true},
		{"groups 10000", nest(10000), false},
		{"alternatives 9999", alts(9999), true},
		{"alternatives 10000", alts(10000), false},
		{"mixed within", alts(4999) + nest(5000), true},
		{"mixed beyond", alts(5000) + nest(5000), false},
		{"unbalanced deep", strings.Repeat("(", 20000), false},
	} {
		tr := &tracer{flat: true}
		p := parser.New(tr)
		if out, ok := p.Parse(tc.regex); ok != tc.ok || (ok && (out.Result.Val != "re" || out.Remaining != nil)) {
			t.Errorf("%s: ok = %t, want %t (result %v)", tc.name, ok, tc.ok, out.Result.Val)
		}
		// The same parser is used again: the depth must have been unwound completely.
		tr.flat = false
		out, ok := p.Parse("(a)|b")
		if !ok || out.Result.Val != "(re [_ (e [(se [(si (g ['(' (e [(se [(si (m [(mi (chr 'a')) _]))]) _]) ')' _]))]) ['|' (e [(se [(si (m [(mi (chr 'b')) _]))]) _])]])])" {
			t.Errorf("%s: second use of the parser: %v %t", tc.name, out.Result.Val, ok)
		}
		if got, want := strings.Join(tr.calls, " "), "chr@1 mi@1 m@1 si@1 se@1 e@1 g@0 si@0 se@0 chr@4 mi@4 m@4 si@4 se@4 e@4 e@0 re@0"; got != want {
			t.Errorf("%s: second use of the parser: calls\n got: %s\nwant: %s", tc.name, got, want)
		}
	}

	if _, err := nfa.Parse(nest(10000)); err == nil || err.Error() != "invalid regular expression: "+nest(10000) {
		t.Errorf("nfa.Parse of 10000 nested groups: %v", err)
	}
}

func symbols(s string) auto.String {
	var str auto.String
	for _, r := range s {
		str = append(str, auto.Symbol(r))
	}
	return str
}

// nfa.Parse and ast.Parse: the error texts, and for accepted patterns the language of the result.
func TestRefactorDemo_Results(t *testing.T) {
	for _, tc := range resultCases {
		n, nerr := nfa.Parse(tc.regex)
		a, aerr := ast.Parse(tc.regex)

		if gen {
			fmt.Printf("\t{%s, %s, %s, nil, nil},\n", bq(tc.regex), bq(errText(nerr)), bq(errText(aerr)))
			continue
		}

		if errText(nerr) != tc.nfaErr {
			t.Errorf("nfa.Parse(%q): error %q, want %q", tc.regex, errText(nerr), tc.nfaErr)
		}
		if errText(aerr) != tc.astErr {
			t.Errorf("ast.Parse(%q): error %q, want %q", tc.regex, errText(aerr), tc.astErr)
		}
		if (nerr != nil) != (n == nil) || (aerr != nil) != (a == nil) {
			t.Errorf("%q: result and error do not go together", tc.regex)
		}

		for _, s := range tc.in {
			if n != nil && !n.Accept(symbols(s)) {
				t.Errorf("nfa of %q does not accept %q", tc.regex, s)
			}
			if a != nil && !a.ToDFA().Accept(symbols(s)) {
				t.Errorf("dfa of %q does not accept %q", tc.regex, s)
			}
		}
		for _, s := range tc.out {
			if n != nil && n.Accept(symbols(s)) {
				t.Errorf("nfa of %q accepts %q", tc.regex, s)
			}
			if a != nil && a.ToDFA().Accept(symbols(s)) {
				t.Errorf("dfa of %q accepts %q", tc.regex, s)
			}
		}
	}
}

func errText(err error) string {
	if err == nil {
		return ""
	}
	return err.Error()
}

type treeCase struct{ regex, tree string }

type resultCase struct {
	regex, nfaErr, astErr string
	in, out               []string
}

var treeCases = []treeCase{
	{`a`, `(re [_ (e [(se [(si (m [(mi (chr 'a')) _]))]) _])])`},
	{`ab`, `(re [_ (e [(se [(si (m [(mi (chr 'a')) _])) (si (m [(mi (chr 'b')) _]))]) _])])`},
	{`a|b`, `(re [_ (e [(se [(si (m [(mi (chr 'a')) _]))]) ['|' (e [(se [(si (m [(mi (chr 'b')) _]))]) _])]])])`},
	{`ab|cd|e`, `(re [_ (e [(se [(si (m [(mi (chr 'a')) _])) (si (m [(mi (chr 'b')) _]))]) ['|' (e [(se [(si (m [(mi (chr 'c')) _])) (si (m [(mi (chr 'd')) _]))]) ['|' (e [(se [(si (m [(mi (chr 'e')) _]))]) _])]])]])])`},
	{`^a`, `(re ['^' (e [(se [(si (m [(mi (chr 'a')) _]))]) _])])`},
	{`^a$`, `(re ['^' (e [(se [(si (m [(mi (chr 'a')) _])) (si (anc '$'))]) _])])`},
	{`$`, `(re [_ (e [(se [(si (anc '$'))]) _])])`},
	{`^$`, `(re ['^' (e [(se [(si (anc '$'))]) _])])`},
	{`a$b`, `(re [_ (e [(se [(si (m [(mi (chr 'a')) _])) (si (anc '$')) (si (m [(mi (chr 'b')) _]))]) _])])`},
	{`(a)`, `(re [_ (e [(se [(si (g ['(' (e [(se [(si (m [(mi (chr 'a')) _]))]) _]) ')' _]))]) _])])`},
	{`((a))`, `(re [_ (e [(se [(si (g ['(' (e [(se [(si (g ['(' (e [(se [(si (m [(mi (chr 'a')) _]))]) _]) ')' _]))]) _]) ')' _]))]) _])])`},
	{`(a|b)*c`, `(re [_ (e [(se [(si (g ['(' (e [(se [(si (m [(mi (chr 'a')) _]))]) ['|' (e [(se [(si (m [(mi (chr 'b')) _]))]) _])]]) ')' (q [(rep (op '*')) _])])) (si (m [(mi (chr 'c')) _]))]) _])])`},
	{`(a)(b)`, `(re [_ (e [(se [(si (g ['(' (e [(se [(si (m [(mi (chr 'a')) _]))]) _]) ')' _])) (si (g ['(' (e [(se [(si (m [(mi (chr 'b')) _]))]) _]) ')' _]))]) _])])`},
	{`(a$)+?`, `(re [_ (e [(se [(si (g ['(' (e [(se [(si (m [(mi (chr 'a')) _])) (si (anc '$'))]) _]) ')' (q [(rep (op '+')) '?'])]))]) _])])`},
	{`.`, `(re [_ (e [(se [(si (m [(mi (any '.')) _]))]) _])])`},
	{`.*`, `(re [_ (e [(se [(si (m [(mi (any '.')) (q [(rep (op '*')) _])]))]) _])])`},
	{`a?`, `(re [_ (e [(se [(si (m [(mi (chr 'a')) (q [(rep (op '?')) _])]))]) _])])`},
	{`a*`, `(re [_ (e [(se [(si (m [(mi (chr 'a')) (q [(rep (op '*')) _])]))]) _])])`},
	{`a+`, `(re [_ (e [(se [(si (m [(mi (chr 'a')) (q [(rep (op '+')) _])]))]) _])])`},
	{`a??`, `(re [_ (e [(se [(si (m [(mi (chr 'a')) (q [(rep (op '?')) '?'])]))]) _])])`},
	{`a*?`, `(re [_ (e [(se [(si (m [(mi (chr 'a')) (q [(rep (op '*')) '?'])]))]) _])])`},
	{`a+?`, `(re [_ (e [(se [(si (m [(mi (chr 'a')) (q [(rep (op '+')) '?'])]))]) _])])`},
	{`a{2}`, `(re [_ (e [(se [(si (m [(mi (chr 'a')) (q [(rep (rng ['{' 2 _ '}'])) _])]))]) _])])`},
	{`a{2,}`, `(re [_ (e [(se [(si (m [(mi (chr 'a')) (q [(rep (rng ['{' 2 (ub [',' _]) '}'])) _])]))]) _])])`},
	{`a{2,5}`, `(re [_ (e [(se [(si (m [(mi (chr 'a')) (q [(rep (rng ['{' 2 (ub [',' 5]) '}'])) _])]))]) _])])`},
	{`a{2,5}?`, `(re [_ (e [(se [(si (m [(mi (chr 'a')) (q [(rep (rng ['{' 2 (ub [',' 5]) '}'])) '?'])]))]) _])])`},
	{`a{0}`, `(re [_ (e [(se [(si (m [(mi (chr 'a')) (q [(rep (rng ['{' 0 _ '}'])) _])]))]) _])])`},
	{`a{5,2}`, `(re [_ (e [(se [(si (m [(mi (chr 'a')) (q [(rep (rng ['{' 5 (ub [',' 2]) '}'])) _])]))]) _])])`},
	{`a{007}`, `(re [_ (e [(se [(si (m [(mi (chr 'a')) (q [(rep (rng ['{' 7 _ '}'])) _])]))]) _])])`},
	{`a{9223372036854775807}`, `(re [_ (e [(se [(si (m [(mi (chr 'a')) (q [(rep (rng ['{' 9223372036854775807 _ '}'])) _])]))]) _])])`},
	{`(a){1,2}`, `(re [_ (e [(se [(si (g ['(' (e [(se [(si (m [(mi (chr 'a')) _]))]) _]) ')' (q [(rep (rng ['{' 1 (ub [',' 2]) '}'])) _])]))]) _])])`},
	{`[a]`, `(re [_ (e [(se [(si (m [(mi (cg ['[' _ [(cgi (chr 'a'))] ']'])) _]))]) _])])`},
	{`[^a]`, `(re [_ (e [(se [(si (m [(mi (cg ['[' '^' [(cgi (chr 'a'))] ']'])) _]))]) _])])`},
	{`[a-z]`, `(re [_ (e [(se [(si (m [(mi (cg ['[' _ [(cgi (cr [(cir 'a') '-' (cir 'z')]))] ']'])) _]))]) _])])`},
	{`[z-a]`, `(re [_ (e [(se [(si (m [(mi (cg ['[' _ [(cgi (cr [(cir 'z') '-' (cir 'a')]))] ']'])) _]))]) _])])`},
	{`[^a-z0-9_]`, `(re [_ (e [(se [(si (m [(mi (cg ['[' '^' [(cgi (cr [(cir 'a') '-' (cir 'z')])) (cgi (cr [(cir '0') '-' (cir '9')])) (cgi (chr '_'))] ']'])) _]))]) _])])`},
	{`[a-]`, `REJECTED`},
	{`[-a]`, `(re [_ (e [(se [(si (m [(mi (cg ['[' _ [(cgi (chr '-')) (cgi (chr 'a'))] ']'])) _]))]) _])])`},
	{`[a-z-]`, `(re [_ (e [(se [(si (m [(mi (cg ['[' _ [(cgi (cr [(cir 'a') '-' (cir 'z')])) (cgi (chr '-'))] ']'])) _]))]) _])])`},
	{`[--0]`, `(re [_ (e [(se [(si (m [(mi (cg ['[' _ [(cgi (cr [(cir '-') '-' (cir '0')]))] ']'])) _]))]) _])])`},
	{`[\]]`, `(re [_ (e [(se [(si (m [(mi (cg ['[' _ [(cgi (chr ']'))] ']'])) _]))]) _])])`},
	{`[]-a]`, `(re [_ (e [(se [(si (m [(mi (cg ['[' _ [(cgi (cr [(cir ']') '-' (cir 'a')]))] ']'])) _]))]) _])])`},
	{`[.]`, `REJECTED`},
	{`[(]`, `REJECTED`},
	{`[a^]`, `(re [_ (e [(se [(si (m [(mi (cg ['[' _ [(cgi (chr 'a')) (cgi (chr '^'))] ']'])) _]))]) _])])`},
	{`[^^]`, `(re [_ (e [(se [(si (m [(mi (cg ['[' '^' [(cgi (chr '^'))] ']'])) _]))]) _])])`},
	{`[[]`, `REJECTED`},
	{`[[:alpha:]]`, `(re [_ (e [(se [(si (m [(mi (cg ['[' _ [(cgi (acls [:alpha:]))] ']'])) _]))]) _])])`},
	{`[[:alpha:]\d\p{Lu}a-f\x41\x0041-\x005A_]`, `(re [_ (e [(se [(si (m [(mi (cg ['[' _ [(cgi (acls [:alpha:])) (cgi (cls \d)) (cgi (ucls [\p '{' (ucat Lu) '}'])) (cgi (cr [(cir 'a') '-' (cir 'f')])) (cgi (chr 'A')) (cgi (cr [(cir 'A') '-' (cir 'Z')])) (cgi (chr '_'))] ']'])) _]))]) _])])`},
	{`[\x41-\x5A]`, `(re [_ (e [(se [(si (m [(mi (cg ['[' _ [(cgi (cr [(cir 'A') '-' (cir 'Z')]))] ']'])) _]))]) _])])`},
	{`[\x0001F600]`, `(re [_ (e [(se [(si (m [(mi (cg ['[' _ [(cgi (chr '😀'))] ']'])) _]))]) _])])`},
	{`\x41`, `(re [_ (e [(se [(si (m [(mi (chr 'A')) _]))]) _])])`},
	{`\x4A\x7e`, `REJECTED`},
	{`\x0041`, `(re [_ (e [(se [(si (m [(mi (chr 'A')) _]))]) _])])`},
	{`\x00411`, `(re [_ (e [(se [(si (m [(mi (chr 'Б')) _]))]) _])])`},
	{`\x0001F600`, `(re [_ (e [(se [(si (m [(mi (chr '😀')) _]))]) _])])`},
	{`\x0001F6000`, `(re [_ (e [(se [(si (m [(mi (chr '😀')) _])) (si (m [(mi (chr '0')) _]))]) _])])`},
	{`\x10FFFF`, `(re [_ (e [(se [(si (m [(mi (chr '\U0010ffff')) _]))]) _])])`},
	{`\xFFFFFFFF`, `(re [_ (e [(se [(si (m [(mi (chr '�')) _]))]) _])])`},
	{`\x4g`, `REJECTED`},
	{`\\`, `(re [_ (e [(se [(si (m [(mi (chr '\\')) _]))]) _])])`},
	{`\|`, `(re [_ (e [(se [(si (m [(mi (chr '|')) _]))]) _])])`},
	{`\.`, `(re [_ (e [(se [(si (m [(mi (chr '.')) _]))]) _])])`},
	{`\?`, `(re [_ (e [(se [(si (m [(mi (chr '?')) _]))]) _])])`},
	{`\*`, `(re [_ (e [(se [(si (m [(mi (chr '*')) _]))]) _])])`},
	{`\+`, `(re [_ (e [(se [(si (m [(mi (chr '+')) _]))]) _])])`},
	{`\(`, `(re [_ (e [(se [(si (m [(mi (chr '(')) _]))]) _])])`},
	{`\)`, `(re [_ (e [(se [(si (m [(mi (chr ')')) _]))]) _])])`},
	{`\[`, `(re [_ (e [(se [(si (m [(mi (chr '[')) _]))]) _])])`},
	{`\]`, `(re [_ (e [(se [(si (m [(mi (chr ']')) _]))]) _])])`},
	{`\{`, `(re [_ (e [(se [(si (m [(mi (chr '{')) _]))]) _])])`},
	{`\}`, `(re [_ (e [(se [(si (m [(mi (chr '}')) _]))]) _])])`},
	{`\$`, `(re [_ (e [(se [(si (m [(mi (chr '$')) _]))]) _])])`},
	{`\s\S\d\D\w\W`, `(re [_ (e [(se [(si (m [(mi (cls \s)) _])) (si (m [(mi (cls \S)) _])) (si (m [(mi (cls \d)) _])) (si (m [(mi (cls \D)) _])) (si (m [(mi (cls \w)) _])) (si (m [(mi (cls \W)) _]))]) _])])`},
	{`\d+`, `(re [_ (e [(se [(si (m [(mi (cls \d)) (q [(rep (op '+')) _])]))]) _])])`},
	{`\p{L}`, `(re [_ (e [(se [(si (m [(mi (ucls [\p '{' (ucat L) '}'])) _]))]) _])])`},
	{`\p{Lu}`, `(re [_ (e [(se [(si (m [(mi (ucls [\p '{' (ucat Lu) '}'])) _]))]) _])])`},
	{`\P{Letter}`, `(re [_ (e [(se [(si (m [(mi (ucls [\P '{' (ucat Letter) '}'])) _]))]) _])])`},
	{`\p{Han}{2}`, `(re [_ (e [(se [(si (m [(mi (ucls [\p '{' (ucat Han) '}'])) (q [(rep (rng ['{' 2 _ '}'])) _])]))]) _])])`},
	{`[:digit:]+`, `(re [_ (e [(se [(si (m [(mi (acls [:digit:])) (q [(rep (op '+')) _])]))]) _])])`},
	{`[:xdigit:]`, `(re [_ (e [(se [(si (m [(mi (acls [:xdigit:])) _]))]) _])])`},
	{`[:a]`, `(re [_ (e [(se [(si (m [(mi (cg ['[' _ [(cgi (chr ':')) (cgi (chr 'a'))] ']'])) _]))]) _])])`},
	{`a-b`, `(re [_ (e [(se [(si (m [(mi (chr 'a')) _])) (si (m [(mi (chr '-')) _])) (si (m [(mi (chr 'b')) _]))]) _])])`},
	{`a,b`, `(re [_ (e [(se [(si (m [(mi (chr 'a')) _])) (si (m [(mi (chr ',')) _])) (si (m [(mi (chr 'b')) _]))]) _])])`},
	{`a}`, `REJECTED`},
	{`a]`, `REJECTED`},
	{`}`, `REJECTED`},
	{`]`, `REJECTED`},
	{`-`, `(re [_ (e [(se [(si (m [(mi (chr '-')) _]))]) _])])`},
	{`,`, `(re [_ (e [(se [(si (m [(mi (chr ',')) _]))]) _])])`},
	{`^`, `REJECTED`},
	{`a b`, `(re [_ (e [(se [(si (m [(mi (chr 'a')) _])) (si (m [(mi (chr ' ')) _])) (si (m [(mi (chr 'b')) _]))]) _])])`},
	{` `, `(re [_ (e [(se [(si (m [(mi (chr ' ')) _]))]) _])])`},
	{`~`, `(re [_ (e [(se [(si (m [(mi (chr '~')) _]))]) _])])`},
	{`"`, `(re [_ (e [(se [(si (m [(mi (chr '"')) _]))]) _])])`},
	{`'`, `(re [_ (e [(se [(si (m [(mi (chr '\'')) _]))]) _])])`},
	{`/`, `(re [_ (e [(se [(si (m [(mi (chr '/')) _]))]) _])])`},
	{`:`, `(re [_ (e [(se [(si (m [(mi (chr ':')) _]))]) _])])`},
	{`=`, `(re [_ (e [(se [(si (m [(mi (chr '=')) _]))]) _])])`},
	{`#`, `(re [_ (e [(se [(si (m [(mi (chr '#')) _]))]) _])])`},
	{`a{,2}x`, `REJECTED`},
	{``, `REJECTED`},
	{`a)`, `REJECTED`},
	{`(a`, `REJECTED`},
	{`(`, `REJECTED`},
	{`)`, `REJECTED`},
	{`()`, `REJECTED`},
	{`(|a)`, `REJECTED`},
	{`a|`, `REJECTED`},
	{`|a`, `REJECTED`},
	{`|`, `REJECTED`},
	{`a||b`, `REJECTED`},
	{`*`, `REJECTED`},
	{`*a`, `REJECTED`},
	{`+a`, `REJECTED`},
	{`?a`, `REJECTED`},
	{`a**`, `REJECTED`},
	{`a???`, `REJECTED`},
	{`a+*`, `REJECTED`},
	{`a{`, `REJECTED`},
	{`a{}`, `REJECTED`},
	{`a{,2}`, `REJECTED`},
	{`a{2`, `REJECTED`},
	{`a{2,`, `REJECTED`},
	{`a{2,3`, `REJECTED`},
	{`a{ 2}`, `REJECTED`},
	{`a{2 }`, `REJECTED`},
	{`a{2,,3}`, `REJECTED`},
	{`a{-1}`, `REJECTED`},
	{`a{2}{3}`, `REJECTED`},
	{`a{9223372036854775808}`, `REJECTED`},
	{`a{99999999999999999999}`, `REJECTED`},
	{`a{1,99999999999999999999}`, `REJECTED`},
	{`[`, `REJECTED`},
	{`[]`, `REJECTED`},
	{`[^]`, `REJECTED`},
	{`[a`, `REJECTED`},
	{`[a-z`, `REJECTED`},
	{`[a]]`, `REJECTED`},
	{`[[:alpha:]`, `REJECTED`},
	{`[[:foo:]]x(`, `REJECTED`},
	{`\`, `REJECTED`},
	{`a\`, `REJECTED`},
	{`\q`, `REJECTED`},
	{`\t`, `REJECTED`},
	{`\x`, `REJECTED`},
	{`\x4`, `REJECTED`},
	{`\xZZ`, `REJECTED`},
	{`\x4a`, `REJECTED`},
	{`\p`, `REJECTED`},
	{`\p{}`, `REJECTED`},
	{`\p{Foo}`, `REJECTED`},
	{`\p{Lx}`, `REJECTED`},
	{`\p{Lettr}`, `REJECTED`},
	{`\pL`, `REJECTED`},
	{`\p{L`, `REJECTED`},
	{`\P{L}}`, `REJECTED`},
	{`{`, `REJECTED`},
	{`{2}`, `REJECTED`},
	{`a^`, `(re [_ (e [(se [(si (m [(mi (chr 'a')) _])) (si (m [(mi (chr '^')) _]))]) _])])`},
	{`^^a`, `(re ['^' (e [(se [(si (m [(mi (chr '^')) _])) (si (m [(mi (chr 'a')) _]))]) _])])`},
	{`a^b`, `(re [_ (e [(se [(si (m [(mi (chr 'a')) _])) (si (m [(mi (chr '^')) _])) (si (m [(mi (chr 'b')) _]))]) _])])`},
	{`(^a)`, `(re [_ (e [(se [(si (g ['(' (e [(se [(si (m [(mi (chr '^')) _])) (si (m [(mi (chr 'a')) _]))]) _]) ')' _]))]) _])])`},
	{`(?:a)`, `REJECTED`},
	{`(?i)a`, `REJECTED`},
	{`é`, `REJECTED`},
	{"a\tb", `REJECTED`},
	{"a\n", `REJECTED`},
	{"\x00", `REJECTED`},
	{"a\x7f", `REJECTED`},
	{`日本`, `REJECTED`},
	{`a(`, `REJECTED`},
	{`a(b`, `REJECTED`},
	{`a|(b`, `REJECTED`},
	{`a)b`, `REJECTED`},
	{`(a))`, `REJECTED`},
	{`a[`, `REJECTED`},
	{`ab[c`, `REJECTED`},
	{`a|*`, `REJECTED`},
	{`(*)`, `REJECTED`},
	{`(a|)`, `REJECTED`},
	{`a{1}}{`, `REJECTED`},
}

// The mapper calls in order, including those made on alternatives that are given up afterwards.
var callCases = []treeCase{
	{`a`, `chr@0 mi@0 m@0 si@0 se@0 e@0 re@0`},
	{`[a-c]`, `cir@1 cir@3 cr@1 cgi@1 cir@4 cg@0 mi@0 m@0 si@0 se@0 e@0 re@0`},
	{`[z-a]`, `cir@1 cir@3 cr@1 cgi@1 cir@4 cg@0 mi@0 m@0 si@0 se@0 e@0 re@0`},
	{`[z-a`, `cir@1 cir@3 cr@1 cgi@1`},
	{`[a-`, `cir@1 chr@1 cgi@1 cir@2 chr@2 cgi@2`},
	{`a{5,2}`, `chr@0 mi@0 ub@3 rng@1 rep@1 q@1 m@0 si@0 se@0 e@0 re@0`},
	{`a{5,2`, `chr@0 mi@0 ub@3 m@0 si@0 se@0 e@0 re@0`},
	{`a{5,2}{`, `chr@0 mi@0 ub@3 rng@1 rep@1 q@1 m@0 si@0 se@0 e@0 re@0`},
	{`(a|b)*c`, `chr@1 mi@1 m@1 si@1 se@1 chr@3 mi@3 m@3 si@3 se@3 e@3 e@1 op@5 rep@5 q@5 g@0 si@0 chr@6 mi@6 m@6 si@6 se@0 e@0 re@0`},
	{`(a{3,1}`, `chr@1 mi@1 ub@4 rng@2 rep@2 q@2 m@1 si@1 se@1 e@1`},
	{`(a)(b`, `chr@1 mi@1 m@1 si@1 se@1 e@1 g@0 si@0 chr@4 mi@4 m@4 si@4 se@4 e@4 se@0 e@0 re@0`},
	{`[z-a]|[y-b]|(`, `cir@1 cir@3 cr@1 cgi@1 cir@4 cg@0 mi@0 m@0 si@0 se@0 cir@7 cir@9 cr@7 cgi@7 cir@10 cg@6 mi@6 m@6 si@6 se@6 e@6 e@0 re@0`},
	{`\x0041`, `chr@0 mi@0 m@0 si@0 se@0 e@0 re@0`},
	{`\x41`, `chr@0 mi@0 m@0 si@0 se@0 e@0 re@0`},
	{`[\x0041-\x0061\x41]`, `cir@1 cir@8 cr@1 cgi@1 cir@14 chr@14 cgi@14 cir@18 cg@0 mi@0 m@0 si@0 se@0 e@0 re@0`},
	{`\p{Lu}`, `ucat@3 ucls@0 mi@0 m@0 si@0 se@0 e@0 re@0`},
	{`[[:alpha:]x]`, `acls@1 cgi@1 cir@10 chr@10 cgi@10 cir@11 cg@0 mi@0 m@0 si@0 se@0 e@0 re@0`},
	{`a|b|`, `chr@0 mi@0 m@0 si@0 se@0 chr@2 mi@2 m@2 si@2 se@2 e@2 e@0 re@0`},
	{`^a$`, `chr@1 mi@1 m@1 si@1 anc@2 si@2 se@1 e@1 re@0`},
	{`a**`, `chr@0 mi@0 op@1 rep@1 q@1 m@0 si@0 se@0 e@0 re@0`},
	{`[:a]`, `cir@1 chr@1 cgi@1 cir@2 chr@2 cgi@2 cir@3 cg@0 mi@0 m@0 si@0 se@0 e@0 re@0`},
	{`.{2,1}?)`, `any@0 mi@0 ub@3 rng@1 rep@1 q@1 m@0 si@0 se@0 e@0 re@0`},
}

var resultCases = []resultCase{
	{`a`, ``, ``, []string{"a"}, []string{"", "b", "aa"}},
	{`ab|cd`, ``, ``, []string{"ab", "cd"}, []string{"a", "abcd", "ad", ""}},
	{`(a|b)*c`, ``, ``, []string{"c", "abbac", "bc"}, []string{"", "ab", "ca"}},
	{`a{2,3}`, ``, ``, []string{"aa", "aaa"}, []string{"a", "aaaa", ""}},
	{`a{2,}`, ``, ``, []string{"aa", "aaaaaaa"}, []string{"a", ""}},
	{`a{2}`, ``, ``, []string{"aa"}, []string{"a", "aaa"}},
	{`a?b+c*`, ``, ``, []string{"b", "abbccc", "bb"}, []string{"", "a", "ac", "aab"}},
	{`[a-c]x`, ``, ``, []string{"ax", "bx", "cx"}, []string{"dx", "x", "a"}},
	{`[^a-c]`, ``, ``, []string{"d", "A", " "}, []string{"a", "b", "c", "dd"}},
	{`\x41\x0042`, ``, ``, []string{"AB"}, []string{"A", "ab"}},
	{`\d+`, ``, ``, []string{"0", "0123456789"}, []string{"", "a", "1a"}},
	{`[[:upper:]_]\w*`, ``, ``, []string{"A", "_a1", "Zz_9"}, []string{"a", "1A", "", "A-"}},
	{`\p{Lu}`, ``, ``, []string{"A", "Z"}, []string{"a", "1", "AA", ""}},
	{`.`, ``, ``, []string{"a", " ", "~"}, []string{"ab", "\u00e9"}},
	{`\.\$`, ``, ``, []string{".$"}, []string{"a$", ".", ""}},
	{`^ab`, ``, ``, []string{"ab"}, []string{"a", "^ab"}},
	{`a|b|c`, ``, ``, []string{"a", "b", "c"}, []string{"", "ab", "d"}},
	{`a{5,2}`, `invalid repetition range {5,2}`, `invalid repetition range {5,2}`, nil, nil},
	{`a{3,1}b{2,1}`, "invalid repetition range {3,1}\ninvalid repetition range {2,1}", "invalid repetition range {3,1}\ninvalid repetition range {2,1}", nil, nil},
	{`[z-a]`, `invalid character range z-a`, `invalid character range z-a`, nil, nil},
	{`[z-a][9-0]`, "invalid character range z-a\ninvalid character range 9-0", "invalid character range z-a\ninvalid character range 9-0", nil, nil},
	{`[z-a]{2,1}`, "invalid character range z-a\ninvalid repetition range {2,1}", "invalid character range z-a\ninvalid repetition range {2,1}", nil, nil},
	{`(a{5,2})|[c-b]`, "invalid repetition range {5,2}\ninvalid character range c-b", "invalid repetition range {5,2}\ninvalid character range c-b", nil, nil},
	{`[\x0001F600]`, `unsupported non-ASCII character in character group`, `unsupported non-ASCII character in character group`, nil, nil},
	{`[a-\x0001F600]`, `unsupported non-ASCII character in character group`, `unsupported non-ASCII character in character group`, nil, nil},
	{`\x0001F600`, ``, ``, []string{"\U0001F600"}, []string{"", "a"}},
	{`[z-a`, `invalid regular expression: [z-a`, `invalid regular expression: [z-a`, nil, nil},
	{`a{5,2}(`, `invalid regular expression: a{5,2}(`, `invalid regular expression: a{5,2}(`, nil, nil},
	{`[z-a]]`, `invalid regular expression: [z-a]]`, `invalid regular expression: [z-a]]`, nil, nil},
	{`a{5,2}}{`, `invalid regular expression: a{5,2}}{`, `invalid regular expression: a{5,2}}{`, nil, nil},
	{``, `invalid regular expression: `, `invalid regular expression: `, nil, nil},
	{`a)`, `invalid regular expression: a)`, `invalid regular expression: a)`, nil, nil},
	{`(a`, `invalid regular expression: (a`, `invalid regular expression: (a`, nil, nil},
	{`a|`, `invalid regular expression: a|`, `invalid regular expression: a|`, nil, nil},
	{`*a`, `invalid regular expression: *a`, `invalid regular expression: *a`, nil, nil},
	{`a**`, `invalid regular expression: a**`, `invalid regular expression: a**`, nil, nil},
	{`a{,2}`, `invalid regular expression: a{,2}`, `invalid regular expression: a{,2}`, nil, nil},
	{`\q`, `invalid regular expression: \q`, `invalid regular expression: \q`, nil, nil},
	{`\p{Foo}`, `invalid regular expression: \p{Foo}`, `invalid regular expression: \p{Foo}`, nil, nil},
	{`[]`, `invalid regular expression: []`, `invalid regular expression: []`, nil, nil},
	{`a^`, ``, ``, []string{"a^"}, []string{"a", "^"}},
	{`é`, `invalid regular expression: é`, `invalid regular expression: é`, nil, nil},
	{`a{99999999999999999999}`, `invalid regular expression: a{99999999999999999999}`, `invalid regular expression: a{99999999999999999999}`, nil, nil},
	{`[[:foo:]]x(`, `invalid regular expression: [[:foo:]]x(`, `invalid regular expression: [[:foo:]]x(`, nil, nil},
	{`ab$`, ``, ``, []string{"ab"}, []string{"a", "ab$"}},
	{`a$b`, ``, ``, nil, nil},
	{`^^a`, ``, ``, []string{"^a"}, []string{"a", "^^a"}},
	{`\xFFFFFFFF`, ``, ``, nil, nil},
	{`\x10FFFF`, ``, ``, []string{"\U0010FFFF"}, []string{"", "a"}},
	{`\x0010FFFF`, ``, ``, []string{"\U0010FFFF"}, []string{"", "a"}},
}
