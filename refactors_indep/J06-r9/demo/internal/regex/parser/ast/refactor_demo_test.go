package ast

import (
	"fmt"
	"os"
	"regexp"
	"sort"
	"strings"
	"testing"

	auto "github.com/moorara/algo/automata"

	"github.com/gardenbed/emerge/internal/regex/parser/nfa"
)

// This file is a characterization test for the clean-up of ast.go
// (generic pre-order walk with visitors, single-scan Concat.compute).
// It does not use any of the helpers introduced or removed by that clean-up,
// so that it compiles and passes both before and after it.

// demoCached renders which Concat and Alt nodes carry cached functions, without triggering any computation.
func demoCached(n Node) string {
	mark := func(c *computed) string {
		if c == nil {
			return "-"
		}
		return "+"
	}

	switch v := n.(type) {
	case *Concat:
		parts := []string{}
		for _, e := range v.Exprs {
			parts = append(parts, demoCached(e))
		}
		return "C" + mark(v.comp) + "(" + strings.Join(parts, " ") + ")"
	case *Alt:
		parts := []string{}
		for _, e := range v.Exprs {
			parts = append(parts, demoCached(e))
		}
		return "A" + mark(v.comp) + "(" + strings.Join(parts, " ") + ")"
	case *Star:
		return "S(" + demoCached(v.Expr) + ")"
	case *Empty:
		return "e"
	case *Char:
		return fmt.Sprintf("%d", v.Pos)
	case nil:
		return "nil"
	}
	return "?"
}

func demoPoses(p Poses) string {
	if p == nil {
		return "nil"
	}
	return strings.ReplaceAll(fmt.Sprint([]Pos(p)), " ", ",")
}

// demoFuncs renders the tree with nullable, firstpos and lastpos of every node.
func demoFuncs(n Node) string {
	tag := func(n Node) string {
		b := "f"
		if n.nullable() {
			b = "t"
		}
		return "{" + b + demoPoses(n.firstPos()) + demoPoses(n.lastPos()) + "}"
	}

	switch v := n.(type) {
	case *Concat:
		parts := []string{}
		for _, e := range v.Exprs {
			parts = append(parts, demoFuncs(e))
		}
		return "C" + tag(n) + "(" + strings.Join(parts, " ") + ")"
	case *Alt:
		parts := []string{}
		for _, e := range v.Exprs {
			parts = append(parts, demoFuncs(e))
		}
		return "A" + tag(n) + "(" + strings.Join(parts, " ") + ")"
	case *Star:
		return "S" + tag(n) + "(" + demoFuncs(v.Expr) + ")"
	case *Empty:
		return "e" + tag(n)
	case *Char:
		c := string(v.Val)
		if v.Val == endMarker {
			c = "#"
		}
		return fmt.Sprintf("%s%d", c, v.Pos)
	}
	return "?"
}

func demoDump(a *AST) string {
	var b strings.Builder

	fmt.Fprintf(&b, "cached: %s\n", demoCached(a.Root))
	fmt.Fprintf(&b, "last: %d\n", a.lastPos)

	keys := []int{}
	for p := range a.follows {
		keys = append(keys, int(p))
	}
	sort.Ints(keys)
	b.WriteString("follows:")
	for _, p := range keys {
		fmt.Fprintf(&b, " %d%s", p, demoPoses(a.follows[Pos(p)]))
	}
	b.WriteString("\n")

	chars := []int{}
	for c := range a.charToPos {
		chars = append(chars, int(c))
	}
	sort.Ints(chars)
	b.WriteString("chars:")
	for _, c := range chars {
		s := string(rune(c))
		if rune(c) == endMarker {
			s = "#"
		}
		fmt.Fprintf(&b, " %s%s", s, demoPoses(a.charToPos[rune(c)]))
	}
	b.WriteString("\n")

	ps := []int{}
	for p := range a.posToChar {
		ps = append(ps, int(p))
	}
	sort.Ints(ps)
	b.WriteString("pos:")
	for _, p := range ps {
		c := a.posToChar[Pos(p)]
		s := string(c)
		if c == endMarker {
			s = "#"
		}
		fmt.Fprintf(&b, " %d%s", p, s)
	}
	b.WriteString("\n")

	fmt.Fprintf(&b, "funcs: %s\n", demoFuncs(a.Root))
	fmt.Fprintf(&b, "after: %s\n", demoCached(a.Root))

	return b.String()
}

// demoStrings returns all strings over the alphabet up to the given length.
func demoStrings(alphabet string, maxLen int) []string {
	all := []string{""}
	prev := []string{""}
	for i := 0; i < maxLen; i++ {
		next := []string{}
		for _, s := range prev {
			for _, c := range alphabet {
				next = append(next, s+string(c))
			}
		}
		all = append(all, next...)
		prev = next
	}
	return all
}

func demoToString(s string) auto.String {
	out := auto.String{}
	for _, c := range s {
		out = append(out, auto.Symbol(c))
	}
	return out
}

var demoGolden = map[string]string{
	"a":              "cached: C-(C+(1) 2)\nlast: 2\nfollows: 1[2]\nchars: a[1] #[2]\npos: 1a 2#\nfuncs: C{f[1][2]}(C{f[1][1]}(a1) #2)\nafter: C+(C+(1) 2)\n",
	"ab":             "cached: C-(C+(1 2) 3)\nlast: 3\nfollows: 1[2] 2[3]\nchars: a[1] b[2] #[3]\npos: 1a 2b 3#\nfuncs: C{f[1][3]}(C{f[1][2]}(a1 b2) #3)\nafter: C+(C+(1 2) 3)\n",
	"a|b":            "cached: C-(A+(C+(1) C+(2)) 3)\nlast: 3\nfollows: 1[3] 2[3]\nchars: a[1] b[2] #[3]\npos: 1a 2b 3#\nfuncs: C{f[1,2][3]}(A{f[1,2][1,2]}(C{f[1][1]}(a1) C{f[2][2]}(b2)) #3)\nafter: C+(A+(C+(1) C+(2)) 3)\n",
	"(a|b)*abb":      "cached: C-(C+(S(A+(C+(1) C+(2))) 3 4 5) 6)\nlast: 6\nfollows: 1[1,2,3] 2[1,2,3] 3[4] 4[5] 5[6]\nchars: a[1,3] b[2,4,5] #[6]\npos: 1a 2b 3a 4b 5b 6#\nfuncs: C{f[1,2,3][6]}(C{f[1,2,3][5]}(S{t[1,2][1,2]}(A{f[1,2][1,2]}(C{f[1][1]}(a1) C{f[2][2]}(b2))) a3 b4 b5) #6)\nafter: C+(C+(S(A+(C+(1) C+(2))) 3 4 5) 6)\n",
	"a*":             "cached: C-(C+(S(1)) 2)\nlast: 2\nfollows: 1[1,2]\nchars: a[1] #[2]\npos: 1a 2#\nfuncs: C{f[1,2][2]}(C{t[1][1]}(S{t[1][1]}(a1)) #2)\nafter: C+(C+(S(1)) 2)\n",
	"a?":             "cached: C-(C+(A+(e 1)) 2)\nlast: 2\nfollows: 1[2]\nchars: a[1] #[2]\npos: 1a 2#\nfuncs: C{f[1,2][2]}(C{t[1][1]}(A{t[1][1]}(e{t[][]} a1)) #2)\nafter: C+(C+(A+(e 1)) 2)\n",
	"a+":             "cached: C-(C+(C+(1 S(2))) 3)\nlast: 3\nfollows: 1[2,3] 2[2,3]\nchars: a[1,2] #[3]\npos: 1a 2a 3#\nfuncs: C{f[1][3]}(C{f[1][1,2]}(C{f[1][1,2]}(a1 S{t[2][2]}(a2))) #3)\nafter: C+(C+(C+(1 S(2))) 3)\n",
	"(a*)*":          "cached: C-(C+(S(C+(S(1)))) 2)\nlast: 2\nfollows: 1[1,1,2]\nchars: a[1] #[2]\npos: 1a 2#\nfuncs: C{f[1,2][2]}(C{t[1][1]}(S{t[1][1]}(C{t[1][1]}(S{t[1][1]}(a1)))) #2)\nafter: C+(C+(S(C+(S(1)))) 2)\n",
	"(a?)+":          "cached: C-(C+(C+(C+(A+(e 1)) S(C+(A+(e 2))))) 3)\nlast: 3\nfollows: 1[2,3] 2[2,3]\nchars: a[1,2] #[3]\npos: 1a 2a 3#\nfuncs: C{f[1,2,3][3]}(C{t[1,2][1,2]}(C{t[1,2][1,2]}(C{t[1][1]}(A{t[1][1]}(e{t[][]} a1)) S{t[2][2]}(C{t[2][2]}(A{t[2][2]}(e{t[][]} a2))))) #3)\nafter: C+(C+(C+(C+(A+(e 1)) S(C+(A+(e 2))))) 3)\n",
	"(a*b*)*c":       "cached: C-(C+(S(C+(S(1) S(2))) 3) 4)\nlast: 4\nfollows: 1[1,1,2,2,3] 2[1,2,2,3] 3[4]\nchars: a[1] b[2] c[3] #[4]\npos: 1a 2b 3c 4#\nfuncs: C{f[1,2,3][4]}(C{f[1,2,3][3]}(S{t[1,2][1,2]}(C{t[1,2][1,2]}(S{t[1][1]}(a1) S{t[2][2]}(b2))) c3) #4)\nafter: C+(C+(S(C+(S(1) S(2))) 3) 4)\n",
	"a*b*c*":         "cached: C-(C+(S(1) S(2) S(3)) 4)\nlast: 4\nfollows: 1[1,2,3,4] 2[2,3,4] 3[3,4]\nchars: a[1] b[2] c[3] #[4]\npos: 1a 2b 3c 4#\nfuncs: C{f[1,2,3,4][4]}(C{t[1,2,3][1,2,3]}(S{t[1][1]}(a1) S{t[2][2]}(b2) S{t[3][3]}(c3)) #4)\nafter: C+(C+(S(1) S(2) S(3)) 4)\n",
	"a?b?c?":         "cached: C-(C+(A+(e 1) A+(e 2) A+(e 3)) 4)\nlast: 4\nfollows: 1[2,3,4] 2[3,4] 3[4]\nchars: a[1] b[2] c[3] #[4]\npos: 1a 2b 3c 4#\nfuncs: C{f[1,2,3,4][4]}(C{t[1,2,3][1,2,3]}(A{t[1][1]}(e{t[][]} a1) A{t[2][2]}(e{t[][]} b2) A{t[3][3]}(e{t[][]} c3)) #4)\nafter: C+(C+(A+(e 1) A+(e 2) A+(e 3)) 4)\n",
	"ab?c":           "cached: C-(C+(1 A+(e 2) 3) 4)\nlast: 4\nfollows: 1[2,3] 2[3] 3[4]\nchars: a[1] b[2] c[3] #[4]\npos: 1a 2b 3c 4#\nfuncs: C{f[1][4]}(C{f[1][3]}(a1 A{t[2][2]}(e{t[][]} b2) c3) #4)\nafter: C+(C+(1 A+(e 2) 3) 4)\n",
	"ab*c?a":         "cached: C-(C+(1 S(2) A+(e 3) 4) 5)\nlast: 5\nfollows: 1[2,3,4] 2[2,3,4] 3[4] 4[5]\nchars: a[1,4] b[2] c[3] #[5]\npos: 1a 2b 3c 4a 5#\nfuncs: C{f[1][5]}(C{f[1][4]}(a1 S{t[2][2]}(b2) A{t[3][3]}(e{t[][]} c3) a4) #5)\nafter: C+(C+(1 S(2) A+(e 3) 4) 5)\n",
	"(a|b?)c":        "cached: C-(C+(A+(C+(1) C+(A+(e 2))) 3) 4)\nlast: 4\nfollows: 1[3] 2[3] 3[4]\nchars: a[1] b[2] c[3] #[4]\npos: 1a 2b 3c 4#\nfuncs: C{f[1,2,3][4]}(C{f[1,2,3][3]}(A{t[1,2][1,2]}(C{f[1][1]}(a1) C{t[2][2]}(A{t[2][2]}(e{t[][]} b2))) c3) #4)\nafter: C+(C+(A+(C+(1) C+(A+(e 2))) 3) 4)\n",
	"(a?|b*)+":       "cached: C-(C+(C+(A+(C+(A+(e 1)) C+(S(2))) S(A+(C+(A+(e 3)) C+(S(4)))))) 5)\nlast: 5\nfollows: 1[3,4,5] 2[2,3,4,5] 3[3,4,5] 4[3,4,4,5]\nchars: a[1,3] b[2,4] #[5]\npos: 1a 2b 3a 4b 5#\nfuncs: C{f[1,2,3,4,5][5]}(C{t[1,2,3,4][1,2,3,4]}(C{t[1,2,3,4][1,2,3,4]}(A{t[1,2][1,2]}(C{t[1][1]}(A{t[1][1]}(e{t[][]} a1)) C{t[2][2]}(S{t[2][2]}(b2))) S{t[3,4][3,4]}(A{t[3,4][3,4]}(C{t[3][3]}(A{t[3][3]}(e{t[][]} a3)) C{t[4][4]}(S{t[4][4]}(b4)))))) #5)\nafter: C+(C+(C+(A+(C+(A+(e 1)) C+(S(2))) S(A+(C+(A+(e 3)) C+(S(4)))))) 5)\n",
	"(ab)":           "cached: C-(C+(C+(1 2)) 3)\nlast: 3\nfollows: 1[2] 2[3]\nchars: a[1] b[2] #[3]\npos: 1a 2b 3#\nfuncs: C{f[1][3]}(C{f[1][2]}(C{f[1][2]}(a1 b2)) #3)\nafter: C+(C+(C+(1 2)) 3)\n",
	"((a))":          "cached: C-(C+(C+(C+(1))) 2)\nlast: 2\nfollows: 1[2]\nchars: a[1] #[2]\npos: 1a 2#\nfuncs: C{f[1][2]}(C{f[1][1]}(C{f[1][1]}(C{f[1][1]}(a1))) #2)\nafter: C+(C+(C+(C+(1))) 2)\n",
	"(a)(b)":         "cached: C-(C+(C+(1) C+(2)) 3)\nlast: 3\nfollows: 1[2] 2[3]\nchars: a[1] b[2] #[3]\npos: 1a 2b 3#\nfuncs: C{f[1][3]}(C{f[1][2]}(C{f[1][1]}(a1) C{f[2][2]}(b2)) #3)\nafter: C+(C+(C+(1) C+(2)) 3)\n",
	"a{0}":           "cached: C-(C+(C+()) 1)\nlast: 1\nfollows:\nchars: #[1]\npos: 1#\nfuncs: C{f[1][1]}(C{t[][]}(C{t[][]}()) #1)\nafter: C+(C+(C+()) 1)\n",
	"a{0,0}b":        "cached: C-(C+(C+() 1) 2)\nlast: 2\nfollows: 1[2]\nchars: b[1] #[2]\npos: 1b 2#\nfuncs: C{f[1][2]}(C{f[1][1]}(C{t[][]}() b1) #2)\nafter: C+(C+(C+() 1) 2)\n",
	"a{1}":           "cached: C-(C+(C+(1)) 2)\nlast: 2\nfollows: 1[2]\nchars: a[1] #[2]\npos: 1a 2#\nfuncs: C{f[1][2]}(C{f[1][1]}(C{f[1][1]}(a1)) #2)\nafter: C+(C+(C+(1)) 2)\n",
	"a{3}":           "cached: C-(C+(C+(1 2 3)) 4)\nlast: 4\nfollows: 1[2] 2[3] 3[4]\nchars: a[1,2,3] #[4]\npos: 1a 2a 3a 4#\nfuncs: C{f[1][4]}(C{f[1][3]}(C{f[1][3]}(a1 a2 a3)) #4)\nafter: C+(C+(C+(1 2 3)) 4)\n",
	"a{2,}":          "cached: C-(C+(C+(1 2 S(3))) 4)\nlast: 4\nfollows: 1[2] 2[3,4] 3[3,4]\nchars: a[1,2,3] #[4]\npos: 1a 2a 3a 4#\nfuncs: C{f[1][4]}(C{f[1][2,3]}(C{f[1][2,3]}(a1 a2 S{t[3][3]}(a3))) #4)\nafter: C+(C+(C+(1 2 S(3))) 4)\n",
	"a{0,}":          "cached: C-(C+(C+(S(1))) 2)\nlast: 2\nfollows: 1[1,2]\nchars: a[1] #[2]\npos: 1a 2#\nfuncs: C{f[1,2][2]}(C{t[1][1]}(C{t[1][1]}(S{t[1][1]}(a1))) #2)\nafter: C+(C+(C+(S(1))) 2)\n",
	"a{0,2}":         "cached: C-(C+(C+(A+(e 1) A+(e 2))) 3)\nlast: 3\nfollows: 1[2,3] 2[3]\nchars: a[1,2] #[3]\npos: 1a 2a 3#\nfuncs: C{f[1,2,3][3]}(C{t[1,2][1,2]}(C{t[1,2][1,2]}(A{t[1][1]}(e{t[][]} a1) A{t[2][2]}(e{t[][]} a2))) #3)\nafter: C+(C+(C+(A+(e 1) A+(e 2))) 3)\n",
	"a{1,3}b":        "cached: C-(C+(C+(1 A+(e 2) A+(e 3)) 4) 5)\nlast: 5\nfollows: 1[2,3,4] 2[3,4] 3[4] 4[5]\nchars: a[1,2,3] b[4] #[5]\npos: 1a 2a 3a 4b 5#\nfuncs: C{f[1][5]}(C{f[1][4]}(C{f[1][1,2,3]}(a1 A{t[2][2]}(e{t[][]} a2) A{t[3][3]}(e{t[][]} a3)) b4) #5)\nafter: C+(C+(C+(1 A+(e 2) A+(e 3)) 4) 5)\n",
	"(ab?){2,3}":     "cached: C-(C+(C+(C+(1 A+(e 2)) C+(3 A+(e 4)) A+(e C+(5 A+(e 6))))) 7)\nlast: 7\nfollows: 1[2,3] 2[3] 3[4,5,7] 4[5,7] 5[6,7] 6[7]\nchars: a[1,3,5] b[2,4,6] #[7]\npos: 1a 2b 3a 4b 5a 6b 7#\nfuncs: C{f[1][7]}(C{f[1][3,4,5,6]}(C{f[1][3,4,5,6]}(C{f[1][1,2]}(a1 A{t[2][2]}(e{t[][]} b2)) C{f[3][3,4]}(a3 A{t[4][4]}(e{t[][]} b4)) A{t[5][5,6]}(e{t[][]} C{f[5][5,6]}(a5 A{t[6][6]}(e{t[][]} b6))))) #7)\nafter: C+(C+(C+(C+(1 A+(e 2)) C+(3 A+(e 4)) A+(e C+(5 A+(e 6))))) 7)\n",
	"(a*){2}":        "cached: C-(C+(C+(C+(S(1)) C+(S(2)))) 3)\nlast: 3\nfollows: 1[1,2,3] 2[2,3]\nchars: a[1,2] #[3]\npos: 1a 2a 3#\nfuncs: C{f[1,2,3][3]}(C{t[1,2][1,2]}(C{t[1,2][1,2]}(C{t[1][1]}(S{t[1][1]}(a1)) C{t[2][2]}(S{t[2][2]}(a2)))) #3)\nafter: C+(C+(C+(C+(S(1)) C+(S(2)))) 3)\n",
	"(a|bc){1,2}c":   "cached: C-(C+(C+(A+(C+(1) C+(2 3)) A+(e A+(C+(4) C+(5 6)))) 7) 8)\nlast: 8\nfollows: 1[4,5,7] 2[3] 3[4,5,7] 4[7] 5[6] 6[7] 7[8]\nchars: a[1,4] b[2,5] c[3,6,7] #[8]\npos: 1a 2b 3c 4a 5b 6c 7c 8#\nfuncs: C{f[1,2][8]}(C{f[1,2][7]}(C{f[1,2][1,3,4,6]}(A{f[1,2][1,3]}(C{f[1][1]}(a1) C{f[2][3]}(b2 c3)) A{t[4,5][4,6]}(e{t[][]} A{f[4,5][4,6]}(C{f[4][4]}(a4) C{f[5][6]}(b5 c6)))) c7) #8)\nafter: C+(C+(C+(A+(C+(1) C+(2 3)) A+(e A+(C+(4) C+(5 6)))) 7) 8)\n",
	"(a?b?){0,2}":    "cached: C-(C+(C+(A+(e C+(A+(e 1) A+(e 2))) A+(e C+(A+(e 3) A+(e 4))))) 5)\nlast: 5\nfollows: 1[2,3,4,5] 2[3,4,5] 3[4,5] 4[5]\nchars: a[1,3] b[2,4] #[5]\npos: 1a 2b 3a 4b 5#\nfuncs: C{f[1,2,3,4,5][5]}(C{t[1,2,3,4][1,2,3,4]}(C{t[1,2,3,4][1,2,3,4]}(A{t[1,2][1,2]}(e{t[][]} C{t[1,2][1,2]}(A{t[1][1]}(e{t[][]} a1) A{t[2][2]}(e{t[][]} b2))) A{t[3,4][3,4]}(e{t[][]} C{t[3,4][3,4]}(A{t[3][3]}(e{t[][]} a3) A{t[4][4]}(e{t[][]} b4))))) #5)\nafter: C+(C+(C+(A+(e C+(A+(e 1) A+(e 2))) A+(e C+(A+(e 3) A+(e 4))))) 5)\n",
	"((a|b)c?)*":     "cached: C-(C+(S(C+(A+(C+(1) C+(2)) A+(e 3)))) 4)\nlast: 4\nfollows: 1[1,2,3,4] 2[1,2,3,4] 3[1,2,4]\nchars: a[1] b[2] c[3] #[4]\npos: 1a 2b 3c 4#\nfuncs: C{f[1,2,4][4]}(C{t[1,2][1,2,3]}(S{t[1,2][1,2,3]}(C{f[1,2][1,2,3]}(A{f[1,2][1,2]}(C{f[1][1]}(a1) C{f[2][2]}(b2)) A{t[3][3]}(e{t[][]} c3)))) #4)\nafter: C+(C+(S(C+(A+(C+(1) C+(2)) A+(e 3)))) 4)\n",
	"[a-c]":          "cached: C-(C+(A+(1 2 3)) 4)\nlast: 4\nfollows: 1[4] 2[4] 3[4]\nchars: a[1] b[2] c[3] #[4]\npos: 1a 2b 3c 4#\nfuncs: C{f[1,2,3][4]}(C{f[1,2,3][1,2,3]}(A{f[1,2,3][1,2,3]}(a1 b2 c3)) #4)\nafter: C+(C+(A+(1 2 3)) 4)\n",
	"[a-c]{2}":       "cached: C-(C+(C+(A+(1 2 3) A+(4 5 6))) 7)\nlast: 7\nfollows: 1[4,5,6] 2[4,5,6] 3[4,5,6] 4[7] 5[7] 6[7]\nchars: a[1,4] b[2,5] c[3,6] #[7]\npos: 1a 2b 3c 4a 5b 6c 7#\nfuncs: C{f[1,2,3][7]}(C{f[1,2,3][4,5,6]}(C{f[1,2,3][4,5,6]}(A{f[1,2,3][1,2,3]}(a1 b2 c3) A{f[4,5,6][4,5,6]}(a4 b5 c6))) #7)\nafter: C+(C+(C+(A+(1 2 3) A+(4 5 6))) 7)\n",
	"[ab]*c+":        "cached: C-(C+(S(A+(1 2)) C+(3 S(4))) 5)\nlast: 5\nfollows: 1[1,2,3] 2[1,2,3] 3[4,5] 4[4,5]\nchars: a[1] b[2] c[3,4] #[5]\npos: 1a 2b 3c 4c 5#\nfuncs: C{f[1,2,3][5]}(C{f[1,2,3][3,4]}(S{t[1,2][1,2]}(A{f[1,2][1,2]}(a1 b2)) C{f[3][3,4]}(c3 S{t[4][4]}(c4))) #5)\nafter: C+(C+(S(A+(1 2)) C+(3 S(4))) 5)\n",
	"(a+b+)+":        "cached: C-(C+(C+(C+(C+(1 S(2)) C+(3 S(4))) S(C+(C+(5 S(6)) C+(7 S(8)))))) 9)\nlast: 9\nfollows: 1[2,3] 2[2,3] 3[4,5,9] 4[4,5,9] 5[6,7] 6[6,7] 7[5,8,9] 8[5,8,9]\nchars: a[1,2,5,6] b[3,4,7,8] #[9]\npos: 1a 2a 3b 4b 5a 6a 7b 8b 9#\nfuncs: C{f[1][9]}(C{f[1][3,4,7,8]}(C{f[1][3,4,7,8]}(C{f[1][3,4]}(C{f[1][1,2]}(a1 S{t[2][2]}(a2)) C{f[3][3,4]}(b3 S{t[4][4]}(b4))) S{t[5][7,8]}(C{f[5][7,8]}(C{f[5][5,6]}(a5 S{t[6][6]}(a6)) C{f[7][7,8]}(b7 S{t[8][8]}(b8)))))) #9)\nafter: C+(C+(C+(C+(C+(1 S(2)) C+(3 S(4))) S(C+(C+(5 S(6)) C+(7 S(8)))))) 9)\n",
	"a(b(c(a)?)?)?":  "cached: C-(C+(1 A+(e C+(2 A+(e C+(3 A+(e C+(4))))))) 5)\nlast: 5\nfollows: 1[2,5] 2[3,5] 3[4,5] 4[5]\nchars: a[1,4] b[2] c[3] #[5]\npos: 1a 2b 3c 4a 5#\nfuncs: C{f[1][5]}(C{f[1][1,2,3,4]}(a1 A{t[2][2,3,4]}(e{t[][]} C{f[2][2,3,4]}(b2 A{t[3][3,4]}(e{t[][]} C{f[3][3,4]}(c3 A{t[4][4]}(e{t[][]} C{f[4][4]}(a4))))))) #5)\nafter: C+(C+(1 A+(e C+(2 A+(e C+(3 A+(e C+(4))))))) 5)\n",
	"(a|b|c)":        "cached: C-(C+(A+(C+(1) A+(C+(2) C+(3)))) 4)\nlast: 4\nfollows: 1[4] 2[4] 3[4]\nchars: a[1] b[2] c[3] #[4]\npos: 1a 2b 3c 4#\nfuncs: C{f[1,2,3][4]}(C{f[1,2,3][1,2,3]}(A{f[1,2,3][1,2,3]}(C{f[1][1]}(a1) A{f[2,3][2,3]}(C{f[2][2]}(b2) C{f[3][3]}(c3)))) #4)\nafter: C+(C+(A+(C+(1) A+(C+(2) C+(3)))) 4)\n",
	"a|b|c|a":        "cached: C-(A+(C+(1) A+(C+(2) A+(C+(3) C+(4)))) 5)\nlast: 5\nfollows: 1[5] 2[5] 3[5] 4[5]\nchars: a[1,4] b[2] c[3] #[5]\npos: 1a 2b 3c 4a 5#\nfuncs: C{f[1,2,3,4][5]}(A{f[1,2,3,4][1,2,3,4]}(C{f[1][1]}(a1) A{f[2,3,4][2,3,4]}(C{f[2][2]}(b2) A{f[3,4][3,4]}(C{f[3][3]}(c3) C{f[4][4]}(a4)))) #5)\nafter: C+(A+(C+(1) A+(C+(2) A+(C+(3) C+(4)))) 5)\n",
	"(a*|b)(c|a?)b*": "cached: C-(C+(A+(C+(S(1)) C+(2)) A+(C+(3) C+(A+(e 4))) S(5)) 6)\nlast: 6\nfollows: 1[1,3,4,5,6] 2[3,4,5,6] 3[5,6] 4[5,6] 5[5,6]\nchars: a[1,4] b[2,5] c[3] #[6]\npos: 1a 2b 3c 4a 5b 6#\nfuncs: C{f[1,2,3,4,5,6][6]}(C{t[1,2,3,4,5][1,2,3,4,5]}(A{t[1,2][1,2]}(C{t[1][1]}(S{t[1][1]}(a1)) C{f[2][2]}(b2)) A{t[3,4][3,4]}(C{f[3][3]}(c3) C{t[4][4]}(A{t[4][4]}(e{t[][]} a4))) S{t[5][5]}(b5)) #6)\nafter: C+(C+(A+(C+(S(1)) C+(2)) A+(C+(3) C+(A+(e 4))) S(5)) 6)\n",
	"(a?){3}c{0,1}":  "cached: C-(C+(C+(C+(A+(e 1)) C+(A+(e 2)) C+(A+(e 3))) C+(A+(e 4))) 5)\nlast: 5\nfollows: 1[2,3,4,5] 2[3,4,5] 3[4,5] 4[5]\nchars: a[1,2,3] c[4] #[5]\npos: 1a 2a 3a 4c 5#\nfuncs: C{f[1,2,3,4,5][5]}(C{t[1,2,3,4][1,2,3,4]}(C{t[1,2,3][1,2,3]}(C{t[1][1]}(A{t[1][1]}(e{t[][]} a1)) C{t[2][2]}(A{t[2][2]}(e{t[][]} a2)) C{t[3][3]}(A{t[3][3]}(e{t[][]} a3))) C{t[4][4]}(A{t[4][4]}(e{t[][]} c4))) #5)\nafter: C+(C+(C+(C+(A+(e 1)) C+(A+(e 2)) C+(A+(e 3))) C+(A+(e 4))) 5)\n",
	"((a*)?b)?":      "cached: C-(C+(A+(e C+(A+(e C+(S(1))) 2))) 3)\nlast: 3\nfollows: 1[1,2] 2[3]\nchars: a[1] b[2] #[3]\npos: 1a 2b 3#\nfuncs: C{f[1,2,3][3]}(C{t[1,2][2]}(A{t[1,2][2]}(e{t[][]} C{f[1,2][2]}(A{t[1][1]}(e{t[][]} C{t[1][1]}(S{t[1][1]}(a1))) b2))) #3)\nafter: C+(C+(A+(e C+(A+(e C+(S(1))) 2))) 3)\n",
	"a*?":            "cached: C-(C+(S(1)) 2)\nlast: 2\nfollows: 1[1,2]\nchars: a[1] #[2]\npos: 1a 2#\nfuncs: C{f[1,2][2]}(C{t[1][1]}(S{t[1][1]}(a1)) #2)\nafter: C+(C+(S(1)) 2)\n",
	"a+?b":           "cached: C-(C+(C+(1 S(2)) 3) 4)\nlast: 4\nfollows: 1[2,3] 2[2,3] 3[4]\nchars: a[1,2] b[3] #[4]\npos: 1a 2a 3b 4#\nfuncs: C{f[1][4]}(C{f[1][3]}(C{f[1][1,2]}(a1 S{t[2][2]}(a2)) b3) #4)\nafter: C+(C+(C+(1 S(2)) 3) 4)\n",
	"(a{2}){2}":      "cached: C-(C+(C+(C+(C+(1 2)) C+(C+(3 4)))) 5)\nlast: 5\nfollows: 1[2] 2[3] 3[4] 4[5]\nchars: a[1,2,3,4] #[5]\npos: 1a 2a 3a 4a 5#\nfuncs: C{f[1][5]}(C{f[1][4]}(C{f[1][4]}(C{f[1][2]}(C{f[1][2]}(a1 a2)) C{f[3][4]}(C{f[3][4]}(a3 a4)))) #5)\nafter: C+(C+(C+(C+(C+(1 2)) C+(C+(3 4)))) 5)\n",
	"a$":             "cached: C-(C+(1) 2)\nlast: 2\nfollows: 1[2]\nchars: a[1] #[2]\npos: 1a 2#\nfuncs: C{f[1][2]}(C{f[1][1]}(a1) #2)\nafter: C+(C+(1) 2)\n",
	"^a*b$":          "cached: C-(C+(S(1) 2) 3)\nlast: 3\nfollows: 1[1,2] 2[3]\nchars: a[1] b[2] #[3]\npos: 1a 2b 3#\nfuncs: C{f[1,2][3]}(C{f[1,2][2]}(S{t[1][1]}(a1) b2) #3)\nafter: C+(C+(S(1) 2) 3)\n",
}

var demoRegexes = []string{
	`a`,
	`ab`,
	`a|b`,
	`(a|b)*abb`,
	`a*`,
	`a?`,
	`a+`,
	`(a*)*`,
	`(a?)+`,
	`(a*b*)*c`,
	`a*b*c*`,
	`a?b?c?`,
	`ab?c`,
	`ab*c?a`,
	`(a|b?)c`,
	`(a?|b*)+`,
	`(ab)`,
	`((a))`,
	`(a)(b)`,
	`a{0}`,
	`a{0,0}b`,
	`a{1}`,
	`a{3}`,
	`a{2,}`,
	`a{0,}`,
	`a{0,2}`,
	`a{1,3}b`,
	`(ab?){2,3}`,
	`(a*){2}`,
	`(a|bc){1,2}c`,
	`(a?b?){0,2}`,
	`((a|b)c?)*`,
	`[a-c]`,
	`[a-c]{2}`,
	`[ab]*c+`,
	`(a+b+)+`,
	`a(b(c(a)?)?)?`,
	`(a|b|c)`,
	`a|b|c|a`,
	`(a*|b)(c|a?)b*`,
	`(a?){3}c{0,1}`,
	`((a*)?b)?`,
	`a*?`,
	`a+?b`,
	`(a{2}){2}`,
	`a$`,
	`^a*b$`,
}

func TestRefactorDemo_Parse(t *testing.T) {
	if os.Getenv("REFACTOR_DEMO_PRINT") != "" {
		for _, re := range demoRegexes {
			a, err := Parse(re)
			if err != nil {
				t.Fatalf("%s: %s", re, err)
			}
			fmt.Printf("\t%q: %q,\n", re, demoDump(a))
		}
		return
	}

	alphabet := "abc"
	inputs := demoStrings(alphabet, 6)

	for _, re := range demoRegexes {
		t.Run(re, func(t *testing.T) {
			a, err := Parse(re)
			if err != nil {
				t.Fatalf("unexpected error: %s", err)
			}

			expected, ok := demoGolden[re]
			if !ok {
				t.Fatalf("no golden value")
			}
			if got := demoDump(a); got != expected {
				t.Errorf("dump mismatch\n got: %s\nwant: %s", got, expected)
			}

			// The language of the direct DFA is the documented one, and the one of the NFA route.
			dfa := a.ToDFA()

			n, err := nfa.Parse(re)
			if err != nil {
				t.Fatalf("unexpected error from the NFA route: %s", err)
			}
			viaNFA := n.ToDFA()

			oracle := regexp.MustCompile(`^(?:` + strings.Trim(re, "^$") + `)$`)

			for _, s := range inputs {
				want := oracle.MatchString(s)
				if got := dfa.Accept(demoToString(s)); got != want {
					t.Errorf("direct DFA: Accept(%q) = %t, want %t", s, got, want)
				}
				if got := viaNFA.Accept(demoToString(s)); got != want {
					t.Errorf("NFA route: Accept(%q) = %t, want %t", s, got, want)
				}
			}

			// A second conversion of the same tree gives the same language (the functions are cached by now).
			again := a.ToDFA()
			for _, s := range inputs[:200] {
				if again.Accept(demoToString(s)) != dfa.Accept(demoToString(s)) {
					t.Errorf("second ToDFA differs on %q", s)
				}
			}
		})
	}
}

func TestRefactorDemo_ParseErrors(t *testing.T) {
	tests := []struct {
		regex         string
		expectedError string
	}{
		{`(a`, "invalid regular expression: (a"},
		{`a)`, "invalid regular expression: a)"},
		{`*`, "invalid regular expression: *"},
		{`a{3,1}`, "invalid repetition range {3,1}"},
		{`[c-a]`, "invalid character range c-a"},
		{`[c-a]{2,1}`, "invalid character range c-a\ninvalid repetition range {2,1}"},
		{`a\xEEEEb`, `unsupported character U+EEEE in regular expression: a\xEEEEb`},
		{`(a|b*\xEEEE)?`, `unsupported character U+EEEE in regular expression: (a|b*\xEEEE)?`},
		{`(ab|c\xEEEE{2})d`, `unsupported character U+EEEE in regular expression: (ab|c\xEEEE{2})d`},
		{`a\x0000EEEE`, `unsupported character U+EEEE in regular expression: a\x0000EEEE`},
	}

	for _, tc := range tests {
		t.Run(tc.regex, func(t *testing.T) {
			a, err := Parse(tc.regex)
			if a != nil {
				t.Errorf("expected no tree")
			}
			if err == nil {
				t.Fatalf("expected an error")
			}
			if err.Error() != tc.expectedError {
				t.Errorf("got error %q, want %q", err.Error(), tc.expectedError)
			}
		})
	}
}

func TestRefactorDemo_ContainsChar(t *testing.T) {
	ch := func(c rune) Node { return &Char{Val: c} }

	tree := &Concat{
		Exprs: []Node{
			&Alt{Exprs: []Node{&Empty{}, ch('a'), &Star{Expr: &Concat{Exprs: []Node{ch('b'), &Alt{Exprs: []Node{ch('c')}}}}}}},
			&Star{Expr: &Star{Expr: ch('d')}},
			&Concat{},
			&Alt{},
			ch('e'),
		},
	}

	for _, c := range "abcde" {
		if !containsChar(tree, c) {
			t.Errorf("containsChar(tree, %q) = false, want true", c)
		}
	}
	for _, c := range "fA\x00" + string(endMarker) {
		if containsChar(tree, c) {
			t.Errorf("containsChar(tree, %q) = true, want false", c)
		}
	}

	if containsChar(nil, 'a') || containsChar(&Empty{}, 'a') || containsChar(&Concat{}, 'a') || containsChar(&Alt{}, 'a') {
		t.Errorf("containsChar is true for a tree without characters")
	}
	if containsChar(&Star{}, 'a') {
		t.Errorf("containsChar is true for a star without operand")
	}
	if !containsChar(ch('a'), 'a') || containsChar(ch('a'), 'b') {
		t.Errorf("containsChar is wrong for a single leaf")
	}

	// Searching does not compute or cache anything.
	if got, want := demoCached(tree), "C-(A-(e 0 S(C-(0 A-(0)))) S(S(0)) C-() A-() 0)"; got != want {
		t.Errorf("cached = %s, want %s", got, want)
	}
}

func TestRefactorDemo_ConcatFunctions(t *testing.T) {
	ch := func(p Pos) Node { return &Char{Val: 'x', Pos: p} }
	opt := func(n Node) Node { return &Alt{Exprs: []Node{&Empty{}, n}} }
	star := func(n Node) Node { return &Star{Expr: n} }
	cat := func(ns ...Node) *Concat { return &Concat{Exprs: ns} }

	tests := []struct {
		name     string
		node     *Concat
		expected string
		cached   string
	}{
		{"NoOperands", &Concat{}, "C{t[][]}()", "C+()"},
		{"EmptySliceOperands", &Concat{Exprs: []Node{}}, "C{t[][]}()", "C+()"},
		{"OnlyEmpty", cat(&Empty{}), "C{t[][]}(e{t[][]})", "C+(e)"},
		{"OneChar", cat(ch(1)), "C{f[1][1]}(x1)", "C+(1)"},
		{"TwoChars", cat(ch(1), ch(2)), "C{f[1][2]}(x1 x2)", "C+(1 2)"},
		{
			"AllNullable", cat(star(ch(1)), opt(ch(2)), star(ch(3))),
			"C{t[1,2,3][1,2,3]}(S{t[1][1]}(x1) A{t[2][2]}(e{t[][]} x2) S{t[3][3]}(x3))",
			"C+(S(1) A+(e 2) S(3))",
		},
		{
			"NullablePrefix", cat(star(ch(1)), opt(ch(2)), ch(3), ch(4)),
			"C{f[1,2,3][4]}(S{t[1][1]}(x1) A{t[2][2]}(e{t[][]} x2) x3 x4)",
			"C+(S(1) A+(e 2) 3 4)",
		},
		{
			"NullableSuffix", cat(ch(1), ch(2), opt(ch(3)), star(ch(4))),
			"C{f[1][2,3,4]}(x1 x2 A{t[3][3]}(e{t[][]} x3) S{t[4][4]}(x4))",
			"C+(1 2 A+(e 3) S(4))",
		},
		{
			"NullableMiddle", cat(ch(1), star(ch(2)), opt(ch(3)), ch(4)),
			"C{f[1][4]}(x1 S{t[2][2]}(x2) A{t[3][3]}(e{t[][]} x3) x4)",
			"C+(1 S(2) A+(e 3) 4)",
		},
		{
			"SingleNonNullableInside", cat(star(ch(1)), ch(2), star(ch(3))),
			"C{f[1,2][2,3]}(S{t[1][1]}(x1) x2 S{t[3][3]}(x3))",
			"C+(S(1) 2 S(3))",
		},
		{
			"TwoNonNullableInside", cat(opt(ch(1)), ch(2), opt(ch(3)), ch(4), opt(ch(5))),
			"C{f[1,2][4,5]}(A{t[1][1]}(e{t[][]} x1) x2 A{t[3][3]}(e{t[][]} x3) x4 A{t[5][5]}(e{t[][]} x5))",
			"C+(A+(e 1) 2 A+(e 3) 4 A+(e 5))",
		},
		{
			"NestedConcats", cat(cat(star(ch(1))), cat(ch(2), opt(ch(3))), cat()),
			"C{f[1,2][2,3]}(C{t[1][1]}(S{t[1][1]}(x1)) C{f[2][2,3]}(x2 A{t[3][3]}(e{t[][]} x3)) C{t[][]}())",
			"C+(C+(S(1)) C+(2 A+(e 3)) C+())",
		},
		{
			"DuplicatePositionsAreKept", cat(opt(ch(1)), opt(ch(1)), ch(1)),
			"C{f[1,1,1][1]}(A{t[1][1]}(e{t[][]} x1) A{t[1][1]}(e{t[][]} x1) x1)",
			"C+(A+(e 1) A+(e 1) 1)",
		},
		{
			"AltOfAlternatives", cat(&Alt{Exprs: []Node{ch(1), ch(2)}}, &Alt{Exprs: []Node{ch(3), star(ch(4))}}),
			"C{f[1,2][1,2,3,4]}(A{f[1,2][1,2]}(x1 x2) A{t[3,4][3,4]}(x3 S{t[4][4]}(x4)))",
			"C+(A+(1 2) A+(3 S(4)))",
		},
	}

	for _, tc := range tests {
		t.Run(tc.name, func(t *testing.T) {
			if got := demoCached(tc.node); strings.Contains(got, "+") {
				t.Fatalf("cached before = %s", got)
			}

			// nullable alone computes and caches the three functions of the node.
			_ = tc.node.nullable()
			if tc.node.comp == nil {
				t.Fatalf("nothing cached")
			}

			cached := *tc.node.comp
			if got := demoFuncs(tc.node); got != tc.expected {
				t.Errorf("functions\n got: %s\nwant: %s", got, tc.expected)
			}
			if got := demoCached(tc.node); got != tc.cached {
				t.Errorf("cached after = %s, want %s", got, tc.cached)
			}

			// The cache is filled once, and the results are never nil.
			if tc.node.comp.nullable != cached.nullable || tc.node.comp.firstPos == nil || tc.node.comp.lastPos == nil {
				t.Errorf("unexpected cache: %+v", tc.node.comp)
			}
		})
	}
}

func TestRefactorDemo_CachedAfterNullableOnly(t *testing.T) {
	ch := func(p Pos) Node { return &Char{Val: 'x', Pos: p} }

	// A nullable prefix and a nullable suffix are consulted, the operand between two that are not nullable is not.
	m := &Concat{
		Exprs: []Node{
			&Concat{Exprs: []Node{&Star{Expr: ch(1)}}},
			ch(2),
			&Concat{Exprs: []Node{ch(3)}},
			ch(4),
			&Concat{Exprs: []Node{&Star{Expr: ch(5)}}},
		},
	}

	if got, want := demoPoses(m.lastPos())+demoPoses(m.firstPos()), "[4,5][1,2]"; got != want {
		t.Errorf("last and first = %s, want %s", got, want)
	}
	if got, want := demoCached(m), "C+(C+(S(1)) 2 C-(3) 4 C+(S(5)))"; got != want {
		t.Errorf("cached = %s, want %s", got, want)
	}

	// Only the operands that decide the result are asked for their functions (and so cache them):
	// here neither the one behind the star, nor the ones between the first and the last that are not nullable.
	behindStar := &Concat{Exprs: []Node{ch(2)}}
	middle := &Concat{Exprs: []Node{ch(3)}}
	inAlt := &Concat{Exprs: []Node{ch(4)}}
	n := &Concat{
		Exprs: []Node{
			ch(1),
			&Star{Expr: behindStar},
			middle,
			&Alt{Exprs: []Node{inAlt, &Empty{}}},
			ch(5),
		},
	}

	if n.nullable() {
		t.Errorf("nullable = true, want false")
	}
	if got, want := demoCached(n), "C+(1 S(C-(2)) C-(3) A-(C-(4) e) 5)"; got != want {
		t.Errorf("cached = %s, want %s", got, want)
	}
	if got, want := demoPoses(n.firstPos())+demoPoses(n.lastPos()), "[1][5]"; got != want {
		t.Errorf("first and last = %s, want %s", got, want)
	}
	if got, want := demoCached(n), "C+(1 S(C-(2)) C-(3) A-(C-(4) e) 5)"; got != want {
		t.Errorf("cached = %s, want %s", got, want)
	}
}
