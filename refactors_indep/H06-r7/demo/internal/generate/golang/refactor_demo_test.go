package golang

import (
	"fmt"
	"go/ast"
	"go/importer"
	"go/parser"
	"go/token"
	"go/types"
	"os"
	"path/filepath"
	"sort"
	"strconv"
	"strings"
	"testing"

	"github.com/gardenbed/charm/ui"
	auto "github.com/moorara/algo/automata"
	"github.com/moorara/algo/grammar"

	"github.com/gardenbed/emerge/internal/ebnf/parser/spec"
)

// demoEmit runs generateLexer for a set of definitions and returns the directory of the emitted package,
// together with the automaton and the accepting-state map computed by the spec for the same definitions.
func demoEmit(t *testing.T, pkg string, defs []*spec.TerminalDef) (string, *auto.DFA, map[grammar.Terminal][]auto.State) {
	t.Helper()

	root := t.TempDir()
	dir := filepath.Join(root, pkg)
	if err := os.Mkdir(dir, os.ModePerm); err != nil {
		t.Fatal(err)
	}

	g := &generator{
		UI: ui.NewNop(),
		Params: &Params{
			Path: root,
			Spec: &spec.Spec{Name: pkg, Definitions: defs},
		},
	}

	if err := g.generateCore(); err != nil {
		t.Fatalf("generateCore: %s", err)
	}
	if err := g.generateLexer(); err != nil {
		t.Fatalf("generateLexer: %s", err)
	}

	dfa, termMap, err := g.Spec.DFA()
	if err != nil {
		t.Fatalf("DFA: %s", err)
	}

	return dir, dfa, termMap
}

type demoKey struct {
	state int
	sym   rune
}

// demoFunc finds a function or method declaration by name.
func demoFunc(t *testing.T, f *ast.File, name string) *ast.FuncDecl {
	t.Helper()
	for _, d := range f.Decls {
		if fd, ok := d.(*ast.FuncDecl); ok && fd.Name.Name == name {
			return fd
		}
	}
	t.Fatalf("function %s not found", name)
	return nil
}

func demoInt(t *testing.T, e ast.Expr) int {
	t.Helper()
	lit, ok := e.(*ast.BasicLit)
	if !ok || lit.Kind != token.INT {
		t.Fatalf("not an integer literal: %#v", e)
	}
	n, err := strconv.Atoi(lit.Value)
	if err != nil {
		t.Fatal(err)
	}
	return n
}

// demoReadTransitions decodes the nested switch statements of advanceDFA.
func demoReadTransitions(t *testing.T, f *ast.File) map[demoKey]int {
	t.Helper()

	fd := demoFunc(t, f, "advanceDFA")
	if len(fd.Body.List) != 2 {
		t.Fatalf("advanceDFA: expected a switch and a return, got %d statements", len(fd.Body.List))
	}

	ret := fd.Body.List[1].(*ast.ReturnStmt)
	if id, ok := ret.Results[0].(*ast.Ident); !ok || id.Name != "errorState" {
		t.Fatalf("advanceDFA: the fallback result is not errorState")
	}

	trans := map[demoKey]int{}
	outer := fd.Body.List[0].(*ast.SwitchStmt)
	if outer.Tag.(*ast.Ident).Name != "state" {
		t.Fatalf("advanceDFA: outer switch is not on the state")
	}

	seen := map[int]bool{}
	for _, c := range outer.Body.List {
		cc := c.(*ast.CaseClause)
		if len(cc.List) != 1 || len(cc.Body) != 1 {
			t.Fatalf("advanceDFA: unexpected outer case shape")
		}
		from := demoInt(t, cc.List[0])
		if seen[from] {
			t.Fatalf("advanceDFA: state %d has two cases", from)
		}
		seen[from] = true

		inner := cc.Body[0].(*ast.SwitchStmt)
		if inner.Tag.(*ast.Ident).Name != "r" {
			t.Fatalf("advanceDFA: inner switch is not on the character")
		}
		for _, ic := range inner.Body.List {
			icc := ic.(*ast.CaseClause)
			if len(icc.List) == 0 || len(icc.Body) != 1 {
				t.Fatalf("advanceDFA: unexpected inner case shape")
			}
			next := demoInt(t, icc.Body[0].(*ast.ReturnStmt).Results[0])
			for _, e := range icc.List {
				lit := e.(*ast.BasicLit)
				if lit.Kind != token.CHAR {
					t.Fatalf("advanceDFA: not a character literal: %s", lit.Value)
				}
				r, _, tail, err := strconv.UnquoteChar(lit.Value[1:len(lit.Value)-1], '\'')
				if err != nil || tail != "" {
					t.Fatalf("advanceDFA: bad character literal %s", lit.Value)
				}
				k := demoKey{from, r}
				if _, dup := trans[k]; dup {
					t.Fatalf("advanceDFA: duplicate (%d, %q)", from, r)
				}
				trans[k] = next
			}
		}
	}

	return trans
}

// demoReadFinals decodes the switch statement of evalDFA into state -> terminal.
func demoReadFinals(t *testing.T, f *ast.File) map[int]string {
	t.Helper()

	fd := demoFunc(t, f, "evalDFA")
	sw := fd.Body.List[0].(*ast.SwitchStmt)
	if sw.Tag.(*ast.Ident).Name != "state" {
		t.Fatalf("evalDFA: switch is not on the state")
	}

	finals := map[int]string{}
	for _, c := range sw.Body.List {
		cc := c.(*ast.CaseClause)
		if len(cc.List) == 0 {
			t.Fatalf("evalDFA: a case without states (or a default) was emitted")
		}
		if len(cc.Body) != 2 {
			t.Fatalf("evalDFA: unexpected case body")
		}
		lit := cc.Body[1].(*ast.ReturnStmt).Results[0].(*ast.CompositeLit)
		var term string
		found := false
		for _, el := range lit.Elts {
			kv := el.(*ast.KeyValueExpr)
			if kv.Key.(*ast.Ident).Name != "Terminal" {
				continue
			}
			call := kv.Value.(*ast.CallExpr)
			if call.Fun.(*ast.Ident).Name != "Terminal" {
				t.Fatalf("evalDFA: terminal is not a Terminal conversion")
			}
			s, err := strconv.Unquote(call.Args[0].(*ast.BasicLit).Value)
			if err != nil {
				t.Fatal(err)
			}
			term, found = s, true
		}
		if !found {
			t.Fatalf("evalDFA: no terminal in the token")
		}
		for _, e := range cc.List {
			s := demoInt(t, e)
			if _, dup := finals[s]; dup {
				t.Fatalf("evalDFA: state %d listed twice", s)
			}
			finals[s] = term
		}
	}

	return finals
}

// demoCheckPackage parses all the emitted files and type-checks them with the standard library only.
func demoCheckPackage(t *testing.T, dir string) *ast.File {
	t.Helper()

	fset := token.NewFileSet()
	var files []*ast.File
	var lexer *ast.File
	for _, name := range []string{"errors.go", "types.go", "stack.go", "input.go", "lexer.go"} {
		f, err := parser.ParseFile(fset, filepath.Join(dir, name), nil, parser.AllErrors)
		if err != nil {
			t.Fatalf("%s does not parse: %s", name, err)
		}
		for _, imp := range f.Imports {
			path, _ := strconv.Unquote(imp.Path.Value)
			if strings.Contains(path, ".") {
				t.Fatalf("%s imports a non-standard package %s", name, path)
			}
		}
		files = append(files, f)
		if name == "lexer.go" {
			lexer = f
		}
	}

	conf := types.Config{Importer: importer.ForCompiler(fset, "source", nil)}
	if _, err := conf.Check(filepath.Base(dir), fset, files, nil); err != nil {
		t.Fatalf("emitted package does not type-check: %s", err)
	}

	return lexer
}

var demoSpecs = []struct {
	name string
	defs []*spec.TerminalDef
	// noState lists the terminals that must own no accepting state.
	noState []string
}{
	{
		name: "fixture",
		defs: definitions,
	},
	{
		name: "keywords",
		defs: []*spec.TerminalDef{
			{Terminal: "if", Value: "if"},
			{Terminal: "int", Value: "int"},
			{Terminal: "ID", Value: "[a-z]+", IsRegex: true},
			{Terminal: "NUM", Value: "[0-9]+", IsRegex: true},
			{Terminal: "+", Value: "+"},
		},
	},
	{
		name: "shadowed",
		defs: []*spec.TerminalDef{
			{Terminal: "KW", Value: "if"},
			{Terminal: "SHADOW", Value: "if", IsRegex: true},
			{Terminal: "ALSO", Value: "(if)", IsRegex: true},
			{Terminal: "X", Value: "x+", IsRegex: true},
		},
		noState: []string{"SHADOW", "ALSO"},
	},
	{
		name: "escapes",
		defs: []*spec.TerminalDef{
			{Terminal: `"`, Value: `"`},
			{Terminal: `\`, Value: `\`},
			{Terminal: `'`, Value: `'`},
			{Terminal: "new\nline", Value: "\n"},
			{Terminal: "tab\t", Value: "\t\x00\x7f"},
			{Terminal: "é世\U0001F600", Value: "é世\U0001F600"},
			{Terminal: "`back`", Value: "`"},
			{Terminal: "nb sp", Value: "  "},
			{Terminal: "QUOTED", Value: `"[a-z]*"`, IsRegex: true},
		},
	},
	{
		name: "single",
		defs: []*spec.TerminalDef{
			{Terminal: "A", Value: "a"},
		},
	},
	{
		name: "none",
		defs: []*spec.TerminalDef{},
	},
}

// The emitted tables are compared, pair by pair, with the automaton computed by the spec.
func TestRefactorDemo_EmittedTablesMatchAutomaton(t *testing.T) {
	for _, tc := range demoSpecs {
		t.Run(tc.name, func(t *testing.T) {
			dir, dfa, termMap := demoEmit(t, "demo", tc.defs)
			lexer := demoCheckPackage(t, dir)

			// Transitions
			expectedTrans := map[demoKey]int{}
			for tr := range dfa.Transitions() {
				expectedTrans[demoKey{int(tr.State), rune(tr.Symbol)}] = int(tr.Next)
			}
			trans := demoReadTransitions(t, lexer)
			if len(trans) != len(expectedTrans) {
				t.Errorf("expected %d transitions, got %d", len(expectedTrans), len(trans))
			}
			for k, next := range expectedTrans {
				if got, ok := trans[k]; !ok || got != next {
					t.Errorf("(%d, %q): expected %d, got %d (present: %t)", k.state, k.sym, next, got, ok)
				}
			}

			// Accepting states
			expectedFinals := map[int]string{}
			for term, states := range termMap {
				for _, s := range states {
					expectedFinals[int(s)] = string(term)
				}
			}
			finals := demoReadFinals(t, lexer)
			if len(finals) != len(expectedFinals) {
				t.Errorf("expected %d accepting states, got %d", len(expectedFinals), len(finals))
			}
			for s, term := range expectedFinals {
				if got, ok := finals[s]; !ok || got != term {
					t.Errorf("state %d: expected %q, got %q (present: %t)", s, term, got, ok)
				}
			}

			for _, term := range tc.noState {
				if len(termMap[grammar.Terminal(term)]) != 0 {
					t.Fatalf("test premise: %s owns states", term)
				}
				for s, got := range finals {
					if got == term {
						t.Errorf("terminal %s owns no state, but state %d is emitted for it", term, s)
					}
				}
			}
		})
	}
}

// demoSection cuts a function out of the emitted source text.
func demoSection(t *testing.T, src, from, to string) string {
	t.Helper()
	i := strings.Index(src, from)
	if i < 0 {
		t.Fatalf("%q not found", from)
	}
	j := len(src)
	if to != "" {
		if j = strings.Index(src, to); j < 0 {
			t.Fatalf("%q not found", to)
		}
	}
	return src[i:j]
}

// The bytes of the two generated functions are pinned for a small specification
// in which one terminal owns no state and two names need escaping.
func TestRefactorDemo_GoldenText(t *testing.T) {
	dir, _, _ := demoEmit(t, "golden", []*spec.TerminalDef{
		{Terminal: "KW", Value: "if"},
		{Terminal: "LOST", Value: "if", IsRegex: true},
		{Terminal: `q"\`, Value: "'\\"},
		{Terminal: "AB", Value: "[ab]+", IsRegex: true},
		{Terminal: "é\n", Value: "é"},
	})

	b, err := os.ReadFile(filepath.Join(dir, "lexer.go"))
	if err != nil {
		t.Fatal(err)
	}
	src := string(b)

	if !strings.HasPrefix(src, "package golden\n\nimport (\n") {
		t.Errorf("unexpected head of lexer.go: %q", src[:40])
	}

	eval := demoSection(t, src, "func (l *Lexer) evalDFA(state int) Token {", "// advanceDFA determines")
	advance := demoSection(t, src, "func advanceDFA(state int, r rune) int {", "")

	if eval != demoGoldenEval {
		t.Errorf("evalDFA text differs:\n%s", eval)
	}
	if advance != demoGoldenAdvance {
		t.Errorf("advanceDFA text differs:\n%s", advance)
	}
}

func TestRefactorDemo_FormatHelpers(t *testing.T) {
	ints := []struct {
		vals     []int
		expected string
	}{
		{nil, ""},
		{[]int{}, ""},
		{[]int{0}, "0"},
		{[]int{7}, "7"},
		{[]int{1, 2, 3}, "1, 2, 3"},
		{[]int{-1, 10, 100000}, "-1, 10, 100000"},
		{[]int{5, 5}, "5, 5"},
	}
	for _, tc := range ints {
		if got := formatInts(tc.vals); got != tc.expected {
			t.Errorf("formatInts(%v): expected %q, got %q", tc.vals, tc.expected, got)
		}
	}

	runes := []struct {
		vals     []rune
		expected string
	}{
		{nil, ""},
		{[]rune{}, ""},
		{[]rune{'a'}, `'a'`},
		{[]rune{'a', 'b', 'c'}, `'a', 'b', 'c'`},
		{[]rune{'\''}, `'\''`},
		{[]rune{'"'}, `'"'`},
		{[]rune{'\\'}, `'\\'`},
		{[]rune{'`'}, "'`'"},
		{[]rune{',', ' '}, `',', ' '`},
		{[]rune{'\n', '\t', '\r'}, `'\n', '\t', '\r'`},
		{[]rune{0, 0x7f, 0x1b}, `'\x00', '\x7f', '\x1b'`},
		{[]rune{'é', '世'}, `'é', '世'`},
		{[]rune{0x00a0, 0x2028, 0xfeff}, `'\u00a0', '\u2028', '\ufeff'`},
		{[]rune{0x1F600, 0x10FFFF}, "'\U0001F600', '\\U0010ffff'"},
		{[]rune{0xFFFD}, "'\ufffd'"},
		{[]rune{0xD800, -1, 0x110000}, "'\ufffd', '\ufffd', '\ufffd'"},
	}
	for _, tc := range runes {
		if got := formatRunes(tc.vals); got != tc.expected {
			t.Errorf("formatRunes(%v): expected %q, got %q", tc.vals, tc.expected, got)
		}
	}

	// Every character is written as one literal that reads back as the same character.
	for r := rune(0); r < 0x3000; r++ {
		s := formatRunes([]rune{r, r})
		parts := strings.Split(s, ", ")
		if r == ',' {
			continue
		}
		if len(parts) != 2 || parts[0] != parts[1] {
			t.Fatalf("formatRunes(%U): %q", r, s)
		}
		got, _, tail, err := strconv.UnquoteChar(parts[0][1:len(parts[0])-1], '\'')
		if err != nil || tail != "" || got != r {
			t.Fatalf("formatRunes(%U): %q does not read back", r, s)
		}
	}
}

// The transitions are grouped by source state and then by target state, in ascending order of both.
func TestRefactorDemo_Grouping(t *testing.T) {
	d := auto.NewDFA(0, []auto.State{2})
	d.Add(0, 'b', 1)
	d.Add(0, 'a', 1)
	d.Add(0, 'c', 2)
	d.Add(1, 'a', 1)
	d.Add(3, 'z', 0)

	var lines []string
	for from, group := range groupDFAStates(d).All() {
		for to, syms := range group.All() {
			sorted := append([]rune(nil), syms...)
			sort.Slice(sorted, func(i, j int) bool { return sorted[i] < sorted[j] })
			lines = append(lines, fmt.Sprintf("%d -> %d on %s", from, to, formatRunes(sorted)))
		}
	}

	expected := []string{
		"0 -> 1 on 'a', 'b'",
		"0 -> 2 on 'c'",
		"1 -> 1 on 'a'",
		"3 -> 0 on 'z'",
	}
	if strings.Join(lines, "\n") != strings.Join(expected, "\n") {
		t.Errorf("unexpected grouping:\n%s", strings.Join(lines, "\n"))
	}
}

const demoGoldenEval = `func (l *Lexer) evalDFA(state int) Token {
	switch state {
	case 6:
		lexeme, pos := l.in.Lexeme()
		return Token{Terminal: Terminal("KW"), Lexeme: lexeme, Pos: pos}

	case 5:
		lexeme, pos := l.in.Lexeme()
		return Token{Terminal: Terminal("q\"\\"), Lexeme: lexeme, Pos: pos}

	case 2:
		lexeme, pos := l.in.Lexeme()
		return Token{Terminal: Terminal("AB"), Lexeme: lexeme, Pos: pos}

	case 4:
		lexeme, pos := l.in.Lexeme()
		return Token{Terminal: Terminal("é\n"), Lexeme: lexeme, Pos: pos}

	}

	// ERR
	val, pos := l.in.Lexeme()
	return Token{
		Terminal: ERR,
		Lexeme:   fmt.Sprintf("lexical error at %s:%s", pos, val),
		Pos:      pos,
	}
}

`

const demoGoldenAdvance = `func advanceDFA(state int, r rune) int {
	switch state {
	case 0:
		switch r {
		case '\'':
			return 1
		case 'a', 'b':
			return 2
		case 'i':
			return 3
		case 'é':
			return 4
		}

	case 1:
		switch r {
		case '\\':
			return 5
		}

	case 2:
		switch r {
		case 'a', 'b':
			return 2
		}

	case 3:
		switch r {
		case 'f':
			return 6
		}

	}

	return errorState
}
`
