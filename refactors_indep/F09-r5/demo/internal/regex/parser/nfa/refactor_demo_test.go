package nfa

import (
	"fmt"
	"strings"
	"testing"
	"time"

	"github.com/stretchr/testify/assert"

	auto "github.com/moorara/algo/automata"
)

// This file is a characterization test for a behaviour-preserving refactoring of
// runeRangesToNFA, includesRune and quantifyNFA (and, through Parse, of toNum and toUnicodeChar).
// Every expectation is spelled out independently of the code under test.

func demoStr(s string) auto.String {
	res := auto.String{}
	for _, r := range s {
		res = append(res, auto.Symbol(r))
	}
	return res
}

// demoCharsNFA builds the two-state NFA by hand.
func demoCharsNFA(chars ...rune) *auto.NFA {
	n := auto.NewNFA(0, []auto.State{1})
	for _, c := range chars {
		n.Add(0, auto.Symbol(c), []auto.State{1})
	}
	return n
}

func demoSeq(lo, hi rune) []rune {
	res := []rune{}
	for r := lo; r <= hi; r++ {
		res = append(res, r)
	}
	return res
}

func TestRefactorDemo_includesRune(t *testing.T) {
	tests := []struct {
		r        rune
		ranges   [][2]rune
		expected bool
	}{
		{'a', nil, false},
		{'a', [][2]rune{}, false},
		{'a', [][2]rune{{'a', 'a'}}, true},
		{'a', [][2]rune{{'a', 'z'}}, true},
		{'z', [][2]rune{{'a', 'z'}}, true},
		{'`', [][2]rune{{'a', 'z'}}, false},
		{'{', [][2]rune{{'a', 'z'}}, false},
		{'m', [][2]rune{{'z', 'a'}}, false}, // inverted range is empty
		{'m', [][2]rune{{'z', 'a'}, {'m', 'm'}}, true},
		{'5', [][2]rune{{'a', 'z'}, {'A', 'Z'}, {'0', '9'}}, true},
		{'_', [][2]rune{{'a', 'z'}, {'A', 'Z'}, {'0', '9'}}, false},
		{-1, [][2]rune{{-1, 128}}, true},
		{-2, [][2]rune{{-1, 128}}, false},
		{128, [][2]rune{{-1, 128}}, true},
		{0, [][2]rune{{0, 0}}, true},
		{0x7FFFFFFF, [][2]rune{{0, 0x7FFFFFFF}}, true},
		{0x10FFFF, [][2]rune{{0, 0x7F}, {0x10FFFF, 0x10FFFF}}, true},
	}

	for i, tc := range tests {
		assert.Equal(t, tc.expected, includesRune(tc.r, tc.ranges...), "case %d", i)
	}
}

func TestRefactorDemo_runeRangesToNFA(t *testing.T) {
	notLower := [][2]rune{{0x00, 0x60}, {0x7B, 0x7F}}

	tests := []struct {
		name          string
		neg           bool
		ranges        [][2]rune
		expectedChars []rune
	}{
		{"NoRanges", false, nil, []rune{}},
		{"Single", false, [][2]rune{{'x', 'x'}}, []rune{'x'}},
		{"Range", false, [][2]rune{{'a', 'e'}}, []rune{'a', 'b', 'c', 'd', 'e'}},
		{"Inverted", false, [][2]rune{{'e', 'a'}}, []rune{}},
		{"Two", false, [][2]rune{{'0', '2'}, {'A', 'B'}}, []rune{'0', '1', '2', 'A', 'B'}},
		{"OrderKept", false, [][2]rune{{'x', 'z'}, {'a', 'b'}}, []rune{'x', 'y', 'z', 'a', 'b'}},
		{"OverlapKeepsDuplicates", false, [][2]rune{{'a', 'c'}, {'b', 'd'}}, []rune{'a', 'b', 'c', 'b', 'c', 'd'}},
		{"ClampedEdges", false, [][2]rune{{-1, 2}}, []rune{-1, 0, 1, 2}},
		{"ClampedTop", false, [][2]rune{{126, 128}}, []rune{126, 127, 128}},
		{"BothOutside", false, [][2]rune{{128, 128}}, []rune{128}},
		{"NegNoRanges", true, nil, demoSeq(0, 127)},
		{"NegLower", true, notLower, demoSeq('a', 'z')},
		{"NegAll", true, [][2]rune{{0, 127}}, []rune{}},
		{"NegWide", true, [][2]rune{{-1, 128}}, []rune{}},
		{"NegInverted", true, [][2]rune{{127, 0}}, demoSeq(0, 127)},
		{"NegDigits", true, [][2]rune{{0, '/'}, {':', 127}}, demoSeq('0', '9')},
		{"NegOverlap", true, [][2]rune{{0, 'b'}, {'a', 'x'}, {'{', 127}}, []rune{'y', 'z'}},
	}

	for _, tc := range tests {
		t.Run(tc.name, func(t *testing.T) {
			nfa, chars := runeRangesToNFA(tc.neg, tc.ranges...)

			assert.NotNil(t, chars) // an empty but non-nil slice
			assert.Equal(t, tc.expectedChars, chars)

			expected := demoCharsNFA(tc.expectedChars...)
			assert.NotNil(t, nfa)
			assert.True(t, nfa.Equal(expected))
			assert.Equal(t, expected.String(), nfa.String())
			assert.Equal(t, auto.State(0), nfa.Start)

			for _, c := range tc.expectedChars {
				assert.True(t, nfa.Accept(auto.String{auto.Symbol(c)}))
			}
			// The character 0 doubles as the empty-string symbol of the automata package.
			assert.Equal(t, containsRune(0, tc.expectedChars), nfa.Accept(auto.String{}))
			assert.False(t, nfa.Accept(auto.String{auto.Symbol(0x2603)}))
		})
	}
}

func TestRefactorDemo_quantifyNFA(t *testing.T) {
	ip := func(i int) *int { return &i }
	a := func() *auto.NFA { return demoCharsNFA('a') }
	opt := func() *auto.NFA { return empty().Union(a()) }

	tests := []struct {
		name        string
		q           any
		expectedNFA *auto.NFA
		accepted    []string
		rejected    []string
	}{
		{"ZeroOrOne", '?', empty().Union(a()), []string{"", "a"}, []string{"aa", "b"}},
		{"ZeroOrMore", '*', a().Star(), []string{"", "a", "aaaa"}, []string{"b", "ab"}},
		{"OneOrMore", '+', a().Concat(a().Star()), []string{"a", "aaa"}, []string{"", "b"}},
		{"UnknownOp", '!', nil, nil, nil},
		{"LazyMark", rune(0), nil, nil, nil},
		{"NilQuantifier", nil, nil, nil, nil},
		{"IntQuantifier", 3, nil, nil, nil},
		{"StringQuantifier", "*", nil, nil, nil},
		{"OtherTuple", tuple[any, bool]{p: '*', q: true}, nil, nil, nil},
		{"PointerTuple", &tuple[int, *int]{p: 1, q: ip(1)}, nil, nil, nil},
		{"Exactly0", tuple[int, *int]{p: 0, q: ip(0)}, empty(), []string{""}, []string{"a"}},
		{"Exactly1", tuple[int, *int]{p: 1, q: ip(1)}, a().Concat(), []string{"a"}, []string{"", "aa"}},
		{"Exactly3", tuple[int, *int]{p: 3, q: ip(3)}, a().Concat(a(), a()), []string{"aaa"}, []string{"", "aa", "aaaa"}},
		{"From0To2", tuple[int, *int]{p: 0, q: ip(2)}, opt().Concat(opt()), []string{"", "a", "aa"}, []string{"aaa"}},
		{"From1To3", tuple[int, *int]{p: 1, q: ip(3)}, a().Concat(opt(), opt()), []string{"a", "aa", "aaa"}, []string{"", "aaaa"}},
		{"From2", tuple[int, *int]{p: 2, q: nil}, a().Concat(a(), a().Star()), []string{"aa", "aaaaa"}, []string{"", "a"}},
		{"From0", tuple[int, *int]{p: 0, q: nil}, a().Star().Concat(), []string{"", "a", "aaa"}, []string{"b"}},
		// A lower bound above the upper one is reported by ToRange; quantifyNFA then repeats the lower bound only.
		{"Reversed", tuple[int, *int]{p: 3, q: ip(1)}, a().Concat(a(), a()), []string{"aaa"}, []string{"a", "aa", "aaaa"}},
		{"NegativeLow", tuple[int, *int]{p: -1, q: ip(1)}, opt().Concat(opt()), []string{"", "a", "aa"}, []string{"aaa"}},
		{"NegativeLowUnbounded", tuple[int, *int]{p: -5, q: nil}, a().Star().Concat(), []string{"", "aa"}, []string{"b"}},
		{"NegativeBoth", tuple[int, *int]{p: -2, q: ip(-3)}, empty(), []string{""}, []string{"a"}},
	}

	for _, tc := range tests {
		t.Run(tc.name, func(t *testing.T) {
			n := a()
			nfa := quantifyNFA(n, tc.q)

			// The operand is left as it was.
			assert.True(t, n.Equal(a()))

			if tc.expectedNFA == nil {
				assert.Nil(t, nfa)
				return
			}

			assert.NotNil(t, nfa)
			assert.True(t, nfa.Equal(tc.expectedNFA), "got:\n%s\nwant:\n%s", nfa, tc.expectedNFA)
			assert.Equal(t, tc.expectedNFA.String(), nfa.String())

			for _, s := range tc.accepted {
				assert.True(t, nfa.Accept(demoStr(s)), "should accept %q", s)
			}
			for _, s := range tc.rejected {
				assert.False(t, nfa.Accept(demoStr(s)), "should reject %q", s)
			}
		})
	}

	t.Run("LargerCounts", func(t *testing.T) {
		for _, c := range []struct{ low, up int }{{7, 7}, {0, 9}, {4, 11}, {12, 3}} {
			nfa := quantifyNFA(a(), tuple[int, *int]{p: c.low, q: ip(c.up)})
			assert.NotNil(t, nfa)

			hi := max(c.low, c.up)
			for k := 0; k <= hi+2; k++ {
				expected := c.low <= k && k <= hi
				assert.Equal(t, expected, nfa.Accept(demoStr(strings.Repeat("a", k))), "{%d,%d} on %d", c.low, c.up, k)
			}
		}
	})
}

// TestRefactorDemo_Parse goes through the entry point; it terminates with a result or an error for every pattern.
func TestRefactorDemo_Parse(t *testing.T) {
	tests := []struct {
		regex         string
		expectedError string
		accepted      []string
		rejected      []string
	}{
		{regex: `a{0}`, accepted: []string{""}, rejected: []string{"a"}},
		{regex: `a{3}`, accepted: []string{"aaa"}, rejected: []string{"aa", "aaaa"}},
		{regex: `a{007}`, accepted: []string{"aaaaaaa"}, rejected: []string{"aaaaaa", "aaaaaaaa"}},
		{regex: `a{2,}`, accepted: []string{"aa", "aaaaaa"}, rejected: []string{"", "a"}},
		{regex: `a{2,4}b`, accepted: []string{"aab", "aaab", "aaaab"}, rejected: []string{"ab", "aaaaab", "aa"}},
		{regex: `(ab){1,2}?c`, accepted: []string{"abc", "ababc"}, rejected: []string{"c", "abababc"}},
		{regex: `(a|b)+`, accepted: []string{"a", "abba"}, rejected: []string{"", "c"}},
		{regex: `x?y*z+`, accepted: []string{"z", "xz", "xyyzz", "yz"}, rejected: []string{"", "xy", "xxz"}},
		{regex: `[a-c]{2}`, accepted: []string{"ab", "cc"}, rejected: []string{"a", "ad", "abc"}},
		{regex: `[^a-c]`, accepted: []string{"d", "0", "\x00", "\x7f"}, rejected: []string{"a", "b", "c", "ab"}},
		{regex: `[^\x00-\x60\x7B-\x7F]+`, accepted: []string{"a", "xyz"}, rejected: []string{"", "A", "a1"}},
		{regex: `[\x0041-\x0043]`, accepted: []string{"A", "B", "C"}, rejected: []string{"D", ""}},
		{regex: `\x0041\x00000042`, accepted: []string{"AB"}, rejected: []string{"A", "B"}},
		{regex: `\x00410`, accepted: []string{"А"}, rejected: []string{"A0", "A"}},
		{regex: `\x01A9`, accepted: []string{"Ʃ"}, rejected: []string{"A9"}},
		{regex: `\x0010FFFF`, accepted: []string{"\U0010FFFF"}, rejected: []string{""}},
		{regex: `\xFFFFFFFF`, accepted: nil, rejected: []string{"", "a"}},
		{regex: `a{4,2}`, expectedError: "invalid repetition range {4,2}"},
		{regex: `a{4,2}b{3,1}`, expectedError: "invalid repetition range {4,2}\ninvalid repetition range {3,1}"},
		{regex: `[z-a]`, expectedError: "invalid character range z-a"},
		{regex: `[a-\x7FFFFFFF]`, expectedError: "unsupported non-ASCII character in character group"},
		{regex: `[\x0080-\x0082]`, expectedError: ""},
		{regex: `a{99999999999999999999}`, expectedError: "invalid regular expression: a{99999999999999999999}"},
		{regex: `a{9223372036854775808}`, expectedError: "invalid regular expression: a{9223372036854775808}"},
		{regex: `a{1,9223372036854775808}`, expectedError: "invalid regular expression: a{1,9223372036854775808}"},
		{regex: `a{1,18446744073709551617}`, expectedError: "invalid regular expression: a{1,18446744073709551617}"},
		{regex: `a{`, expectedError: "invalid regular expression: a{"},
		{regex: `a{}`, expectedError: "invalid regular expression: a{}"},
		{regex: `a{,2}`, expectedError: "invalid regular expression: a{,2}"},
		{regex: `a{-1}`, expectedError: "invalid regular expression: a{-1}"},
		{regex: `\x014`, accepted: []string{"\x014"}, rejected: []string{"\x01", "4", "\x14"}},
		{regex: `\x01G1`, accepted: []string{"\x01G1"}, rejected: []string{"\x01", "G1"}},
		{regex: `\x0G`, expectedError: "invalid regular expression: \\x0G"},
		{regex: ``, expectedError: "invalid regular expression: "},
		{regex: `*`, expectedError: "invalid regular expression: *"},
	}

	for _, tc := range tests {
		t.Run(tc.regex, func(t *testing.T) {
			type outcome struct {
				nfa *auto.NFA
				err error
			}

			done := make(chan outcome, 1)
			go func() {
				nfa, err := Parse(tc.regex)
				done <- outcome{nfa, err}
			}()

			var out outcome
			select {
			case out = <-done:
			case <-time.After(30 * time.Second):
				t.Fatalf("Parse(%q) did not terminate", tc.regex)
			}

			// Never success together with a nil result.
			assert.True(t, (out.nfa == nil) != (out.err == nil))

			if tc.expectedError == "" && tc.regex == `[\x0080-\x0082]` {
				// Pinned separately below.
				return
			}

			if tc.expectedError != "" {
				assert.Nil(t, out.nfa)
				assert.EqualError(t, out.err, tc.expectedError)
				return
			}

			assert.NoError(t, out.err)
			for _, s := range tc.accepted {
				assert.True(t, out.nfa.Accept(demoStr(s)), "should accept %q", s)
			}
			for _, s := range tc.rejected {
				assert.False(t, out.nfa.Accept(demoStr(s)), "should reject %q", s)
			}
		})
	}

	t.Run("OutsideTheTable", func(t *testing.T) {
		nfa, err := Parse(`[\x0080-\x0082]`)
		assert.Nil(t, nfa)
		assert.EqualError(t, err, "unsupported non-ASCII character in character group")
	})

	t.Run("AllOnes", func(t *testing.T) {
		// Eight F digits make 0xFFFFFFFF, which becomes the rune -1.
		nfa, err := Parse(`\xFFFFFFFF`)
		assert.NoError(t, err)
		assert.True(t, nfa.Equal(demoCharsNFA(-1)), fmt.Sprint(nfa))
	})
}
