package parser

import (
	"math"
	"strconv"
	"testing"

	"github.com/stretchr/testify/assert"

	comb "github.com/moorara/algo/parser/combinator"
)

// This file is a characterization test for a behaviour-preserving refactoring of toNum and toUnicodeChar.

// demoDigits makes the list that digit+ yields for a string of decimal digits starting at the given position.
func demoDigits(s string, pos int) comb.List {
	l := comb.List{}
	for i, c := range s {
		l = append(l, comb.Result{Val: int(c - '0'), Pos: pos + i})
	}
	return l
}

func TestRefactorDemo_toNum(t *testing.T) {
	tests := []struct {
		digits      string
		pos         int
		expectedNum int
		expectedOK  bool
	}{
		{"0", 0, 0, true},
		{"7", 3, 7, true},
		{"10", 1, 10, true},
		{"007", 2, 7, true},
		{"0000000000000000000000000", 2, 0, true},
		{"123456789", 5, 123456789, true},
		{"2147483647", 1, 2147483647, true},
		{"2147483648", 1, 2147483648, true},
		{"4294967296", 1, 4294967296, true},
		{"922337203685477580", 1, 922337203685477580, true},
		{"9223372036854775799", 1, 9223372036854775799, true},
		{"9223372036854775800", 1, 9223372036854775800, true},
		{"9223372036854775806", 1, math.MaxInt - 1, true},
		{"9223372036854775807", 1, math.MaxInt, true},
		{"0009223372036854775807", 1, math.MaxInt, true},
		{"9223372036854775808", 1, 0, false},
		{"9223372036854775809", 1, 0, false},
		{"9223372036854775810", 1, 0, false},
		{"9223372036854775817", 1, 0, false},
		{"9999999999999999999", 1, 0, false},
		{"10000000000000000000", 1, 0, false},
		{"18446744073709551615", 1, 0, false},
		{"18446744073709551616", 1, 0, false},
		{"18446744073709551617", 1, 0, false},
		{"92233720368547758070", 1, 0, false},
		{"99999999999999999999999999999999999999999", 1, 0, false},
	}

	for _, tc := range tests {
		t.Run(tc.digits, func(t *testing.T) {
			res, ok := toNum(comb.Result{Val: demoDigits(tc.digits, tc.pos), Pos: 99})

			assert.Equal(t, tc.expectedOK, ok)
			if tc.expectedOK {
				assert.Equal(t, comb.Result{Val: tc.expectedNum, Pos: tc.pos}, res)

				// Agreement with the standard library
				n, err := strconv.Atoi(tc.digits)
				assert.NoError(t, err)
				assert.Equal(t, n, res.Val)
			} else {
				assert.Equal(t, comb.Result{}, res)

				_, err := strconv.Atoi(tc.digits)
				assert.Error(t, err)
			}
		})
	}

	t.Run("StopsAtTheOverflow", func(t *testing.T) {
		// Nothing after the digit that overflows is looked at.
		l := demoDigits("99999999999999999999", 0)
		l = append(l, comb.Result{Val: "not a digit"})

		assert.NotPanics(t, func() {
			res, ok := toNum(comb.Result{Val: l})
			assert.False(t, ok)
			assert.Equal(t, comb.Result{}, res)
		})
	})

	t.Run("ThroughTheCombinator", func(t *testing.T) {
		p := New(new(mockMappers))

		out, ok := p.num(newStringInput("0042}"))
		assert.True(t, ok)
		assert.Equal(t, comb.Result{Val: 42, Pos: 0}, out.Result)

		out, ok = p.num(newStringInput("9223372036854775807,"))
		assert.True(t, ok)
		assert.Equal(t, comb.Result{Val: math.MaxInt, Pos: 0}, out.Result)

		_, ok = p.num(newStringInput("9223372036854775808,"))
		assert.False(t, ok)

		_, ok = p.num(newStringInput("x1"))
		assert.False(t, ok)
	})
}

func TestRefactorDemo_toUnicodeChar(t *testing.T) {
	none := comb.Result{} // an optional hex digit that is absent

	tests := []struct {
		name         string
		l            comb.List
		expectedRune rune
		expectedPos  int
	}{
		{
			name:         "FourDigits",
			l:            comb.List{{Val: `\x`, Pos: 4}, {Val: 0x0}, {Val: 0x0}, {Val: 0x4}, {Val: 0x1}, none, none, none, none},
			expectedRune: 'A', expectedPos: 4,
		},
		{
			name:         "FourDigitsOnly",
			l:            comb.List{{Val: `\x`, Pos: 1}, {Val: 0x0, Pos: 3}, {Val: 0x1, Pos: 4}, {Val: 0xA, Pos: 5}, {Val: 0x9, Pos: 6}},
			expectedRune: 'Ʃ', expectedPos: 1,
		},
		{
			name:         "FiveDigits",
			l:            comb.List{{Val: `\x`}, {Val: 0x1}, {Val: 0xF}, {Val: 0x6}, {Val: 0x0}, {Val: 0x0}, none, none, none},
			expectedRune: 0x1F600, expectedPos: 0,
		},
		{
			name:         "SixDigits",
			l:            comb.List{{Val: `\x`, Pos: 7}, {Val: 0x1}, {Val: 0x0}, {Val: 0xF}, {Val: 0xF}, {Val: 0xF}, {Val: 0xF}, none, none},
			expectedRune: 0x10FFFF, expectedPos: 7,
		},
		{
			name:         "SevenDigits",
			l:            comb.List{{Val: `\x`}, {Val: 0x1}, {Val: 0x2}, {Val: 0x3}, {Val: 0x4}, {Val: 0x5}, {Val: 0x6}, {Val: 0x7}, none},
			expectedRune: 0x1234567, expectedPos: 0,
		},
		{
			name:         "EightDigits",
			l:            comb.List{{Val: `\x`}, {Val: 0x7}, {Val: 0xF}, {Val: 0xF}, {Val: 0xF}, {Val: 0xF}, {Val: 0xF}, {Val: 0xF}, {Val: 0xF}},
			expectedRune: 0x7FFFFFFF, expectedPos: 0,
		},
		{
			name:         "EightDigitsSignBit",
			l:            comb.List{{Val: `\x`}, {Val: 0x8}, {Val: 0x0}, {Val: 0x0}, {Val: 0x0}, {Val: 0x0}, {Val: 0x0}, {Val: 0x0}, {Val: 0x0}},
			expectedRune: math.MinInt32, expectedPos: 0,
		},
		{
			name:         "AllOnes",
			l:            comb.List{{Val: `\x`, Pos: 2}, {Val: 0xF}, {Val: 0xF}, {Val: 0xF}, {Val: 0xF}, {Val: 0xF}, {Val: 0xF}, {Val: 0xF}, {Val: 0xF}},
			expectedRune: -1, expectedPos: 2,
		},
		{
			name:         "AllZeros",
			l:            comb.List{{Val: `\x`}, {Val: 0}, {Val: 0}, {Val: 0}, {Val: 0}, {Val: 0}, {Val: 0}, {Val: 0}, {Val: 0}},
			expectedRune: 0, expectedPos: 0,
		},
		{
			name:         "GapsAreSkipped",
			l:            comb.List{{Val: `\x`}, {Val: 0xA}, none, {Val: 0xB}, {Val: 'C'}, {Val: "D"}, {Val: 0xE}},
			expectedRune: 0xABE, expectedPos: 0,
		},
		{
			name:         "PrefixOnly",
			l:            comb.List{{Val: `\x`, Pos: 9}},
			expectedRune: 0, expectedPos: 9,
		},
		{
			name:         "PrefixIsNeverADigit",
			l:            comb.List{{Val: 0xF, Pos: 6}, {Val: 0x1}},
			expectedRune: 1, expectedPos: 6,
		},
	}

	for _, tc := range tests {
		t.Run(tc.name, func(t *testing.T) {
			res, ok := toUnicodeChar(comb.Result{Val: tc.l, Pos: 77})

			assert.True(t, ok)
			assert.Equal(t, comb.Result{Val: tc.expectedRune, Pos: tc.expectedPos}, res)
		})
	}

	t.Run("ThroughTheCombinator", func(t *testing.T) {
		p := New(new(mockMappers))

		for regex, expected := range map[string]rune{
			`\x0041`:      'A',
			`\x00410`:     0x410,
			`\x01F600`:    0x1F600,
			`\x0010FFFF`:  0x10FFFF,
			`\xFFFFFFFF`:  -1,
			`\x80000000`:  math.MinInt32,
			`\x0041G`:     'A',
			`\x004100000`: 0x410000,
		} {
			out, ok := p.unicodeChar(newStringInput(regex))
			assert.True(t, ok, regex)
			assert.Equal(t, comb.Result{Val: expected, Pos: 0}, out.Result, regex)
		}

		for _, regex := range []string{`\x004`, `\x`, `\x00g1`, `x0041`, `\X0041`} {
			_, ok := p.unicodeChar(newStringInput(regex))
			assert.False(t, ok, regex)
		}
	})
}
