package spec

import (
	"fmt"
	"sort"
	"strings"
	"testing"

	"github.com/moorara/algo/grammar"
)

// This file characterizes how names are generated for the extended EBNF operators
// and which plain productions Parse derives from a specification.
// It pins down concrete results, so it passes before and after the clean-up of symbol_table.go.

func demoStr(symbols ...grammar.Symbol) grammar.String[grammar.Symbol] {
	return grammar.String[grammar.Symbol](symbols)
}

func demoProductions(t *testing.T, src string) []string {
	t.Helper()

	s, err := Parse("demo.grammar", strings.NewReader(src))
	if err != nil {
		t.Fatalf("unexpected error: %s", err)
	}

	var lines []string
	for p := range s.Grammar.Productions.All() {
		parts := []string{string(p.Head), "→"}
		if len(p.Body) == 0 {
			parts = append(parts, "ε")
		}

		for _, x := range p.Body {
			if x.IsTerminal() {
				parts = append(parts, fmt.Sprintf("%q", x.Name()))
			} else {
				parts = append(parts, x.Name())
			}
		}

		lines = append(lines, strings.Join(parts, " "))
	}

	sort.Strings(lines)

	return lines
}

func TestRefactorDemo_GeneratedNames(t *testing.T) {
	type call struct {
		op       string
		s        Strings
		expected grammar.NonTerminal
	}

	T := func(s string) grammar.Symbol { return grammar.Terminal(s) }
	N := func(s string) grammar.Symbol { return grammar.NonTerminal(s) }

	// The calls are made in order against one symbol table, since the numbering is stateful.
	calls := []call{
		// A single non-terminal lends its name to every operator.
		{"opt", Strings{demoStr(N("decl"))}, "gen_decl_opt"},
		{"group", Strings{demoStr(N("decl"))}, "gen_decl_group"},
		{"star", Strings{demoStr(N("decl"))}, "gen_decl_star"},
		{"plus", Strings{demoStr(N("decl"))}, "gen_decl_plus"},
		// Asking again gives the same names and consumes no number.
		{"plus", Strings{demoStr(N("decl"))}, "gen_decl_plus"},
		{"opt", Strings{demoStr(N("decl"))}, "gen_decl_opt"},
		// A single well-known terminal is spelled out.
		{"star", Strings{demoStr(T(";"))}, "gen_semi_star"},
		{"opt", Strings{demoStr(T("{"))}, "gen_rbrace_opt"},
		{"plus", Strings{demoStr(T("}"))}, "gen_lbrace_plus"},
		{"group", Strings{demoStr(T("\t"))}, "gen_tab_group"},
		{"opt", Strings{demoStr(T("\\"))}, "gen_backslash_opt"},
		// Anything else is numbered; the number is shared by all operators.
		{"opt", Strings{demoStr(T("="), N("expr"))}, "gen1_opt"},
		{"group", Strings{demoStr(T("+")), demoStr(T("-"))}, "gen2_group"},
		{"star", Strings{demoStr(T("ID"))}, "gen3_star"},
		{"plus", Strings{demoStr(T("=="))}, "gen4_plus"},
		// The same strings under another operator get the next number, an old operator keeps its name.
		{"star", Strings{demoStr(T("="), N("expr"))}, "gen5_star"},
		{"opt", Strings{demoStr(T("="), N("expr"))}, "gen1_opt"},
		{"plus", Strings{demoStr(T("="), N("expr"))}, "gen6_plus"},
		{"group", Strings{demoStr(T("="), N("expr"))}, "gen7_group"},
		{"star", Strings{demoStr(T("="), N("expr"))}, "gen5_star"},
		// Alternatives are looked up regardless of their order; a repeated alternative makes a new entry.
		{"group", Strings{demoStr(T("-")), demoStr(T("+"))}, "gen2_group"},
		{"group", Strings{demoStr(T("-")), demoStr(T("+")), demoStr(T("-"))}, "gen8_group"},
		{"opt", Strings{demoStr(T("-")), demoStr(T("+"))}, "gen9_opt"},
		// An empty alternative makes a different set.
		{"group", Strings{demoStr(T("+")), demoStr(T("-")), grammar.E}, "gen10_group"},
		{"opt", Strings{grammar.E}, "gen11_opt"},
		{"star", Strings{demoStr(N("decl")), grammar.E}, "gen12_star"},
		// A terminal and a non-terminal with the same spelling are different symbols.
		{"star", Strings{demoStr(N("ID"))}, "gen_ID_star"},
		{"star", Strings{demoStr(T("ID"))}, "gen3_star"},
		{"opt", Strings{demoStr(T("decl"))}, "gen13_opt"},
		{"opt", Strings{demoStr(N("decl"))}, "gen_decl_opt"},
		// A generated name can be the operand of another operator.
		{"opt", Strings{demoStr(N("gen_decl_star"))}, "gen_gen_decl_star_opt"},
		{"plus", Strings{demoStr(N("gen1_opt"))}, "gen_gen1_opt_plus"},
		{"plus", Strings{demoStr(N("gen1_opt"), N("gen1_opt"))}, "gen14_plus"},
	}

	get := func(st *SymbolTable, op string, s Strings) grammar.NonTerminal {
		switch op {
		case "opt":
			return st.GetOpt(s)
		case "group":
			return st.GetGroup(s)
		case "star":
			return st.GetStar(s)
		default:
			return st.GetPlus(s)
		}
	}

	st := NewSymbolTable()
	for i, c := range calls {
		if got := get(st, c.op, c.s); got != c.expected {
			t.Errorf("call %d (%s): expected %q, got %q", i, c.op, c.expected, got)
		}
	}

	if n := st.strings.table.Size(); n != 19 {
		t.Errorf("expected 19 distinct lists of strings, got %d", n)
	}

	// Every terminal with a well-known name yields that name under every operator.
	for a, name := range terminalNames {
		st := NewSymbolTable()
		for _, op := range []string{"group", "opt", "star", "plus"} {
			expected := grammar.NonTerminal("gen_" + name + "_" + op)
			if got := get(st, op, Strings{demoStr(a)}); got != expected {
				t.Errorf("terminal %q (%s): expected %q, got %q", a, op, expected, got)
			}
		}
	}

	// Reset empties the table but the numbering goes on.
	st.Reset()
	if got := st.GetOpt(Strings{demoStr(T("="), N("expr"))}); got != "gen15_opt" {
		t.Errorf("after reset: expected %q, got %q", "gen15_opt", got)
	}
}

func TestRefactorDemo_Productions(t *testing.T) {
	tests := []struct {
		name     string
		src      string
		expected []string
	}{
		{
			name: "EveryOperatorOnTheSameOperand",
			src:  `grammar demo; start = [x] (x) {x} {{x}}; x = "a";`,
			expected: []string{
				`gen_x_group → x`,
				`gen_x_opt → x`,
				`gen_x_opt → ε`,
				`gen_x_plus → gen_x_plus x`,
				`gen_x_plus → x`,
				`gen_x_star → gen_x_star x`,
				`gen_x_star → ε`,
				`start → gen_x_opt gen_x_group gen_x_star gen_x_plus`,
				`x → "a"`,
			},
		},
		{
			name: "RepeatedSubExpressionIsShared",
			src:  `grammar demo; start = {"a" "b"} "c" {"a" "b"} | ["a" "b"];`,
			expected: []string{
				`gen1_star → gen1_star "a" "b"`,
				`gen1_star → ε`,
				`gen2_opt → "a" "b"`,
				`gen2_opt → ε`,
				`start → gen1_star "c" gen1_star`,
				`start → gen2_opt`,
			},
		},
		{
			name: "NestedOperators",
			src:  `grammar demo; start = {{ ["a"] ("b" | "c" | ) }} {[{"d"}]};`,
			expected: []string{
				`gen1_opt → "a"`,
				`gen1_opt → ε`,
				`gen2_group → "b"`,
				`gen2_group → "c"`,
				`gen2_group → ε`,
				`gen3_plus → gen1_opt gen2_group`,
				`gen3_plus → gen3_plus gen1_opt gen2_group`,
				`gen4_star → gen4_star "d"`,
				`gen4_star → ε`,
				`gen_gen4_star_opt → gen4_star`,
				`gen_gen4_star_opt → ε`,
				`gen_gen_gen4_star_opt_star → gen_gen_gen4_star_opt_star gen_gen4_star_opt`,
				`gen_gen_gen4_star_opt_star → ε`,
				`start → gen3_plus gen_gen_gen4_star_opt_star`,
			},
		},
		{
			name: "AlternationInsideRepetition",
			src:  `grammar demo; start = {"a" | b "c"} {{b | "a"}}; b = ";" [";"] | ;`,
			expected: []string{
				`b → ";" gen_semi_opt`,
				`b → ε`,
				`gen1_star → gen1_star "a"`,
				`gen1_star → gen1_star b "c"`,
				`gen1_star → ε`,
				`gen2_plus → "a"`,
				`gen2_plus → b`,
				`gen2_plus → gen2_plus "a"`,
				`gen2_plus → gen2_plus b`,
				`gen_semi_opt → ";"`,
				`gen_semi_opt → ε`,
				`start → gen1_star gen2_plus`,
			},
		},
		{
			name: "SameSetInAnotherOrder",
			src:  `grammar demo; start = ("a" | "b") ("b" | "a") {"b" | "a"} ["a" | "b" | ];`,
			expected: []string{
				`gen1_group → "a"`,
				`gen1_group → "b"`,
				`gen2_star → gen2_star "a"`,
				`gen2_star → gen2_star "b"`,
				`gen2_star → ε`,
				`gen3_opt → "a"`,
				`gen3_opt → "b"`,
				`gen3_opt → ε`,
				`start → gen1_group gen1_group gen2_star gen3_opt`,
			},
		},
		{
			name: "TokensAndConcatenationOfAlternatives",
			src:  `grammar demo; NUM = /[0-9]+/ start = ("+" | "-" | ) NUM {"," NUM} [NUM];`,
			expected: []string{
				`gen1_group → "+"`,
				`gen1_group → "-"`,
				`gen1_group → ε`,
				`gen2_star → gen2_star "," "NUM"`,
				`gen2_star → ε`,
				`gen3_opt → "NUM"`,
				`gen3_opt → ε`,
				`start → gen1_group "NUM" gen2_star gen3_opt`,
			},
		},
	}

	for _, tc := range tests {
		t.Run(tc.name, func(t *testing.T) {
			got := demoProductions(t, tc.src)
			if strings.Join(got, "\n") != strings.Join(tc.expected, "\n") {
				t.Errorf("productions differ\nexpected:\n  %s\ngot:\n  %s",
					strings.Join(tc.expected, "\n  "), strings.Join(got, "\n  "))
			}
		})
	}
}
