package spec

import (
	"fmt"
	"os"
	"strings"
	"testing"

	"github.com/moorara/algo/grammar"
	"github.com/moorara/algo/lexer"
)

// This file characterizes the bookkeeping of terminals in the symbol table and the diagnostics derived from it.
// Every expectation is a concrete value, which holds before and after the clean-up of symbol_table.go.

func demoPos(line, col int) *lexer.Position {
	return &lexer.Position{Filename: "demo", Offset: 100*line + col, Line: line, Column: col}
}

// demoEntry renders a terminal entry: index, definitions and occurrences.
func demoEntry(st *SymbolTable, a grammar.Terminal) string {
	e, ok := st.terminals.table.Get(a)
	if !ok {
		return "absent"
	}

	if e.definitions == nil || e.occurrences == nil {
		return "nil slice"
	}

	var defs, occs []string
	for _, d := range e.definitions {
		kind := "str"
		if d.IsRegex {
			kind = "re"
		}

		pos := "-"
		if d.Pos != nil {
			pos = fmt.Sprintf("%d:%d", d.Pos.Line, d.Pos.Column)
		}

		defs = append(defs, fmt.Sprintf("%s=%s(%q)@%s", string(d.Terminal), kind, d.Value, pos))
	}

	for _, p := range e.occurrences {
		occs = append(occs, fmt.Sprintf("%d:%d", p.Line, p.Column))
	}

	return fmt.Sprintf("#%d defs[%s] occs[%s]", e.index, strings.Join(defs, " "), strings.Join(occs, " "))
}

func demoDefs(defs []*TerminalDef) string {
	var all []string
	for _, d := range defs {
		kind := "str"
		if d.IsRegex {
			kind = "re"
		}

		all = append(all, fmt.Sprintf("%s=%s(%q)", string(d.Terminal), kind, d.Value))
	}

	return strings.Join(all, " ")
}

func demoErr(err error) string {
	if err == nil {
		return "<nil>"
	}

	return err.Error()
}

func TestRefactorDemo_Entries(t *testing.T) {
	st := NewSymbolTable()

	steps := []struct {
		name     string
		do       func()
		terminal grammar.Terminal
		expected string
	}{
		{
			name:     "StringTerminalFirstSeen",
			do:       func() { st.AddStringTerminal(";", demoPos(1, 1)) },
			terminal: ";",
			expected: `#1 defs[;=str(";")@-] occs[1:1]`,
		},
		{
			name:     "StringTerminalSeenAgain",
			do:       func() { st.AddStringTerminal(";", demoPos(1, 9)) },
			terminal: ";",
			expected: `#1 defs[;=str(";")@-] occs[1:1 1:9]`,
		},
		{
			name:     "TokenTerminalFirstSeen",
			do:       func() { st.AddTokenTerminal("ID", demoPos(2, 1)) },
			terminal: "ID",
			expected: `#2 defs[] occs[2:1]`,
		},
		{
			name:     "TokenTerminalSeenAgain",
			do:       func() { st.AddTokenTerminal("ID", demoPos(2, 7)) },
			terminal: "ID",
			expected: `#2 defs[] occs[2:1 2:7]`,
		},
		{
			name:     "RegexDefAfterUse",
			do:       func() { st.AddRegexTokenDef("ID", "[a-z]+", demoPos(3, 1)) },
			terminal: "ID",
			expected: `#2 defs[ID=re("[a-z]+")@3:1] occs[2:1 2:7]`,
		},
		{
			name:     "StringDefBeforeUse",
			do:       func() { st.AddStringTokenDef("SEMI", ";", demoPos(4, 1)) },
			terminal: "SEMI",
			expected: `#3 defs[SEMI=str(";")@4:1] occs[]`,
		},
		{
			name:     "TokenUseAfterDef",
			do:       func() { st.AddTokenTerminal("SEMI", demoPos(5, 3)) },
			terminal: "SEMI",
			expected: `#3 defs[SEMI=str(";")@4:1] occs[5:3]`,
		},
		{
			name:     "SecondDefSameToken",
			do:       func() { st.AddRegexTokenDef("SEMI", ";+", demoPos(6, 1)) },
			terminal: "SEMI",
			expected: `#3 defs[SEMI=str(";")@4:1 SEMI=re(";+")@6:1] occs[5:3]`,
		},
		{
			name:     "TokenDefThenSameNameAsString",
			do:       func() { st.AddStringTokenDef("IF", "if", demoPos(7, 1)); st.AddStringTerminal("IF", demoPos(7, 20)) },
			terminal: "IF",
			expected: `#4 defs[IF=str("if")@7:1] occs[7:20]`,
		},
		{
			name:     "StringThenTokenDefOfSameName",
			do:       func() { st.AddStringTerminal("OR", demoPos(8, 5)); st.AddStringTokenDef("OR", "||", demoPos(9, 1)) },
			terminal: "OR",
			expected: `#5 defs[OR=str("OR")@- OR=str("||")@9:1] occs[8:5]`,
		},
		{
			name:     "RegexDefOnly",
			do:       func() { st.AddRegexTokenDef("NUM", "[0-9]+", demoPos(10, 1)) },
			terminal: "NUM",
			expected: `#6 defs[NUM=re("[0-9]+")@10:1] occs[]`,
		},
		{
			name:     "Unknown",
			do:       func() {},
			terminal: "NOPE",
			expected: `absent`,
		},
	}

	for _, s := range steps {
		s.do()
		if got := demoEntry(st, s.terminal); got != s.expected {
			t.Errorf("%s:\n got: %s\nwant: %s", s.name, got, s.expected)
		}
	}

	if st.terminals.counter != 6 {
		t.Errorf("counter: got %d, want 6", st.terminals.counter)
	}

	// SEMI and OR have two definitions each, so they are excluded.
	if got, want := demoDefs(st.Definitions()), `;=str(";") IF=str("if") ID=re("[a-z]+") NUM=re("[0-9]+")`; got != want {
		t.Errorf("Definitions:\n got: %s\nwant: %s", got, want)
	}

	wantErr := "3 errors occurred:\n\n" +
		"  • multiple definitions for terminal \"OR\":\n      <nil>\n      demo:9:1\n" +
		"  • multiple definitions for terminal \"SEMI\":\n      demo:4:1\n      demo:6:1\n" +
		"  • missing production rule with the start symbol: start\n"
	if got := demoErr(st.Verify()); got != wantErr {
		t.Errorf("Verify:\n got: %q\nwant: %q", got, wantErr)
	}
}

func TestRefactorDemo_Verify(t *testing.T) {
	startRule := func(st *SymbolTable) {
		st.AddNonTerminal("start", demoPos(1, 1))
		st.AddProduction(&grammar.Production{Head: "start", Body: grammar.E}, demoPos(1, 1))
	}

	tests := []struct {
		name     string
		build    func(st *SymbolTable)
		expected string
	}{
		{
			name:     "Empty",
			build:    func(st *SymbolTable) {},
			expected: "1 error occurred:\n\n  • missing production rule with the start symbol: start\n",
		},
		{
			name:     "OnlyStart",
			build:    startRule,
			expected: "<nil>",
		},
		{
			name: "WellFormed",
			build: func(st *SymbolTable) {
				startRule(st)
				st.AddStringTokenDef("SEMI", ";", demoPos(2, 1))
				st.AddRegexTokenDef("ID", "[a-z]+", demoPos(3, 1))
				st.AddTokenTerminal("ID", demoPos(4, 1))
				st.AddTokenTerminal("SEMI", demoPos(4, 4))
				st.AddStringTerminal("=", demoPos(4, 8))
			},
			expected: "<nil>",
		},
		{
			name: "UndefinedTokens",
			build: func(st *SymbolTable) {
				startRule(st)
				st.AddTokenTerminal("NUM", demoPos(2, 1))
				st.AddTokenTerminal("ID", demoPos(2, 5))
				st.AddTokenTerminal("NUM", demoPos(2, 9))
			},
			expected: "2 errors occurred:\n\n  • no definition for terminal \"ID\"\n  • no definition for terminal \"NUM\"\n",
		},
		{
			name: "TripleDefinition",
			build: func(st *SymbolTable) {
				startRule(st)
				st.AddStringTokenDef("A", "a", demoPos(2, 1))
				st.AddRegexTokenDef("A", "a+", demoPos(3, 1))
				st.AddStringTokenDef("A", "aa", demoPos(4, 1))
			},
			expected: "1 error occurred:\n\n  • multiple definitions for terminal \"A\":\n      demo:2:1\n      demo:3:1\n      demo:4:1\n",
		},
		{
			name: "SameValueTokenAndLiteral",
			build: func(st *SymbolTable) {
				startRule(st)
				st.AddStringTokenDef("SEMI", ";", demoPos(2, 1))
				st.AddStringTerminal(";", demoPos(3, 7))
				st.AddStringTokenDef("SC", ";", demoPos(4, 1))
			},
			expected: "1 error occurred:\n\n  • multiple definitions with the same value: \";\"\n      <nil>: \";\"\n      demo:4:1: \"SC\"\n      demo:2:1: \"SEMI\"\n",
		},
		{
			name: "SameValueTwoGroups",
			build: func(st *SymbolTable) {
				startRule(st)
				st.AddRegexTokenDef("Z", "x+", demoPos(2, 1))
				st.AddRegexTokenDef("Y", "x+", demoPos(3, 1))
				st.AddStringTokenDef("B", "b", demoPos(4, 1))
				st.AddStringTokenDef("C", "b", demoPos(5, 1))
				st.AddStringTokenDef("D", "d", demoPos(6, 1))
			},
			expected: "2 errors occurred:\n\n" +
				"  • multiple definitions with the same value: \"b\"\n      demo:4:1: \"B\"\n      demo:5:1: \"C\"\n" +
				"  • multiple definitions with the same value: \"x+\"\n      demo:3:1: \"Y\"\n      demo:2:1: \"Z\"\n",
		},
		{
			name: "DuplicatedTokenDoesNotCountAsSameValue",
			build: func(st *SymbolTable) {
				startRule(st)
				st.AddStringTokenDef("A", "a", demoPos(2, 1))
				st.AddStringTokenDef("A", "b", demoPos(3, 1))
				st.AddStringTokenDef("B", "b", demoPos(4, 1))
			},
			expected: "1 error occurred:\n\n  • multiple definitions for terminal \"A\":\n      demo:2:1\n      demo:3:1\n",
		},
		{
			name: "Everything",
			build: func(st *SymbolTable) {
				st.AddTokenTerminal("U", demoPos(1, 1))
				st.AddStringTokenDef("A", "a", demoPos(2, 1))
				st.AddStringTokenDef("A", "a", demoPos(3, 1))
				st.AddStringTokenDef("P", "p", demoPos(4, 1))
				st.AddStringTerminal("p", demoPos(5, 1))
			},
			expected: "4 errors occurred:\n\n" +
				"  • multiple definitions for terminal \"A\":\n      demo:2:1\n      demo:3:1\n" +
				"  • no definition for terminal \"U\"\n" +
				"  • multiple definitions with the same value: \"p\"\n      demo:4:1: \"P\"\n      <nil>: \"p\"\n" +
				"  • missing production rule with the start symbol: start\n",
		},
	}

	for _, tc := range tests {
		t.Run(tc.name, func(t *testing.T) {
			st := NewSymbolTable()
			tc.build(st)

			if got := demoErr(st.Verify()); got != tc.expected {
				t.Errorf("\n got: %q\nwant: %q", got, tc.expected)
			}
		})
	}
}

func TestRefactorDemo_Parse(t *testing.T) {
	tests := []struct {
		name         string
		src          string
		expectedDefs string
		expectedErr  string
	}{
		{
			name:         "Accepted",
			src:          "grammar g;\nSEMI = \";\"\nID = $ID\nNUM = /[0-9]+/\nstart = ID \"=\" NUM SEMI | \"if\" ID;\n",
			expectedDefs: `==str("=") if=str("if") SEMI=str(";") ID=re("[A-Za-z_][0-9A-Za-z_]*") NUM=re("[0-9]+")`,
		},
		{
			name:         "AcceptedAllPredefs",
			src:          "grammar g;\nTA = $WS\nTB = $DIGIT\nTC = $LETTER\nTD = $ID\nTE = $NUMBER\nTF = $STRING\nTG = $COMMENT\nstart = TA TB TC TD TE TF TG;\n",
			expectedDefs: `TA=re("[\\x09\\x0A\\x0D\\x20]") TB=re("[0-9]") TC=re("[A-Za-z]") TD=re("[A-Za-z_][0-9A-Za-z_]*") TE=re("-?[0-9]+(\\.[0-9]+)?") TF=re("\"([\\x21\\x23-\\x5B\\x5D-\\x7E]|\\\\[\\x21-\\x7E])+\"") TG=re("(#|//)[\\x09\\x20-\\x7E]*|/\\*[\\x09\\x0A\\x0D\\x20-\\x7E]*?\\*/")`,
		},
		{
			name:         "AcceptedUnusedToken",
			src:          "grammar g;\nWS = $WS\nstart = \"a\" \"a\" | ;\n",
			expectedDefs: `a=str("a") WS=re("[\\x09\\x0A\\x0D\\x20]")`,
		},
		{
			name:        "UndefinedToken",
			src:         "grammar g;\nstart = ID \";\" ID;\n",
			expectedErr: "1 error occurred:\n\n  • no definition for terminal \"ID\"\n",
		},
		{
			name:        "DuplicateToken",
			src:         "grammar g;\nID = $ID\nID = /[a-z]+/\nstart = ID;\n",
			expectedErr: "1 error occurred:\n\n  • multiple definitions for terminal \"ID\":\n      demo:2:1\n      demo:3:1\n",
		},
		{
			name:        "SameValue",
			src:         "grammar g;\nSEMI = \";\"\nSC = \";\"\nstart = SEMI SC;\n",
			expectedErr: "1 error occurred:\n\n  • multiple definitions with the same value: \";\"\n      demo:3:1: \"SC\"\n      demo:2:1: \"SEMI\"\n",
		},
		{
			name:        "SameValueLiteral",
			src:         "grammar g;\nSEMI = \";\"\nstart = SEMI \";\";\n",
			expectedErr: "1 error occurred:\n\n  • multiple definitions with the same value: \";\"\n      <nil>: \";\"\n      demo:2:1: \"SEMI\"\n",
		},
		{
			name:        "UnknownPredef",
			src:         "grammar g;\nID = $IDN\nstart = ID;\n",
			expectedErr: "2 errors occurred:\n\n  • invalid predefined regex: $IDN\n  • no definition for terminal \"ID\"\n",
		},
		{
			name:        "NoStart",
			src:         "grammar g;\nID = $ID\nprogram = ID;\n",
			expectedErr: "1 error occurred:\n\n  • missing production rule with the start symbol: start\n",
		},
		{
			name:        "Several",
			src:         "grammar g;\nAA = \"x\"\nAA = \"y\"\nBB = \"z\"\nCC = \"z\"\nprogram = AA BB CC DD;\n",
			expectedErr: "4 errors occurred:\n\n  • multiple definitions for terminal \"AA\":\n      demo:2:1\n      demo:3:1\n  • no definition for terminal \"DD\"\n  • multiple definitions with the same value: \"z\"\n      demo:4:1: \"BB\"\n      demo:5:1: \"CC\"\n  • missing production rule with the start symbol: start\n",
		},
	}

	for _, tc := range tests {
		t.Run(tc.name, func(t *testing.T) {
			s, err := Parse("demo", strings.NewReader(tc.src))

			if got := demoErr(err); tc.expectedErr != "" && got != tc.expectedErr {
				t.Errorf("error:\n got: %q\nwant: %q", got, tc.expectedErr)
			}

			if tc.expectedErr == "" {
				if err != nil {
					t.Fatalf("unexpected error: %s", err)
				}

				if got := demoDefs(s.Definitions); got != tc.expectedDefs {
					t.Errorf("definitions:\n got: %s\nwant: %s", got, tc.expectedDefs)
				}

				// Every terminal of the grammar has exactly one definition.
				count := map[grammar.Terminal]int{}
				for _, d := range s.Definitions {
					count[d.Terminal]++
				}

				for a := range s.Grammar.Terminals.All() {
					if count[a] != 1 {
						t.Errorf("terminal %s has %d definitions", a, count[a])
					}
				}
			} else if s != nil {
				t.Errorf("expected no spec")
			}
		})
	}
}

func TestRefactorDemo_Fixtures(t *testing.T) {
	tests := []struct {
		filename string
		defs     int
	}{
		{"../../fixture/test.success.grammar", 28},
		{"../../fixture/ebnf.grammar", -1},
		{"../../fixture/pascal.grammar", -1},
		{"../../fixture/please.grammar", -1},
	}

	for _, tc := range tests {
		f, err := os.Open(tc.filename)
		if err != nil {
			t.Fatal(err)
		}

		s, err := Parse(tc.filename, f)
		f.Close()

		if err != nil {
			t.Errorf("%s: %s", tc.filename, err)
			continue
		}

		if tc.defs >= 0 && len(s.Definitions) != tc.defs {
			t.Errorf("%s: got %d definitions, want %d", tc.filename, len(s.Definitions), tc.defs)
		}

		if len(s.Definitions) != s.Grammar.Terminals.Size() {
			t.Errorf("%s: %d definitions for %d terminals", tc.filename, len(s.Definitions), s.Grammar.Terminals.Size())
		}
	}
}
