package spec

import (
	"fmt"
	"sort"
	"strings"
	"testing"

	"github.com/moorara/algo/errors"
	"github.com/moorara/algo/grammar"
	"github.com/moorara/algo/lexer"
	"github.com/moorara/algo/parser/lr"
)

// demoDescribe renders everything observable about the outcome of Parse as text.
func demoDescribe(s *Spec, err error) string {
	var b strings.Builder

	if err != nil {
		_, isMulti := err.(*errors.MultiError)
		fmt.Fprintf(&b, "spec-nil=%t multi=%t\n%s", s == nil, isMulti, err.Error())
		return b.String()
	}

	fmt.Fprintf(&b, "name=%s\n", s.Name)

	for _, d := range s.Definitions {
		pos := "-"
		if d.Pos != nil {
			pos = fmt.Sprintf("%d:%d", d.Pos.Line, d.Pos.Column)
		}

		fmt.Fprintf(&b, "def %q value=%q regex=%t pos=%s\n", string(d.Terminal), d.Value, d.IsRegex, pos)
	}

	var terms []string
	for a := range s.Grammar.Terminals.All() {
		terms = append(terms, fmt.Sprintf("%q", string(a)))
	}
	sort.Strings(terms)
	fmt.Fprintf(&b, "terminals %s\n", strings.Join(terms, " "))

	var prods []string
	for p := range s.Grammar.Productions.All() {
		prods = append(prods, p.String())
	}
	sort.Strings(prods)
	fmt.Fprintf(&b, "productions %s\n", strings.Join(prods, " ; "))
	fmt.Fprintf(&b, "start %s\n", s.Grammar.Start)

	for i, l := range s.Precedences {
		var hs []string
		for h := range l.Handles.All() {
			hs = append(hs, h.String())
		}
		sort.Strings(hs)
		fmt.Fprintf(&b, "level %d %s %s\n", i, l.Associativity, strings.Join(hs, " , "))
	}

	return b.String()
}

func TestRefactorDemo_Parse(t *testing.T) {
	tests := []struct {
		name     string
		src      string
		expected string
	}{
		{
			name: "OK_NoPrecedences",
			src:  "grammar g;\nstart = \"a\" start | ;\n",
			expected: "name=g\n" +
				"def \"a\" value=\"a\" regex=false pos=-\n" +
				"terminals \"a\"\n" +
				"productions start → \"a\" start ; start → ε\n" +
				"start start\n",
		},
		{
			name: "OK_AllDefinitionKinds",
			src: "grammar k;\nSEMI = \";\"\nID = $ID\nNUM = /[0-9]+/\n" +
				"start = ID \"=\" NUM SEMI;\n",
			expected: "name=k\n" +
				"def \"=\" value=\"=\" regex=false pos=-\n" +
				"def \"SEMI\" value=\";\" regex=false pos=2:1\n" +
				"def \"ID\" value=\"[A-Za-z_][0-9A-Za-z_]*\" regex=true pos=3:1\n" +
				"def \"NUM\" value=\"[0-9]+\" regex=true pos=4:1\n" +
				"terminals \"=\" \"ID\" \"NUM\" \"SEMI\"\n" +
				"productions start → \"ID\" \"=\" \"NUM\" \"SEMI\"\n" +
				"start start\n",
		},
		{
			name: "OK_ThreeLevelsInDeclarationOrder",
			src: "grammar p;\nNUM = $NUMBER\n" +
				"@right \"^\"\n@left \"*\" \"/\"\n@none <start = \"-\" start>\n@left \"+\"\n" +
				"start = start \"+\" start | start \"*\" start | start \"/\" start | start \"^\" start | \"-\" start | NUM;\n",
			expected: "name=p\ndef \"*\" value=\"*\" regex=false pos=-\ndef \"+\" value=\"+\" regex=false pos=-\ndef \"-\" value=\"-\" regex=false pos=-\ndef \"/\" value=\"/\" regex=false pos=-\ndef \"^\" value=\"^\" regex=false pos=-\ndef \"NUM\" value=\"-?[0-9]+(\\\\.[0-9]+)?\" regex=true pos=2:1\nterminals \"*\" \"+\" \"-\" \"/\" \"NUM\" \"^\"\nproductions start → \"-\" start ; start → \"NUM\" ; start → start \"*\" start ; start → start \"+\" start ; start → start \"/\" start ; start → start \"^\" start\nstart start\nlevel 0 RIGHT \"^\"\nlevel 1 LEFT \"*\" , \"/\"\nlevel 2 NONE start = \"-\" start\nlevel 3 LEFT \"+\"\n",
		},
		{
			name: "OK_SameAssociativityTwice",
			src: "grammar q;\n@left \"a\"\n@left \"b\"\n" +
				"start = start \"a\" start | start \"b\" start | \"c\";\n",
			expected: "name=q\ndef \"a\" value=\"a\" regex=false pos=-\ndef \"b\" value=\"b\" regex=false pos=-\ndef \"c\" value=\"c\" regex=false pos=-\nterminals \"a\" \"b\" \"c\"\nproductions start → \"c\" ; start → start \"a\" start ; start → start \"b\" start\nstart start\nlevel 0 LEFT \"a\"\nlevel 1 LEFT \"b\"\n",
		},
		{
			name:     "Err_NoStart",
			src:      "grammar g;\nexpr = \"a\";\n",
			expected: "spec-nil=true multi=false\n1 error occurred:\n\n  • missing production rule with the start symbol: start\n",
		},
		{
			name:     "Err_EmptyGrammar",
			src:      "grammar g;\n",
			expected: "spec-nil=true multi=false\n1 error occurred:\n\n  • missing production rule with the start symbol: start\n",
		},
		{
			name:     "Err_UndefinedToken",
			src:      "grammar g;\nstart = ID;\n",
			expected: "spec-nil=true multi=false\n1 error occurred:\n\n  • no definition for terminal \"ID\"\n",
		},
		{
			name:     "Err_TokenDefinedTwice",
			src:      "grammar g;\nID = $ID\nID = /[a-z]+/\nstart = ID;\n",
			expected: "spec-nil=true multi=false\n1 error occurred:\n\n  • multiple definitions for terminal \"ID\":\n      demo:2:1\n      demo:3:1\n",
		},
		{
			name:     "Err_TokenDefinedThreeTimesUnused",
			src:      "grammar g;\nXX = \"x\"\nXX = \"y\"\nXX = $DIGIT\nstart = \"s\";\n",
			expected: "spec-nil=true multi=false\n1 error occurred:\n\n  • multiple definitions for terminal \"XX\":\n      demo:2:1\n      demo:3:1\n      demo:4:1\n",
		},
		{
			name:     "Err_SameValueNamedAndLiteral",
			src:      "grammar g;\nSEMI = \";\"\nstart = \";\" SEMI;\n",
			expected: "spec-nil=true multi=false\n1 error occurred:\n\n  • multiple definitions with the same value: \";\"\n      <nil>: \";\"\n      demo:2:1: \"SEMI\"\n",
		},
		{
			name:     "Err_SameValueTwoNamed",
			src:      "grammar g;\nAA = /x+/\nBB = /x+/\nstart = AA BB;\n",
			expected: "spec-nil=true multi=false\n1 error occurred:\n\n  • multiple definitions with the same value: \"x+\"\n      demo:2:1: \"AA\"\n      demo:3:1: \"BB\"\n",
		},
		{
			name:     "Err_UnknownPredef",
			src:      "grammar g;\nID = $NOPE\nstart = \"a\";\n",
			expected: "spec-nil=true multi=false\n1 error occurred:\n\n  • invalid predefined regex: $NOPE\n",
		},
		{
			name:     "Err_UnknownPredefThenUndefined",
			src:      "grammar g;\nID = $NOPE\nstart = ID;\n",
			expected: "spec-nil=true multi=false\n2 errors occurred:\n\n  • invalid predefined regex: $NOPE\n  • no definition for terminal \"ID\"\n",
		},
		{
			name:     "Err_TwoUnknownPredefsAndNoStart",
			src:      "grammar g;\nAA = $NOPE\nBB = $NADA\nrule = AA BB;\n",
			expected: "spec-nil=true multi=false\n5 errors occurred:\n\n  • invalid predefined regex: $NOPE\n  • invalid predefined regex: $NADA\n  • no definition for terminal \"AA\"\n  • no definition for terminal \"BB\"\n  • missing production rule with the start symbol: start\n",
		},
		{
			name:     "Err_NonTerminalWithoutProduction",
			src:      "grammar g;\nstart = \"a\" other;\n",
			expected: "spec-nil=true multi=false\n1 error occurred:\n\n  • no production rule for non-terminal symbol other\n",
		},
		{
			name:     "Err_HandleInTwoLevels",
			src:      "grammar g;\n@left \"+\"\n@right \"+\"\nstart = start \"+\" start | \"a\";\n",
			expected: "spec-nil=true multi=false\n1 error occurred:\n\n  • \"+\" appeared in more than one precedence level\n",
		},
		{
			name: "Err_HandleInThreeLevels",
			src: "grammar g;\n@left \"+\" \"-\"\n@right \"-\"\n@none \"+\" \"-\"\n" +
				"start = start \"+\" start | start \"-\" start | \"a\";\n",
			expected: "spec-nil=true multi=false\n3 errors occurred:\n\n  • \"-\" appeared in more than one precedence level\n  • \"+\", \"-\" appeared in more than one precedence level\n  • \"-\" appeared in more than one precedence level\n",
		},
		{
			name:     "Err_RuleHandleInTwoLevels",
			src:      "grammar g;\n@left <start = start \"+\" start>\n@none <start = start \"+\" start>\nstart = start \"+\" start | \"a\";\n",
			expected: "spec-nil=true multi=false\n1 error occurred:\n\n  • start = start \"+\" start appeared in more than one precedence level\n",
		},
		{
			name:     "Err_NonTerminalAndHandleTogether",
			src:      "grammar g;\n@left \"+\"\n@left \"+\"\nstart = start \"+\" other | \"a\";\n",
			expected: "spec-nil=true multi=false\n2 errors occurred:\n\n  • no production rule for non-terminal symbol other\n  • \"+\" appeared in more than one precedence level\n",
		},
		{
			name:     "Err_UnknownPredefWithGrammarAndPrecedenceErrors",
			src:      "grammar g;\nID = $NOPE\n@left \"+\"\n@none \"+\"\nstart = start \"+\" other | \"a\";\n",
			expected: "spec-nil=true multi=false\n3 errors occurred:\n\n  • invalid predefined regex: $NOPE\n  • no production rule for non-terminal symbol other\n  • \"+\" appeared in more than one precedence level\n",
		},
		{
			name:     "Err_TableErrorsHideGrammarAndPrecedenceErrors",
			src:      "grammar g;\n@left \"+\"\n@none \"+\"\nstart = start \"+\" other | ID;\n",
			expected: "spec-nil=true multi=false\n1 error occurred:\n\n  • no definition for terminal \"ID\"\n",
		},
		{
			name:     "Err_EverySymbolTableCheckFails",
			src:      "grammar g;\nAA = \"x\"\nBB = \"x\"\nCC = \"c\"\nCC = \"d\"\nrule = AA BB CC DD;\n",
			expected: "spec-nil=true multi=false\n4 errors occurred:\n\n  • multiple definitions for terminal \"CC\":\n      demo:4:1\n      demo:5:1\n  • no definition for terminal \"DD\"\n  • multiple definitions with the same value: \"x\"\n      demo:2:1: \"AA\"\n      demo:3:1: \"BB\"\n  • missing production rule with the start symbol: start\n",
		},
	}

	for _, tc := range tests {
		t.Run(tc.name, func(t *testing.T) {
			got := demoDescribe(Parse("demo", strings.NewReader(tc.src)))
			if got != tc.expected {
				t.Errorf("unexpected outcome\n--- got ---\n%s\n--- as a literal ---\n%q", got, got)
			}
		})
	}
}

func demoPos(line, col int) *lexer.Position {
	return &lexer.Position{Filename: "f", Offset: 0, Line: line, Column: col}
}

func demoLevel(assoc lr.Associativity, terms ...grammar.Terminal) *lr.PrecedenceLevel {
	hs := make([]*lr.PrecedenceHandle, len(terms))
	for i, a := range terms {
		hs[i] = lr.PrecedenceHandleForTerminal(a)
	}

	return &lr.PrecedenceLevel{Associativity: assoc, Handles: lr.NewPrecedenceHandles(hs...)}
}

func TestRefactorDemo_SymbolTableVerify(t *testing.T) {
	startRule := &grammar.Production{Head: "start", Body: grammar.String[grammar.Symbol]{grammar.Terminal("a")}}
	otherRule := &grammar.Production{Head: "other", Body: grammar.String[grammar.Symbol]{grammar.Terminal("a")}}

	tests := []struct {
		name     string
		fill     func(*SymbolTable)
		expected string
	}{
		{
			name: "Clean",
			fill: func(st *SymbolTable) {
				st.AddStringTerminal("a", demoPos(1, 1))
				st.AddProduction(startRule, demoPos(1, 1))
			},
			expected: "<nil>",
		},
		{
			name:     "Empty",
			fill:     func(st *SymbolTable) {},
			expected: "1|1 error occurred:\n\n  • missing production rule with the start symbol: start\n",
		},
		{
			name: "OnlyMissingDefinition",
			fill: func(st *SymbolTable) {
				st.AddTokenTerminal("ID", demoPos(2, 3))
				st.AddProduction(startRule, demoPos(1, 1))
			},
			expected: "1|1 error occurred:\n\n  • no definition for terminal \"ID\"\n",
		},
		{
			name: "OnlyDuplicateDefinition",
			fill: func(st *SymbolTable) {
				st.AddStringTokenDef("ID", "x", demoPos(2, 1))
				st.AddRegexTokenDef("ID", "y+", demoPos(3, 1))
				st.AddProduction(startRule, demoPos(1, 1))
			},
			expected: "1|1 error occurred:\n\n  • multiple definitions for terminal \"ID\":\n      f:2:1\n      f:3:1\n",
		},
		{
			name: "OnlySameValue",
			fill: func(st *SymbolTable) {
				st.AddStringTokenDef("B", "x", demoPos(3, 1))
				st.AddStringTokenDef("A", "x", demoPos(2, 1))
				st.AddStringTerminal("x", demoPos(4, 9))
				st.AddProduction(startRule, demoPos(1, 1))
			},
			expected: "1|1 error occurred:\n\n  • multiple definitions with the same value: \"x\"\n      f:2:1: \"A\"\n      f:3:1: \"B\"\n      <nil>: \"x\"\n",
		},
		{
			name: "AllThreeChecks",
			fill: func(st *SymbolTable) {
				st.AddTokenTerminal("Z", demoPos(9, 9))
				st.AddTokenTerminal("M", demoPos(8, 8))
				st.AddStringTokenDef("D", "1", demoPos(2, 1))
				st.AddStringTokenDef("D", "2", demoPos(3, 1))
				st.AddStringTokenDef("D", "3", demoPos(4, 1))
				st.AddStringTokenDef("Q", "same", demoPos(5, 1))
				st.AddRegexTokenDef("P", "same", demoPos(6, 1))
				st.AddStringTokenDef("K", "other", demoPos(7, 1))
				st.AddStringTokenDef("J", "other", demoPos(7, 5))
				st.AddProduction(otherRule, demoPos(1, 1))
			},
			expected: "6|6 errors occurred:\n\n  • multiple definitions for terminal \"D\":\n      f:2:1\n      f:3:1\n      f:4:1\n  • no definition for terminal \"M\"\n  • no definition for terminal \"Z\"\n  • multiple definitions with the same value: \"other\"\n      f:7:5: \"J\"\n      f:7:1: \"K\"\n  • multiple definitions with the same value: \"same\"\n      f:6:1: \"P\"\n      f:5:1: \"Q\"\n  • missing production rule with the start symbol: start\n",
		},
		{
			name: "PrecedencesAreNotTheTablesBusiness",
			fill: func(st *SymbolTable) {
				st.AddPrecedence(demoLevel(lr.LEFT, "+"))
				st.AddPrecedence(demoLevel(lr.RIGHT, "+"))
				st.AddStringTerminal("a", demoPos(1, 1))
				st.AddProduction(startRule, demoPos(1, 1))
			},
			expected: "<nil>",
		},
	}

	for _, tc := range tests {
		t.Run(tc.name, func(t *testing.T) {
			st := NewSymbolTable()
			tc.fill(st)

			// Verify is a pure check: calling it twice gives the same answer.
			for round := 0; round < 2; round++ {
				err := st.Verify()

				got := "<nil>"
				if err != nil {
					me, isMulti := err.(*errors.MultiError)
					if !isMulti {
						t.Fatalf("expected a *errors.MultiError, got %T", err)
					}

					got = fmt.Sprintf("%d|%s", len(me.Unwrap()), err.Error())
				}

				if got != tc.expected {
					t.Errorf("round %d: unexpected outcome\n--- got ---\n%s\n--- as a literal ---\n%q", round, got, got)
				}
			}
		})
	}
}

func TestRefactorDemo_PrecedenceBookkeeping(t *testing.T) {
	st := NewSymbolTable()

	if ps := st.Precedences(); ps == nil || len(ps) != 0 {
		t.Fatalf("a new table has a non-nil empty list, got %#v", ps)
	}

	if err := st.Precedences().Verify(); err != nil {
		t.Fatalf("unexpected error: %s", err)
	}

	l1, l2, l3 := demoLevel(lr.LEFT, "*", "/"), demoLevel(lr.RIGHT, "^"), demoLevel(lr.NONE, "*")
	st.AddPrecedence(l1)
	st.AddPrecedence(l2)

	before := st.Precedences()
	st.AddPrecedence(l3)
	after := st.Precedences()

	// The levels are the very pointers handed in, in the order of the calls.
	if len(before) != 2 || before[0] != l1 || before[1] != l2 {
		t.Errorf("unexpected list before the third call: %v", before)
	}

	if len(after) != 3 || after[0] != l1 || after[1] != l2 || after[2] != l3 {
		t.Errorf("unexpected list after the third call: %v", after)
	}

	err := after.Verify()
	if err == nil {
		t.Fatalf("expected an error for a handle in two levels")
	}

	if got, expected := err.Error(), "\"*\" appeared in more than one precedence level\n"; got != expected {
		t.Errorf("unexpected error %q", got)
	}

	// The same level twice is a conflict with itself.
	st.AddPrecedence(l2)
	if got := len(st.Precedences().Verify().(*errors.MultiError).Unwrap()); got != 2 {
		t.Errorf("expected 2 conflicts, got %d", got)
	}

	st.Reset()

	if ps := st.Precedences(); ps == nil || len(ps) != 0 {
		t.Errorf("a reset table has a non-nil empty list, got %#v", ps)
	}

	// The list handed out earlier is not touched by Reset or by later additions.
	st.AddPrecedence(l3)
	if len(after) != 3 || after[0] != l1 || after[1] != l2 || after[2] != l3 {
		t.Errorf("the old list changed: %v", after)
	}

	if ps := st.Precedences(); len(ps) != 1 || ps[0] != l3 {
		t.Errorf("unexpected list after Reset and one addition: %v", ps)
	}
}
