package spec

import (
	"fmt"
	"sort"
	"strings"
	"testing"

	"github.com/moorara/algo/grammar"
	"github.com/moorara/algo/parser/lr"
)

// demoLevel renders a precedence level: the associativity and the handles, ordered by their text
// (the set of handles is walked in a random order, so that the order of recording is not observable).
// Production handles are checked to be productions of the grammar (pointer-independent, by equality).
func demoLevel(t *testing.T, s *Spec, l *lr.PrecedenceLevel) string {
	t.Helper()

	var hs []string
	for h := range l.Handles.All() {
		switch {
		case h.IsTerminal():
			hs = append(hs, "T:"+string(*h.Terminal))
		case h.IsProduction():
			hs = append(hs, "P:"+h.Production.String())

			own := false
			for p := range s.Grammar.Productions.All() {
				if p.Equal(h.Production) {
					own = true
				}
			}
			if !own {
				t.Errorf("handle %s is not a production of the grammar", h)
			}
		default:
			t.Errorf("handle is neither a terminal nor a production: %#v", h)
		}
	}

	sort.Strings(hs)

	return fmt.Sprintf("%s [%s]", l.Associativity, strings.Join(hs, " ; "))
}

const demoExprRules = `
start = expr;
expr  = expr "+" expr | expr "-" expr | expr "*" expr | expr "/" expr | "!" expr | NUM | ;
`

func TestRefactorDemo_Levels(t *testing.T) {
	tests := []struct {
		name     string
		src      string
		expected []string // rendering of every level, in order
		sorted   string   // Precedences.String()
	}{
		{
			name:     "NoDirectives",
			src:      "grammar g;\nNUM = /[0-9]+/\n" + demoExprRules,
			expected: []string{},
			sorted:   "",
		},
		{
			name: "ThreeAssociativitiesInSourceOrder",
			src: "grammar g;\nNUM = /[0-9]+/\n" +
				"@none \"!\"\n@right \"*\" \"/\"\n@left \"-\" \"+\"\n" + demoExprRules,
			expected: []string{
				`NONE [T:!]`,
				`RIGHT [T:* ; T:/]`,
				`LEFT [T:+ ; T:-]`,
			},
			sorted: "NONE \"!\"\nRIGHT \"*\", \"/\"\nLEFT \"+\", \"-\"",
		},
		{
			name: "SameAssociativityTwiceAndSemicolons",
			src: "grammar g;\nNUM = /[0-9]+/\n" +
				"@left \"*\";\n@left \"+\";\n@left \"-\"\n@left \"/\";\n" + demoExprRules,
			expected: []string{
				`LEFT [T:*]`,
				`LEFT [T:+]`,
				`LEFT [T:-]`,
				`LEFT [T:/]`,
			},
			sorted: "LEFT \"*\"\nLEFT \"+\"\nLEFT \"-\"\nLEFT \"/\"",
		},
		{
			name: "TokenTerminalAndRepeatedTerminal",
			src: "grammar g;\nNUM = /[0-9]+/\n" +
				"@none NUM \"+\" NUM \"+\"\n" + demoExprRules,
			expected: []string{
				`NONE [T:+ ; T:NUM]`,
			},
			sorted: "NONE \"+\", \"NUM\"",
		},
		{
			name: "RuleHandleFirstThenTerm",
			src: "grammar g;\nNUM = /[0-9]+/\n" +
				"@left <expr = expr \"*\" expr> \"/\"\n@right \"+\" <expr = \"!\" expr>\n" + demoExprRules,
			expected: []string{
				`LEFT [P:expr → expr "*" expr ; T:/]`,
				`RIGHT [P:expr → "!" expr ; T:+]`,
			},
			sorted: "LEFT \"/\", expr = expr \"*\" expr\nRIGHT \"+\", expr = \"!\" expr",
		},
		{
			name: "RuleHandleWithAlternation",
			src: "grammar g;\nNUM = /[0-9]+/\n" +
				"@left <expr = expr \"*\" expr | expr \"/\" expr>\n" +
				"@left \"!\" <expr = expr \"-\" expr | expr \"+\" expr | NUM> NUM\n" + demoExprRules,
			expected: []string{
				`LEFT [P:expr → expr "*" expr ; P:expr → expr "/" expr]`,
				`LEFT [P:expr → "NUM" ; P:expr → expr "+" expr ; P:expr → expr "-" expr ; T:! ; T:NUM]`,
			},
			sorted: "LEFT expr = expr \"*\" expr, expr = expr \"/\" expr\n" +
				"LEFT \"!\", \"NUM\", expr = expr \"+\" expr, expr = expr \"-\" expr, expr = \"NUM\"",
		},
		{
			name: "EmptyRuleHandles",
			src: "grammar g;\nNUM = /[0-9]+/\n" +
				"@none <expr = > <expr = NUM | >\n" + demoExprRules,
			expected: []string{
				`NONE [P:expr → "NUM" ; P:expr → ε]`,
			},
			sorted: "NONE expr = \"NUM\", expr = ε",
		},
		{
			name: "ExtendedOperatorsInRuleHandle",
			src: "grammar g;\nNUM = /[0-9]+/\nID = $ID\n" +
				"@right <list = item {\",\" item}> <item = (NUM | ID) [\"?\"]>\n" +
				"@left <args = {{list}} | [list \";\"] ID>\n" +
				"start = args;\nargs = {{list}} | [list \";\"] ID;\nlist = item {\",\" item};\nitem = (NUM | ID) [\"?\"];\n",
			expected: []string{
				`RIGHT [P:item → gen2_group gen_question_opt ; P:list → item gen1_star]`,
				`LEFT [P:args → gen3_opt "ID" ; P:args → gen_list_plus]`,
			},
			sorted: "RIGHT item = gen2_group gen_question_opt, list = item gen1_star\n" +
				"LEFT args = gen3_opt \"ID\", args = gen_list_plus",
		},
		{
			name: "EscapedStringTerminal",
			src: "grammar g;\nNUM = /[0-9]+/\n" +
				"@left \"\\\"\" \"\\\\\"\n" +
				"start = NUM \"\\\"\" NUM | NUM \"\\\\\" start;\n",
			expected: []string{
				`LEFT [T:" ; T:\]`,
			},
			sorted: "LEFT \"\\\"\", \"\\\\\"",
		},
	}

	for _, tc := range tests {
		t.Run(tc.name, func(t *testing.T) {
			s, err := Parse(tc.name, strings.NewReader(tc.src))
			if err != nil {
				t.Fatalf("unexpected error: %s", err)
			}

			if s.Precedences == nil {
				t.Errorf("precedences are nil")
			}

			actual := []string{}
			for _, l := range s.Precedences {
				actual = append(actual, demoLevel(t, s, l))
			}

			if got, want := strings.Join(actual, "\n"), strings.Join(tc.expected, "\n"); got != want {
				t.Errorf("levels:\n%s\nexpected:\n%s", got, want)
			}

			if got := s.Precedences.String(); got != tc.sorted {
				t.Errorf("string:\n%s\nexpected:\n%s", got, tc.sorted)
			}
		})
	}
}

func TestRefactorDemo_Errors(t *testing.T) {
	tests := []struct {
		name     string
		src      string
		expected string
	}{
		{
			name: "TerminalInTwoLevels",
			src: "grammar g;\nNUM = /[0-9]+/\n" +
				"@left \"+\" \"-\"\n@right \"*\"\n@none \"-\"\n" + demoExprRules,
			expected: "1 error occurred:\n\n  • \"-\" appeared in more than one precedence level\n",
		},
		{
			name: "ProductionInTwoLevelsThroughAlternation",
			src: "grammar g;\nNUM = /[0-9]+/\n" +
				"@left <expr = expr \"+\" expr | expr \"-\" expr>\n@right <expr = expr \"-\" expr>\n" + demoExprRules,
			expected: "1 error occurred:\n\n  • expr = expr \"-\" expr appeared in more than one precedence level\n",
		},
		{
			name: "ThreeLevelsPairwise",
			src: "grammar g;\nNUM = /[0-9]+/\n" +
				"@left \"+\"\n@right \"+\" \"*\"\n@none \"*\" \"+\"\n" + demoExprRules,
			expected: "3 errors occurred:\n\n" +
				"  • \"+\" appeared in more than one precedence level\n" +
				"  • \"+\" appeared in more than one precedence level\n" +
				"  • \"*\", \"+\" appeared in more than one precedence level\n",
		},
		{
			name: "DirectiveWithoutHandles",
			src: "grammar g;\nNUM = /[0-9]+/\n" +
				"@left\n" + demoExprRules,
			expected: "DirectiveWithoutHandles:5:1: unexpected string \"start\": no action exists in the parsing table for ACTION[36, \"IDENT\"]",
		},
		{
			name: "UndefinedTokenInDirective",
			src: "grammar g;\nNUM = /[0-9]+/\n" +
				"@left OP\n" + demoExprRules,
			expected: "1 error occurred:\n\n  • no definition for terminal \"OP\"\n",
		},
	}

	for _, tc := range tests {
		t.Run(tc.name, func(t *testing.T) {
			s, err := Parse(tc.name, strings.NewReader(tc.src))
			if err == nil {
				t.Fatalf("expected an error, got %s", s.Precedences)
			}

			if s != nil {
				t.Errorf("expected no spec")
			}

			if got := err.Error(); got != tc.expected {
				t.Errorf("error:\n%q\nexpected:\n%q", got, tc.expected)
			}
		})
	}
}

// The production of a rule handle is recorded in the symbol table at the position of its head.
func TestRefactorDemo_SymbolTable(t *testing.T) {
	st := NewSymbolTable()

	if got := st.Precedences(); got == nil || len(got) != 0 {
		t.Fatalf("expected an empty list, got %#v", got)
	}

	plus, star := grammar.Terminal("+"), grammar.Terminal("*")
	prod := &grammar.Production{Head: "e", Body: grammar.String[grammar.Symbol]{grammar.NonTerminal("e"), plus, grammar.NonTerminal("e")}}

	l1 := &lr.PrecedenceLevel{Associativity: lr.RIGHT, Handles: lr.NewPrecedenceHandles(&lr.PrecedenceHandle{Terminal: &star})}
	l2 := &lr.PrecedenceLevel{Associativity: lr.NONE, Handles: lr.NewPrecedenceHandles()}
	l3 := &lr.PrecedenceLevel{Associativity: lr.LEFT, Handles: lr.NewPrecedenceHandles(&lr.PrecedenceHandle{Production: prod}, &lr.PrecedenceHandle{Terminal: &plus})}

	for _, l := range []*lr.PrecedenceLevel{l1, l2, l3, l1} {
		st.AddPrecedence(l)
	}

	got := st.Precedences()
	if len(got) != 4 || got[0] != l1 || got[1] != l2 || got[2] != l3 || got[3] != l1 {
		t.Errorf("levels are not the ones added, in order: %s", got)
	}

	if s, want := got.String(), "RIGHT \"*\"\nNONE \nLEFT \"+\", e = e \"+\" e\nRIGHT \"*\""; s != want {
		t.Errorf("string: %q, expected %q", s, want)
	}

	if err := got.Verify(); err == nil || err.Error() != "\"*\" appeared in more than one precedence level\n" {
		t.Errorf("verify: %q", err)
	}

	st.Reset()
	if got := st.Precedences(); got == nil || len(got) != 0 {
		t.Errorf("expected an empty list after reset, got %#v", got)
	}
}
