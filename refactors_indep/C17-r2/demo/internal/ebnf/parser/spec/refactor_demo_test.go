package spec

import (
	"fmt"
	"os"
	"sort"
	"strings"
	"sync"
	"testing"

	"github.com/moorara/algo/grammar"
)

// This file characterizes the naming of generated non-terminal symbols (GetOpt, GetGroup, GetStar, GetPlus).
// Every expectation is a concrete value, so the file passes on the code before and after the refactoring.

type demoOp int

const (
	demoOpt demoOp = iota
	demoGroup
	demoStar
	demoPlus
)

type demoStep struct {
	op       demoOp
	strs     func() Strings // A fresh value per call, since hashing sorts the strings in place.
	expected grammar.NonTerminal
}

func demoT(a string) grammar.String[grammar.Symbol] {
	return grammar.String[grammar.Symbol]{grammar.Terminal(a)}
}

func demoN(a string) grammar.String[grammar.Symbol] {
	return grammar.String[grammar.Symbol]{grammar.NonTerminal(a)}
}

func demoOne(α grammar.String[grammar.Symbol]) func() Strings {
	return func() Strings { return Strings{append(grammar.String[grammar.Symbol]{}, α...)} }
}

func demoApply(st *SymbolTable, op demoOp, s Strings) grammar.NonTerminal {
	switch op {
	case demoOpt:
		return st.GetOpt(s)
	case demoGroup:
		return st.GetGroup(s)
	case demoStar:
		return st.GetStar(s)
	default:
		return st.GetPlus(s)
	}
}

// demoScript is a sequence of calls on one symbol table along with the exact names expected.
func demoScript() []demoStep {
	plusMinus := func() Strings { return Strings{demoT("+"), demoT("-")} }
	minusPlus := func() Strings { return Strings{demoT("-"), demoT("+")} }
	ab := func() Strings { return Strings{{grammar.NonTerminal("a"), grammar.NonTerminal("b")}} }
	empty := func() Strings { return Strings{} }
	eps := func() Strings { return Strings{grammar.E} }
	exprOrEps := func() Strings { return Strings{demoN("expr"), grammar.E} }

	return []demoStep{
		// Single named symbols never consume a number.
		{demoOpt, demoOne(demoN("expr")), "gen_expr_opt"},
		{demoGroup, demoOne(demoN("expr")), "gen_expr_group"},
		{demoStar, demoOne(demoN("expr")), "gen_expr_star"},
		{demoPlus, demoOne(demoN("expr")), "gen_expr_plus"},
		{demoStar, demoOne(demoT(",")), "gen_comma_star"},
		{demoOpt, demoOne(demoT(";")), "gen_semi_opt"},
		{demoPlus, demoOne(demoT("\n")), "gen_newline_plus"},
		{demoGroup, demoOne(demoT("{")), "gen_rbrace_group"},
		{demoGroup, demoOne(demoT("}")), "gen_lbrace_group"},
		{demoOpt, demoOne(demoT("|")), "gen_bar_opt"},
		// A terminal without a readable name consumes a number.
		{demoOpt, demoOne(demoT("if")), "gen1_opt"},
		{demoOpt, demoOne(demoT("if")), "gen1_opt"},
		{demoGroup, plusMinus, "gen2_group"},
		// The order of alternatives does not matter and a reused name does not consume a number.
		{demoGroup, minusPlus, "gen2_group"},
		{demoStar, minusPlus, "gen3_star"},
		{demoStar, plusMinus, "gen3_star"},
		{demoGroup, plusMinus, "gen2_group"},
		{demoPlus, ab, "gen4_plus"},
		{demoOpt, empty, "gen5_opt"},
		{demoOpt, eps, "gen6_opt"},
		{demoOpt, exprOrEps, "gen7_opt"},
		{demoOpt, demoOne(demoN("")), "gen8_opt"},
		{demoStar, demoOne(demoT("")), "gen9_star"},
		{demoStar, demoOne(demoT("==")), "gen10_star"},
		// Other operators on existing entries.
		{demoPlus, demoOne(demoT("if")), "gen11_plus"},
		{demoStar, demoOne(demoT("if")), "gen12_star"},
		{demoGroup, demoOne(demoT("if")), "gen13_group"},
		{demoOpt, demoOne(demoT("if")), "gen1_opt"},
		{demoPlus, demoOne(demoT("if")), "gen11_plus"},
		{demoOpt, plusMinus, "gen14_opt"},
		{demoPlus, minusPlus, "gen15_plus"},
		{demoOpt, minusPlus, "gen14_opt"},
		{demoOpt, ab, "gen16_opt"},
		{demoPlus, ab, "gen4_plus"},
		{demoStar, demoOne(demoN("expr")), "gen_expr_star"},
		{demoOpt, demoOne(demoN("gen2_group")), "gen_gen2_group_opt"},
		{demoGroup, empty, "gen17_group"},
		{demoOpt, empty, "gen5_opt"},
	}
}

func demoRunScript(st *SymbolTable) error {
	for i, step := range demoScript() {
		if got := demoApply(st, step.op, step.strs()); got != step.expected {
			return fmt.Errorf("step %d: expected %q, got %q", i, step.expected, got)
		}
	}

	if st.strings.counter != 17 {
		return fmt.Errorf("expected 17 numbers consumed, got %d", st.strings.counter)
	}

	if size := st.strings.table.Size(); size != 17 {
		return fmt.Errorf("expected 17 strings entries, got %d", size)
	}

	e, ok := st.strings.table.Get(Strings{demoT("-"), demoT("+")})
	if !ok || *e != (stringsEntry{Group: "gen2_group", Opt: "gen14_opt", Star: "gen3_star", Plus: "gen15_plus"}) {
		return fmt.Errorf("unexpected entry for + and -: %+v", e)
	}

	e, ok = st.strings.table.Get(Strings{demoT(",")})
	if !ok || *e != (stringsEntry{Star: "gen_comma_star"}) {
		return fmt.Errorf("unexpected entry for comma: %+v", e)
	}

	return nil
}

func TestRefactorDemo_Script(t *testing.T) {
	if err := demoRunScript(NewSymbolTable()); err != nil {
		t.Fatal(err)
	}
}

func TestRefactorDemo_AllTerminalNames(t *testing.T) {
	expected := map[string]string{
		"\t": "tab", "\n": "newline", " ": "space", "!": "exclam", "\"": "dquot", "#": "hash", "$": "dollar",
		"%": "percent", "&": "ampersand", "'": "squot", "(": "lparen", ")": "rparen", "*": "star", "+": "plus",
		",": "comma", "-": "dash", ".": "dot", "/": "slash", ":": "colon", ";": "semi", "<": "lt", "=": "equal",
		">": "gt", "?": "question", "@": "atsign", "[": "lbrack", "\\": "backslash", "]": "rbrack", "^": "caret",
		"_": "underscore", "`": "backtick", "{": "rbrace", "|": "bar", "}": "lbrace", "~": "tilde",
	}

	st := NewSymbolTable()
	suffixes := []string{"opt", "group", "star", "plus"}
	for a, name := range expected {
		for op, suffix := range suffixes {
			got := demoApply(st, demoOp(op), Strings{demoT(a)})
			if want := grammar.NonTerminal("gen_" + name + "_" + suffix); got != want {
				t.Errorf("%q: expected %q, got %q", a, want, got)
			}
		}
	}

	if st.strings.counter != 0 {
		t.Errorf("expected no numbers consumed, got %d", st.strings.counter)
	}
}

// A table is unaffected by other tables used before it or at the same time.
func TestRefactorDemo_IndependentTables(t *testing.T) {
	other := NewSymbolTable()
	for i := 0; i < 50; i++ {
		other.GetStar(Strings{demoT(fmt.Sprintf("kw%d", i))})
	}

	if err := demoRunScript(NewSymbolTable()); err != nil {
		t.Fatal(err)
	}

	var wg sync.WaitGroup
	errs := make([]error, 16)
	for i := range errs {
		wg.Add(1)
		go func() {
			defer wg.Done()
			for j := 0; j < 20 && errs[i] == nil; j++ {
				other.GetPlus(Strings{demoT(fmt.Sprintf("kw%d", j))})
				errs[i] = demoRunScript(NewSymbolTable())
			}
		}()
	}
	wg.Wait()

	for i, err := range errs {
		if err != nil {
			t.Errorf("goroutine %d: %s", i, err)
		}
	}

	// The goroutines raced for the numbers 51 to 70, but each of them was handed out exactly once.
	plus := map[grammar.NonTerminal]bool{}
	for j := 0; j < 20; j++ {
		plus[other.GetPlus(Strings{demoT(fmt.Sprintf("kw%d", j))})] = true
	}
	for n := 51; n <= 70; n++ {
		if name := grammar.NonTerminal(fmt.Sprintf("gen%d_plus", n)); !plus[name] {
			t.Errorf("%q is missing", name)
		}
	}
	if len(plus) != 20 || other.strings.counter != 70 {
		t.Errorf("expected 20 names and 70 numbers consumed by the shared table, got %d and %d", len(plus), other.strings.counter)
	}
	if got := other.GetStar(Strings{demoT("kw49")}); got != "gen50_star" {
		t.Errorf("expected %q, got %q", "gen50_star", got)
	}
}

// One table used from many goroutines hands out each number exactly once and keeps answers stable.
func TestRefactorDemo_SharedTable(t *testing.T) {
	const workers, keys = 8, 40

	st := NewSymbolTable()
	results := make([][]grammar.NonTerminal, workers)

	var wg sync.WaitGroup
	for w := 0; w < workers; w++ {
		wg.Add(1)
		go func() {
			defer wg.Done()
			results[w] = make([]grammar.NonTerminal, keys)
			for k := 0; k < keys; k++ {
				s := Strings{demoT(fmt.Sprintf("a%d", k)), demoT(fmt.Sprintf("b%d", k))}
				results[w][k] = demoApply(st, demoOp(k%4), s)
				if got := st.GetOpt(Strings{demoN("x")}); got != "gen_x_opt" {
					panic(got)
				}
			}
		}()
	}
	wg.Wait()

	seen := map[grammar.NonTerminal]bool{}
	suffixes := []string{"_opt", "_group", "_star", "_plus"}
	for k := 0; k < keys; k++ {
		name := results[0][k]
		for w := 1; w < workers; w++ {
			if results[w][k] != name {
				t.Fatalf("key %d: %q vs %q", k, name, results[w][k])
			}
		}
		if seen[name] || !strings.HasPrefix(string(name), "gen") || !strings.HasSuffix(string(name), suffixes[k%4]) {
			t.Fatalf("key %d: unexpected name %q", k, name)
		}
		seen[name] = true
	}

	if st.strings.counter != keys || st.strings.table.Size() != keys+1 {
		t.Fatalf("counter %d, size %d", st.strings.counter, st.strings.table.Size())
	}
}

func demoParse(name string) (string, error) {
	b, err := os.ReadFile("../../fixture/" + name + ".grammar")
	if err != nil {
		return "", err
	}

	sp, err := Parse(name, strings.NewReader(string(b)))
	if err != nil {
		return "", err
	}

	var gen []string
	for A := range sp.Grammar.NonTerminals.All() {
		if strings.HasPrefix(string(A), "gen") {
			gen = append(gen, string(A))
		}
	}
	sort.Strings(gen)

	prods := 0
	for range sp.Grammar.Productions.All() {
		prods++
	}

	return fmt.Sprintf("%d prods, %d defs, %s\n%s", prods, len(sp.Definitions), strings.Join(gen, " "), sp.Grammar), nil
}

// Whole specifications yield the same generated names whatever was processed before.
// (Parse is not run on several goroutines here: the hash functions of the grammar package of the library
// share one hasher, so concurrent Parse calls crash with or without the refactoring.)
func TestRefactorDemo_Parse(t *testing.T) {
	names := []string{"test.success", "pascal", "ebnf", "please"}
	headers := map[string]string{
		"test.success": "40 prods, 28 defs, gen1_opt gen2_group gen_decl_star gen_stmt_plus\n",
		"pascal":       "41 prods, 34 defs, gen_decls_opt\n",
		"ebnf":         "37 prods, 22 defs, gen1_group gen2_group gen3_plus gen_decl_star gen_rhs_opt gen_semi_opt\n",
		"please":       "141 prods, 48 defs, gen10_opt gen11_star gen12_opt gen13_star gen14_opt gen15_group ",
	}

	baseline := map[string]string{}
	for _, name := range names {
		out, err := demoParse(name)
		if err != nil {
			t.Fatal(err)
		}
		if !strings.HasPrefix(out, headers[name]) {
			t.Fatalf("%s: unexpected result:\n%s", name, out)
		}
		baseline[name] = out
	}

	if !strings.Contains(baseline["please"], "gen_gen23_group_opt") || !strings.Contains(baseline["please"], "gen36_group") ||
		strings.Contains(baseline["please"], "gen37_") {
		t.Fatalf("please: unexpected generated names:\n%s", baseline["please"])
	}

	// Other orders and repetitions.
	for _, name := range []string{"please", "ebnf", "ebnf", "test.success", "pascal", "please"} {
		if out, err := demoParse(name); err != nil || out != baseline[name] {
			t.Fatalf("%s: result depends on what was processed before: %v", name, err)
		}
	}
}
