package golang

import (
	"os"
	"os/exec"
	"path/filepath"
	"testing"

	"github.com/gardenbed/charm/ui"

	"github.com/gardenbed/emerge/internal/ebnf/parser/spec"
)

// TestRefactorDemo emits a lexer, adds a white-box test to the emitted package, and compiles and runs it.
//
// The white-box test drives the rune decoder of the emitted reader (input.Next and input.Retract) directly,
// with many buffer sizes, and compares every rune, error and position with a model built on unicode/utf8.
// It also pins down concrete token streams of the emitted lexer for inputs with multi-byte characters.
func TestRefactorDemo(t *testing.T) {
	if _, err := exec.LookPath("go"); err != nil {
		t.Skip("go tool not found")
	}

	dir := t.TempDir()

	params := &Params{
		Path: dir,
		Spec: &spec.Spec{
			Name: "demo",
			Definitions: []*spec.TerminalDef{
				{Terminal: "ID", Value: "[A-Za-z_][0-9A-Za-z_]*", IsRegex: true},
				{Terminal: "NUM", Value: "[0-9]+", IsRegex: true},
				{Terminal: "EACUTE", Value: "\u00e9"},
				{Terminal: "EURO", Value: "\u20ac"},
				{Terminal: "EURO2", Value: "\u20ac\u20ac"},
				{Terminal: "ARROW", Value: "\u2192"},
				{Terminal: "GRIN", Value: "\U0001F600"},
				{Terminal: "LAST", Value: "\U0010FFFF"},
			},
			Grammar:     grammars[0],
			Precedences: precedences[0],
		},
	}

	// The grammar of the fixture has its own terminals, the lexer is only built from the definitions.
	if err := Generate(ui.NewNop(), params); err != nil {
		t.Fatalf("generate: %s", err)
	}

	pkg := filepath.Join(dir, "demo")

	if err := os.WriteFile(filepath.Join(pkg, "go.mod"), []byte("module demo\n\ngo 1.24\n"), 0o644); err != nil {
		t.Fatal(err)
	}

	if err := os.WriteFile(filepath.Join(pkg, "whitebox_test.go"), []byte(refactorDemoWhitebox), 0o644); err != nil {
		t.Fatal(err)
	}

	for _, args := range [][]string{
		{"vet", "."},
		{"test", "-count=1", "."},
	} {
		cmd := exec.Command("go", args...)
		cmd.Dir = pkg
		cmd.Env = append(os.Environ(), "GOFLAGS=-mod=mod", "GOPROXY=off", "GOWORK=off")

		out, err := cmd.CombinedOutput()
		if err != nil {
			t.Fatalf("go %v in the emitted package: %s\n%s", args, err, out)
		}

		t.Logf("go %v: %s", args, out)
	}
}

const refactorDemoWhitebox = `package demo

import (
	"bytes"
	"fmt"
	"io"
	"strings"
	"testing"
	"unicode/utf8"
)

// ---------------------------------------------------------------------------------------------------------------------
// A model of the decoder, written from the definition of UTF-8 (RFC 3629, table 3-7 of the Unicode standard).

const (
	kindRune = iota
	kindEOF
	kindInvalid
)

// decodeModel decodes the sequence starting at s[p].
// It returns the rune, the number of bytes the reader takes from the input, and what the reader returns.
func decodeModel(s []byte, p int) (rune, int, int) {
	if p == len(s) {
		return 0, 0, kindEOF
	}

	b0 := s[p]
	if b0 < 0x80 {
		return rune(b0), 1, kindRune
	}

	need, lo, hi := 0, byte(0x80), byte(0xBF)
	switch {
	case 0xC2 <= b0 && b0 <= 0xDF:
		need = 2
	case b0 == 0xE0:
		need, lo = 3, 0xA0
	case b0 == 0xED:
		need, hi = 3, 0x9F
	case 0xE1 <= b0 && b0 <= 0xEF:
		need = 3
	case b0 == 0xF0:
		need, lo = 4, 0x90
	case b0 == 0xF4:
		need, hi = 4, 0x8F
	case 0xF1 <= b0 && b0 <= 0xF3:
		need = 4
	default:
		return 0, 1, kindInvalid
	}

	for k := 1; k < need; k++ {
		if p+k == len(s) {
			return 0, k, kindEOF // the input ends inside of a sequence
		}
		if b := s[p+k]; b < lo || hi < b {
			return 0, k + 1, kindInvalid // the offending byte is taken too
		}
		lo, hi = 0x80, 0xBF
	}

	r, size := utf8.DecodeRune(s[p : p+need])
	if size != need || !utf8.ValidRune(r) || (r == utf8.RuneError && string(s[p:p+need]) != "\uFFFD") {
		panic(fmt.Sprintf("model: % x is not well-formed", s[p:p+need]))
	}

	return r, need, kindRune
}

type modelPos struct{ offset, line, column int }

func (m modelPos) after(r rune) modelPos {
	if r == '\n' {
		return modelPos{m.offset + 1, m.line + 1, 1}
	}
	return modelPos{m.offset + 1, m.line, m.column + 1}
}

func (m modelPos) position() Position {
	return Position{Filename: "f", Offset: m.offset, Line: m.line, Column: m.column}
}

// ---------------------------------------------------------------------------------------------------------------------

var samples = []string{
	"a",
	"\n",
	"\x00",
	"\x7f",
	"abc",
	"a\nb\n\nc",
	"\n\n\n",
	"\r\n\t x",
	"\u0080",     // first 2-byte
	"\u07ff",     // last 2-byte
	"\u0800",     // first 3-byte (E0 A0 80)
	"\u0fff",     // E0 BF BF
	"\u1000",     // E1 80 80
	"\ucfff",     // EC BF BF
	"\ud000",     // ED 80 80
	"\ud7ff",     // ED 9F BF, last before the surrogates
	"\ue000",     // EE 80 80, first after the surrogates
	"\ueeee",     // the end marker of the parser
	"\ufffd",     // the replacement character is a regular character
	"\uffff",     // EF BF BF
	"\U00010000", // F0 90 80 80
	"\U0003ffff", // F0 BF BF BF
	"\U00040000", // F1 80 80 80
	"\U000fffff", // F3 BF BF BF
	"\U00100000", // F4 80 80 80
	"\U0010ffff", // F4 8F BF BF
	"h\u00e9llo w\u00f6rld",
	"x\u2192y\n\u20ac\u20ac \u20ac\u00e9\n\U0001F600\U0001F600z",
	"\u65e5\u672c\u8a9e\n\ud55c\uad6d\uc5b4\n",
	"a\u00e9\u20ac\U0001F600\n\U0001F600\u20ac\u00e9a",
	"0123456\u00e9",   // 2-byte sequence across the boundary of a half of 8
	"012345\u20ac",    // 3-byte sequence ending at the boundary
	"0123456\u20ac",   // 3-byte sequence across the boundary, 1+2
	"01234567\u20ac",  // 3-byte sequence just behind the boundary
	"012345\U0001F600x", // 4-byte sequence across the boundary, 2+2
	"0123456\U0001F600\n\U0001F600", // 1+3
	"01234\U0001F600\nx", // 3+1 with a size of 8

	// Malformed input
	"\x80",
	"\xbf",
	"\xc0\x80", // overlong
	"\xc1\xbf", // overlong
	"\xf5\x80\x80\x80",
	"\xff",
	"\xfe",
	"a\xffb",
	"\xc2",             // truncated
	"\xc2\x41",         // second byte not a continuation byte
	"\xc2\xc2\x80",     // ditto, the offending byte is taken
	"\xdf\x7f",
	"\xdf\xc0",
	"\xe0\x80\x80",     // overlong
	"\xe0\x9f\xbf",     // overlong
	"\xe0\xa0",         // truncated
	"\xe0\xa0\x7f",
	"\xe0\xa0\xc0",
	"\xe1\x80",
	"\xe1\x7f\x80",
	"\xe1\x80\x41z",
	"\xed\xa0\x80",     // surrogate
	"\xed\xbf\xbf",     // surrogate
	"\xed\x9f",         // truncated
	"\xef\xbf\x20",
	"\xf0\x80\x80\x80", // overlong
	"\xf0\x8f\xbf\xbf", // overlong
	"\xf0\x90",         // truncated
	"\xf0\x90\x80",     // truncated
	"\xf0\x90\x80\x7f",
	"\xf0\x90\xc0\x80",
	"\xf1\x80\x80\xc0",
	"\xf3\xc0\x80\x80",
	"\xf4\x90\x80\x80", // beyond U+10FFFF
	"\xf4\x8f\xbf",     // truncated
	"\xf4\x8f\xbf\x00",
	"ab\n\u00e9\xe2\x82",       // truncated after valid runes
	"ab\n\u00e9\xe2\x28\xa1cd", // error after valid runes, then more input
	"\u20ac\xf0\x9f\x98\n\xf0\x9f\x98\x80",
	"0123456\xe2\x82",  // truncated across the boundary of a half of 8
	"0123456\xe2\x41\x80",
	"012345\xf0\x9f\x41\x80",
}

var sizes = []int{4, 5, 7, 8, 9, 16, 64, 4096}

// slowReader hands out the input in small pieces, as a pipe or a network connection may do.
type slowReader struct {
	data []byte
	step int
}

func (r *slowReader) Read(p []byte) (int, error) {
	if len(r.data) == 0 {
		return 0, io.EOF
	}
	n := min(r.step, len(p), len(r.data))
	copy(p, r.data[:n])
	r.data = r.data[n:]
	return n, nil
}

func checkErr(t *testing.T, err error, kind int, pos modelPos) {
	t.Helper()

	switch kind {
	case kindEOF:
		if err != io.EOF {
			t.Fatalf("expected io.EOF, got %v", err)
		}
	case kindInvalid:
		ie, ok := err.(*InputError)
		if !ok {
			t.Fatalf("expected an input error, got %v", err)
		}
		if ie.Description != "invalid utf-8 character" || ie.Pos != pos.position() {
			t.Fatalf("expected invalid utf-8 character at %v, got %#v", pos, ie)
		}
		if exp := fmt.Sprintf("f:%d:%d: invalid utf-8 character", pos.line, pos.column); err.Error() != exp {
			t.Fatalf("expected %q, got %q", exp, err.Error())
		}
	}
}

// TestDecode reads every rune twice (Next, Retract, Next) and then takes it as a lexeme.
func TestDecode(t *testing.T) {
	for si, sample := range samples {
		for _, n := range sizes {
			for _, step := range []int{0, 1, 3} {
				s := []byte(sample)

				var src io.Reader = bytes.NewReader(s)
				if step > 0 {
					src = &slowReader{data: s, step: step}
				}

				in, err := newInput("f", src, n)
				if err != nil {
					t.Fatalf("sample %d: %s", si, err)
				}

				// There is nothing to retract at the beginning.
				in.Retract()

				name := fmt.Sprintf("sample %d (%q) size %d step %d", si, sample, n, step)
				pos := modelPos{0, 1, 1}

				for p, done := 0, false; !done; {
					if got := in.forwardPos(); got != pos.position() {
						t.Fatalf("%s: at %d expected position %v, got %v", name, p, pos, got)
					}

					expRune, taken, kind := decodeModel(s, p)
					r, err := in.Next()

					if kind != kindRune {
						if r != 0 {
							t.Fatalf("%s: at %d expected no rune, got %q", name, p, r)
						}
						checkErr(t, err, kind, pos)

						// The bytes taken are given up, the reader carries on behind them.
						p += taken
						if got := in.Skip(); got != pos.position() {
							t.Fatalf("%s: at %d expected skip at %v, got %v", name, p, pos, got)
						}

						if kind == kindEOF {
							// The end of the input is sticky.
							for k := 0; k < 3; k++ {
								if r, err := in.Next(); r != 0 || err != io.EOF {
									t.Fatalf("%s: expected io.EOF again, got %q, %v", name, r, err)
								}
							}
							done = true
						}

						continue
					}

					if err != nil || r != expRune {
						t.Fatalf("%s: at %d expected %q, got %q, %v", name, p, expRune, r, err)
					}
					if got := in.forwardPos(); got != pos.after(r).position() {
						t.Fatalf("%s: behind %d expected position %v, got %v", name, p, pos.after(r), got)
					}

					in.Retract()
					if got := in.forwardPos(); got != pos.position() {
						t.Fatalf("%s: retracted to %d expected position %v, got %v", name, p, pos, got)
					}

					if r, err := in.Next(); err != nil || r != expRune {
						t.Fatalf("%s: at %d expected %q again, got %q, %v", name, p, expRune, r, err)
					}

					lexeme, lpos := in.Lexeme()
					if lexeme != string(s[p:p+taken]) || lpos != pos.position() {
						t.Fatalf("%s: at %d expected lexeme %q at %v, got %q at %v", name, p, s[p:p+taken], pos, lexeme, lpos)
					}

					p += taken
					pos = pos.after(r)
				}
			}
		}
	}
}

// TestRetractMany reads a few runes ahead and gives all of them back, one after the other.
func TestRetractMany(t *testing.T) {
	for si, sample := range samples {
		if !utf8.ValidString(sample) {
			continue
		}

		runes := []rune(sample)

		for _, n := range []int{16, 17, 64, 4096} {
			for ahead := 2; ahead <= 3; ahead++ {
				in, err := newInput("f", strings.NewReader(sample), n)
				if err != nil {
					t.Fatal(err)
				}

				name := fmt.Sprintf("sample %d (%q) size %d ahead %d", si, sample, n, ahead)
				pos := modelPos{0, 1, 1}

				for k := 0; k < len(runes); {
					m := min(ahead, len(runes)-k)
					trail := []modelPos{pos}

					for j := 0; j < m; j++ {
						r, err := in.Next()
						if err != nil || r != runes[k+j] {
							t.Fatalf("%s: rune %d expected %q, got %q, %v", name, k+j, runes[k+j], r, err)
						}
						trail = append(trail, trail[j].after(r))
					}

					for j := m; j > 0; j-- {
						if got := in.forwardPos(); got != trail[j].position() {
							t.Fatalf("%s: rune %d expected position %v, got %v", name, k+j, trail[j], got)
						}
						in.Retract()
					}

					if got := in.forwardPos(); got != pos.position() {
						t.Fatalf("%s: rune %d expected position %v, got %v", name, k, pos, got)
					}

					// One retraction too many does nothing.
					in.Retract()

					for j := 0; j < m; j++ {
						if r, err := in.Next(); err != nil || r != runes[k+j] {
							t.Fatalf("%s: rune %d expected %q again, got %q, %v", name, k+j, runes[k+j], r, err)
						}
					}

					lexeme, lpos := in.Lexeme()
					if lexeme != string(runes[k:k+m]) || lpos != pos.position() {
						t.Fatalf("%s: rune %d expected lexeme %q at %v, got %q at %v", name, k, string(runes[k:k+m]), pos, lexeme, lpos)
					}

					k, pos = k+m, trail[m]
				}

				if r, err := in.Next(); r != 0 || err != io.EOF {
					t.Fatalf("%s: expected io.EOF, got %q, %v", name, r, err)
				}
			}
		}
	}
}

// TestEveryCodePoint decodes all the code points, with a newline after each of them.
func TestEveryCodePoint(t *testing.T) {
	var b strings.Builder
	var runes []rune
	for r := rune(0); r <= utf8.MaxRune; r++ {
		if utf8.ValidRune(r) {
			b.WriteRune(r)
			runes = append(runes, r)
			if r%7 == 0 {
				b.WriteByte('\n')
				runes = append(runes, '\n')
			}
		}
	}

	for _, n := range []int{7, 64} {
		in, err := newInput("f", strings.NewReader(b.String()), n)
		if err != nil {
			t.Fatal(err)
		}

		pos := modelPos{0, 1, 1}
		for k, exp := range runes {
			r, err := in.Next()
			if err != nil || r != exp {
				t.Fatalf("size %d: rune %d expected %U, got %U, %v", n, k, exp, r, err)
			}

			if k%5 == 0 {
				in.Retract()
				if r, err := in.Next(); err != nil || r != exp {
					t.Fatalf("size %d: rune %d expected %U again, got %U, %v", n, k, exp, r, err)
				}
			}

			lexeme, lpos := in.Lexeme()
			if lexeme != string(exp) || lpos != pos.position() {
				t.Fatalf("size %d: rune %d expected %q at %v, got %q at %v", n, k, string(exp), pos, lexeme, lpos)
			}

			pos = pos.after(exp)
		}

		if r, err := in.Next(); r != 0 || err != io.EOF {
			t.Fatalf("size %d: expected io.EOF, got %q, %v", n, r, err)
		}
	}
}

// TestEveryBytePair checks the first-byte table and the ranges of the second byte exhaustively.
func TestEveryBytePair(t *testing.T) {
	for b0 := 0; b0 < 256; b0++ {
		for b1 := 0; b1 < 256; b1++ {
			s := []byte{byte(b0), byte(b1), 0x80, 0x80, 'z'}

			in, err := newInput("f", bytes.NewReader(s), 8)
			if err != nil {
				t.Fatal(err)
			}

			exp, taken, kind := decodeModel(s, 0)
			r, err := in.Next()

			if kind == kindRune {
				if err != nil || r != exp {
					t.Fatalf("% x: expected %U, got %U, %v", s, exp, r, err)
				}
				if lexeme, _ := in.Lexeme(); lexeme != string(s[:taken]) {
					t.Fatalf("% x: expected lexeme % x, got % x", s, s[:taken], lexeme)
				}
				continue
			}

			if r != 0 {
				t.Fatalf("% x: expected no rune, got %U", s, r)
			}
			checkErr(t, err, kind, modelPos{0, 1, 1})

			// The number of bytes taken shows in the rest of the input.
			in.Skip()
			exp, _, kind = decodeModel(s, taken)
			r, err = in.Next()
			if kind == kindRune && (err != nil || r != exp) {
				t.Fatalf("% x: behind the error expected %U, got %U, %v", s, exp, r, err)
			}
			if kind != kindRune {
				checkErr(t, err, kind, modelPos{0, 1, 1})
			}
		}
	}
}

// ---------------------------------------------------------------------------------------------------------------------
// The emitted lexer

type tok struct {
	term         string
	lexeme       string
	offset, l, c int
}

func scanAll(in *input) ([]tok, error) {
	l := &Lexer{in: in}

	var toks []tok
	for {
		token, err := l.NextToken()
		if err != nil {
			return toks, err
		}
		toks = append(toks, tok{string(token.Terminal), token.Lexeme, token.Pos.Offset, token.Pos.Line, token.Pos.Column})
	}
}

func TestTokens(t *testing.T) {
	tests := []struct {
		input string
		toks  []tok
		err   string
	}{
		{
			input: "ab \u00e9\u20ac\U0001F600 12\nx\u2192y",
			toks: []tok{
				{"ID", "ab", 0, 1, 1},
				{"EACUTE", "\u00e9", 3, 1, 4},
				{"EURO", "\u20ac", 4, 1, 5},
				{"GRIN", "\U0001F600", 5, 1, 6},
				{"NUM", "12", 7, 1, 8},
				{"ID", "x", 10, 2, 1},
				{"ARROW", "\u2192", 11, 2, 2},
				{"ID", "y", 12, 2, 3},
			},
			err: "EOF",
		},
		{
			input: "\u20ac\u20ac\u20ac\n\u20ac\u00e9\u20ac\u20ac\n",
			toks: []tok{
				{"EURO2", "\u20ac\u20ac", 0, 1, 1},
				{"EURO", "\u20ac", 2, 1, 3},
				{"EURO", "\u20ac", 4, 2, 1},
				{"EACUTE", "\u00e9", 5, 2, 2},
				{"EURO2", "\u20ac\u20ac", 6, 2, 3},
			},
			err: "EOF",
		},
		{
			input: "ab\n\n\U0010FFFF cd\r\n\t\U0001F600",
			toks: []tok{
				{"ID", "ab", 0, 1, 1},
				{"LAST", "\U0010FFFF", 4, 3, 1},
				{"ID", "cd", 6, 3, 3},
				{"GRIN", "\U0001F600", 11, 4, 2},
			},
			err: "EOF",
		},
		{
			input: "x1 \u20ac",
			toks: []tok{
				{"ID", "x1", 0, 1, 1},
				{"EURO", "\u20ac", 3, 1, 4},
			},
			err: "EOF",
		},
		{
			input: "ab \xff cd",
			toks:  []tok{{"ID", "ab", 0, 1, 1}},
			err:   "f:1:4: invalid utf-8 character",
		},
		{
			input: "\u00e9\n \xe2\x82\x41",
			toks:  []tok{{"EACUTE", "\u00e9", 0, 1, 1}},
			err:   "f:2:2: invalid utf-8 character",
		},
		{
			input: "\u00e9\n \xed\xa0\x80",
			toks:  []tok{{"EACUTE", "\u00e9", 0, 1, 1}},
			err:   "f:2:2: invalid utf-8 character",
		},
		{
			input: "12 \xf0\x9f\x98",
			toks:  []tok{{"NUM", "12", 0, 1, 1}},
			err:   "EOF",
		},
		{
			input: "12\n\x00",
			toks:  []tok{{"NUM", "12", 0, 1, 1}},
			err:   "lexical error at f:2:1:",
		},
		{
			input: "12 \u00ea",
			toks:  []tok{{"NUM", "12", 0, 1, 1}},
			err:   "lexical error at f:1:4:",
		},
	}

	for _, tc := range tests {
		for _, n := range []int{16, 17, 64, 4096} {
			in, err := newInput("f", strings.NewReader(tc.input), n)
			if err != nil {
				t.Fatal(err)
			}

			toks, err := scanAll(in)
			if fmt.Sprint(toks) != fmt.Sprint(tc.toks) || err == nil || err.Error() != tc.err {
				t.Errorf("%q size %d:\nexpected %q, %s\n     got %q, %v", tc.input, n, tc.toks, tc.err, toks, err)
			}
		}
	}

	if _, err := New("f", strings.NewReader("")); err != io.EOF {
		t.Errorf("empty input: expected io.EOF, got %v", err)
	}
}

// TestLongInput checks that the token stream does not depend on the length of the input or the boundaries of the buffer.
func TestLongInput(t *testing.T) {
	unit := "i\u00e9 \u20ac\u20ac\U0001F600\n" // 7 runes, 15 bytes: the units are not aligned with the buffer of 2*4096 bytes
	terms := []tok{{"ID", "i", 0, 0, 1}, {"EACUTE", "\u00e9", 1, 0, 2}, {"EURO2", "\u20ac\u20ac", 3, 0, 4}, {"GRIN", "\U0001F600", 5, 0, 6}}

	for _, count := range []int{1, 273, 274, 546, 547, 2000} {
		for _, tail := range []string{"", "\n", "z", "-"} {
			text := strings.Repeat(unit, count) + tail
			if tail == "-" { // without the final newline
				text = strings.TrimSuffix(text, "\n-")
			}

			l, err := New("f", strings.NewReader(text))
			if err != nil {
				t.Fatal(err)
			}

			toks, err := scanAll(l.in)
			if err != io.EOF {
				t.Fatalf("count %d tail %q: expected io.EOF, got %v", count, tail, err)
			}

			exp := len(terms) * count
			if tail == "z" {
				exp++
			}
			if len(toks) != exp {
				t.Fatalf("count %d tail %q: expected %d tokens, got %d", count, tail, exp, len(toks))
			}

			for k := 0; k < len(terms)*count; k++ {
				e := terms[k%len(terms)]
				e.offset += 7 * (k / len(terms))
				e.l = 1 + k/len(terms)
				if toks[k] != e {
					t.Fatalf("count %d tail %q: token %d expected %v, got %v", count, tail, k, e, toks[k])
				}
			}

			if tail == "z" {
				if e := (tok{"ID", "z", 7 * count, count + 1, 1}); toks[exp-1] != e {
					t.Fatalf("count %d: expected %v, got %v", count, e, toks[exp-1])
				}
			}
		}
	}
}
`
