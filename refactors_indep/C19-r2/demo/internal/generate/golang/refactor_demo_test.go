package golang

import (
	"bytes"
	"encoding/json"
	"fmt"
	"os"
	"os/exec"
	"path/filepath"
	"strings"
	"testing"

	"github.com/gardenbed/charm/ui"
	auto "github.com/moorara/algo/automata"

	"github.com/gardenbed/emerge/internal/ebnf/parser/spec"
)

// This is a characterization test for the emitted input buffer (templates/input.go.tmpl).
// It generates a lexer package, compiles it together with a small driver and
// compares the token streams for many inputs, buffer sizes and reader kinds with
//
//   - hand-written expectations, and
//   - a reference tokenizer that walks the token automaton of the spec directly.

var demoDefinitions = []*spec.TerminalDef{
	{Terminal: "if", Value: "if"},
	{Terminal: "=", Value: "="},
	{Terminal: "==", Value: "=="},
	{Terminal: "=>>", Value: "=>>"},
	{Terminal: "λ", Value: "λ"},
	{Terminal: "→", Value: "→"},
	{Terminal: "😀", Value: "😀"},
	{Terminal: "ID", Value: "[A-Za-z_][0-9A-Za-z_]*", IsRegex: true},
	{Terminal: "NUM", Value: "[0-9]+", IsRegex: true},
	{Terminal: "STR", Value: `"([a-z ]|\x00E9|\x2192|\x0001F600)*"`, IsRegex: true},
	{Terminal: "WS", Value: " +", IsRegex: true},
	{Terminal: "EOL", Value: "\n"},
	{Terminal: "COMMENT", Value: "#[a-z ]*", IsRegex: true},
}

const demoDriverExport = `package demolex

import "io"

// NewSized is New with a custom size for the halves of the input buffer.
func NewSized(filename string, src io.Reader, n int) (*Lexer, error) {
	in, err := newInput(filename, src, n)
	if err != nil {
		return nil, err
	}

	return &Lexer{in: in}, nil
}
`

const demoDriverMain = `package main

import (
	"bytes"
	"encoding/json"
	"errors"
	"fmt"
	"io"
	"os"
	"testing/iotest"

	"demo/demolex"
)

type demoCase struct {
	Input   []byte // base64 in JSON, the input is not necessarily valid UTF-8
	BufSize int    // 0 means demolex.New
	Reader  string // "", "onebyte", "half"
}

func run(c demoCase) []string {
	var src io.Reader = bytes.NewReader(c.Input)
	switch c.Reader {
	case "onebyte":
		src = iotest.OneByteReader(src)
	case "half":
		src = iotest.HalfReader(src)
	}

	var l *demolex.Lexer
	var err error
	if c.BufSize == 0 {
		l, err = demolex.New("f", src)
	} else {
		l, err = demolex.NewSized("f", src, c.BufSize)
	}

	if err != nil {
		return []string{"NEW " + err.Error()}
	}

	out, last := []string{}, ""
	for k := 0; k < 100000; k++ {
		tok, err := l.NextToken()

		var ie *demolex.InputError
		switch {
		case err == nil:
			last = ""
			p := tok.Pos
			out = append(out, fmt.Sprintf("%s %q %s@%d:%d:%d", string(tok.Terminal), tok.Lexeme, p.Filename, p.Offset, p.Line, p.Column))
		case err == io.EOF:
			return append(out, "EOF")
		case errors.As(err, &ie):
			return append(out, "INPUT "+err.Error())
		default:
			out = append(out, "LEX "+err.Error())
			if err.Error() == last {
				return out // no progress
			}
			last = err.Error()
		}
	}

	return append(out, "TOO MANY")
}

func main() {
	var cases []demoCase
	if err := json.NewDecoder(os.Stdin).Decode(&cases); err != nil {
		panic(err)
	}

	results := make([][]string, len(cases))
	for i, c := range cases {
		results[i] = run(c)
	}

	if err := json.NewEncoder(os.Stdout).Encode(results); err != nil {
		panic(err)
	}
}
`

type demoCase struct {
	Input   []byte
	BufSize int
	Reader  string
}

// demoReference tokenizes valid UTF-8 input by walking the token automaton, as the property prescribes.
func demoReference(dfa *auto.DFA, owner map[auto.State]string, input string) []string {
	runes := []rune(input)
	out := []string{}

	i, line, col := 0, 1, 1
	for {
		start, startLine, startCol := i, line, col
		curr := auto.State(0)
		atEOF := false

		for {
			if i == len(runes) {
				atEOF = true
				break
			}

			r := runes[i]
			next := dfa.Next(curr, auto.Symbol(r))
			if next == auto.State(-1) {
				break
			}

			curr = next
			i++
			if r == '\n' {
				line, col = line+1, 1
			} else {
				col++
			}
		}

		if curr == 0 {
			if atEOF {
				return append(out, "EOF")
			}

			if r := runes[i]; r == ' ' || r == '\t' || r == '\n' || r == '\r' {
				i++
				if r == '\n' {
					line, col = line+1, 1
				} else {
					col++
				}
				continue
			}
		}

		lexeme := string(runes[start:i])
		term, ok := owner[curr]
		switch {
		case !ok:
			msg := fmt.Sprintf("LEX lexical error at f:%d:%d:%s", startLine, startCol, lexeme)
			out = append(out, msg)
			if i == start { // no progress, the driver stops after the second identical error
				return append(out, msg)
			}
		case term == "WS" || term == "EOL" || term == "COMMENT":
		default:
			out = append(out, fmt.Sprintf("%s %q f@%d:%d:%d", term, lexeme, start, startLine, startCol))
		}
	}
}

func TestRefactorDemo(t *testing.T) {
	if _, err := exec.LookPath("go"); err != nil {
		t.Skip("go tool is not available")
	}

	tempDir := t.TempDir()

	s := &spec.Spec{
		Name:        "demolex",
		Definitions: demoDefinitions,
		Grammar:     grammars[0],
		Precedences: precedences[0],
	}

	if err := Generate(ui.NewNop(), &Params{Path: tempDir, Spec: s}); err != nil {
		t.Fatalf("generate: %s", err)
	}

	// The token automaton, for the reference tokenizer.
	dfa, termMap, err := s.DFA()
	if err != nil {
		t.Fatalf("dfa: %s", err)
	}

	owner := map[auto.State]string{}
	for term, states := range termMap {
		for _, st := range states {
			owner[st] = string(term)
		}
	}

	write := func(name, content string) {
		if err := os.WriteFile(filepath.Join(tempDir, name), []byte(content), 0o644); err != nil {
			t.Fatal(err)
		}
	}

	write("go.mod", "module demo\n\ngo 1.24.0\n")
	write("main.go", demoDriverMain)
	write(filepath.Join("demolex", "zz_demo_export.go"), demoDriverExport)

	// ---- Hand-written expectations (default buffer size unless stated otherwise) ----

	type fixed struct {
		input    string
		expected []string
	}

	fixedCases := []fixed{
		{"", []string{"NEW EOF"}},
		{"x", []string{`ID "x" f@0:1:1`, "EOF"}},
		{"x\n", []string{`ID "x" f@0:1:1`, "EOF"}},
		{"if iff i", []string{`if "if" f@0:1:1`, `ID "iff" f@3:1:4`, `ID "i" f@7:1:8`, "EOF"}},
		{"a=b==c", []string{`ID "a" f@0:1:1`, `= "=" f@1:1:2`, `ID "b" f@2:1:3`, `== "==" f@3:1:4`, `ID "c" f@5:1:6`, "EOF"}},
		{"=>>=>x", []string{`=>> "=>>" f@0:1:1`, "LEX lexical error at f:1:4:=>", `ID "x" f@5:1:6`, "EOF"}},
		{"=>", []string{"LEX lexical error at f:1:1:=>", "EOF"}},
		{"λ → 😀\nλλ", []string{`λ "λ" f@0:1:1`, `→ "→" f@2:1:3`, `😀 "😀" f@4:1:5`, `λ "λ" f@6:2:1`, `λ "λ" f@7:2:2`, "EOF"}},
		{"\"é→ 😀\"12", []string{`STR "\"é→ 😀\"" f@0:1:1`, `NUM "12" f@6:1:7`, "EOF"}},
		{"\"abc", []string{"LEX lexical error at f:1:1:\"abc", "EOF"}},
		{"a # note\n\t\r\n  b#", []string{`ID "a" f@0:1:1`, `ID "b" f@14:3:3`, "EOF"}},
		{"\n\n\nx\n\n", []string{`ID "x" f@3:4:1`, "EOF"}},
		{"a\x00b", []string{`ID "a" f@0:1:1`, "LEX lexical error at f:1:2:", "LEX lexical error at f:1:2:"}},
		{"a $", []string{`ID "a" f@0:1:1`, "LEX lexical error at f:1:3:", "LEX lexical error at f:1:3:"}},
		{"ab\xffcd", []string{`INPUT f:1:3: invalid utf-8 character`}},
		{"ab \xe2\x28\xa1", []string{`ID "ab" f@0:1:1`, `INPUT f:1:4: invalid utf-8 character`}},
	}

	var cases []demoCase
	var expected [][]string
	var labels []string

	add := func(label string, c demoCase, exp []string) {
		cases = append(cases, c)
		expected = append(expected, exp)
		labels = append(labels, label)
	}

	for k, f := range fixedCases {
		for _, n := range []int{0, 16, 17, 64} {
			for _, rd := range []string{"", "onebyte"} {
				add(fmt.Sprintf("fixed#%d/n=%d/%s", k, n, rd), demoCase{[]byte(f.input), n, rd}, f.expected)
			}
		}
	}

	// ---- Reference expectations: every alignment of the lexemes relative to the buffer boundaries ----

	unit := "if x1 == λ→😀 =>> \"é 😀\" 42#c\n\t\r\n_y=7 "
	for pad := 0; pad < 40; pad++ {
		input := strings.Repeat("\t", pad) + strings.Repeat(unit, 6)
		exp := demoReference(dfa, owner, input)
		for _, n := range []int{16, 17, 19, 32} {
			add(fmt.Sprintf("align/pad=%d/n=%d", pad, n), demoCase{[]byte(input), n, ""}, exp)
		}
		add(fmt.Sprintf("align/pad=%d/n=16/half", pad), demoCase{[]byte(input), 16, "half"}, exp)
	}

	// Inputs whose length is around the size of one half and of both halves, with and without a final newline.
	for _, n := range []int{16, 32} {
		for size := 1; size <= 4*n+2; size++ {
			body := strings.Repeat("ab 12 λ == ", size/8+1)
			input := string([]rune(body)[:size])
			add(fmt.Sprintf("len=%d/n=%d", size, n), demoCase{[]byte(input), n, ""}, demoReference(dfa, owner, input))
			add(fmt.Sprintf("len=%d+nl/n=%d", size, n), demoCase{[]byte(input + "\n"), n, ""}, demoReference(dfa, owner, input+"\n"))
		}
	}

	// Long inputs through the exported constructor (4096-byte halves), shifted byte by byte across the boundaries.
	long := strings.Repeat(unit, 500) // > 2 * 2 * 4096 bytes
	for pad := 0; pad < 12; pad++ {
		input := strings.Repeat("\r", pad) + long
		exp := demoReference(dfa, owner, input)
		add(fmt.Sprintf("long/pad=%d", pad), demoCase{[]byte(input), 0, ""}, exp)
		add(fmt.Sprintf("long/pad=%d/half", pad), demoCase{[]byte(input), 0, "half"}, exp)
	}

	// Exactly one half, exactly both halves, and one byte around them.
	for _, size := range []int{4095, 4096, 4097, 8191, 8192, 8193, 12288} {
		input := strings.Repeat("abcdefg ", size/8+1)[:size]
		exp := demoReference(dfa, owner, input)
		add(fmt.Sprintf("exact/%d", size), demoCase{[]byte(input), 0, ""}, exp)
		add(fmt.Sprintf("exact/%d/onebyte", size), demoCase{[]byte(input), 0, "onebyte"}, exp)
	}

	// The reference agrees with the hand-written expectations (sanity check of the reference itself).
	for k, f := range fixedCases[1:14] {
		got := demoReference(dfa, owner, f.input)
		if strings.Join(got, "|") != strings.Join(f.expected, "|") {
			t.Fatalf("reference disagrees on fixed#%d:\n got: %q\nwant: %q", k+1, got, f.expected)
		}
	}

	// ---- Compile and run the emitted lexer ----

	stdin, err := json.Marshal(cases)
	if err != nil {
		t.Fatal(err)
	}

	var stdout, stderr bytes.Buffer
	cmd := exec.Command("go", "run", ".")
	cmd.Dir = tempDir
	cmd.Env = append(os.Environ(), "GOFLAGS=-mod=mod", "GOPROXY=off", "GOWORK=off")
	cmd.Stdin = bytes.NewReader(stdin)
	cmd.Stdout = &stdout
	cmd.Stderr = &stderr

	if err := cmd.Run(); err != nil {
		t.Fatalf("go run: %s\n%s", err, stderr.String())
	}

	var results [][]string
	if err := json.Unmarshal(stdout.Bytes(), &results); err != nil {
		t.Fatal(err)
	}

	if len(results) != len(cases) {
		t.Fatalf("expected %d results, got %d", len(cases), len(results))
	}

	failures := 0
	for k := range cases {
		if got, want := strings.Join(results[k], "\n"), strings.Join(expected[k], "\n"); got != want {
			if failures++; failures <= 5 {
				t.Errorf("%s: token stream differs\ninput: %q\n got: %q\nwant: %q", labels[k], cases[k].Input, results[k], expected[k])
			}
		}
	}

	if failures > 0 {
		t.Errorf("%d of %d cases differ", failures, len(cases))
	}

	t.Logf("%d cases compared", len(cases))
}
