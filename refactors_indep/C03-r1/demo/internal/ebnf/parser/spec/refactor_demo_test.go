package spec

import (
	"fmt"
	"sort"
	"strings"
	"testing"

	auto "github.com/moorara/algo/automata"
	"github.com/moorara/algo/grammar"
	"github.com/moorara/algo/lexer"
)

// demoPos returns a distinct, printable position for the i-th definition of a demo case.
func demoPos(i int) *lexer.Position {
	return &lexer.Position{Filename: "demo", Offset: 10 * (i + 1), Line: i + 1, Column: 1}
}

func lit(i int, value string) *TerminalDef {
	return &TerminalDef{Terminal: grammar.Terminal(value), Value: value, IsRegex: false, Pos: demoPos(i)}
}

func pat(i int, name, regex string) *TerminalDef {
	return &TerminalDef{Terminal: grammar.Terminal(name), Value: regex, IsRegex: true, Pos: demoPos(i)}
}

// demoNone stands for "the text is rejected" in the expectations.
const demoNone = "<none>"

// demoClassify runs the combined automaton over the text and returns the terminal that owns the state reached,
// demoNone if the text is rejected, or a description of the inconsistency if the state is not owned by exactly one terminal.
func demoClassify(d *auto.DFA, termMap map[grammar.Terminal][]auto.State, text string) string {
	curr := d.Start
	for _, r := range text {
		curr = d.Next(curr, auto.Symbol(r))
	}

	owners := []string{}
	for a, states := range termMap {
		for _, s := range states {
			if s == curr {
				owners = append(owners, string(a))
			}
		}
	}
	sort.Strings(owners)

	switch final := d.Final.Contains(curr); {
	case !final && len(owners) == 0:
		return demoNone
	case final && len(owners) == 1:
		return owners[0]
	default:
		return fmt.Sprintf("<final=%t owners=%q>", final, owners)
	}
}

// demoTermMap renders a terminal mapping in a canonical, comparable form.
func demoTermMap(termMap map[grammar.Terminal][]auto.State) string {
	lines := make([]string, 0, len(termMap))
	for a, states := range termMap {
		lines = append(lines, fmt.Sprintf("%q:%v", string(a), states))
	}
	sort.Strings(lines)

	return strings.Join(lines, " ")
}

type demoCase struct {
	name    string
	defs    []*TerminalDef
	termMap string            // expected canonical terminal mapping (success only)
	texts   map[string]string // text -> owning terminal, demoNone if the text must be rejected (success only)
	err     string            // expected complete error text (failure only)
}

func demoCases() []demoCase {
	return []demoCase{
		{
			name:    "KeywordsBeatIdentifier",
			defs:    []*TerminalDef{lit(0, "if"), lit(1, "else"), pat(2, "ID", "[a-z_][a-z0-9_]*"), pat(3, "NUM", "[0-9]+")},
			termMap: `"ID":[2 3 4 5 7] "NUM":[1] "else":[8] "if":[6]`,
			texts: map[string]string{
				"": demoNone, "if": "if", "else": "else", "i": "ID", "ifx": "ID", "el": "ID", "elses": "ID", "_": "ID",
				"0": "NUM", "42": "NUM", "4x": demoNone, "x4": "ID", "IF": demoNone, "if ": demoNone,
			},
		},
		{
			name:    "LiteralPrefixesOfLiterals",
			defs:    []*TerminalDef{lit(0, "="), lit(1, "=="), lit(2, "<"), lit(3, "<="), lit(4, "<<=")},
			termMap: `"<":[1] "<<=":[6] "<=":[4] "=":[2] "==":[5]`,
			texts: map[string]string{
				"=": "=", "==": "==", "===": demoNone, "<": "<", "<=": "<=", "<<": demoNone, "<<=": "<<=", "": demoNone, "=<": demoNone,
			},
		},
		{
			name:    "LiteralDenotesItsOwnCharacters",
			defs:    []*TerminalDef{lit(0, "a+"), lit(1, ".*"), lit(2, "[a]"), lit(3, `\n`), lit(4, `"`), lit(5, "λ→"), pat(6, "AS", "a+")},
			termMap: `".*":[7] "AS":[5 11] "[a]":[13] "\"":[1] "\\n":[9] "a+":[10] "λ→":[12]`,
			texts: map[string]string{
				"a+": "a+", "a": "AS", "aa": "AS", "aa+": demoNone, ".*": ".*", "..": demoNone, "x": demoNone, "[a]": "[a]",
				`\n`: `\n`, "\n": demoNone, `"`: `"`, "λ→": "λ→", "λ": demoNone, "": demoNone,
			},
		},
		{
			name:    "LiteralBreaksTieOfTwoPatterns",
			defs:    []*TerminalDef{lit(0, "a"), pat(1, "P", "ab?"), pat(2, "Q", "a|c")},
			termMap: `"P":[3] "Q":[2] "a":[1]`,
			texts: map[string]string{
				"a": "a", "ab": "P", "c": "Q", "b": demoNone, "ac": demoNone, "": demoNone,
			},
		},
		{
			name:    "LiteralBreaksTieOfThreePatterns",
			defs:    []*TerminalDef{pat(0, "P", "if|[0-9]+"), pat(1, "Q", "i[f-g]|x"), pat(2, "R", "i?f"), lit(3, "if")},
			termMap: `"P":[1] "Q":[4] "R":[2] "if":[5]`,
			texts: map[string]string{
				"if": "if", "ig": "Q", "x": "Q", "f": "R", "7": "P", "i": demoNone, "iff": demoNone,
			},
		},
		{
			name:    "DisjointPatterns",
			defs:    []*TerminalDef{pat(0, "LOW", "[a-m]+"), pat(1, "HIGH", "[n-z]+"), pat(2, "HEX", "0x[0-9A-F]+")},
			termMap: `"HEX":[5] "HIGH":[3] "LOW":[2]`,
			texts: map[string]string{
				"abc": "LOW", "xyz": "HIGH", "an": demoNone, "0x": demoNone, "0xFF": "HEX", "0": demoNone,
			},
		},
		{
			name:    "EmptyLiteralAndStar",
			defs:    []*TerminalDef{lit(0, ""), pat(1, "AS", "a*")},
			termMap: `"":[0] "AS":[1]`,
			texts: map[string]string{
				"": "", "a": "AS", "aaa": "AS", "b": demoNone, "ab": demoNone,
			},
		},
		{
			name:    "SingleLiteral",
			defs:    []*TerminalDef{lit(0, "while")},
			termMap: `"while":[5]`,
			texts: map[string]string{
				"while": "while", "whil": demoNone, "whilee": demoNone, "": demoNone,
			},
		},
		{
			name: "OverlappingPatterns",
			defs: []*TerminalDef{pat(0, "P", "[a-c]+"), pat(1, "Q", "[c-e]+")},
			err:  "1 error occurred:\n\n  • conflicting definitions capture the same string:\n      demo:1:1: \"P\"\n      demo:2:1: \"Q\"\n",
		},
		{
			name: "LiteralCoversOnlyPartOfTheOverlap",
			defs: []*TerminalDef{lit(0, "0"), pat(1, "NUM", "[0-9]+"), pat(2, "INT", "[0-9]+")},
			err:  "1 error occurred:\n\n  • conflicting definitions capture the same string:\n      demo:2:1: \"NUM\"\n      demo:3:1: \"INT\"\n",
		},
		{
			name: "DuplicateLiterals",
			defs: []*TerminalDef{lit(0, "x"), {Terminal: "X", Value: "x", IsRegex: false, Pos: demoPos(1)}},
			err:  "1 error occurred:\n\n  • conflicting definitions capture the same string:\n      demo:1:1: \"x\"\n      demo:2:1: \"X\"\n",
		},
		{
			name: "DuplicateLiteralsAndPattern",
			defs: []*TerminalDef{lit(0, "x"), {Terminal: "X", Value: "x", IsRegex: false, Pos: demoPos(1)}, pat(2, "L", "[a-z]")},
			err:  "1 error occurred:\n\n  • conflicting definitions capture the same string:\n      demo:1:1: \"x\"\n      demo:2:1: \"X\"\n      demo:3:1: \"L\"\n",
		},
		{
			name: "SeveralConflicts",
			defs: []*TerminalDef{pat(0, "P", "ab|cd"), pat(1, "Q", "ab|ef"), pat(2, "R", "cd|ef"), lit(3, "ef"), lit(4, "gh")},
			err:  "2 errors occurred:\n\n  • conflicting definitions capture the same string:\n      demo:1:1: \"P\"\n      demo:2:1: \"Q\"\n  • conflicting definitions capture the same string:\n      demo:1:1: \"P\"\n      demo:3:1: \"R\"\n",
		},
		{
			name: "InvalidPatterns",
			defs: []*TerminalDef{pat(0, "P", "[a-"), lit(1, "x"), pat(2, "Q", "(a"), pat(3, "R", "[x-z]"), pat(4, "S", "[x-z]")},
			err:  "2 errors occurred:\n\n  • \"P\": invalid regular expression: [a-\n  • \"Q\": invalid regular expression: (a\n",
		},
		{
			name: "NoDefinitions",
			defs: []*TerminalDef{},
		},
	}
}

// TestRefactorDemo_DFA pins the observable results of Spec.DFA: the complete error text on failure, and on success
// the terminal mapping, the partition of the final states among the terminals, and the owner of many sample texts.
func TestRefactorDemo_DFA(t *testing.T) {
	for _, tc := range demoCases() {
		t.Run(tc.name, func(t *testing.T) {
			d, termMap, err := (&Spec{Definitions: tc.defs}).DFA()

			if tc.err != "" {
				if d != nil || termMap != nil {
					t.Errorf("expected no results on failure, got %v and %v", d, termMap)
				}
				if err == nil {
					t.Fatalf("expected an error, got none")
				}
				if got := err.Error(); got != tc.err {
					t.Errorf("unexpected error:\n got: %q\nwant: %q", got, tc.err)
				}
				return
			}

			if err != nil {
				t.Fatalf("unexpected error: %s", err)
			}

			if got := demoTermMap(termMap); got != tc.termMap {
				t.Errorf("unexpected terminal mapping:\n got: %s\nwant: %s", got, tc.termMap)
			}

			// Every final state is owned by exactly one terminal, and only final states are owned.
			owners := map[auto.State]int{}
			for _, states := range termMap {
				for i, s := range states {
					owners[s]++
					if i > 0 && states[i-1] >= s {
						t.Errorf("states are not in strictly ascending order: %v", states)
					}
				}
			}
			for s, n := range owners {
				if n != 1 || !d.Final.Contains(s) {
					t.Errorf("state %d has %d owners (final: %t)", s, n, d.Final.Contains(s))
				}
			}
			if len(owners) != d.Final.Size() {
				t.Errorf("%d states are owned, but there are %d final states", len(owners), d.Final.Size())
			}

			for text, want := range tc.texts {
				if got := demoClassify(d, termMap, text); got != want {
					t.Errorf("text %q: got %q, want %q", text, got, want)
				}
			}
		})
	}
}

// TestRefactorDemo_DFA_Repeatable checks that the results do not depend on map iteration order.
func TestRefactorDemo_DFA_Repeatable(t *testing.T) {
	for _, tc := range demoCases() {
		s := &Spec{Definitions: tc.defs}
		d0, m0, err0 := s.DFA()

		for i := 0; i < 20; i++ {
			d, m, err := s.DFA()
			if (err == nil) != (err0 == nil) || (err != nil && err.Error() != err0.Error()) {
				t.Fatalf("%s: error changed: %v vs %v", tc.name, err, err0)
			}
			if err == nil && (!d.Equal(d0) || demoTermMap(m) != demoTermMap(m0)) {
				t.Fatalf("%s: results changed between runs", tc.name)
			}
		}
	}
}

// TestRefactorDemo_ParsedSpec goes through the front end, so that string literals with backslash escapes,
// keywords, and patterns defined in a grammar file end up in the combined automaton.
func TestRefactorDemo_ParsedSpec(t *testing.T) {
	src := "grammar demo;\n" +
		"ID = /[a-z]+/\n" +
		"STR = /\"[a-z]*\"/\n" +
		"start = \"if\" ID STR \"\\\"\" \"\\\\\" \"\\n\" \"a\\+\";\n"

	s, err := Parse("demo", strings.NewReader(src))
	if err != nil {
		t.Fatalf("unexpected error: %s", err)
	}

	values := []string{}
	for _, def := range s.Definitions {
		values = append(values, fmt.Sprintf("%s=%q/%t", string(def.Terminal), def.Value, def.IsRegex))
	}
	wantValues := `"="\""/false \="\\"/false n="n"/false a+="a+"/false if="if"/false ID="[a-z]+"/true STR="\"[a-z]*\""/true`
	if got := strings.Join(values, " "); got != wantValues {
		t.Errorf("unexpected definitions:\n got: %s\nwant: %s", got, wantValues)
	}

	d, termMap, err := s.DFA()
	if err != nil {
		t.Fatalf("unexpected error: %s", err)
	}

	wantTermMap := `"ID":[3 4 5] "STR":[7] "\"":[1] "\\":[2] "a+":[9] "if":[10] "n":[6]`
	if got := demoTermMap(termMap); got != wantTermMap {
		t.Errorf("unexpected terminal mapping:\n got: %s\nwant: %s", got, wantTermMap)
	}

	texts := map[string]string{
		`"`: `"`, `\`: `\`, "n": "n", "\n": demoNone, `\n`: demoNone, "a+": "a+", `a\+`: demoNone, `\\`: demoNone,
		"if": "if", "i": "ID", "iff": "ID", "a": "ID", "nn": "ID", `""`: "STR", `"if"`: "STR", `"if`: demoNone, "": demoNone,
	}
	for text, want := range texts {
		if got := demoClassify(d, termMap, text); got != want {
			t.Errorf("text %q: got %q, want %q", text, got, want)
		}
	}
}
