package nfa

import (
	"fmt"
	"strings"
	"testing"

	auto "github.com/moorara/algo/automata"
	comb "github.com/moorara/algo/parser/combinator"

	"github.com/gardenbed/emerge/internal/regex/parser/ast"
)

// This file characterizes the class table users (ToCharClass, ToASCIICharClass, ToUnicodeCharClass, runesToNFA and
// their counterparts in the ast package, which are reached through ast.Parse).
// All expected values are spelled out or derived by a naive oracle that does not use the code under test.

const (
	demoSpace  = " \t\n\r\f"
	demoDigit  = "0123456789"
	demoUpper  = "ABCDEFGHIJKLMNOPQRSTUVWXYZ"
	demoLower  = "abcdefghijklmnopqrstuvwxyz"
	demoWord   = demoDigit + demoUpper + "_" + demoLower
	demoPunct  = "!\"#%&'()*,-./:;?@[\\]_{}"
	demoPo     = "!\"#%&'*,./:;?@\\"
	demoSymbol = "$+<=>^`|~"
)

// demoComplement lists the ASCII runes that do not occur in s, in ascending order.
func demoComplement(s string) string {
	out := []rune{}
	for r := rune(0); r <= 0x7F; r++ {
		found := false
		for _, c := range s {
			if c == r {
				found = true
			}
		}
		if !found {
			out = append(out, r)
		}
	}
	return string(out)
}

func demoAllASCII() string {
	return demoComplement("")
}

func demoString(s string) auto.String {
	out := auto.String{}
	for _, r := range s {
		out = append(out, auto.Symbol(r))
	}
	return out
}

// demoClassNFA is the automaton expected for a class: one transition per rune from state 0 to the final state 1.
func demoClassNFA(chars string) *auto.NFA {
	n := auto.NewNFA(0, []auto.State{1})
	for _, r := range chars {
		n.Add(0, auto.Symbol(r), []auto.State{1})
	}
	return n
}

func demoCheckClass(t *testing.T, name string, res comb.Result, ok bool, pos int, want string) {
	t.Helper()

	if !ok {
		t.Fatalf("%s: mapper rejected the class", name)
	}
	if res.Pos != pos {
		t.Errorf("%s: Pos = %d, want %d", name, res.Pos, pos)
	}

	chars, isRunes := res.Bag[bagKeyChars].([]rune)
	if !isRunes {
		t.Fatalf("%s: bag holds %T, want []rune", name, res.Bag[bagKeyChars])
	}
	if chars == nil {
		t.Errorf("%s: chars is nil, want a non-nil slice", name)
	}
	if string(chars) != want {
		t.Errorf("%s: chars = %q, want %q", name, string(chars), want)
	}

	n, isNFA := res.Val.(*auto.NFA)
	if !isNFA {
		t.Fatalf("%s: Val is %T, want *auto.NFA", name, res.Val)
	}
	if !n.Equal(demoClassNFA(want)) {
		t.Errorf("%s: unexpected automaton\n%s", name, n)
	}

	// The automaton accepts exactly the one-rune strings of the class.
	members := map[rune]bool{}
	for _, r := range want {
		members[r] = true
	}
	for _, r := range append([]rune(demoAllASCII()), 0x80, 0xFF, 0x3B1, 0x4E2D, 0x1F600) {
		if got := n.Accept(auto.String{auto.Symbol(r)}); got != members[r] {
			t.Errorf("%s: Accept(%q) = %t, want %t", name, r, got, members[r])
		}
	}
	// The automata package reads the symbol 0 as ε, so a class that holds NUL lets the empty string through.
	if got := n.Accept(auto.String{}); got != members[0] {
		t.Errorf("%s: Accept(\"\") = %t, want %t", name, got, members[0])
	}
	if len(want) > 0 {
		r := []rune(want)[0]
		if n.Accept(auto.String{auto.Symbol(r), auto.Symbol(r)}) {
			t.Errorf("%s: a two-rune string is accepted", name)
		}
	}
}

func TestRefactorDemo_ToCharClass(t *testing.T) {
	tests := map[string]string{
		`\s`: demoSpace,
		`\S`: demoComplement(demoSpace),
		`\d`: demoDigit,
		`\D`: demoComplement(demoDigit),
		`\w`: demoWord,
		`\W`: demoComplement(demoWord),
	}

	// A few fully spelled-out expectations, so that the oracle itself is pinned down.
	if got, want := tests[`\W`], "\x00\x01\x02\x03\x04\x05\x06\a\b\t\n\v\f\r\x0e\x0f\x10\x11\x12\x13\x14\x15\x16\x17\x18\x19\x1a\x1b\x1c\x1d\x1e\x1f !\"#$%&'()*+,-./:;<=>?@[\\]^`{|}~\x7f"; got != want {
		t.Fatalf("oracle: %q != %q", got, want)
	}
	if got := len(tests[`\S`]); got != 123 {
		t.Fatalf("oracle: \\S has %d runes", got)
	}
	if got := len(tests[`\D`]); got != 118 {
		t.Fatalf("oracle: \\D has %d runes", got)
	}

	for class, want := range tests {
		m := new(mappers)
		res, ok := m.ToCharClass(comb.Result{Val: class, Pos: 7})
		demoCheckClass(t, class, res, ok, 7, want)
		if m.errors != nil {
			t.Errorf("%s: unexpected error %s", class, m.errors)
		}
	}

	// Names that are in the class table, or look like a shorthand, are not shorthand classes.
	for _, class := range []string{``, `s`, `\`, `\x`, `\b`, `\ss`, `\s `, ` \s`, `\Z`, `ASCII`, `UTF-8`, `[:digit:]`, `Lu`, `\p`, `\P`} {
		m := new(mappers)
		res, ok := m.ToCharClass(comb.Result{Val: class, Pos: 3})
		if ok || res.Val != nil || res.Pos != 0 || res.Bag != nil {
			t.Errorf("ToCharClass(%q) = %v, %t; want the zero result and false", class, res, ok)
		}
	}
}

func TestRefactorDemo_ToASCIICharClass(t *testing.T) {
	tests := map[string]string{
		`[:blank:]`:  " \t",
		`[:space:]`:  " \t\n\r\f\v",
		`[:digit:]`:  demoDigit,
		`[:xdigit:]`: demoDigit + "ABCDEF" + "abcdef",
		`[:upper:]`:  demoUpper,
		`[:lower:]`:  demoLower,
		`[:alpha:]`:  demoUpper + demoLower,
		`[:alnum:]`:  demoDigit + demoUpper + demoLower,
		`[:word:]`:   demoWord,
		`[:ascii:]`:  demoAllASCII(),
		// The mapper looks the name up in the whole class table.
		`\s`:    demoSpace,
		`ASCII`: demoAllASCII(),
		`Sk`:    "^`",
		`Lt`:    "",
	}

	for class, want := range tests {
		m := new(mappers)
		res, ok := m.ToASCIICharClass(comb.Result{Val: class, Pos: 11})
		demoCheckClass(t, class, res, ok, 11, want)
	}

	for _, class := range []string{``, `[:foo:]`, `[:BLANK:]`, `[:blank:] `, `blank`, `\S`, `\D`, `\W`, `ascii`, `lu`} {
		m := new(mappers)
		res, ok := m.ToASCIICharClass(comb.Result{Val: class, Pos: 3})
		if ok || res.Val != nil || res.Pos != 0 || res.Bag != nil {
			t.Errorf("ToASCIICharClass(%q) = %v, %t; want the zero result and false", class, res, ok)
		}
	}
}

func TestRefactorDemo_ToUnicodeCharClass(t *testing.T) {
	classes := map[string]string{
		`Letter`: demoUpper + demoLower, `L`: demoUpper + demoLower, `Lu`: demoUpper, `Ll`: demoLower, `Lt`: "", `Lm`: "", `Lo`: "",
		`Mark`: "", `M`: "", `Mn`: "", `Mc`: "", `Me`: "",
		`Number`: demoDigit, `N`: demoDigit, `Nd`: demoDigit, `Nl`: "", `No`: "",
		`Punctuation`: demoPunct, `P`: demoPunct, `Pc`: "_", `Pd`: "-", `Ps`: "([{", `Pe`: ")]}", `Pi`: "", `Pf`: "", `Po`: demoPo,
		`Symbol`: demoSymbol, `S`: demoSymbol, `Sm`: "+<=>|~", `Sc`: "$", `Sk`: "^`", `So`: "",
		`Separator`: " ", `Z`: " ", `Zs`: " ", `Zl`: "", `Zp`: "",
	}

	arg := func(prop, class string) comb.Result {
		return comb.Result{
			Val: comb.List{
				{Val: prop, Pos: 4},
				{Val: '{', Pos: 6},
				{Val: class, Pos: 7},
				{Val: '}', Pos: 7 + len(class)},
			},
			Pos: 4,
		}
	}

	for class, want := range classes {
		m := new(mappers)
		res, ok := m.ToUnicodeCharClass(arg(`\p`, class))
		demoCheckClass(t, `\p{`+class+`}`, res, ok, 4, want)

		res, ok = m.ToUnicodeCharClass(arg(`\P`, class))
		demoCheckClass(t, `\P{`+class+`}`, res, ok, 4, demoComplement(want))
	}

	// Scripts and derived classes reach beyond ASCII: only their size and their ends are spelled out.
	big := []struct {
		class       string
		count       int
		first, last rune
		negated     string
	}{
		{`Latin`, 0x250 + 0x100, 0x0000, 0x1EFF, ""},
		{`Greek`, 0x90 + 0x100, 0x0370, 0x1FFF, demoAllASCII()},
		{`Cyrillic`, 0x100 + 0x30 + 0x20 + 0x60 + 0x10, 0x0400, 0x1C8F, demoAllASCII()},
		{`Math`, 0x100 + 0x30 + 0x80 + 0x100 + 0x400, 0x2200, 0x1D7FF, demoAllASCII()},
		{`Emoji`, 0x300 + 0x50 + 0x80 + 0x100 + 0x90, 0x1F300, 0x1FAFF, demoAllASCII()},
		{`Persian`, 0x100 + 0x30 + 0x60 + 0x30 + 0x2B0 + 0x90 + 0x40, 0x0600, 0x103DF, demoAllASCII()},
	}

	for _, tc := range big {
		m := new(mappers)
		res, ok := m.ToUnicodeCharClass(arg(`\p`, tc.class))
		if !ok {
			t.Fatalf("%s: rejected", tc.class)
		}
		chars := res.Bag[bagKeyChars].([]rune)
		if len(chars) != tc.count || chars[0] != tc.first || chars[len(chars)-1] != tc.last {
			t.Errorf("%s: %d runes from %U to %U, want %d from %U to %U",
				tc.class, len(chars), chars[0], chars[len(chars)-1], tc.count, tc.first, tc.last)
		}
		n := res.Val.(*auto.NFA)
		symbols := tc.count
		if tc.first == 0 {
			symbols-- // the automata package reads the symbol 0 as ε, which is not part of the alphabet
		}
		if got := len(n.Symbols()); got != symbols {
			t.Errorf("%s: the automaton has %d symbols, want %d", tc.class, got, symbols)
		}
		for _, r := range []rune{tc.first, tc.last} {
			if !n.Accept(auto.String{auto.Symbol(r)}) {
				t.Errorf("%s: %U is not accepted", tc.class, r)
			}
		}
		if n.Accept(auto.String{auto.Symbol(tc.last + 1)}) {
			t.Errorf("%s: %U is accepted", tc.class, tc.last+1)
		}

		res, ok = m.ToUnicodeCharClass(arg(`\P`, tc.class))
		demoCheckClass(t, `\P{`+tc.class+`}`, res, ok, 4, tc.negated)
	}

	// Any property other than \P is read as \p; unknown classes are rejected.
	m := new(mappers)
	res, ok := m.ToUnicodeCharClass(arg(`\q`, `Nd`))
	demoCheckClass(t, `\q{Nd}`, res, ok, 4, demoDigit)

	for _, class := range []string{``, `Xx`, `lu`, `LU`, `Lu `, `letter`, `\S`, `\W`, `[:Digit:]`} {
		for _, prop := range []string{`\p`, `\P`} {
			res, ok := m.ToUnicodeCharClass(arg(prop, class))
			if ok || res.Val != nil || res.Pos != 0 || res.Bag != nil {
				t.Errorf("ToUnicodeCharClass(%s{%s}) = %v, %t; want the zero result and false", prop, class, res, ok)
			}
		}
	}
}

func TestRefactorDemo_runesToNFA(t *testing.T) {
	tests := []struct {
		neg   bool
		runes []rune
		want  string
	}{
		{false, nil, ""},
		{false, []rune{}, ""},
		{false, []rune("cab"), "cab"},
		{false, []rune("abca"), "abca"}, // duplicates are kept in the list
		{false, []rune{'a', 0x3B1, 0x10FFFF}, "aα\U0010FFFF"},
		{true, nil, demoAllASCII()},
		{true, []rune{}, demoAllASCII()},
		{true, []rune("cab"), demoComplement("abc")},
		{true, []rune("abca"), demoComplement("abc")},
		{true, []rune{0x00, 0x7F}, demoComplement("\x00\x7f")},
		{true, []rune{0x80, 0x3B1, -1}, demoAllASCII()}, // runes outside ASCII exclude nothing
		{true, []rune(demoAllASCII()), ""},
	}

	for i, tc := range tests {
		name := fmt.Sprintf("case %d", i)
		input := append([]rune(nil), tc.runes...)

		n, chars := runesToNFA(tc.neg, tc.runes...)
		if chars == nil || string(chars) != tc.want {
			t.Errorf("%s: chars = %q (nil: %t), want %q", name, string(chars), chars == nil, tc.want)
		}
		if !n.Equal(demoClassNFA(tc.want)) {
			t.Errorf("%s: unexpected automaton\n%s", name, n)
		}

		// The result never aliases the argument and the argument is left alone.
		if len(chars) > 0 && len(tc.runes) > 0 {
			chars[0]++
			if string(tc.runes) != string(input) {
				t.Errorf("%s: the result shares memory with the argument", name)
			}
		}
	}
}

type demoAccept struct {
	in   string
	want bool
}

func TestRefactorDemo_Patterns(t *testing.T) {
	// The expectations follow the documented meaning of the pattern; the DFA built from the syntax tree meets all of them.
	// The automata package reads the symbol 0 as ε, so in the NFA front end a class that holds NUL can be skipped:
	// epsilon lists the inputs on which that front end answers the opposite, and inputs with a NUL are not given to it.
	tests := []struct {
		regex   string
		cases   []demoAccept
		epsilon []string
	}{
		{regex: `\d+`, cases: []demoAccept{{"", false}, {"0", true}, {"2026", true}, {"20a6", false}, {" 1", false}, {"٣", false}}},
		{regex: `\D`, cases: []demoAccept{{"", false}, {"5", false}, {"a", true}, {"\x00", true}, {"\x7f", true}, {"ab", false}, {"é", false}}, epsilon: []string{""}},
		{regex: `\s*\S+\s*`, cases: []demoAccept{{"", false}, {" ", false}, {"x", true}, {" \t\n\r\fxy\f", true}, {"x y", false}, {"\v", true}, {" \v ", true}}, epsilon: []string{"", " "}},
		{regex: `\w+`, cases: []demoAccept{{"_", true}, {"aZ_09", true}, {"a-b", false}, {"", false}, {"a b", false}}},
		{regex: `\W\w`, cases: []demoAccept{{"-a", true}, {"aa", false}, {"--", false}, {"\x00_", true}, {"-", false}}},
		{regex: `[\d\s]+`, cases: []demoAccept{{"1 2\t3", true}, {"", false}, {"1a", false}, {"\v", false}}},
		{regex: `[^\w]`, cases: []demoAccept{{"-", true}, {"_", false}, {"a", false}, {"\x7f", true}, {"", false}, {"--", false}}, epsilon: []string{""}},
		{regex: `[^\W]`, cases: []demoAccept{{"-", false}, {"_", true}, {"a", true}, {"9", true}}},
		{regex: `[\D]`, cases: []demoAccept{{"1", false}, {"x", true}, {"\n", true}}},
		{regex: `[[:xdigit:]]{2}`, cases: []demoAccept{{"fF", true}, {"0a", true}, {"g0", false}, {"0", false}, {"000", false}}},
		{regex: `[^[:alpha:]\d]`, cases: []demoAccept{{"a", false}, {"Z", false}, {"5", false}, {"_", true}, {" ", true}, {"", false}}, epsilon: []string{""}},
		{regex: `[[:blank:][:upper:]]*`, cases: []demoAccept{{"", true}, {"A B\tC", true}, {"a", false}, {"\n", false}}},
		{regex: `[[:space:]]`, cases: []demoAccept{{"\v", true}, {"\f", true}, {" ", true}, {"x", false}}},
		{regex: `[[:ascii:]]`, cases: []demoAccept{{"\x00", true}, {"\x7f", true}, {"~", true}, {"\u0080", false}, {"", false}}, epsilon: []string{""}},
		{regex: `[:word:]+`, cases: []demoAccept{{"_aZ0", true}, {"-", false}, {"", false}}},
		{regex: `\p{Lu}\p{Ll}*`, cases: []demoAccept{{"Hello", true}, {"H", true}, {"hello", false}, {"HeLlo", false}, {"", false}}},
		{regex: `\P{P}+`, cases: []demoAccept{{"abc 123", true}, {"a,b", false}, {"$", true}, {"_", false}, {"", false}}, epsilon: []string{""}},
		{regex: `\p{Po}`, cases: []demoAccept{{"!", true}, {"\\", true}, {"(", false}, {"-", false}, {"_", false}, {"'", true}, {"&", true}, {"+", false}}},
		{regex: `\p{S}|\p{Zs}`, cases: []demoAccept{{"$", true}, {" ", true}, {"=", true}, {"a", false}, {"\t", false}}},
		{regex: `\P{Lt}`, cases: []demoAccept{{"a", true}, {"\x00", true}, {"", false}, {"ǅ", false}}, epsilon: []string{""}},
		{regex: `a\p{Lt}?b`, cases: []demoAccept{{"ab", true}, {"aǅb", false}, {"a", false}}},
		{regex: `[\p{N}\p{Pd}]+`, cases: []demoAccept{{"2026-10-01", true}, {"2026/10/01", false}, {"", false}}},
		{regex: `[^\p{L}\P{N}]`, cases: []demoAccept{{"1", true}, {"a", false}, {"-", false}, {"", false}}},
		{regex: `\p{Greek}+`, cases: []demoAccept{{"αβγ", true}, {"abc", false}, {"", false}, {"αa", false}}},
		{regex: `\P{Greek}`, cases: []demoAccept{{"a", true}, {"α", false}, {"é", false}}},
		{regex: `\P{Latin}`, cases: []demoAccept{{"a", false}, {"α", false}, {"", false}}},
		{regex: `x\P{Latin}*y`, cases: []demoAccept{{"xy", true}, {"xay", false}}},
	}

	for _, tc := range tests {
		n, err := Parse(tc.regex)
		if err != nil {
			t.Errorf("nfa.Parse(%s): %s", tc.regex, err)
			continue
		}
		d := n.ToDFA()
		min := d.Minimize()

		a, err := ast.Parse(tc.regex)
		if err != nil {
			t.Errorf("ast.Parse(%s): %s", tc.regex, err)
			continue
		}
		direct := a.ToDFA()

		for _, c := range tc.cases {
			s := demoString(c.in)
			if got := direct.Accept(s); got != c.want {
				t.Errorf("%s: DFA of the syntax tree accepts %q = %t, want %t", tc.regex, c.in, got, c.want)
			}

			if strings.ContainsRune(c.in, 0) {
				continue
			}

			want := c.want
			for _, e := range tc.epsilon {
				if e == c.in {
					want = !want
				}
			}

			if got := n.Accept(s); got != want {
				t.Errorf("%s: NFA accepts %q = %t, want %t", tc.regex, c.in, got, want)
			}
			if got := d.Accept(s); got != want {
				t.Errorf("%s: DFA accepts %q = %t, want %t", tc.regex, c.in, got, want)
			}
			if got := min.Accept(s); got != want {
				t.Errorf("%s: minimal DFA accepts %q = %t, want %t", tc.regex, c.in, got, want)
			}
		}
	}

	// A class that reaches beyond ASCII is refused inside a bracket group by both front ends.
	for _, regex := range []string{`[\p{Greek}]`, `[^\p{Latin}]`, `[a\p{Emoji}]`} {
		_, errN := Parse(regex)
		_, errA := ast.Parse(regex)
		if errN == nil || errA == nil {
			t.Errorf("%s: errors = %v, %v; want both front ends to fail", regex, errN, errA)
		} else if errN.Error() != errA.Error() {
			t.Errorf("%s: the front ends disagree: %q vs %q", regex, errN, errA)
		}
	}

	// Unknown classes do not parse as classes.
	for _, regex := range []string{`\p{Xx}`, `\P{lu}`, `\p{}`} {
		if _, err := Parse(regex); err == nil {
			t.Errorf("nfa.Parse(%s) succeeded", regex)
		}
		if _, err := ast.Parse(regex); err == nil {
			t.Errorf("ast.Parse(%s) succeeded", regex)
		}
	}
}

// demoLeaves lists the characters of a syntax tree from left to right.
func demoLeaves(n ast.Node) []rune {
	switch v := n.(type) {
	case *ast.Concat:
		out := []rune{}
		for _, e := range v.Exprs {
			out = append(out, demoLeaves(e)...)
		}
		return out
	case *ast.Alt:
		out := []rune{}
		for _, e := range v.Exprs {
			out = append(out, demoLeaves(e)...)
		}
		return out
	case *ast.Star:
		return demoLeaves(v.Expr)
	case *ast.Char:
		return []rune{v.Val}
	default:
		return nil
	}
}

// The syntax tree of a class lists the runes of the class in table order, followed by the end marker.
func TestRefactorDemo_SyntaxTreeOrder(t *testing.T) {
	const end = "\uEEEE"

	tests := map[string]string{
		`\s`:          demoSpace,
		`\S`:          demoComplement(demoSpace),
		`\d`:          demoDigit,
		`\D`:          demoComplement(demoDigit),
		`\w`:          demoWord,
		`\W`:          demoComplement(demoWord),
		`[:blank:]`:   " \t",
		`[:space:]`:   " \t\n\r\f\v",
		`[:xdigit:]`:  demoDigit + "ABCDEF" + "abcdef",
		`[:word:]`:    demoWord,
		`[:ascii:]`:   demoAllASCII(),
		`\p{Po}`:      demoPo,
		`\P{Po}`:      demoComplement(demoPo),
		`\p{Symbol}`:  demoSymbol,
		`\P{S}`:       demoComplement(demoSymbol),
		`\p{Lt}`:      "",
		`\P{Lt}`:      demoAllASCII(),
		`\P{Latin}`:   "",
		`\P{Han}`:     demoAllASCII(),
		`\d\D`:        demoDigit + demoComplement(demoDigit),
		`\p{Pd}\P{N}`: "-" + demoComplement(demoDigit),
	}

	for regex, want := range tests {
		a, err := ast.Parse(regex)
		if err != nil {
			t.Errorf("ast.Parse(%s): %s", regex, err)
			continue
		}
		if got := string(demoLeaves(a.Root)); got != want+end {
			t.Errorf("%s: leaves = %q, want %q", regex, got, want+end)
		}
	}
}
