package lexer

import (
	"errors"
	"fmt"
	"io"
	"strings"
	"testing"

	"github.com/moorara/algo/lexer"
	"github.com/moorara/algo/lexer/input"
)

// This file characterizes the in-memory input reader (textInput) and the positions that the lexer reports through it.
// It only uses newTextInput and the methods of the inputBuffer interface, so it does not depend on how the reader is built.

const demoFile = "demo.grammar"

func demoPos(offset, line, column int) lexer.Position {
	return lexer.Position{Filename: demoFile, Offset: offset, Line: line, Column: column}
}

// demoStep is one call on the input reader together with its expected result.
type demoStep struct {
	op     string // "next", "retract", "lexeme", "skip"
	r      rune   // next: the expected rune
	err    string // next: the expected error message ("" for none)
	lexeme string // lexeme: the expected lexeme
	pos    lexer.Position
}

func demoNext(r rune) demoStep        { return demoStep{op: "next", r: r} }
func demoNextErr(err string) demoStep { return demoStep{op: "next", err: err} }
func demoRetract() demoStep           { return demoStep{op: "retract"} }
func demoSkip(o, l, c int) demoStep   { return demoStep{op: "skip", pos: demoPos(o, l, c)} }
func demoLexeme(s string, o, l, c int) demoStep {
	return demoStep{op: "lexeme", lexeme: s, pos: demoPos(o, l, c)}
}

func TestRefactorDemo_TextInputScripts(t *testing.T) {
	const badUTF8 = "invalid utf-8 character"

	tests := []struct {
		name  string
		text  string
		steps []demoStep
	}{
		{
			name: "Empty",
			text: "",
			steps: []demoStep{
				demoNextErr("EOF"),
				demoRetract(),
				demoLexeme("", 0, 1, 1),
				demoSkip(0, 1, 1),
				demoNextErr("EOF"),
			},
		},
		{
			name: "MultiByteRunesAndNewlines",
			text: "ab\ncé世\U0001F600z",
			steps: []demoStep{
				demoNext('a'), demoNext('b'), demoNext('\n'),
				demoLexeme("ab\n", 0, 1, 1),
				demoNext('c'), demoNext('é'),
				demoRetract(),
				demoLexeme("c", 3, 2, 1),
				demoNext('é'), demoNext('世'), demoNext('\U0001F600'),
				demoRetract(), demoRetract(),
				demoSkip(4, 2, 2),
				demoNext('世'), demoNext('\U0001F600'), demoNext('z'),
				demoNextErr("EOF"),
				demoLexeme("世\U0001F600z", 5, 2, 3),
				demoNextErr("EOF"),
				demoSkip(8, 2, 6),
				demoRetract(),
				demoNextErr("EOF"),
				demoLexeme("", 8, 2, 6),
			},
		},
		{
			name: "RetractToTheBeginningOfTheLexemeAndNotFurther",
			text: "é\né",
			steps: []demoStep{
				demoNext('é'), demoNext('\n'),
				demoSkip(0, 1, 1),
				demoRetract(), // nothing is pending
				demoNext('é'),
				demoRetract(),
				demoRetract(), // nothing is pending any more
				demoLexeme("", 2, 2, 1),
				demoNext('é'),
				demoNextErr("EOF"),
				demoLexeme("é", 2, 2, 1),
				demoSkip(3, 2, 2),
			},
		},
		{
			name: "CarriageReturnIsNotALineBreak",
			text: "a\r\n\r\rb\n\n",
			steps: []demoStep{
				demoNext('a'), demoNext('\r'), demoNext('\n'), demoNext('\r'),
				demoSkip(0, 1, 1),
				demoNext('\r'), demoNext('b'),
				demoLexeme("\rb", 4, 2, 2),
				demoNext('\n'), demoNext('\n'),
				demoRetract(),
				demoSkip(6, 2, 4),
				demoNext('\n'),
				demoLexeme("\n", 7, 3, 1),
				demoSkip(8, 4, 1),
			},
		},
		{
			name: "LexemeWithSeveralLines",
			text: "/* x\néé\n  */;",
			steps: []demoStep{
				demoNext('/'), demoNext('*'), demoNext(' '), demoNext('x'), demoNext('\n'),
				demoNext('é'), demoNext('é'), demoNext('\n'),
				demoNext(' '), demoNext(' '), demoNext('*'), demoNext('/'), demoNext(';'),
				demoRetract(),
				demoSkip(0, 1, 1),
				demoNext(';'),
				demoLexeme(";", 12, 3, 5),
				demoSkip(13, 3, 6),
			},
		},
		{
			name: "InvalidByteInTheMiddle",
			text: "x\ny\xffz",
			steps: []demoStep{
				demoNext('x'), demoNext('\n'), demoNext('y'),
				demoNextErr(demoFile + ":2:2: " + badUTF8),
				demoNextErr(demoFile + ":2:2: " + badUTF8),
				demoRetract(),
				demoLexeme("x\n", 0, 1, 1),
				demoNext('y'),
				demoNextErr(demoFile + ":2:2: " + badUTF8),
				demoSkip(2, 2, 1),
				demoNextErr(demoFile + ":2:2: " + badUTF8),
				demoLexeme("", 3, 2, 2),
			},
		},
		{
			name: "TruncatedRuneAtTheEnd",
			text: "a\xe4\xb8",
			steps: []demoStep{
				demoNext('a'),
				demoNextErr(demoFile + ":1:2: " + badUTF8),
				demoLexeme("a", 0, 1, 1),
				demoNextErr(demoFile + ":1:2: " + badUTF8),
			},
		},
		{
			name: "EncodedReplacementCharacterIsValid",
			text: "\xef\xbf\xbd\n\xc0",
			steps: []demoStep{
				demoNext('�'), demoNext('\n'),
				demoNextErr(demoFile + ":2:1: " + badUTF8),
				demoRetract(),
				demoLexeme("�", 0, 1, 1),
				demoNext('\n'),
				demoSkip(1, 1, 2),
				demoNextErr(demoFile + ":2:1: " + badUTF8),
			},
		},
	}

	for _, tc := range tests {
		t.Run(tc.name, func(t *testing.T) {
			in := newTextInput(demoFile, []byte(tc.text))

			for k, step := range tc.steps {
				switch step.op {
				case "next":
					r, err := in.Next()
					if step.err == "" {
						if err != nil || r != step.r {
							t.Fatalf("step %d: Next() = %q, %v; expected %q", k, r, err, step.r)
						}
						break
					}

					if err == nil || err.Error() != step.err || r != 0 {
						t.Fatalf("step %d: Next() = %q, %v; expected the error %q", k, r, err, step.err)
					}

					var inputErr *input.InputError
					if step.err == "EOF" {
						if err != io.EOF {
							t.Fatalf("step %d: Next() does not return io.EOF itself: %#v", k, err)
						}
					} else if !errors.As(err, &inputErr) || inputErr.Pos.Filename != demoFile {
						t.Fatalf("step %d: Next() does not return an InputError for the file: %#v", k, err)
					}

				case "retract":
					in.Retract()

				case "lexeme":
					lexeme, pos := in.Lexeme()
					if lexeme != step.lexeme || pos != step.pos {
						t.Fatalf("step %d: Lexeme() = %q, %#v; expected %q, %#v", k, lexeme, pos, step.lexeme, step.pos)
					}

				case "skip":
					if pos := in.Skip(); pos != step.pos {
						t.Fatalf("step %d: Skip() = %#v; expected %#v", k, pos, step.pos)
					}
				}
			}
		})
	}
}

// demoModel is a deliberately naive model of the input reader: it works on runes and
// computes every position by walking over the text from its beginning.
type demoModel struct {
	runes      []rune
	begin, fwd int
}

func (m *demoModel) posOf(n int) lexer.Position {
	pos := demoPos(0, 1, 1)
	for _, r := range m.runes[:n] {
		pos.Offset++
		pos.Column++
		if r == '\n' {
			pos.Line, pos.Column = pos.Line+1, 1
		}
	}
	return pos
}

// TestRefactorDemo_TextInputAgainstModel runs long, deterministic pseudo-random sequences of calls against the model.
func TestRefactorDemo_TextInputAgainstModel(t *testing.T) {
	texts := []string{
		"",
		"\n",
		"\n\n\n",
		"a",
		"grammar demo;\nNUM = /[0-9]+/;\n\nexpr = expr \"+\" expr | NUM;\n",
		"é世\U0001F600\n\néé\r\n\t世\n\U0001F600",
		"no line break at all, only one long line with ü and ß",
		"\r\r\n\r\n\n\r",
		strings.Repeat("abé\n", 40),
		strings.Repeat("\n", 50) + "x",
		"�\n��\n",
	}

	calls := 0

	for n, text := range texts {
		for seed := uint32(1); seed <= 25; seed++ {
			in := newTextInput(demoFile, []byte(text))
			m := &demoModel{runes: []rune(text)}

			state := seed*2654435761 + uint32(n)
			rnd := func(k uint32) uint32 {
				state = state*1664525 + 1013904223
				return (state >> 16) % k
			}

			for step := 0; step < 400; step++ {
				calls++

				switch c := rnd(10); {
				case c < 6: // Next
					r, err := in.Next()
					if m.fwd == len(m.runes) {
						if err != io.EOF || r != 0 {
							t.Fatalf("text %d, seed %d, step %d: Next() = %q, %v; expected io.EOF", n, seed, step, r, err)
						}
					} else {
						if err != nil || r != m.runes[m.fwd] {
							t.Fatalf("text %d, seed %d, step %d: Next() = %q, %v; expected %q", n, seed, step, r, err, m.runes[m.fwd])
						}
						m.fwd++
					}

				case c < 8: // Retract
					in.Retract()
					if m.fwd > m.begin {
						m.fwd--
					}

				case c < 9: // Lexeme
					lexeme, pos := in.Lexeme()
					expLexeme, expPos := string(m.runes[m.begin:m.fwd]), m.posOf(m.begin)
					if lexeme != expLexeme || pos != expPos {
						t.Fatalf("text %d, seed %d, step %d: Lexeme() = %q, %#v; expected %q, %#v", n, seed, step, lexeme, pos, expLexeme, expPos)
					}
					m.begin = m.fwd

				default: // Skip
					pos := in.Skip()
					if expPos := m.posOf(m.begin); pos != expPos {
						t.Fatalf("text %d, seed %d, step %d: Skip() = %#v; expected %#v", n, seed, step, pos, expPos)
					}
					m.begin = m.fwd
				}
			}

			// The position of the end of the text is the same, whichever way it was reached.
			for {
				if _, err := in.Next(); err != nil {
					break
				}
			}

			in.Skip()
			if pos, expPos := in.Skip(), m.posOf(len(m.runes)); pos != expPos {
				t.Fatalf("text %d, seed %d: position of the end = %#v; expected %#v", n, seed, pos, expPos)
			}
		}
	}

	if calls != len(texts)*25*400 {
		t.Fatalf("unexpected number of calls: %d", calls)
	}
}

// demoScan scans a text to its end, or to the first error, and renders the tokens and the error.
func demoScan(t *testing.T, text string) ([]string, error) {
	t.Helper()

	l, err := New(demoFile, strings.NewReader(text))
	if err != nil {
		t.Fatalf("New() fails: %s", err)
	}

	var tokens []string
	for {
		token, err := l.NextToken()
		if err != nil {
			return tokens, err
		}

		if token.Pos.Filename != demoFile {
			t.Fatalf("token %s does not name the file", token)
		}

		tokens = append(tokens, fmt.Sprintf("%s %q @%d:%d:%d", string(token.Terminal), token.Lexeme, token.Pos.Offset, token.Pos.Line, token.Pos.Column))
	}
}

func TestRefactorDemo_TokenPositions(t *testing.T) {
	text := "grammar demo;\r\n" +
		"/* multi\n   line */ NUM = /[0-9]+/;\n" +
		"\texpr = expr \"+\" expr | NUM;"

	expectedTokens := []string{
		`grammar "grammar" @0:1:1`,
		`IDENT "demo" @8:1:9`,
		`; ";" @12:1:13`,
		`TOKEN "NUM" @35:3:12`,
		`= "=" @39:3:16`,
		`REGEX "[0-9]+" @41:3:18`,
		`; ";" @49:3:26`,
		`IDENT "expr" @52:4:2`,
		`= "=" @57:4:7`,
		`IDENT "expr" @59:4:9`,
		`STRING "+" @64:4:14`,
		`IDENT "expr" @68:4:18`,
		`| "|" @73:4:23`,
		`TOKEN "NUM" @75:4:25`,
		`; ";" @78:4:28`,
	}

	tokens, err := demoScan(t, text)
	if err != io.EOF {
		t.Fatalf("expected io.EOF at the end, got %v", err)
	}

	if len(tokens) != len(expectedTokens) {
		t.Fatalf("expected %d tokens, got %d: %q", len(expectedTokens), len(tokens), tokens)
	}

	for k := range tokens {
		if tokens[k] != expectedTokens[k] {
			t.Errorf("token %d: expected %s, got %s", k, expectedTokens[k], tokens[k])
		}
	}
}

func TestRefactorDemo_FirstOffendingLexeme(t *testing.T) {
	tests := []struct {
		name           string
		text           string
		expectedTokens int
		expectedError  string
	}{
		{"Empty", "", 0, "EOF"},
		{"OnlyBlanksAndComments", " \t\r\n// one\n# x", 0, "lexical error at demo.grammar:3:1:"},
		{"OnlyBlanksAndCommentsEOF", " \t\r\n// one\n/* two\n*/\n\n", 0, "EOF"},
		{"StrayCharacter", "grammar x;\nAA = \"a\";\n  ~ B", 7, "lexical error at demo.grammar:3:3:"},
		{"StrayCharacterThenMore", "grammar x;\nAA = \"a\";\n  ~ B = $ \xff \"", 7, "lexical error at demo.grammar:3:3:"},
		{"StrayNonASCII", "a = é", 2, "lexical error at demo.grammar:1:5:"},
		{"NonASCIIEndsAComment", "// ok é\nx", 0, "lexical error at demo.grammar:1:7:"},
		{"NonASCIIBeforeTheError", "/* ok */ a\n/* é */", 1, "lexical error at demo.grammar:2:1:/* "},
		{"IncompletePredef", "a = b\n  $x", 3, "lexical error at demo.grammar:2:3:$"},
		{"IncompleteDirective", "@left @lex", 1, "lexical error at demo.grammar:1:7:@le"},
		{"UnterminatedStringAtTheEnd", "x = \"abc", 2, "lexical error at demo.grammar:1:5:\"abc"},
		{"StringWithLineBreak", "x = \"ab\ncd\";", 2, "lexical error at demo.grammar:1:5:\"ab"},
		{"UnterminatedCommentAtTheEnd", "a\n/* x\ny", 1, "lexical error at demo.grammar:2:1:/* x\ny"},
		{"UnterminatedRegexAtTheEnd", "NN = /ab\\/", 2, "lexical error at demo.grammar:1:6:/ab\\/"},
		{"InvalidByteBetweenTokens", "a = \xff;", 2, "demo.grammar:1:5: invalid utf-8 character"},
		{"InvalidByteInsideAToken", "a =\n  ab\xff", 2, "demo.grammar:2:5: invalid utf-8 character"},
		{"InvalidByteAfterLineBreaksInAComment", "/*\n\n \xff */", 0, "demo.grammar:3:2: invalid utf-8 character"},
		{"LoneSlashAtTheEnd", "a = b;\n\n/", 4, "lexical error at demo.grammar:3:1:/"},
	}

	for _, tc := range tests {
		t.Run(tc.name, func(t *testing.T) {
			tokens, err := demoScan(t, tc.text)

			if err == nil || err.Error() != tc.expectedError {
				t.Errorf("expected the error %q, got %v", tc.expectedError, err)
			}

			if len(tokens) != tc.expectedTokens {
				t.Errorf("expected %d tokens before the error, got %d: %q", tc.expectedTokens, len(tokens), tokens)
			}
		})
	}
}
