package spec

import (
	"math/rand"
	"strings"
	"testing"

	"github.com/moorara/algo/grammar"
	"github.com/moorara/algo/lexer"
)

// This file characterizes the diagnostics of SymbolTable.Verify and the order of SymbolTable.Definitions.
// Every expectation is a concrete, complete value. Every table is built many times, registering its terminals
// in a different order each time, and is queried repeatedly: the results must be the same every single time.

// demoGroup is what is registered for one terminal. The calls within a group keep their order
// (the order of the definitions of one terminal is the order in which they appear in a specification).
type demoGroup []func(*SymbolTable)

func demoPos(line, col int) *lexer.Position {
	return &lexer.Position{Filename: "g.ebnf", Offset: 100*line + col, Line: line, Column: col}
}

func demoStrDef(tok, val string, line int) func(*SymbolTable) {
	return func(st *SymbolTable) { st.AddStringTokenDef(grammar.Terminal(tok), val, demoPos(line, 1)) }
}

func demoRegexDef(tok, val string, line int) func(*SymbolTable) {
	return func(st *SymbolTable) { st.AddRegexTokenDef(grammar.Terminal(tok), val, demoPos(line, 1)) }
}

func demoTokenUse(tok string, line int) func(*SymbolTable) {
	return func(st *SymbolTable) { st.AddTokenTerminal(grammar.Terminal(tok), demoPos(line, 9)) }
}

func demoStringUse(val string, line int) func(*SymbolTable) {
	return func(st *SymbolTable) { st.AddStringTerminal(grammar.Terminal(val), demoPos(line, 9)) }
}

func demoStartRule() func(*SymbolTable) {
	return func(st *SymbolTable) {
		st.AddProduction(
			&grammar.Production{Head: "start", Body: grammar.String[grammar.Symbol]{grammar.NonTerminal("x")}},
			demoPos(99, 1),
		)
	}
}

// demoBuild registers the groups in the order given by perm.
func demoBuild(groups []demoGroup, perm []int) *SymbolTable {
	st := NewSymbolTable()
	for _, i := range perm {
		for _, f := range groups[i] {
			f(st)
		}
	}
	return st
}

// demoPerms returns the identity, the reverse, all the rotations and a number of seeded shuffles of 0..n-1.
func demoPerms(n int) [][]int {
	id := make([]int, n)
	rev := make([]int, n)
	for i := range id {
		id[i], rev[i] = i, n-1-i
	}

	perms := [][]int{id, rev}
	for r := 1; r < n; r++ {
		rot := append(append([]int{}, id[r:]...), id[:r]...)
		perms = append(perms, rot)
	}

	for seed := int64(1); seed <= 40; seed++ {
		perms = append(perms, rand.New(rand.NewSource(seed)).Perm(n))
	}

	return perms
}

func demoLines(lines ...string) string {
	return strings.Join(lines, "\n")
}

func TestRefactorDemo_VerifyDiagnostics(t *testing.T) {
	tests := []struct {
		name     string
		groups   []demoGroup
		expected string // the complete text of the error, empty for no error
	}{
		{
			name:   "EmptyTable",
			groups: []demoGroup{},
			expected: demoLines(
				"1 error occurred:",
				"",
				"  • missing production rule with the start symbol: start",
				"",
			),
		},
		{
			name: "OnlyStartRule",
			groups: []demoGroup{
				{demoStartRule()},
			},
			expected: "",
		},
		{
			name: "AllFine",
			groups: []demoGroup{
				{demoStartRule()},
				{demoStrDef("IF", "if", 2), demoTokenUse("IF", 10)},
				{demoRegexDef("ID", "[a-z]+", 3), demoTokenUse("ID", 11), demoTokenUse("ID", 12)},
				{demoStringUse(";", 13), demoStringUse(";", 14)},
				{demoStringUse("=", 15)},
			},
			expected: "",
		},
		{
			name: "UndefinedTerminalsAreListedInTerminalOrder",
			groups: []demoGroup{
				{demoStartRule()},
				{demoTokenUse("ZED", 10)},
				{demoTokenUse("ALPHA", 11), demoTokenUse("ALPHA", 12)},
				{demoTokenUse("MID", 13)},
				{demoTokenUse("Mid", 14)},
				{demoTokenUse("A", 15)},
				{demoTokenUse("ALPHABET", 16)},
				{demoTokenUse("_X", 17)},
			},
			expected: demoLines(
				"7 errors occurred:",
				"",
				`  • no definition for terminal "A"`,
				`  • no definition for terminal "ALPHA"`,
				`  • no definition for terminal "ALPHABET"`,
				`  • no definition for terminal "MID"`,
				`  • no definition for terminal "Mid"`,
				`  • no definition for terminal "ZED"`,
				`  • no definition for terminal "_X"`,
				"",
			),
		},
		{
			name: "RedefinedTerminalsListTheirDefinitionsInSourceOrder",
			groups: []demoGroup{
				{demoStartRule()},
				{demoStrDef("Q", "'", 2), demoStrDef("Q", "\"", 5), demoRegexDef("Q", "`", 3)},
				{demoRegexDef("NUM", "[0-9]+", 7), demoRegexDef("NUM", "[0-9]+", 4)},
				{demoStrDef("ONE", "1", 6)},
			},
			expected: demoLines(
				"2 errors occurred:",
				"",
				`  • multiple definitions for terminal "NUM":`,
				"      g.ebnf:7:1",
				"      g.ebnf:4:1",
				`  • multiple definitions for terminal "Q":`,
				"      g.ebnf:2:1",
				"      g.ebnf:5:1",
				"      g.ebnf:3:1",
				"",
			),
		},
		{
			name: "SharedValuesAreListedInValueOrderThenTerminalOrder",
			groups: []demoGroup{
				{demoStartRule()},
				{demoStrDef("PLUS", "+", 2)},
				{demoStrDef("ADD", "+", 3)},
				{demoRegexDef("SUM", "+", 4)},
				{demoStrDef("B2", "ab", 5)},
				{demoStrDef("B1", "ab", 6)},
				{demoStrDef("A2", "a", 7)},
				{demoStrDef("A1", "a", 8)},
				{demoStrDef("E2", "", 9)},
				{demoStrDef("E1", "", 10)},
				{demoStrDef("U1", "é\"\n", 11)},
				{demoRegexDef("U2", "é\"\n", 12)},
				{demoStrDef("LONE", "abc", 13)},
				{demoStrDef("SOLO", "A", 14)},
			},
			expected: demoLines(
				"5 errors occurred:",
				"",
				`  • multiple definitions with the same value: ""`,
				`      g.ebnf:10:1: "E1"`,
				`      g.ebnf:9:1: "E2"`,
				`  • multiple definitions with the same value: "+"`,
				`      g.ebnf:3:1: "ADD"`,
				`      g.ebnf:2:1: "PLUS"`,
				`      g.ebnf:4:1: "SUM"`,
				`  • multiple definitions with the same value: "a"`,
				`      g.ebnf:8:1: "A1"`,
				`      g.ebnf:7:1: "A2"`,
				`  • multiple definitions with the same value: "ab"`,
				`      g.ebnf:6:1: "B1"`,
				`      g.ebnf:5:1: "B2"`,
				`  • multiple definitions with the same value: "é\"\n"`,
				`      g.ebnf:11:1: "U1"`,
				`      g.ebnf:12:1: "U2"`,
				"",
			),
		},
		{
			name: "StringTerminalSharingTheValueOfAToken",
			groups: []demoGroup{
				{demoStartRule()},
				{demoStringUse("if", 10), demoStringUse("if", 11)},
				{demoStrDef("IF", "if", 2), demoTokenUse("IF", 12)},
				{demoStringUse("else", 13)},
			},
			expected: demoLines(
				"1 error occurred:",
				"",
				`  • multiple definitions with the same value: "if"`,
				`      g.ebnf:2:1: "IF"`,
				`      <nil>: "if"`,
				"",
			),
		},
		{
			name: "RedefinedAndUndefinedTerminalsDoNotTakePartInTheValueCheck",
			groups: []demoGroup{
				{demoStartRule()},
				{demoStrDef("X", "v", 2), demoStrDef("X", "v", 3)},
				{demoStrDef("Y", "v", 4)},
				{demoTokenUse("W", 10)},
			},
			expected: demoLines(
				"2 errors occurred:",
				"",
				`  • no definition for terminal "W"`,
				`  • multiple definitions for terminal "X":`,
				"      g.ebnf:2:1",
				"      g.ebnf:3:1",
				"",
			),
		},
		{
			name: "AllKindsTogetherWithoutStartRule",
			groups: []demoGroup{
				{demoTokenUse("UNDEF2", 20)},
				{demoStrDef("DUP", "x", 2), demoRegexDef("DUP", "y", 3), demoTokenUse("DUP", 21)},
				{demoTokenUse("UNDEF1", 22), demoTokenUse("UNDEF1", 23)},
				{demoRegexDef("N2", "[0-9]+", 4)},
				{demoRegexDef("N1", "[0-9]+", 5), demoTokenUse("N1", 24)},
				{demoStrDef("N3", "[0-9]+", 6)},
				{demoStrDef("AGAIN", "a", 7), demoStrDef("AGAIN", "b", 8), demoStrDef("AGAIN", "c", 9)},
				{demoStringUse("(", 25)},
				{demoStrDef("LP", "(", 10)},
				{demoStrDef("OK", "ok", 11), demoTokenUse("OK", 26)},
			},
			expected: demoLines(
				"7 errors occurred:",
				"",
				`  • multiple definitions for terminal "AGAIN":`,
				"      g.ebnf:7:1",
				"      g.ebnf:8:1",
				"      g.ebnf:9:1",
				`  • multiple definitions for terminal "DUP":`,
				"      g.ebnf:2:1",
				"      g.ebnf:3:1",
				`  • no definition for terminal "UNDEF1"`,
				`  • no definition for terminal "UNDEF2"`,
				`  • multiple definitions with the same value: "("`,
				`      <nil>: "("`,
				`      g.ebnf:10:1: "LP"`,
				`  • multiple definitions with the same value: "[0-9]+"`,
				`      g.ebnf:5:1: "N1"`,
				`      g.ebnf:4:1: "N2"`,
				`      g.ebnf:6:1: "N3"`,
				"  • missing production rule with the start symbol: start",
				"",
			),
		},
	}

	for _, tc := range tests {
		t.Run(tc.name, func(t *testing.T) {
			for _, perm := range demoPerms(len(tc.groups)) {
				st := demoBuild(tc.groups, perm)

				// Asking again must give the very same answer.
				for round := 0; round < 3; round++ {
					var got string
					if err := st.Verify(); err != nil {
						got = err.Error()
					}

					if got != tc.expected {
						t.Fatalf("registration order %v, round %d:\n--- got ---\n%s\n--- expected ---\n%s", perm, round, got, tc.expected)
					}
				}
			}
		})
	}
}

func TestRefactorDemo_DefinitionsOrder(t *testing.T) {
	type def struct {
		terminal string
		value    string
		isRegex  bool
	}

	tests := []struct {
		name     string
		groups   []demoGroup
		expected []def
	}{
		{
			name:     "EmptyTable",
			groups:   []demoGroup{},
			expected: []def{},
		},
		{
			name: "OnlySymbolsWithoutASingleDefinition",
			groups: []demoGroup{
				{demoTokenUse("UNDEF", 10)},
				{demoStrDef("DUP", "x", 2), demoStrDef("DUP", "y", 3)},
			},
			expected: []def{},
		},
		{
			name: "StringsBeforeRegexesThenShorterNamesThenNames",
			groups: []demoGroup{
				{demoRegexDef("ID", "[a-z]+", 2), demoTokenUse("ID", 20)},
				{demoRegexDef("N", "[0-9]", 3)},
				{demoRegexDef("NUMBER", "[0-9]+", 4)},
				{demoRegexDef("IF", "if", 5)},
				{demoStrDef("WHILE", "while", 6)},
				{demoStrDef("UNTIL", "until", 7)},
				{demoStrDef("Z", "z", 8)},
				{demoStrDef("DO", "do", 9)},
				{demoStrDef("zz", "Zz", 10)},
				{demoStringUse(";", 21), demoStringUse(";", 22)},
				{demoStringUse("==", 23)},
				{demoStringUse("=", 24)},
				{demoStringUse("while!", 25)},
				{demoStringUse("é", 26)},
				{demoTokenUse("UNDEF", 27)},
				{demoStrDef("DUP", "x", 11), demoRegexDef("DUP", "y", 12)},
			},
			expected: []def{
				{";", ";", false},
				{"=", "=", false},
				{"Z", "z", false},
				{"==", "==", false},
				{"DO", "do", false},
				{"zz", "Zz", false},
				{"é", "é", false},
				{"UNTIL", "until", false},
				{"WHILE", "while", false},
				{"while!", "while!", false},
				{"N", "[0-9]", true},
				{"ID", "[a-z]+", true},
				{"IF", "if", true},
				{"NUMBER", "[0-9]+", true},
			},
		},
		{
			name: "SharedValuesDoNotMatterForTheOrder",
			groups: []demoGroup{
				{demoStrDef("B", "same", 2)},
				{demoStrDef("A", "same", 3)},
				{demoRegexDef("AA", "same", 4)},
				{demoRegexDef("C", "same", 5)},
				{demoStringUse("same", 20)},
			},
			expected: []def{
				{"A", "same", false},
				{"B", "same", false},
				{"same", "same", false},
				{"C", "same", true},
				{"AA", "same", true},
			},
		},
	}

	for _, tc := range tests {
		t.Run(tc.name, func(t *testing.T) {
			for _, perm := range demoPerms(len(tc.groups)) {
				st := demoBuild(tc.groups, perm)

				for round := 0; round < 3; round++ {
					defs := st.Definitions()
					if defs == nil {
						t.Fatalf("registration order %v, round %d: nil definitions", perm, round)
					}

					got := make([]def, len(defs))
					for i, d := range defs {
						got[i] = def{string(d.Terminal), d.Value, d.IsRegex}
					}

					if len(got) != len(tc.expected) {
						t.Fatalf("registration order %v, round %d: got %v, expected %v", perm, round, got, tc.expected)
					}

					for i := range got {
						if got[i] != tc.expected[i] {
							t.Fatalf("registration order %v, round %d: got %v, expected %v", perm, round, got, tc.expected)
						}
					}
				}
			}
		})
	}
}

// TestRefactorDemo_ParseDiagnostics goes through the public entry point with a specification having several faults at once.
func TestRefactorDemo_ParseDiagnostics(t *testing.T) {
	const src = `grammar demo;

ZED = "z"
NUM = /[0-9]+/
INT = /[0-9]+/
NUM = /[1-9][0-9]*/
SEMI = ";"

start = expr ";" UNKNOWN2 | UNKNOWN1 ZED;
expr = NUM | INT | "z";
`

	expected := demoLines(
		"5 errors occurred:",
		"",
		`  • multiple definitions for terminal "NUM":`,
		"      demo.ebnf:4:1",
		"      demo.ebnf:6:1",
		`  • no definition for terminal "UNKNOWN1"`,
		`  • no definition for terminal "UNKNOWN2"`,
		`  • multiple definitions with the same value: ";"`,
		`      <nil>: ";"`,
		`      demo.ebnf:7:1: "SEMI"`,
		`  • multiple definitions with the same value: "z"`,
		`      demo.ebnf:3:1: "ZED"`,
		`      <nil>: "z"`,
		"",
	)

	for round := 0; round < 25; round++ {
		s, err := Parse("demo.ebnf", strings.NewReader(src))
		if s != nil || err == nil {
			t.Fatalf("round %d: expected a failure, got %v, %v", round, s, err)
		}

		if got := err.Error(); got != expected {
			t.Fatalf("round %d:\n--- got ---\n%s\n--- expected ---\n%s", round, got, expected)
		}
	}
}
