package golang

// Characterization test for the emitted input reader (templates/input.go.tmpl and templates/stack.go.tmpl).
//
// The test emits a lexer package into a temporary directory, adds a small in-package driver to it,
// compiles and runs it with `go test`, and compares what the emitted reader and lexer report with
//
//   - an independent model that works on the slice of runes of the input (no ring buffer at all), and
//   - a number of literal expectations.
//
// Scenarios of kind "ops" drive the reader directly (Next, Retract, Lexeme, Skip) with tiny buffers, so
// that the pointers go around the end of the buffer many times. Scenarios of kind "lex" tokenise inputs
// with the emitted lexer, with the real buffer size (4096) and with small buffers.

import (
	"encoding/json"
	"fmt"
	"math/rand"
	"os"
	"os/exec"
	"path/filepath"
	"strings"
	"testing"

	"github.com/gardenbed/charm/ui"

	"github.com/gardenbed/emerge/internal/ebnf/parser/spec"
)

const demoDriver = `package lexdemo

import (
	"encoding/json"
	"fmt"
	"io"
	"os"
	"testing"
)

type scenario struct {
	Kind  string
	N     int
	Chunk int
	Data  []byte
	Ops   string
}

// chunkReader hands out at most chunk bytes per call.
type chunkReader struct {
	data  []byte
	chunk int
}

func (r *chunkReader) Read(p []byte) (int, error) {
	if len(r.data) == 0 {
		return 0, io.EOF
	}
	n := len(p)
	if n > r.chunk {
		n = r.chunk
	}
	n = copy(p[:n], r.data)
	r.data = r.data[n:]
	return n, nil
}

func ps(p Position) string {
	return fmt.Sprintf("%d:%d:%d", p.Offset, p.Line, p.Column)
}

func runOps(s scenario) []string {
	in, err := newInput("f", &chunkReader{s.Data, s.Chunk}, s.N)
	if err != nil {
		return []string{"NEWERR " + err.Error()}
	}

	out := []string{}
	for _, op := range s.Ops {
		var line string
		switch op {
		case 'N':
			r, err := in.Next()
			if err != nil {
				line = fmt.Sprintf("N err=%s", err)
			} else {
				line = fmt.Sprintf("N r=%d", r)
			}
		case 'R':
			in.Retract()
			line = "R"
		case 'L':
			lexeme, pos := in.Lexeme()
			line = fmt.Sprintf("L lex=%q pos=%s", lexeme, ps(pos))
		case 'S':
			line = fmt.Sprintf("S pos=%s", ps(in.Skip()))
		}
		out = append(out, fmt.Sprintf("%s p=%s fp=%s", line, ps(in.pos()), ps(in.forwardPos())))
	}

	return out
}

func runLex(s scenario) []string {
	var l *Lexer
	if s.N == 0 {
		var err error
		if l, err = New("f", &chunkReader{s.Data, s.Chunk}); err != nil {
			return []string{"NEWERR " + err.Error()}
		}
	} else {
		in, err := newInput("f", &chunkReader{s.Data, s.Chunk}, s.N)
		if err != nil {
			return []string{"NEWERR " + err.Error()}
		}
		l = &Lexer{in: in}
	}

	out := []string{}
	for {
		tok, err := l.NextToken()
		if err == io.EOF {
			return append(out, "EOF")
		} else if err != nil {
			return append(out, "ERR "+err.Error())
		}
		out = append(out, fmt.Sprintf("%s %q %s", tok.Terminal.Name(), tok.Lexeme, ps(tok.Pos)))
	}
}

func TestDriver(t *testing.T) {
	raw, err := os.ReadFile(os.Getenv("DEMO_IN"))
	if err != nil {
		t.Fatal(err)
	}

	var scenarios []scenario
	if err := json.Unmarshal(raw, &scenarios); err != nil {
		t.Fatal(err)
	}

	results := make([][]string, len(scenarios))
	for i, s := range scenarios {
		if s.Kind == "ops" {
			results[i] = runOps(s)
		} else {
			results[i] = runLex(s)
		}
	}

	raw, err = json.Marshal(results)
	if err != nil {
		t.Fatal(err)
	}

	if err := os.WriteFile(os.Getenv("DEMO_OUT"), raw, 0o644); err != nil {
		t.Fatal(err)
	}
}
`

type demoScenario struct {
	Kind  string
	N     int
	Chunk int
	Data  []byte
	Ops   string

	name     string
	expected []string
}

var demoDefinitions = []*spec.TerminalDef{
	{Terminal: "ID", Value: "[A-Za-z_][0-9A-Za-z_]*", IsRegex: true},
	{Terminal: "NUM", Value: "[0-9]+", IsRegex: true},
	{Terminal: "COMMENT", Value: "#[a-z ]*", IsRegex: true},
	{Terminal: "ARROW", Value: "→"},
	{Terminal: "LAMBDA", Value: "λ"},
	{Terminal: "GRIN", Value: "😀😀"},
	{Terminal: "ASSIGN", Value: ":="},
	{Terminal: "DOTS", Value: "..."},
}

// demoPos is the position of the rune with the index k.
func demoPos(runes []rune, k int) string {
	line, column := 1, 1
	for _, r := range runes[:k] {
		if r == '\n' {
			line, column = line+1, 1
		} else {
			column++
		}
	}

	return fmt.Sprintf("%d:%d:%d", k, line, column)
}

// demoModelOps is the model of the reader: a cursor and the beginning of the lexeme in a slice of runes.
func demoModelOps(data []byte, ops string) []string {
	if len(data) == 0 {
		return []string{"NEWERR EOF"}
	}

	runes := []rune(string(data))
	begin, cursor := 0, 0

	out := []string{}
	for _, op := range ops {
		var line string
		switch op {
		case 'N':
			if cursor == len(runes) {
				line = "N err=EOF"
			} else {
				line = fmt.Sprintf("N r=%d", runes[cursor])
				cursor++
			}
		case 'R':
			if cursor > begin {
				cursor--
			}
			line = "R"
		case 'L':
			line = fmt.Sprintf("L lex=%q pos=%s", string(runes[begin:cursor]), demoPos(runes, begin))
			begin = cursor
		case 'S':
			line = fmt.Sprintf("S pos=%s", demoPos(runes, begin))
			begin = cursor
		}
		out = append(out, fmt.Sprintf("%s p=%s fp=%s", line, demoPos(runes, begin), demoPos(runes, cursor)))
	}

	return out
}

// demoModelLex is the model of the lexer for demoDefinitions: from each token start, it follows the longest run
// the automaton allows, and evaluates the state reached. The first rune decides which definition is followed.
func demoModelLex(data []byte) []string {
	if len(data) == 0 {
		return []string{"NEWERR EOF"}
	}

	isLetter := func(r rune) bool { return r == '_' || ('A' <= r && r <= 'Z') || ('a' <= r && r <= 'z') }
	isDigit := func(r rune) bool { return '0' <= r && r <= '9' }

	runes := []rune(string(data))
	out := []string{}

	for k := 0; k < len(runes); {
		run := func(ok func(rune) bool) int {
			e := k + 1
			for e < len(runes) && ok(runes[e]) {
				e++
			}
			return e
		}

		var term string
		var e int

		switch r := runes[k]; {
		case r == ' ' || r == '\t' || r == '\n' || r == '\r':
			k++
			continue
		case isLetter(r):
			term, e = "ID", run(func(r rune) bool { return isLetter(r) || isDigit(r) })
		case isDigit(r):
			term, e = "NUM", run(isDigit)
		case r == '#':
			term, e = "COMMENT", run(func(r rune) bool { return r == ' ' || ('a' <= r && r <= 'z') })
		default:
			e = k
			for _, def := range demoDefinitions[3:] {
				if lit := []rune(def.Value); lit[0] == r {
					for e < len(runes) && e-k < len(lit) && runes[e] == lit[e-k] {
						e++
					}
					if e-k == len(lit) {
						term = string(def.Terminal)
					}
				}
			}
		}

		switch term {
		case "":
			line, column := 0, 0
			fmt.Sscanf(demoPos(runes, k), "%d:%d:%d", new(int), &line, &column)
			return append(out, fmt.Sprintf("ERR lexical error at f:%d:%d:%s", line, column, string(runes[k:e])))
		case "COMMENT":
		default:
			out = append(out, fmt.Sprintf("%s %q %s", term, string(runes[k:e]), demoPos(runes, k)))
		}

		k = e
	}

	return append(out, "EOF")
}

// demoRandomOps builds a random sequence of operations that the two-buffer scheme supports:
// a half of the buffer is never reloaded while the pending lexeme still begins in it.
func demoRandomOps(rnd *rand.Rand, data []byte, n, count int) string {
	runes := []rune(string(data))
	beginRune, cursorRune := 0, 0
	beginByte, cursorByte := 0, 0
	sizes := []int{}

	var ops strings.Builder
	for ops.Len() < count {
		switch x := rnd.Intn(100); {
		case x < 55:
			if cursorRune < len(runes) {
				size := len(string(runes[cursorRune]))
				if beginByte < ((cursorByte+size)/n-1)*n {
					ops.WriteByte('L') // The lexeme has to be taken before going on.
					beginRune, beginByte, sizes = cursorRune, cursorByte, sizes[:0]
					continue
				}
				cursorRune, cursorByte, sizes = cursorRune+1, cursorByte+size, append(sizes, size)
			}
			ops.WriteByte('N')
		case x < 80:
			if len(sizes) > 0 {
				cursorRune, cursorByte, sizes = cursorRune-1, cursorByte-sizes[len(sizes)-1], sizes[:len(sizes)-1]
			}
			ops.WriteByte('R')
		case x < 92:
			ops.WriteByte('L')
			beginRune, beginByte, sizes = cursorRune, cursorByte, sizes[:0]
		default:
			ops.WriteByte('S')
			beginRune, beginByte, sizes = cursorRune, cursorByte, sizes[:0]
		}
	}

	_ = beginRune
	return ops.String() + "L"
}

func demoScenarios() []*demoScenario {
	scenarios := []*demoScenario{}
	rnd := rand.New(rand.NewSource(20260101))

	addOps := func(name string, n, chunk int, data, ops string, expected []string) {
		s := &demoScenario{Kind: "ops", N: n, Chunk: chunk, Data: []byte(data), Ops: ops, name: name, expected: expected}
		if s.expected == nil {
			s.expected = demoModelOps(s.Data, ops)
		}
		scenarios = append(scenarios, s)
	}

	addLex := func(name string, n, chunk int, data string, expected []string) {
		s := &demoScenario{Kind: "lex", N: n, Chunk: chunk, Data: []byte(data), name: name, expected: expected}
		if s.expected == nil {
			s.expected = demoModelLex(s.Data)
		}
		scenarios = append(scenarios, s)
	}

	// ---- The reader, literal expectations ----

	// More runes are pending than one node of the stacks holds.
	addOps("ops/two-nodes", 4, 4, "abcdefg", "NNNNNNNLN", []string{
		"N r=97 p=0:1:1 fp=1:1:2", "N r=98 p=0:1:1 fp=2:1:3", "N r=99 p=0:1:1 fp=3:1:4", "N r=100 p=0:1:1 fp=4:1:5",
		"N r=101 p=0:1:1 fp=5:1:6", "N r=102 p=0:1:1 fp=6:1:7", "N r=103 p=0:1:1 fp=7:1:8",
		`L lex="abcdefg" pos=0:1:1 p=7:1:8 fp=7:1:8`, "N err=EOF p=7:1:8 fp=7:1:8",
	})

	// The lexeme fghij begins in the second half and ends in the first half.
	addOps("ops/lexeme-around-the-end", 4, 3, "abcde fghij", "NNNNNLNSNNNNNLNL", []string{
		"N r=97 p=0:1:1 fp=1:1:2", "N r=98 p=0:1:1 fp=2:1:3", "N r=99 p=0:1:1 fp=3:1:4", "N r=100 p=0:1:1 fp=4:1:5",
		"N r=101 p=0:1:1 fp=5:1:6", `L lex="abcde" pos=0:1:1 p=5:1:6 fp=5:1:6`,
		"N r=32 p=5:1:6 fp=6:1:7", "S pos=5:1:6 p=6:1:7 fp=6:1:7",
		"N r=102 p=6:1:7 fp=7:1:8", "N r=103 p=6:1:7 fp=8:1:9", "N r=104 p=6:1:7 fp=9:1:10", "N r=105 p=6:1:7 fp=10:1:11",
		"N r=106 p=6:1:7 fp=11:1:12", `L lex="fghij" pos=6:1:7 p=11:1:12 fp=11:1:12`,
		"N err=EOF p=11:1:12 fp=11:1:12", `L lex="" pos=11:1:12 p=11:1:12 fp=11:1:12`,
	})

	// The arrow occupies the last byte of the second half and the first two bytes of the first half.
	// Retracting it moves the forward pointer backwards around the end of the buffer.
	addOps("ops/retract-around-the-end", 4, 2, "abcdefg→x", "NNNNNNLNNRLNNNRRNNNL", []string{
		"N r=97 p=0:1:1 fp=1:1:2", "N r=98 p=0:1:1 fp=2:1:3", "N r=99 p=0:1:1 fp=3:1:4", "N r=100 p=0:1:1 fp=4:1:5",
		"N r=101 p=0:1:1 fp=5:1:6", "N r=102 p=0:1:1 fp=6:1:7", `L lex="abcdef" pos=0:1:1 p=6:1:7 fp=6:1:7`,
		"N r=103 p=6:1:7 fp=7:1:8", "N r=8594 p=6:1:7 fp=8:1:9", "R p=6:1:7 fp=7:1:8", `L lex="g" pos=6:1:7 p=7:1:8 fp=7:1:8`,
		"N r=8594 p=7:1:8 fp=8:1:9", "N r=120 p=7:1:8 fp=9:1:10", "N err=EOF p=7:1:8 fp=9:1:10",
		"R p=7:1:8 fp=8:1:9", "R p=7:1:8 fp=7:1:8", "N r=8594 p=7:1:8 fp=8:1:9", "N r=120 p=7:1:8 fp=9:1:10",
		"N err=EOF p=7:1:8 fp=9:1:10", `L lex="→x" pos=7:1:8 p=9:1:10 fp=9:1:10`,
	})

	// Lines: retracting a newline restores the column, Skip and Lexeme count the lines.
	addOps("ops/lines", 4, 1, "a\n\nbc\nd", "NNNRRNNNLRNNSNNRRRNNL", []string{
		"N r=97 p=0:1:1 fp=1:1:2", "N r=10 p=0:1:1 fp=2:2:1", "N r=10 p=0:1:1 fp=3:3:1", "R p=0:1:1 fp=2:2:1", "R p=0:1:1 fp=1:1:2",
		"N r=10 p=0:1:1 fp=2:2:1", "N r=10 p=0:1:1 fp=3:3:1", "N r=98 p=0:1:1 fp=4:3:2",
		`L lex="a\n\nb" pos=0:1:1 p=4:3:2 fp=4:3:2`, "R p=4:3:2 fp=4:3:2",
		"N r=99 p=4:3:2 fp=5:3:3", "N r=10 p=4:3:2 fp=6:4:1", "S pos=4:3:2 p=6:4:1 fp=6:4:1",
		"N r=100 p=6:4:1 fp=7:4:2", "N err=EOF p=6:4:1 fp=7:4:2", "R p=6:4:1 fp=6:4:1", "R p=6:4:1 fp=6:4:1", "R p=6:4:1 fp=6:4:1",
		"N r=100 p=6:4:1 fp=7:4:2", "N err=EOF p=6:4:1 fp=7:4:2", `L lex="d" pos=6:4:1 p=7:4:2 fp=7:4:2`,
	})

	// Bytes that are not UTF-8 are handed over with the lexeme, but they are not counted as runes.
	addOps("ops/invalid-utf8", 4, 4, "ab\xffcd", "NNNNRLNL", []string{
		"N r=97 p=0:1:1 fp=1:1:2", "N r=98 p=0:1:1 fp=2:1:3", "N err=f:1:3: invalid utf-8 character p=0:1:1 fp=2:1:3",
		"N r=99 p=0:1:1 fp=3:1:4", "R p=0:1:1 fp=2:1:3", `L lex="ab\xff" pos=0:1:1 p=2:1:3 fp=2:1:3`,
		"N r=99 p=2:1:3 fp=3:1:4", `L lex="c" pos=2:1:3 p=3:1:4 fp=3:1:4`,
	})

	addOps("ops/empty", 4, 4, "", "NL", []string{"NEWERR EOF"})

	// ---- The reader, random operations against the model ----

	alphabet := []string{"a", "b", "z", "0", " ", "\n", "\n", "é", "→", "😀"}
	for _, n := range []int{4, 5, 7, 8, 16, 33} {
		for k := 0; k < 40; k++ {
			var data strings.Builder
			for c := rnd.Intn(6 * n); c >= 0; c-- {
				data.WriteString(alphabet[rnd.Intn(len(alphabet))])
			}
			// Now and then the input is exactly as long as one half or both halves of the buffer.
			d := data.String()
			if k%8 == 0 && len(d) >= 2*n {
				d = strings.Repeat("x", 2*n)
			} else if k%8 == 1 {
				d = strings.Repeat("y\n", n)[:n]
			}
			ops := demoRandomOps(rnd, []byte(d), n, 30+rnd.Intn(40*n/4))
			addOps(fmt.Sprintf("ops/random/n=%d/%d", n, k), n, 1+rnd.Intn(n+2), d, ops, nil)
		}
	}

	// ---- The lexer, literal expectations ----

	addLex("lex/basic", 0, 4096, "foo 42→λ\n  😀😀 x:=7 # note\n... y", []string{
		`ID "foo" 0:1:1`, `NUM "42" 4:1:5`, `ARROW "→" 6:1:7`, `LAMBDA "λ" 7:1:8`, `GRIN "😀😀" 11:2:3`,
		`ID "x" 14:2:6`, `ASSIGN ":=" 15:2:7`, `NUM "7" 17:2:9`, `DOTS "..." 26:3:1`, `ID "y" 30:3:5`, "EOF",
	})
	addLex("lex/final-newline", 0, 7, "foo 42\n", []string{`ID "foo" 0:1:1`, `NUM "42" 4:1:5`, "EOF"})
	addLex("lex/no-final-newline", 0, 7, "foo 42", []string{`ID "foo" 0:1:1`, `NUM "42" 4:1:5`, "EOF"})
	addLex("lex/error-unfinished", 0, 4096, "a\n ..b", []string{`ID "a" 0:1:1`, "ERR lexical error at f:2:2:.."})
	addLex("lex/error-unfinished-eof", 0, 4096, "a 😀", []string{`ID "a" 0:1:1`, "ERR lexical error at f:1:3:😀"})
	addLex("lex/error-no-token", 0, 4096, "a\n\n  +", []string{`ID "a" 0:1:1`, "ERR lexical error at f:3:3:"})
	addLex("lex/empty", 0, 4096, "", []string{"NEWERR EOF"})

	// A token that lies across the end of the buffer (8192 bytes), with the lookahead after it being retracted.
	for shift := 0; shift < 12; shift++ {
		pad := strings.Repeat(" ", 4090+shift) + "\n" + strings.Repeat("\t", 4089)
		first := 8180 + shift // offset of the first token
		addLex(fmt.Sprintf("lex/around-8192/%d", shift), 0, 1000+shift, pad+"ab→😀😀λcd:=12345\nx", []string{
			fmt.Sprintf(`ID "ab" %d:2:4090`, first), fmt.Sprintf(`ARROW "→" %d:2:4092`, first+2),
			fmt.Sprintf(`GRIN "😀😀" %d:2:4093`, first+3), fmt.Sprintf(`LAMBDA "λ" %d:2:4095`, first+5),
			fmt.Sprintf(`ID "cd" %d:2:4096`, first+6), fmt.Sprintf(`ASSIGN ":=" %d:2:4098`, first+8),
			fmt.Sprintf(`NUM "12345" %d:2:4100`, first+10), fmt.Sprintf(`ID "x" %d:3:1`, first+16), "EOF",
		})
	}

	// ---- The lexer, random inputs against the model ----

	pieces := []string{
		"a", "foo", "_x1", "Zq9_", "7", "1234", "→", "λ", "😀😀", ":=", "...", "# a note", "#",
		" ", " ", "  ", "\n", "\n", "\t", "\r\n", "\n\n",
	}
	bad := []string{"..", ":", "😀", "+", ".x", "😀x", "é"}

	for _, n := range []int{0, 16, 17, 24, 64} {
		for k := 0; k < 30; k++ {
			size := 200 + rnd.Intn(400)
			if n == 0 {
				size = []int{4090, 8185, 12290, 20000}[k%4] + rnd.Intn(12)
			}

			var data strings.Builder
			for data.Len() < size {
				data.WriteString(pieces[rnd.Intn(len(pieces))])
				if rnd.Intn(3) == 0 { // avoid gluing identifiers and numbers together all the time
					data.WriteString(" ")
				}
			}
			switch k % 5 {
			case 1:
				data.WriteString("\n")
			case 2:
				data.WriteString(" end")
			case 3:
				data.WriteString(" " + bad[rnd.Intn(len(bad))])
			case 4:
				data.WriteString(" " + bad[rnd.Intn(len(bad))] + " tail\n")
			}

			// With a small buffer, a run of letters and digits must fit: cut the long ones.
			d := data.String()
			if n != 0 {
				d = demoCutRuns(d, n-5)
			}

			chunk := 1 + rnd.Intn(5000)
			addLex(fmt.Sprintf("lex/random/n=%d/%d", n, k), n, chunk, d, nil)
		}
	}

	return scenarios
}

// demoCutRuns inserts a space whenever more than max bytes have gone by without a blank,
// so that no lexeme (and no comment) is longer than what a small buffer holds.
func demoCutRuns(s string, max int) string {
	var b strings.Builder
	run := 0
	for _, r := range s {
		size := len(string(r))
		if r == ' ' || r == '\n' || r == '\t' || r == '\r' {
			run = 0
		} else if r == '#' || run+size > max {
			// Blanks belong to a comment: end the pending lexeme with a newline, and keep comments short.
			b.WriteByte('\n')
			run = 0
		}
		if r == ' ' {
			b.WriteByte('\n')
			continue
		}
		run += size
		b.WriteRune(r)
	}
	return b.String()
}

func TestRefactorDemo_EmittedReader(t *testing.T) {
	goBin, err := exec.LookPath("go")
	if err != nil {
		t.Skip("go command not found")
	}

	tempDir := t.TempDir()

	g := &generator{
		UI: ui.NewNop(),
		Params: &Params{
			Path: tempDir,
			Spec: &spec.Spec{Name: "lexdemo", Definitions: demoDefinitions},
		},
	}

	if err := g.prepare(); err != nil {
		t.Fatal(err)
	}
	if err := g.generateCore(); err != nil {
		t.Fatal(err)
	}
	if err := g.generateLexer(); err != nil {
		t.Fatal(err)
	}

	scenarios := demoScenarios()

	pkgDir := filepath.Join(tempDir, "lexdemo")
	inFile, outFile := filepath.Join(tempDir, "in.json"), filepath.Join(tempDir, "out.json")

	raw, err := json.Marshal(scenarios)
	if err != nil {
		t.Fatal(err)
	}

	for name, content := range map[string][]byte{
		filepath.Join(pkgDir, "go.mod"):         []byte("module lexdemo\n\ngo 1.21\n"),
		filepath.Join(pkgDir, "driver_test.go"): []byte(demoDriver),
		inFile:                                  raw,
	} {
		if err := os.WriteFile(name, content, 0o644); err != nil {
			t.Fatal(err)
		}
	}

	cmd := exec.Command(goBin, "test", "-vet=off", "-count=1", "-timeout=180s", "-run", "^TestDriver$", ".")
	cmd.Dir = pkgDir
	cmd.Env = append(os.Environ(), "DEMO_IN="+inFile, "DEMO_OUT="+outFile, "GOWORK=off")
	if out, err := cmd.CombinedOutput(); err != nil {
		t.Fatalf("the emitted package does not compile or the driver failed: %s\n%s", err, out)
	}

	raw, err = os.ReadFile(outFile)
	if err != nil {
		t.Fatal(err)
	}

	var results [][]string
	if err := json.Unmarshal(raw, &results); err != nil {
		t.Fatal(err)
	}

	if len(results) != len(scenarios) {
		t.Fatalf("expected %d results, got %d", len(scenarios), len(results))
	}

	lines := 0
	for i, s := range scenarios {
		lines += len(s.expected)
		if got, want := strings.Join(results[i], "\n"), strings.Join(s.expected, "\n"); got != want {
			t.Errorf("%s (n=%d chunk=%d data=%q ops=%s)\n--- got:\n%s\n--- want:\n%s", s.name, s.N, s.Chunk, s.Data, s.Ops, got, want)
		}
	}

	t.Logf("%d scenarios, %d expected lines", len(scenarios), lines)
}
