#!/usr/bin/env python3
"""seedrefresh.py: re-run every check on every kept seeded change (scratch copies of /repo; /repo untouched) and record in
meta.json which checks report it now ('detected_by') and by which rule ('detected_rules')."""
import json, glob, os, subprocess, tempfile, shutil, concurrent.futures as cf
env = dict(os.environ, GOFLAGS='-mod=mod', GOPROXY='off')
props = subprocess.run(['/verif/bin/emcheck', '-list'], capture_output=True, text=True).stdout.split()
def run(d):
    t = tempfile.mkdtemp(prefix='emcheck-sr-')
    try:
        os.makedirs(t + '/verif'); shutil.copy('/verif/known_findings.json', t + '/verif/')
        subprocess.run(['rsync', '-a', '--exclude', '.git', '/repo/', t + '/repo/'], check=True)
        r = subprocess.run(['patch', '-p1', '-s', '-i', d + '/patch.diff'], cwd=t + '/repo', capture_output=True)
        if r.returncode != 0: return d, None, None
        det, rules = [], {}
        for p in props:
            o = subprocess.run(['/verif/bin/emcheck', '-property', p, '-repo', t + '/repo', '-verif', t + '/verif'], env=env, capture_output=True, text=True).stdout
            ls = o.splitlines()
            for i, l in enumerate(ls):
                if l.startswith('VIOLATION') and i + 1 < len(ls):
                    if p not in det: det.append(p)
                    rules.setdefault(p, [])
                    rr = ls[i + 1].strip().split(' ')[0].replace('rule=', '')
                    if rr not in rules[p]: rules[p].append(rr)
        return d, det, rules
    finally:
        shutil.rmtree(t, ignore_errors=True)
dirs = sorted(os.path.dirname(m) for m in glob.glob('/verif/seeded/*/meta.json'))
with cf.ThreadPoolExecutor(max_workers=6) as ex:
    for d, det, rules in ex.map(run, dirs):
        m = json.load(open(d + '/meta.json'))
        if det is None:
            print(os.path.basename(d), 'PATCH-FAILED'); continue
        m['detected_by'] = det; m['detected_rules'] = rules
        json.dump(m, open(d + '/meta.json', 'w'), indent=1)
        print(os.path.basename(d), det, rules)
