#!/bin/bash
# seedeval.sh <wt-dir> <seed-name> : independently confirm a seeded change produced by a sub-agent and run every check on it.
# 1. patch applies to a scratch copy of /repo and builds; 2. the pinned suite still passes with it; 3. the demonstration fails with the
# change and passes without; 4. which checks report a violation. Writes /verif/seeded/<seed-name>/ (patch.diff, demo, meta.json, result.txt).
set -u
wt="$1"; name="$2"
export GOFLAGS="-mod=mod -trimpath" GOPROXY=off
out=/verif/seeded/$name; mkdir -p "$out"
T=$(mktemp -d "${TMPDIR:-/tmp}/emcheck-seed-XXXXXX"); trap 'rm -rf "$T"' EXIT
mkdir -p "$T/with" "$T/without" "$T/verif"
rsync -a --exclude .git --exclude SEED /repo/ "$T/with/"; rsync -a --exclude .git --exclude SEED /repo/ "$T/without/"
cp /verif/known_findings.json "$T/verif/"
cp "$wt/SEED/patch.diff" "$out/patch.diff"; cp "$wt/SEED/meta.json" "$out/agent_meta.json" 2>/dev/null; cp "$wt/SEED/demo_cmd.txt" "$out/demo_cmd.txt" 2>/dev/null
res="$out/result.txt"; : > "$res"
if ! (cd "$T/with" && git apply --check "$out/patch.diff" 2>/dev/null || patch -p1 --dry-run -s < "$out/patch.diff" >/dev/null); then echo "applies: NO" | tee -a "$res"; exit 1; fi
(cd "$T/with" && patch -p1 -s < "$out/patch.diff"); echo "applies: yes" | tee -a "$res"
if (cd "$T/with" && go build ./... 2>"$T/b.log"); then echo "builds: yes" | tee -a "$res"; else echo "builds: NO" | tee -a "$res"; exit 1; fi
# suite with the change (before adding the demo)
suite=$(cd "$T/with" && go test -vet=off -count=1 -json ./... 2>/dev/null | python3 -c "
import sys,json
p=f=0
for l in sys.stdin:
    try: e=json.loads(l)
    except: continue
    if e.get('Test') and e.get('Action')=='pass': p+=1
    if e.get('Test') and e.get('Action')=='fail': f+=1
print(f'passed={p} failed={f}')")
echo "suite with change: $suite" | tee -a "$res"
# demo files: untracked files of the worktree outside SEED/
(cd "$wt" && git status --short | grep '^??' | awk '{print $2}' | grep -v '^SEED' ) > "$T/demo_files.txt"
mkdir -p "$out/demo"
while read f; do [ -z "$f" ] && continue; if [ -d "$wt/$f" ]; then rsync -a "$wt/$f" "$out/demo/$(dirname $f)/" ; else mkdir -p "$out/demo/$(dirname $f)"; cp "$wt/$f" "$out/demo/$f"; fi; done < "$T/demo_files.txt"
rsync -a "$out/demo/" "$T/with/"; rsync -a "$out/demo/" "$T/without/"
cmd=$(cat "$out/demo_cmd.txt" 2>/dev/null | grep -v '^#' | grep . | tail -1)
# the agent's command may cd into its own worktree: the demonstration must run in the scratch copies
cmd=$(echo "$cmd" | sed -E 's#cd +/tmp/wt[^ ;&]* *(&&|;) *##g')
echo "demo cmd: $cmd" >> "$res"
(cd "$T/with" && bash -c "$cmd" >"$T/with.log" 2>&1); rcw=$?
(cd "$T/without" && bash -c "$cmd" >"$T/without.log" 2>&1); rco=$?
echo "demo with change: exit $rcw ; without change: exit $rco" | tee -a "$res"
# remove demo before running the checks (checks must not depend on it), keep only the source change
rm -rf "$T/chk"; mkdir -p "$T/chk"; rsync -a --exclude .git --exclude SEED /repo/ "$T/chk/"; (cd "$T/chk" && patch -p1 -s < "$out/patch.diff")
det=""
for p in $(/verif/bin/emcheck -list); do
  o=$(/verif/bin/emcheck -property $p -repo "$T/chk" -verif "$T/verif" 2>&1)
  if echo "$o" | grep -q '^VIOLATION'; then det="$det $p"; echo "--- $p" >> "$res"; echo "$o" | grep -A3 '^VIOLATION' | head -8 >> "$res"; fi
done
echo "detected by:${det:- NONE}" | tee -a "$res"
