#!/bin/bash
# refeval.sh <wt-dir> <name> : confirm a behaviour-preserving refactoring produced by an independent sub-agent and run every check on
# it. Keeps it under /verif/refactors_indep/<name>/ (patch.diff, demo/, demo_cmd.txt, agent_meta.json, result.txt). A check that
# reports a violation on it is a false alarm of mine (unless the refactoring turns out not to preserve behaviour).
set -u
wt="$1"; name="$2"
export GOFLAGS="-mod=mod -trimpath" GOPROXY=off
out=/verif/refactors_indep/$name; mkdir -p "$out/demo"
T=$(mktemp -d "${TMPDIR:-/tmp}/emcheck-ref-XXXXXX"); trap 'rm -rf "$T"' EXIT
mkdir -p "$T/with" "$T/without" "$T/verif"
rsync -a --exclude .git /repo/ "$T/with/"; rsync -a --exclude .git /repo/ "$T/without/"
cp /verif/known_findings.json "$T/verif/"
cp "$wt/REFACTOR/patch.diff" "$out/patch.diff"; cp "$wt/REFACTOR/meta.json" "$out/agent_meta.json" 2>/dev/null; cp "$wt/REFACTOR/demo_cmd.txt" "$out/demo_cmd.txt" 2>/dev/null
res="$out/result.txt"; : > "$res"
echo "checked against /repo at $(git -C /repo rev-parse --short HEAD)" >> "$res"
if ! (cd "$T/with" && patch -p1 -s < "$out/patch.diff"); then echo "applies: NO" | tee -a "$res"; exit 1; fi
echo "applies: yes" | tee -a "$res"
if (cd "$T/with" && go build ./... 2>"$T/b.log"); then echo "builds: yes" | tee -a "$res"; else echo "builds: NO" | tee -a "$res"; exit 1; fi
suite=$(cd "$T/with" && go test -vet=off -count=1 -json ./... 2>/dev/null | python3 -c "
import sys,json
p=f=0
for l in sys.stdin:
    try: e=json.loads(l)
    except: continue
    if e.get('Test') and e.get('Action')=='pass': p+=1
    if e.get('Test') and e.get('Action')=='fail': f+=1
print(f'passed={p} failed={f}')")
echo "suite with change: $suite" | tee -a "$res"
(cd "$wt" && git status --short | grep '^??' | awk '{print $2}' | grep -v '^REFACTOR' ) > "$T/demo_files.txt"
while read f; do [ -z "$f" ] && continue; if [ -d "$wt/$f" ]; then rsync -a "$wt/$f" "$out/demo/$(dirname $f)/" ; else mkdir -p "$out/demo/$(dirname $f)"; cp "$wt/$f" "$out/demo/$f"; fi; done < "$T/demo_files.txt"
rsync -a "$out/demo/" "$T/with/"; rsync -a "$out/demo/" "$T/without/"
cmd=$(cat "$out/demo_cmd.txt" 2>/dev/null | grep -v '^#' | grep . | tail -1)
echo "demo cmd: $cmd" >> "$res"
(cd "$T/with" && bash -c "$cmd" >"$T/with.log" 2>&1); rcw=$?
(cd "$T/without" && bash -c "$cmd" >"$T/without.log" 2>&1); rco=$?
echo "characterization test with change: exit $rcw ; without change: exit $rco" | tee -a "$res"
rm -rf "$T/chk"; mkdir -p "$T/chk"; rsync -a --exclude .git /repo/ "$T/chk/"; (cd "$T/chk" && patch -p1 -s < "$out/patch.diff")
det=""
for p in $(/verif/bin/emcheck -list); do
  o=$(/verif/bin/emcheck -property $p -repo "$T/chk" -verif "$T/verif" 2>&1)
  if echo "$o" | grep -q '^VIOLATION'; then det="$det $p"; echo "--- $p" >> "$res"; echo "$o" | grep -A3 '^VIOLATION' | head -12 >> "$res"; fi
done
echo "alarms:${det:- none}" | tee -a "$res"
