#!/bin/bash
# Runs the repository's pinned test suite (guard off: there are no hooks) and compares with BASELINE.json.
export GOFLAGS=-mod=mod GOPROXY=off
cd /repo && go test -mod=mod -json -vet=off -count=1 -timeout 25m ./... > /tmp/baseline.$$.json 2>/dev/null
python3 - /tmp/baseline.$$.json <<'PY'
import json,sys
passed=set(); failed=set()
for l in open(sys.argv[1]):
    try: e=json.loads(l)
    except: continue
    if e.get('Test') and e.get('Action') in ('pass','fail'):
        (passed if e['Action']=='pass' else failed).add(e['Package']+'::'+e['Test'])
base=set(json.load(open('/root/.vp/BASELINE.json'))['stable_pass'])
missing=base-passed
print(f"passed={len(passed)} failed={len(failed)} baseline={len(base)} baseline_missing={len(missing)}")
for m in sorted(missing)[:20]: print("  MISSING", m)
for m in sorted(failed)[:20]: print("  FAILED", m)
sys.exit(1 if missing or failed else 0)
PY
rc=$?; rm -f /tmp/baseline.$$.json; exit $rc
