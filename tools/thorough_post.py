#!/usr/bin/env python3
"""thorough_post.py <property>: the checker's own mutation matrix for one property.
Every patch under /verif/mutants named cNN-*, every seeded change under /verif/seeded/ whose property is this one, and every
behaviour-preserving patch under /verif/refactors is applied to its own scratch copy of /repo (never /repo itself), this property's
check is run on the copy in a fresh process, and the outcome is recorded under coverage.mutation_matrix of the evidence file.
An undetected mutant does not fail the property check (the property still holds on /repo); it is listed so the gap is visible."""
import sys, os, json, glob, subprocess, tempfile, shutil, concurrent.futures as cf
prop = sys.argv[1]
num = prop[1:]
env = dict(os.environ, GOFLAGS='-mod=mod -trimpath', GOPROXY='off')
def run(patch):
    t = tempfile.mkdtemp(prefix='emcheck-th-')
    try:
        os.makedirs(t + '/verif'); shutil.copy('/verif/known_findings.json', t + '/verif/')
        subprocess.run(['rsync', '-a', '--exclude', '.git', '/repo/', t + '/repo/'], check=True)
        r = subprocess.run(['patch', '-p1', '-s', '-i', os.path.abspath(patch)], cwd=t + '/repo', capture_output=True)
        if r.returncode != 0: return (patch, 'patch-failed', '')
        b = subprocess.run(['go', 'build', './...'], cwd=t + '/repo', env=env, capture_output=True)
        if b.returncode != 0: return (patch, 'does-not-build', '')
        o = subprocess.run(['/verif/bin/emcheck', '-property', prop, '-repo', t + '/repo', '-verif', t + '/verif'], env=env, capture_output=True, text=True).stdout
        lines = o.splitlines()
        rule = ''
        for i, l in enumerate(lines):
            if l.startswith('VIOLATION') and i + 1 < len(lines):
                rule = lines[i + 1].strip()[:200]; break
        return (patch, 'detected' if rule else 'silent', rule)
    finally:
        shutil.rmtree(t, ignore_errors=True)
muts = sorted(glob.glob(f'/verif/mutants/c{num}-*.diff'))
for m in sorted(glob.glob('/verif/seeded/*/meta.json')):
    try:
        if json.load(open(m)).get('property') == prop: muts.append(os.path.dirname(m) + '/patch.diff')
    except Exception: pass
refs = sorted(glob.glob('/verif/refactors/*.diff')) + sorted(p for p in glob.glob('/verif/refactors_indep/*/patch.diff') if not os.path.exists(os.path.dirname(p) + '/RETIRED.txt'))
with cf.ThreadPoolExecutor(max_workers=8) as ex:
    mres = list(ex.map(run, muts)); rres = list(ex.map(run, refs))
ev_path = f'/verif/evidence/{prop}.json'
ev = json.load(open(ev_path))
name = lambda p: p.replace('/verif/', '')
ev['coverage']['mutation_matrix'] = {
    'breaking_changes_total': len(mres), 'breaking_changes_detected': sum(1 for r in mres if r[1] == 'detected'),
    'breaking_changes': [{'patch': name(p), 'outcome': o, 'report': r} for p, o, r in mres],
    'behaviour_preserving_total': len(rres), 'behaviour_preserving_silent': sum(1 for r in rres if r[1] == 'silent'),
    'behaviour_preserving': [{'patch': name(p), 'outcome': o, 'report': r} for p, o, r in rres],
    'note': 'refactors/table-renumber.diff is reported by C04 on purpose: a renumbered table is not what the generator emits (byte-for-byte clause)',
}
json.dump(ev, open(ev_path, 'w'), indent=1)
print(f"mutation matrix {prop}: {ev['coverage']['mutation_matrix']['breaking_changes_detected']}/{len(mres)} breaking changes detected, "
      f"{ev['coverage']['mutation_matrix']['behaviour_preserving_silent']}/{len(rres)} behaviour-preserving changes silent")
