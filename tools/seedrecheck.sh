#!/bin/bash
# seedrecheck.sh <seed-name> : re-confirm a kept seeded change against the CURRENT /repo (after later fix commits): the patch in
# /verif/seeded/<name>/patch.diff applies and builds, the pinned suite passes with it, the demonstration fails with it and passes
# without it, and which checks report it. Rewrites result.txt. Never touches /repo.
set -u
name="$1"
export GOFLAGS="-mod=mod -trimpath" GOPROXY=off
out=/verif/seeded/$name
T=$(mktemp -d "${TMPDIR:-/tmp}/emcheck-seed-XXXXXX"); trap 'rm -rf "$T"' EXIT
mkdir -p "$T/with" "$T/without" "$T/verif" "$T/chk"
rsync -a --exclude .git /repo/ "$T/with/"; rsync -a --exclude .git /repo/ "$T/without/"; rsync -a --exclude .git /repo/ "$T/chk/"
cp /verif/known_findings.json "$T/verif/"
res="$out/result.txt"; : > "$res"
echo "rechecked against /repo at $(git -C /repo rev-parse --short HEAD)" >> "$res"
if ! (cd "$T/with" && patch -p1 -s < "$out/patch.diff"); then echo "applies: NO" | tee -a "$res"; exit 1; fi
echo "applies: yes" | tee -a "$res"
if (cd "$T/with" && go build ./... 2>"$T/b.log"); then echo "builds: yes" | tee -a "$res"; else echo "builds: NO" | tee -a "$res"; cat "$T/b.log" | head; exit 1; fi
suite=$(cd "$T/with" && go test -vet=off -count=1 -json ./... 2>/dev/null | python3 -c "
import sys,json
p=f=0
for l in sys.stdin:
    try: e=json.loads(l)
    except: continue
    if e.get('Test') and e.get('Action')=='pass': p+=1
    if e.get('Test') and e.get('Action')=='fail': f+=1
print(f'passed={p} failed={f}')")
echo "suite with change: $suite" | tee -a "$res"
rsync -a "$out/demo/" "$T/with/"; rsync -a "$out/demo/" "$T/without/"
cmd=$(cat "$out/demo_cmd.txt" 2>/dev/null | grep -v '^#' | grep . | tail -1)
# the agent's command may cd into its own worktree: the demonstration must run in the scratch copies
cmd=$(echo "$cmd" | sed -E 's#cd +/tmp/wt[^ ;&]* *(&&|;) *##g')
echo "demo cmd: $cmd" >> "$res"
(cd "$T/with" && bash -c "$cmd" >"$T/with.log" 2>&1); rcw=$?
(cd "$T/without" && bash -c "$cmd" >"$T/without.log" 2>&1); rco=$?
echo "demo with change: exit $rcw ; without change: exit $rco" | tee -a "$res"
(cd "$T/chk" && patch -p1 -s < "$out/patch.diff")
det=""
for p in $(/verif/bin/emcheck -list); do
  o=$(/verif/bin/emcheck -property $p -repo "$T/chk" -verif "$T/verif" 2>&1)
  if echo "$o" | grep -q '^VIOLATION'; then det="$det $p"; echo "--- $p" >> "$res"; echo "$o" | grep -A3 '^VIOLATION' | head -8 >> "$res"; fi
done
echo "detected by:${det:- NONE}" | tee -a "$res"
