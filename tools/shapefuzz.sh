#!/bin/bash
# shapefuzz.sh <transform[,transform...]> [mod rem] [only] : apply one mechanical behaviour-preserving transformation to every eligible site of a
# scratch copy of /repo (checker/shapefuzz), confirm that it builds and that the pinned suite passes, then run every check on it.
# Any VIOLATION is a false alarm of mine. KEEP=1 keeps the diff under /verif/refactors_auto/<transform>[-mod-rem].diff
set -u
t="$1"; mod="${2:-1}"; rem="${3:-0}"; only="${4:-}"
export GOFLAGS="-mod=mod -trimpath" GOPROXY=off; unset GOWORK
cd /verif
[ -x bin/shapefuzz ] && [ -z "$(find checker/shapefuzz -newer bin/shapefuzz -name '*.go' -print -quit)" ] || (cd checker && go build -o ../bin/shapefuzz ./shapefuzz) || exit 2
T=$(mktemp -d "${TMPDIR:-/tmp}/emcheck-sf-XXXXXX"); trap 'rm -rf "$T"' EXIT
mkdir -p "$T/verif"; cp known_findings.json "$T/verif/"; rsync -a --exclude .git /repo/ "$T/repo/"; rsync -a --exclude .git /repo/ "$T/orig/"
for one in $(echo "$t" | tr ',' ' '); do
  ./bin/shapefuzz -dir "$T/repo" -t "$one" -mod "$mod" -rem "$rem" -only "$only" || { echo "$t | SHAPEFUZZ-FAILED at $one"; exit 2; }
done
tag="$t"; [ "$mod" != 1 ] && tag="$t-$mod-$rem"
(cd "$T" && diff -ruN orig repo | sed -e 's#^--- orig/#--- a/#' -e 's#^+++ repo/#+++ b/#' -e 's#^diff -ruN orig/\(.*\) repo/#diff -ruN a/\1 b/#') > "$T/patch.diff"
echo "$tag | diff lines: $(grep -c '^[+-]' "$T/patch.diff")"
(cd "$T/repo" && go build ./... 2>&1 | head -5) | grep . && { echo "$tag | NO-BUILD"; [ -n "${KEEP:-}" ] && cp "$T/patch.diff" "/tmp/sf-$tag.nobuild.diff"; exit 3; }
if [ -z "${NOSUITE:-}" ]; then
suite=$(cd "$T/repo" && go test -vet=off -count=1 -json ./... 2>/dev/null | python3 -c "
import sys,json
p=f=0
for l in sys.stdin:
    try: e=json.loads(l)
    except: continue
    if e.get('Test') and e.get('Action')=='pass': p+=1
    if e.get('Test') and e.get('Action')=='fail': f+=1
print(f'passed={p} failed={f}')")
echo "$tag | suite: $suite"
fi
al=""
for p in $(${EMCHECK:-./bin/emcheck} -list); do
  o=$(${EMCHECK:-./bin/emcheck} -property $p -repo "$T/repo" -verif "$T/verif" 2>&1)
  if echo "$o" | grep -q '^VIOLATION'; then al="$al $p"; echo "$o" | grep -E "rule=" | grep -v '^KNOWN' | cut -c1-${WIDTH:-260} | sed "s/^/    $p /"; fi
  u=$(echo "$o" | grep -c '^UNDECIDED'); [ "$u" != 0 ] && echo "    $p undecided=$u"
done
echo "$tag | alarms:${al:- none}"
if [ -n "${KEEP:-}" ]; then mkdir -p /verif/refactors_auto; cp "$T/patch.diff" "/verif/refactors_auto/$tag.diff"; fi
