#!/usr/bin/env python3
"""mkmut.py <out.diff> <relative-file> <old> <new> [<relative-file> <old> <new> ...]
Build a unified diff (a/ b/ prefixes, -p1) replacing exactly one occurrence of <old> by <new> in a scratch
copy of the file; /repo itself is never modified."""
import sys, difflib, os
out = sys.argv[1]
args = sys.argv[2:]
chunks = []
for i in range(0, len(args), 3):
    rel, old, new = args[i:i+3]
    src = open(os.path.join('/repo', rel), encoding='utf-8').read()
    n = src.count(old)
    if n != 1:
        sys.exit(f"{rel}: expected exactly one occurrence of the old text, found {n}")
    dst = src.replace(old, new)
    chunks.append(''.join(difflib.unified_diff(src.splitlines(True), dst.splitlines(True), 'a/' + rel, 'b/' + rel)))
open(out, 'w', encoding='utf-8').write(''.join(chunks))
print("wrote", out)
