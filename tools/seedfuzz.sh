#!/bin/bash
# seedfuzz.sh <transform[,transform...]> [seed-name...] : every kept seeded change applied to a scratch copy of /repo and then rewritten by
# the shape fuzzer (checker/shapefuzz) with the given behaviour-preserving transformations; the checks recorded as detecting the seed
# are run on the result. Measures the other side of the refactoring trade-off: how many breaking changes are still reported
# (and not merely left undecided) when the code around them has another shape. /repo is never touched.
set -u
t="$1"; shift
cd /verif
export GOFLAGS="-mod=mod -trimpath" GOPROXY=off; unset GOWORK
names="$@"; [ -z "$names" ] && names=$(ls seeded)
run() {
  n="$1"; t="$2"
  props=$(python3 -c "import json;print(' '.join(json.load(open('/verif/seeded/$n/meta.json'))['detected_by']))" 2>/dev/null)
  [ -z "$props" ] && { echo "$n | (not detected on the plain tree)"; return; }
  T=$(mktemp -d "${TMPDIR:-/tmp}/emcheck-sfz-XXXXXX"); mkdir -p "$T/verif"; cp /verif/known_findings.json "$T/verif/"; rsync -a --exclude .git /repo/ "$T/repo/"
  if ! (cd "$T/repo" && patch -p1 -s < "/verif/seeded/$n/patch.diff" >/dev/null 2>&1); then echo "$n | PATCH-FAILED"; rm -rf "$T"; return; fi
  for one in $(echo "$t" | tr ',' ' '); do /verif/bin/shapefuzz -dir "$T/repo" -t "$one" >/dev/null 2>&1 || { echo "$n | SHAPEFUZZ-FAILED at $one"; rm -rf "$T"; return; }; done
  if ! (cd "$T/repo" && go build ./... >/dev/null 2>&1); then echo "$n | NO-BUILD"; rm -rf "$T"; return; fi
  det=""; und=""
  for p in $props; do
    o=$(${EMCHECK:-/verif/bin/emcheck} -property $p -repo "$T/repo" -verif "$T/verif" 2>&1)
    if echo "$o" | grep -q '^VIOLATION'; then det="$det $p"; elif echo "$o" | grep -q '^UNDECIDED'; then und="$und $p"; fi
  done
  if [ -n "$det" ]; then echo "$n | detected:$det"; elif [ -n "$und" ]; then echo "$n | UNDECIDED-ONLY:$und (was: $props)"; else echo "$n | MISSED (was: $props)"; fi
  rm -rf "$T"
}
export -f run
echo $names | tr ' ' '\n' | xargs -P ${PAR:-6} -I{} bash -c "run {} $t" | sort
