#!/bin/bash
# Runs every patch under /verif/mutants against the check of the property named by its file prefix (cNN-...),
# 8 at a time, each in a fresh scratch copy and a fresh process. Prints one line per mutant.
cd /verif
run() { m="$1"; p=$(basename "$m" | sed 's/^c\([0-9]*\)-.*/C\1/'); out=$(tools/mutest.sh "$m" "$p" 2>&1 | tail -1 | cut -c1-220); echo "$(basename $m .diff) | $p | $out"; }
export -f run
ls mutants/*.diff | xargs -P 8 -I{} bash -c 'run {}' | sort
