#!/bin/bash
# seedmatrix.sh : every kept seeded change against the checks recorded as detecting it (scratch copies; /repo untouched)
cd /verif
for d in seeded/*/; do
  n=$(basename $d)
  props=$(python3 -c "import json;print(' '.join(json.load(open('$d/meta.json'))['detected_by']))")
  r=$(tools/mutest.sh $d/patch.diff $props </dev/null 2>&1 | grep -c "^DETECTED")
  echo "$n | $props | detected_by_now=$r"
done
