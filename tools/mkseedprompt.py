#!/usr/bin/env python3
"""mkseedprompt.py <property> <worktree-dir> : print the prompt given to an independent seeding sub-agent.
The agent gets the property text, its worktree and one-line summaries of the changes earlier agents made for the
same property (so that it looks elsewhere); nothing about the checks."""
import json, glob, sys

prop, wt = sys.argv[1], sys.argv[2]
P = {json.loads(l)['id']: json.loads(l) for l in open('/verif/properties.jsonl')}[prop]
earlier = []
for d in sorted(glob.glob(f'/verif/seeded/{prop}-*')):
    try:
        m = json.load(open(d + '/meta.json'))
    except Exception:
        continue
    s = m['summary'].strip().replace('\n', ' ')
    if len(s) > 260:
        s = s[:260].rsplit(' ', 1)[0] + ' …'
    earlier.append(s)
themes = """Themes that were used again and again across all properties and are NOT wanted any more: skipping an empty alternative in { } / {{ }};
hashing or comparing the unsorted alternatives; returning a nullable operand of `?` unchanged; sorting diagnostics by a nil position;
package-level caches / pools of parsers; bytes.TrimSpace or a size limit on the input; changing scanner state 53 or the comment states;
moving or re-associating a precedence level and regenerating the table; `\\pN` / `\\p{N}` in the identifier rule; counting positions per lexeme;
an unescape helper applied twice or with a sticky flag; swapped or duplicated spelled-out terminal names; dropping a callback error when a position is missing."""
print(f"""You are helping evaluate a verification framework by playing the role of a developer who accidentally introduces a subtle bug.

Repository: a git worktree of the Go project gardenbed/emerge at {wt} (a parser generator: EBNF grammar -> LALR(1) parser + DFA lexer, written in Go). Work ONLY inside that directory. Do not touch /repo, /verif or any other directory. Do not commit. NEVER use `git stash` (the stash is shared between worktrees): to switch your change off and on, save `git diff` to a file and use `git apply -R` / `git apply`.

Environment: every shell command needs `export GOFLAGS=-mod=mod GOPROXY=off` (no network). Build with `go build ./...`; the existing test suite is `go test -vet=off -count=1 ./...` (run from {wt}). NOTE: do NOT set GOTOOLCHAIN or GOSUMDB.

The property the project is supposed to satisfy:

{prop} — {P['title']}

{P['statement']}

Quantified over: {P['quantifier']['text']}

Your task: make ONE small, realistic source change (a few lines up to ~40, the kind of slip a maintainer could make in a refactor, an optimisation or an "improvement") to the non-test Go code or templates under {wt} that BREAKS this property, such that:
  1. the project still compiles (`go build ./...`);
  2. the whole existing test suite still passes (run it);
  3. the breakage needs something specific to manifest — an unusual input, a particular nesting/combination, a multi-step sequence of operations, an exact size or alignment, a fault at a particular point, two cooperating sites that each look fine alone — NOT something ordinary use would expose at once;
  4. you can demonstrate it: write a small Go test file (a new *_test.go in the appropriate package, named seed_demo_test.go) or a small program that FAILS with your change and PASSES on the unchanged code. Verify both directions yourself.

Earlier developers already made the following changes for this property; do NOT repeat any of them or a close variant, look for a different mechanism and preferably a different function or file:
""" + '\n'.join(f'  - {s}' for s in earlier) + f"""

{themes}

Read the relevant code first (the whole pipeline the property talks about, not only the first file you open) so the change is plausible and targeted at this property (not a generic crash). Good places are less obvious ones: a helper two callers share, an ordering or a boundary value, an error path, an assumption one function makes about what another has done, the generator/templates, the glue between packages. Do not modify existing tests. Do not change generated tables in a way that a regeneration would trivially undo unless you also change the generator consistently.

If, while reading or testing, you notice that the UNCHANGED code already misbehaves on some input (a crash, a hang, a wrong result), say so at the end of your answer with the input: that is valuable too.

Deliverables, written under {wt}/SEED/ :
  - patch.diff : `git diff` of your source change ONLY (not the demo file), applicable with `git apply` at the repository root;
  - the demonstration file (copy of seed_demo_test.go or the program), plus demo_cmd.txt with the exact command to run it from the worktree root (no `cd` into an absolute path);
  - meta.json : {{"property": "{prop}", "summary": "<one or two sentences: what the change does>", "needs": "<what specific input/sequence/condition makes it manifest>", "files": [...], "verified": "<what you ran and observed: build ok, suite passes with change, demo fails with change, demo passes without>"}}.
Leave the worktree with your source change applied and the demo file in place.

In your final answer give a 5-line summary (what you changed, where, how it manifests, results of the four verifications), plus any remark about the unchanged code.""")
