#!/usr/bin/env python3
"""Writes /verif/seeded/<name>/meta.json from the agent's meta and the independent confirmation in result.txt."""
import json, sys, os, re
name = sys.argv[1]
d = '/verif/seeded/' + name
am = {}
try: am = json.load(open(d + '/agent_meta.json'))
except Exception: pass
res = open(d + '/result.txt').read()
det = re.search(r'detected by:(.*)', res)
meta = {
  "property": am.get("property", name.split('-')[0]),
  "summary": am.get("summary", ""),
  "needs_to_manifest": am.get("needs", ""),
  "files": am.get("files", []),
  "origin": "written by an independent sub-agent that saw only the property text and its own worktree of /repo (nothing from /verif)",
  "confirmed_by_me": {
    "ran": "tools/seedeval.sh: patch applied to a scratch copy of /repo; go build; pinned suite (go test -json, 846 tests); demonstration with and without the change; every property check against the patched copy",
    "applies": "applies: yes" in res, "builds": "builds: yes" in res,
    "suite_with_change": (re.search(r'suite with change: (.*)', res) or [None, ''])[1],
    "demo": (re.search(r'demo with change: (.*)', res) or [None, ''])[1],
  },
  "detected_by": det.group(1).split() if det else [],
  "demo_cmd": open(d + '/demo_cmd.txt').read().strip() if os.path.exists(d + '/demo_cmd.txt') else "",
}
if len(sys.argv) > 2:
    meta["note"] = sys.argv[2]
json.dump(meta, open(d + '/meta.json', 'w'), indent=1)
print(name, meta["detected_by"])
