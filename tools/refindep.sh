#!/bin/bash
# refindep.sh [name...] : all checks on every kept independent refactoring (scratch copies); prints alarms (VIOLATION lines) only
cd /verif
names="$@"; [ -z "$names" ] && names=$(ls refactors_indep)
for n in $names; do
  T=$(mktemp -d /tmp/emcheck-ri-XXXXXX); mkdir -p $T/verif; cp known_findings.json $T/verif/; rsync -a --exclude .git /repo/ $T/repo/
  if ! (cd $T/repo && patch -p1 -s < /verif/refactors_indep/$n/patch.diff); then echo "$n | PATCH-FAILED"; rm -rf $T; continue; fi
  al=""
  for p in $(./bin/emcheck -list); do
    o=$(./bin/emcheck -property $p -repo $T/repo -verif $T/verif 2>&1)
    if echo "$o" | grep -q '^VIOLATION'; then al="$al $p"; if [ -n "${VERBOSE:-}" ]; then echo "$o" | grep "rule=" | cut -c1-${WIDTH:-230} | sed "s/^/    $p /"; fi; fi
  done
  echo "$n | alarms:${al:- none}"
  rm -rf $T
done
