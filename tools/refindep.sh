#!/bin/bash
# refindep.sh [name...] : all checks on every kept independent refactoring (scratch copies; ${PAR:-6} at a time); prints alarms (VIOLATION lines) only.
# Retired refactorings (RETIRED.txt: a later fix rewrote the code they refactor) are skipped.
cd /verif
names="$@"; [ -z "$names" ] && names=$(ls refactors_indep)
run() {
  n="$1"
  [ -f /verif/refactors_indep/$n/RETIRED.txt ] && { echo "$n | retired"; return; }
  T=$(mktemp -d /tmp/emcheck-ri-XXXXXX); mkdir -p $T/verif; cp /verif/known_findings.json $T/verif/; rsync -a --exclude .git /repo/ $T/repo/
  if ! (cd $T/repo && patch -p1 -s -f < /verif/refactors_indep/$n/patch.diff >/dev/null 2>&1); then echo "$n | PATCH-FAILED"; rm -rf $T; return; fi
  al=""; extra=""
  for p in $(${EMCHECK:-/verif/bin/emcheck} -list); do
    o=$(${EMCHECK:-/verif/bin/emcheck} -property $p -repo $T/repo -verif $T/verif 2>&1)
    if echo "$o" | grep -q '^VIOLATION'; then al="$al $p"; if [ -n "${VERBOSE:-}" ]; then extra="$extra$(echo "$o" | grep "rule=" | grep -v "^KNOWN" | cut -c1-${WIDTH:-230} | sed "s/^/    $p /")"$'\n'; fi; fi
  done
  echo "$n | alarms:${al:- none}"
  [ -n "$extra" ] && echo -n "$extra"
  rm -rf $T
}
export -f run
echo $names | tr ' ' '\n' | xargs -P ${PAR:-6} -I{} bash -c "run {}"
