#!/bin/bash
# Applies every behaviour-preserving patch under /verif/refactors to a scratch copy, checks that it builds and that the
# pinned tests of the touched packages still pass (when REFTEST=1), and runs ALL property checks on it: every check must stay silent.
cd /verif
export GOFLAGS="-mod=mod -trimpath" GOPROXY=off
run() {
  m="$1"; T=$(mktemp -d "${TMPDIR:-/tmp}/emcheck-ref-XXXXXX"); mkdir -p "$T/repo" "$T/verif"
  rsync -a --exclude .git /repo/ "$T/repo/"; cp /verif/known_findings.json "$T/verif/"
  if ! (cd "$T/repo" && patch -p1 -s < "$m" && go build ./... 2>/dev/null); then echo "$(basename $m .diff) | DOES-NOT-APPLY-OR-BUILD"; rm -rf "$T"; return; fi
  tests="skipped"
  if [ "${REFTEST:-0}" = 1 ]; then if (cd "$T/repo" && go test -vet=off -count=1 ./... >/dev/null 2>&1); then tests="pass"; else tests="FAIL"; fi; fi
  alarms=""
  for p in $(/verif/bin/emcheck -list); do
    if /verif/bin/emcheck -property $p -repo "$T/repo" -verif "$T/verif" 2>&1 | grep -q '^VIOLATION'; then alarms="$alarms $p"; fi
  done
  echo "$(basename $m .diff) | tests=$tests | alarms:${alarms:- none}"
  rm -rf "$T"
}
export -f run
ls ${1:-refactors}/*.diff | xargs -P 4 -I{} bash -c 'run "$(readlink -f {})"' | sort
