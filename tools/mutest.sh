#!/bin/bash
# mutest.sh <patch.diff> <property>... : apply a patch to a scratch copy of /repo (never to /repo itself),
# run the named property checks against the copy with evidence redirected to a scratch verif dir, clean up.
# exit 0 iff at least one of the named checks reports a VIOLATION (i.e. the mutant is detected).
set -u
patch="$(readlink -f "$1")"; shift
export GOFLAGS="-mod=mod -trimpath" GOPROXY=off
T=$(mktemp -d "${TMPDIR:-/tmp}/emcheck-mut-XXXXXX")
trap 'rm -rf "$T"' EXIT
mkdir -p "$T/repo" "$T/verif"
rsync -a --exclude .git /repo/ "$T/repo/"
cp /verif/known_findings.json "$T/verif/" 2>/dev/null
if ! (cd "$T/repo" && patch -p1 -s < "$patch"); then echo "PATCH-FAILED $patch"; exit 3; fi
if [ "${MUTEST_BUILD:-1}" = 1 ]; then
  if ! (cd "$T/repo" && go build ./... 2>"$T/build.log"); then echo "MUTANT-DOES-NOT-COMPILE $patch"; cat "$T/build.log" | head; exit 4; fi
fi
det=1
for p in "$@"; do
  out=$(${EMCHECK:-/verif/bin/emcheck} -property "$p" -repo "$T/repo" -verif "$T/verif" 2>&1)
  if echo "$out" | grep -q '^VIOLATION'; then
    det=0
    echo "DETECTED by $p: $(echo "$out" | grep -A2 '^VIOLATION' | sed -n 2,3p | tr '\n' ' ' | cut -c1-400)"
  else
    echo "missed by $p"
  fi
done
exit $det
