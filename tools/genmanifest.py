#!/usr/bin/env python3
"""Generates /verif/MANIFEST.json from the table below (one place to keep level texts current)."""
import json, subprocess

ALL = ["C%02d" % i for i in range(1, 21)]

# property -> (category, technique, text, note, design_ref)
CLAIMED = {
 "C04": ("proof",
  "table extraction from the AST + independent LALR(1) construction, table isomorphism; SSA protocol check of the driver",
  "Complete decision of the table clause: the embedded ACTION/GOTO switches are flattened into (state, symbol) tables and compared entry for entry, modulo a bijective state renaming, with LALR(1) tables the checker builds itself from the grammar variables of the same file under the documented precedence rules; no default actions; documented precedences and documented EBNF rules equal the extracted grammar; the generator's copies are not stale; the driver obeys the LR protocol (SSA). Acceptance of exactly the documented language then rests on LR theory. Byte-for-byte regeneration is decided only up to header/token equality and clause order.",
  "Trusted: the checker's own LR(1)/LALR(1) construction, LR parsing theory, go/types constant evaluation, the documented precedence semantics. State numbers are the dependency's choice (comparison is modulo renaming).",
  "DESIGN.md §4 C04"),
 "C05": ("other",
  "decision-table flattening of advanceDFA/evalDFA + Moore-machine equivalence against a reference built from the documented token table; AST/SSA rules for lexeme, consume-once, scan loop and token loop; invariant and bookkeeping rules on the in-memory reader",
  "Complete decision of the transition/acceptance clause: every (state, code point interval) pair over all of Unicode and every accepting state is compared by product exploration with a reference machine the checker builds from docs/5-definitions.md plus the property's layout/comment clauses; lexeme operation, single consumption, position source, the retract/evaluate protocol of the scan function and the token loop around it (call again exactly when the lexeme was layout) are decided structurally; the reader is module code since the lexer scans in memory, and its cursor invariant, end-of-input test, lexeme slice and the offset/line/column walk over the runes of the lexeme, the recognition of an invalid encoding by (RuneError, size 1) rather than by U+FFFD itself, and the position of that error at the forward cursor are decided too (R5.5). Claimed as 'other' rather than 'proof' because one obligation is a recorded genuine finding (single-letter TOKEN), so not every obligation is discharged.",
  "Trusted: checker's regex->DFA engine; utf8.DecodeRune/DecodeLastRune contracts; docs token table. REGEX is taken to exclude forms that start a comment (docs/6-design.md).",
  "DESIGN.md §4 C05"),
}

# filled as checks are built
try:
    exec(open('/verif/tools/manifest_more.py').read())
except FileNotFoundError:
    pass

NA_REASON = "check not built yet in this session (work in progress; the design in DESIGN.md §4 applies)"
try:
    NA = json.load(open('/verif/tools/not_applicable.json'))
except FileNotFoundError:
    NA = {}

checks = []
for pid in ALL:
    if pid not in CLAIMED:
        continue
    cat, tech, text, note, ref = CLAIMED[pid]
    checks.append({
        "property_id": pid,
        "quick_cmd": f"./check.sh {pid} quick",
        "thorough_cmd": f"./check.sh {pid} thorough",
        "evidence_file": f"/verif/evidence/{pid}.json",
        "replay_cmd_template": "./bin/emcheck -replay {path}",
        "engine": "emcheck",
        "level_claimed": {"category": cat, "text": text, "design_ref": ref},
        "level_note": note,
        "technique": "static analysis: " + tech,
    })

manifest = {
    "version": 1,
    "setup_cmd": "mkdir -p bin && cd checker && GOFLAGS=-mod=mod GOPROXY=off go build -o ../bin/emcheck .",
    "hooks": {
        "guard": "verif",
        "enable": "none needed: static analysis reads unexported symbols directly; no instrumentation exists",
        "baseline_off_cmd": "cd /repo && go test -mod=mod -json -vet=off -count=1 -timeout 25m ./...",
        "source_commits": [],
        "add_only": True,
    },
    "engines": [{
        "name": "emcheck",
        "path": "/verif/checker",
        "serves_properties": sorted(CLAIMED),
        "kind_free_text": "repository-specific static analyser (go/packages, go/types, go/cfg-style path rules on go/ssa, AST decision-table flattening, checker-side LALR(1) and regex/DFA oracles, text/template/parse skeletons)",
    }],
    "checks": checks,
    "not_applicable": [{"property_id": p, "reason": NA.get(p, NA_REASON)} for p in ALL if p not in CLAIMED],
    "notes": "All checks decide structural clauses from /repo's current source without executing emerge. Genuine defects found are either repaired by 'fix:' commits in /repo or listed in /verif/known_findings.json (printed as KNOWN-FINDING).",
}
json.dump(manifest, open('/verif/MANIFEST.json', 'w'), indent=1)
print("claimed:", sorted(CLAIMED), "not applicable:", [p for p in ALL if p not in CLAIMED])
