#!/usr/bin/env python3
"""mkrefprompt.py <property> <worktree-dir> <focus> : print the prompt given to an independent refactoring sub-agent
(behaviour-preserving clean-up; property text + worktree + the area to work in; nothing about the checks)."""
import json, sys

prop, wt, focus = sys.argv[1], sys.argv[2], sys.argv[3]
P = {json.loads(l)['id']: json.loads(l) for l in open('/verif/properties.jsonl')}[prop]
print(f"""You are helping evaluate a verification framework by playing the role of a maintainer who cleans up code WITHOUT changing its behaviour.

Repository: a git worktree of the Go project gardenbed/emerge at {wt} (a parser generator: EBNF grammar -> LALR(1) parser + DFA lexer, written in Go). Work ONLY inside that directory. Do not touch /repo, /verif or any other directory. Do not commit. NEVER use `git stash` (the stash is shared between worktrees).

Environment: every shell command needs `export GOFLAGS=-mod=mod GOPROXY=off` (no network). Build with `go build ./...`; the existing test suite is `go test -vet=off -count=1 ./...` (run it from {wt}). NOTE: do NOT set GOTOOLCHAIN or GOSUMDB.

The project is supposed to satisfy this property, and it currently does (as far as the area below is concerned):

{prop} — {P['title']}

{P['statement']}

Area to work in: {focus}

Your task: make ONE realistic, NON-TRIVIAL, BEHAVIOUR-PRESERVING refactoring (the kind a maintainer does in a clean-up PR) of the non-test Go code or templates in that area, such that the property STILL HOLDS and observable behaviour is exactly the same for every input (same results, same errors and error texts, same output bytes, same order). Examples of what counts: restructure control flow (if/else chain <-> switch, early returns <-> nested ifs, loop forms, split or merge conditions, invert a guard), extract a helper function or inline one, move logic between a method and its caller, turn a method into a function or a closure, rename unexported functions, fields, locals and types, reorder independent statements, replace a hand-written loop by an equivalent library call or vice versa, change how an intermediate value is represented (a struct instead of several variables, a slice instead of an array, a table instead of a switch) as long as results are identical, split a function in two, merge two near-duplicate functions into one parameterised one. Do two or three of these together so that the diff is 30-100 changed lines. Be inventive: prefer a restructuring a static analyser that had learned the current shape of the code would find unfamiliar, while staying the kind of change a reviewer would accept. Do NOT change exported API signatures, error message texts, output bytes, or anything the tests pin down; do NOT change generated table files; do not modify existing tests.

Requirements:
  1. `go build ./...` succeeds and `go vet` is clean for the packages you touched;
  2. the whole existing test suite still passes (run it);
  3. behaviour is unchanged: write a small differential or characterization test (new file named refactor_demo_test.go in the appropriate package) that exercises the refactored code on a good number of inputs (including edge cases relevant to the property) and asserts concrete expected results; it must PASS both with your refactoring and on the unchanged code (verify both directions by saving `git diff` of your source change to a file and using `git apply -R` / `git apply` on it, keeping the demo file).

Deliverables, written under {wt}/REFACTOR/ (create a tiny go.mod there, `module refactorseed`, so that `./...` skips it):
  - patch.diff : `git diff` of your source change ONLY (not the demo file), applicable with `git apply` at the repository root;
  - a copy of refactor_demo_test.go plus demo_cmd.txt with the exact command to run it from the worktree root (no `cd` into an absolute path);
  - meta.json : {{"property": "{prop}", "summary": "<what was refactored and how>", "why_equivalent": "<short argument>", "files": [...], "verified": "<what you ran and observed>"}}.
Leave the worktree with your source change applied and the demo file in place.

If, while reading or testing, you notice that the UNCHANGED code misbehaves on some input (a crash, a hang, a wrong result), say so at the end of your answer with the input.

In your final answer give a 5-line summary.""")
