#!/bin/bash
# seedtry.sh <patch.diff> <property>... : like mutest.sh but prints the non-discharged part of each check's output (for rule development)
set -u
patch="$(readlink -f "$1")"; shift
export GOFLAGS="-mod=mod -trimpath" GOPROXY=off
T=$(mktemp -d "${TMPDIR:-/tmp}/emcheck-try-XXXXXX")
trap 'rm -rf "$T"' EXIT
mkdir -p "$T/repo" "$T/verif"
rsync -a --exclude .git /repo/ "$T/repo/"
cp /verif/known_findings.json "$T/verif/" 2>/dev/null
(cd "$T/repo" && patch -p1 -s < "$patch") || { echo PATCH-FAILED; exit 3; }
(cd "$T/repo" && go build ./...) || { echo NO-COMPILE; exit 4; }
for p in "$@"; do
  ${EMCHECK:-/verif/bin/emcheck} -property "$p" -repo "$T/repo" -verif "$T/verif" 2>&1 | grep -v '^KNOWN-FINDING' | cut -c1-700
done
